/-
Generic atomic-replacement theorem for files (used by C18 for group definition files; the
same shape is what C16 needs for the token file).

A tiny file-system model — names map to inodes, inodes to contents, descriptors opened for
writing map to inodes — and a decidable shape `SafeReplace target ops` of a system-call list:

  harmless calls*, open(tmp, O_CREAT|O_EXCL) = fd, (write(fd) | harmless)*, close(fd),
  harmless*, rename(tmp, target), harmless*

where `tmp ≠ target` lies in the directory of `target` and a harmless call cannot modify any
file (mkdir, read-only open, fsync, close of a descriptor that is not `fd`).  Theorem
`safeReplace_atomic`: whatever the file system looked like before (provided `tmp` did not
exist — the captured `O_EXCL` open succeeded — and no descriptor was open for writing), after
EVERY prefix of the calls (a crash, a concurrent reader) `target` holds either exactly what it
held before or exactly the bytes written to the temporary file, all of them.

Content is abstract: the list of the sizes of the chunks written, in order.  A crash is a
process kill: completed calls are in effect (durability after power loss — fsync of the
directory — is outside this model).
-/
namespace Galene.SafeReplaceDesc

inductive Op where
  | mkdir (path : String)
  | createExcl (path : String) (fd : Nat)   -- open(O_CREAT|O_EXCL): succeeds only if path is absent
  | openRead (path : String) (fd : Nat)     -- open(O_RDONLY)
  | openWrite (path : String) (fd : Nat)    -- any other open: may create or truncate
  | write (fd n : Nat)
  | fsync (fd : Nat)
  | close (fd : Nat)
  | rename (src dst : String)
  | unlink (path : String)
  | other (name : String)                   -- a call the extractor does not know
  deriving DecidableEq, Repr, Inhabited

abbrev Content := List Nat

structure FS where
  names : String → Option Nat       -- path → inode
  data : Nat → Content              -- inode → content
  fds : Nat → Option Nat            -- descriptor open for writing → inode
  next : Nat                        -- inodes ≥ next are unused

def FS.content (fs : FS) (p : String) : Option Content := (fs.names p).map fs.data

def step (fs : FS) : Op → FS
  | .createExcl p fd =>
    match fs.names p with
    | some _ => fs                                           -- EEXIST
    | none =>
      { names := fun q => if q = p then some fs.next else fs.names q,
        data := fun i => if i = fs.next then [] else fs.data i,
        fds := fun d => if d = fd then some fs.next else fs.fds d,
        next := fs.next + 1 }
  | .openWrite p fd =>
    match fs.names p with
    | some i =>                                              -- worst case: O_TRUNC
      { fs with data := fun j => if j = i then [] else fs.data j,
                fds := fun d => if d = fd then some i else fs.fds d }
    | none =>
      { names := fun q => if q = p then some fs.next else fs.names q,
        data := fun i => if i = fs.next then [] else fs.data i,
        fds := fun d => if d = fd then some fs.next else fs.fds d,
        next := fs.next + 1 }
  | .write fd n =>
    match fs.fds fd with
    | some i => { fs with data := fun j => if j = i then fs.data i ++ [n] else fs.data j }
    | none => fs
  | .close fd =>
    match fs.fds fd with
    | some _ => { fs with fds := fun d => if d = fd then none else fs.fds d }
    | none => fs
  | .rename a b =>
    match fs.names a with
    | some i => { fs with names := fun q => if q = b then some i else if q = a then none else fs.names q }
    | none => fs
  | .unlink p => { fs with names := fun q => if q = p then none else fs.names q }
  | .mkdir _ | .openRead _ _ | .fsync _ | .other _ => fs

def run (ops : List Op) (fs : FS) : FS := ops.foldl step fs

/-- directory part of a path (up to and including the last `/`) -/
def dirOf (p : String) : List Char := (p.toList.reverse.dropWhile (· != '/')).reverse

/-- calls that cannot modify a file (a `close` is judged by the caller) -/
def harmless : Op → Bool
  | .mkdir _ | .openRead _ _ | .fsync _ => true
  | _ => false

inductive Phase where
  | p0                                               -- nothing done yet
  | p1 (tmp : String) (fd : Nat) (acc : Content)     -- temporary file open, `acc` written
  | p2 (tmp : String) (acc : Content)                -- temporary file closed
  | p3 (acc : Content)                               -- renamed over the target
  | bad
  deriving DecidableEq, Repr, Inhabited

def phaseStep (target : String) : Phase → Op → Phase
  | .bad, _ => .bad
  | .p0, .createExcl p fd => if p ≠ target ∧ dirOf p = dirOf target then .p1 p fd [] else .bad
  | .p0, .close _ => .p0
  | .p0, op => if harmless op then .p0 else .bad
  | .p1 tmp fd acc, .write fd' n => if fd' = fd then .p1 tmp fd (acc ++ [n]) else .bad
  | .p1 tmp fd acc, .close fd' => if fd' = fd then .p2 tmp acc else .p1 tmp fd acc
  | .p1 tmp fd acc, op => if harmless op then .p1 tmp fd acc else .bad
  | .p2 tmp acc, .rename a b => if a = tmp ∧ b = target then .p3 acc else .bad
  | .p2 tmp acc, .close _ => .p2 tmp acc
  | .p2 tmp acc, op => if harmless op then .p2 tmp acc else .bad
  | .p3 acc, .close _ => .p3 acc
  | .p3 acc, op => if harmless op then .p3 acc else .bad

def phaseOf (target : String) (ops : List Op) : Phase := ops.foldl (phaseStep target) .p0

/-- the decidable shape: the calls replace `target` by a freshly written temporary file -/
def SafeReplace (target : String) (ops : List Op) : Bool :=
  match phaseOf target ops with
  | .p3 _ => true
  | _ => false

/-- the content the calls give the target: everything written to the temporary file -/
def newContent (target : String) (ops : List Op) : Content :=
  match phaseOf target ops with
  | .p3 acc => acc
  | _ => []

/-- what holds of the file system in each phase (`old` = the target's content at the start) -/
def Inv (target : String) (fs0 : FS) : Phase → FS → Prop
  | .p0, fs => fs = fs0
  | .p1 tmp fd acc, fs =>
    fs.content target = fs0.content target ∧
    ∃ i, fs.names tmp = some i ∧ fs.names target ≠ some i ∧
      (∀ d, fs.fds d = if d = fd then some i else none) ∧ fs.data i = acc
  | .p2 tmp acc, fs =>
    fs.content target = fs0.content target ∧
    ∃ i, fs.names tmp = some i ∧ fs.names target ≠ some i ∧ (∀ d, fs.fds d = none) ∧ fs.data i = acc
  | .p3 acc, fs => fs.content target = some acc ∧ (∀ d, fs.fds d = none)
  | .bad, _ => True

theorem bad_absorbing (target : String) (ops : List Op) : ops.foldl (phaseStep target) .bad = .bad := by
  induction ops with
  | nil => rfl
  | cons o os ih => simpa [List.foldl, phaseStep] using ih

theorem harmless_step (fs : FS) (op : Op) (h : harmless op = true) : step fs op = fs := by
  cases op <;> simp_all [harmless, step]

/-- one call preserves the invariant, as long as the shape is not violated -/
theorem inv_step (target : String) (fs0 : FS)
    (hfresh : ∀ q i, fs0.names q = some i → i < fs0.next)
    (hfds : ∀ d, fs0.fds d = none)
    (ph : Phase) (fs : FS) (op : Op)
    (hexcl : ∀ p fd, op = .createExcl p fd → fs0.names p = none)
    (hinv : Inv target fs0 ph fs) (hnb : phaseStep target ph op ≠ .bad) :
    Inv target fs0 (phaseStep target ph op) (step fs op) := by
  cases ph with
  | bad => simp [phaseStep] at hnb
  | p0 =>
    simp only [Inv] at hinv
    subst hinv
    cases op with
    | createExcl p fd =>
      simp only [phaseStep] at hnb ⊢
      split at hnb
      · next hc =>
        rw [if_pos hc]
        have hnone := hexcl p fd rfl
        simp only [Inv, step, hnone]
        refine ⟨?_, fs.next, by simp, ?_, fun d => by simp [hfds], by simp⟩
        · simp only [FS.content]
          rw [if_neg (fun h => hc.1 h.symm)]
          cases hn : fs.names target with
          | none => rfl
          | some i =>
            have := hfresh target i hn
            simp only [Option.map_some]
            rw [if_neg (by omega)]
        · rw [if_neg (fun h => hc.1 h.symm)]
          intro hh
          have := hfresh target fs.next hh
          omega
      · exact absurd rfl hnb
    | close fd => simp [phaseStep, Inv, step, hfds]
    | mkdir p => simp [phaseStep, Inv, step, harmless]
    | openRead p fd => simp [phaseStep, Inv, step, harmless]
    | fsync fd => simp [phaseStep, Inv, step, harmless]
    | openWrite p fd => simp [phaseStep, harmless] at hnb
    | write fd n => simp [phaseStep, harmless] at hnb
    | rename a b => simp [phaseStep, harmless] at hnb
    | unlink p => simp [phaseStep, harmless] at hnb
    | other n => simp [phaseStep, harmless] at hnb
  | p1 tmp fd acc =>
    obtain ⟨hc, i, hn, hne, hf, hd⟩ := hinv
    cases op with
    | write fd' n =>
      simp only [phaseStep] at hnb ⊢
      split at hnb
      · next hfd =>
        subst hfd
        rw [if_pos rfl]
        have hfd' : fs.fds fd' = some i := by simpa using hf fd'
        simp only [Inv, step, hfd']
        refine ⟨?_, i, hn, hne, hf, by simp [hd]⟩
        rw [← hc]
        simp only [FS.content]
        cases hn' : fs.names target with
        | none => rfl
        | some j =>
          simp only [Option.map_some]
          rw [if_neg (fun h => hne (by rw [hn', h]))]
      · exact absurd rfl hnb
    | close fd' =>
      simp only [phaseStep]
      split
      · next hfd =>
        subst hfd
        have hfd' : fs.fds fd' = some i := by simpa using hf fd'
        simp only [Inv, step, hfd']
        refine ⟨hc, i, hn, hne, fun d => ?_, hd⟩
        by_cases hdd : d = fd'
        · simp [hdd]
        · simp [hdd, hf d]
      · next hfd =>
        have hfd' : fs.fds fd' = none := by simpa [hfd] using hf fd'
        simp only [Inv, step, hfd']
        exact ⟨hc, i, hn, hne, hf, hd⟩
    | mkdir p => simpa [phaseStep, Inv, step, harmless] using ⟨hc, i, hn, hne, hf, hd⟩
    | openRead p fd' => simpa [phaseStep, Inv, step, harmless] using ⟨hc, i, hn, hne, hf, hd⟩
    | fsync fd' => simpa [phaseStep, Inv, step, harmless] using ⟨hc, i, hn, hne, hf, hd⟩
    | createExcl p fd' => simp [phaseStep, harmless] at hnb
    | openWrite p fd' => simp [phaseStep, harmless] at hnb
    | rename a b => simp [phaseStep, harmless] at hnb
    | unlink p => simp [phaseStep, harmless] at hnb
    | other n => simp [phaseStep, harmless] at hnb
  | p2 tmp acc =>
    obtain ⟨hc, i, hn, hne, hf, hd⟩ := hinv
    cases op with
    | rename a b =>
      simp only [phaseStep] at hnb ⊢
      split at hnb
      · next hab =>
        obtain ⟨ha, hb⟩ := hab
        subst ha; subst hb
        rw [if_pos ⟨rfl, rfl⟩]
        simp only [Inv, step, hn]
        exact ⟨by simp [FS.content, hd], hf⟩
      · exact absurd rfl hnb
    | close fd' =>
      simp only [phaseStep, Inv, step, hf fd']
      exact ⟨hc, i, hn, hne, hf, hd⟩
    | mkdir p => simpa [phaseStep, Inv, step, harmless] using ⟨hc, i, hn, hne, hf, hd⟩
    | openRead p fd' => simpa [phaseStep, Inv, step, harmless] using ⟨hc, i, hn, hne, hf, hd⟩
    | fsync fd' => simpa [phaseStep, Inv, step, harmless] using ⟨hc, i, hn, hne, hf, hd⟩
    | createExcl p fd' => simp [phaseStep, harmless] at hnb
    | openWrite p fd' => simp [phaseStep, harmless] at hnb
    | write fd' n => simp [phaseStep, harmless] at hnb
    | unlink p => simp [phaseStep, harmless] at hnb
    | other n => simp [phaseStep, harmless] at hnb
  | p3 acc =>
    obtain ⟨hc, hf⟩ := hinv
    cases op with
    | close fd' => simp only [phaseStep, Inv, step, hf fd']; exact ⟨hc, hf⟩
    | mkdir p => simpa [phaseStep, Inv, step, harmless] using ⟨hc, hf⟩
    | openRead p fd' => simpa [phaseStep, Inv, step, harmless] using ⟨hc, hf⟩
    | fsync fd' => simpa [phaseStep, Inv, step, harmless] using ⟨hc, hf⟩
    | createExcl p fd' => simp [phaseStep, harmless] at hnb
    | openWrite p fd' => simp [phaseStep, harmless] at hnb
    | write fd' n => simp [phaseStep, harmless] at hnb
    | rename a b => simp [phaseStep, harmless] at hnb
    | unlink p => simp [phaseStep, harmless] at hnb
    | other n => simp [phaseStep, harmless] at hnb

theorem inv_run (target : String) (fs0 : FS)
    (hfresh : ∀ q i, fs0.names q = some i → i < fs0.next)
    (hfds : ∀ d, fs0.fds d = none)
    (ops : List Op) (ph : Phase) (fs : FS)
    (hexcl : ∀ p fd, Op.createExcl p fd ∈ ops → fs0.names p = none)
    (hinv : Inv target fs0 ph fs) (hnb : ops.foldl (phaseStep target) ph ≠ .bad) :
    Inv target fs0 (ops.foldl (phaseStep target) ph) (run ops fs) := by
  induction ops generalizing ph fs with
  | nil => exact hinv
  | cons o os ih =>
    simp only [List.foldl, run] at hnb ⊢
    have hstep : phaseStep target ph o ≠ .bad := by
      intro hb
      rw [hb, bad_absorbing] at hnb
      exact hnb rfl
    exact ih _ _ (fun p fd hm => hexcl p fd (List.mem_cons_of_mem _ hm))
      (inv_step target fs0 hfresh hfds ph fs o (fun p fd he => hexcl p fd (by simp [he])) hinv hstep) hnb

/-- once the rename has happened the phase, and with it the new content, is fixed -/
theorem p3_stable (target : String) (ops : List Op) (acc : Content)
    (h : ops.foldl (phaseStep target) (.p3 acc) ≠ .bad) : ops.foldl (phaseStep target) (.p3 acc) = .p3 acc := by
  induction ops with
  | nil => rfl
  | cons o os ih =>
    simp only [List.foldl] at h ⊢
    have : phaseStep target (.p3 acc) o = .p3 acc ∨ phaseStep target (.p3 acc) o = .bad := by
      cases o <;> simp [phaseStep, harmless]
    rcases this with h1 | h1
    · rw [h1] at h ⊢; exact ih h
    · rw [h1, bad_absorbing] at h; exact absurd rfl h

/-- **Atomic replacement.**  If the system calls have the shape `SafeReplace target`, then after
every prefix of them the target holds its old content or the complete new content. -/
theorem safeReplace_atomic (target : String) (ops : List Op) (fs0 : FS)
    (hshape : SafeReplace target ops = true)
    (hfresh : ∀ q i, fs0.names q = some i → i < fs0.next)
    (hfds : ∀ d, fs0.fds d = none)
    (hexcl : ∀ p fd, Op.createExcl p fd ∈ ops → fs0.names p = none)
    (n : Nat) :
    (run (ops.take n) fs0).content target = fs0.content target ∨
    (run (ops.take n) fs0).content target = some (newContent target ops) := by
  -- the whole run ends in p3, so no prefix is bad
  have hsplit : ops = ops.take n ++ ops.drop n := (List.take_append_drop n ops).symm
  have hfinal : ∃ acc, phaseOf target ops = .p3 acc := by
    unfold SafeReplace at hshape
    split at hshape
    · next acc h => exact ⟨acc, h⟩
    · simp at hshape
  obtain ⟨acc, hacc⟩ := hfinal
  have hfold : (ops.drop n).foldl (phaseStep target) (phaseOf target (ops.take n)) = .p3 acc := by
    unfold phaseOf at hacc ⊢
    rw [← List.foldl_append, ← hsplit]; exact hacc
  have hnb : phaseOf target (ops.take n) ≠ .bad := by
    intro hb
    rw [hb, bad_absorbing] at hfold
    simp at hfold
  have hinv := inv_run target fs0 hfresh hfds (ops.take n) .p0 fs0
    (fun p fd hm => hexcl p fd (List.mem_of_mem_take hm)) rfl hnb
  have hnew : newContent target ops = acc := by simp [newContent, hacc]
  cases hph : phaseOf target (ops.take n) with
  | bad => exact absurd hph hnb
  | p0 =>
    unfold phaseOf at hph; rw [hph] at hinv
    left; simp only [Inv] at hinv; rw [hinv]
  | p1 tmp fd a =>
    unfold phaseOf at hph; rw [hph] at hinv
    left; exact hinv.1
  | p2 tmp a =>
    unfold phaseOf at hph; rw [hph] at hinv
    left; exact hinv.1
  | p3 a =>
    right
    have hst := p3_stable target (ops.drop n) a (by rw [← hph, hfold]; simp)
    rw [hph] at hfold
    rw [hst] at hfold
    simp only [Phase.p3.injEq] at hfold
    unfold phaseOf at hph; rw [hph] at hinv
    rw [hnew, ← hfold]
    exact hinv.1

/-! ### Non-vacuity -/

def exOps : List Op :=
  [ .openRead "data/config.json" 0, .close 0, .createExcl "groups/T1.temp" 1, .write 1 584, .fsync 1, .close 1,
    .rename "groups/T1.temp" "groups/g.json" ]

def exFS : FS :=
  { names := fun q => if q = "groups/g.json" then some 0 else none, data := fun _ => [11], fds := fun _ => none, next := 1 }

example : SafeReplace "groups/g.json" exOps = true := by decide
example : newContent "groups/g.json" exOps = [584] := by decide
example : (run (exOps.take 6) exFS).content "groups/g.json" = some [11] := by decide
example : (run exOps exFS).content "groups/g.json" = some [584] := by decide
-- writing in place, or renaming before closing, is not of the shape
example : SafeReplace "groups/g.json" [.openWrite "groups/g.json" 0, .write 0 5, .close 0] = false := by decide
example : SafeReplace "groups/g.json"
    [.createExcl "groups/T1.temp" 1, .write 1 5, .rename "groups/T1.temp" "groups/g.json", .write 1 6, .close 1] = false := by decide
-- and in-place writing really is not atomic in this model: after the open the file is empty
example : (run [.openWrite "groups/g.json" 0] exFS).content "groups/g.json" = some [] := by decide

end Galene.SafeReplaceDesc
