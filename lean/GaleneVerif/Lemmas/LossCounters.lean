import GaleneVerif.Lemmas.Loss16
/-
Function-level facts about the counter half of the loss-accounting model:
`Stats.store` (through its local `c1`, here `store1`), `Stats.getStats`.
-/
set_option linter.unusedVariables false
namespace Galene.Lemmas.LossCounters
open Galene.Loss Galene.Lemmas.Loss16

/-- the counter part of `Stats.store` (the model's local `c1`) -/
def store1 (c : Stats) (seqno : Nat) : Stats :=
  if !c.lastValid || seqnoInvalid seqno c.last then
    { c with last := seqno, lastValid := true,
             expected := add32 c.expected 1, received := add32 c.received 1 }
  else
    let cmp := Loss.compare c.last seqno
    if cmp < 0 then
      { c with received := add32 c.received 1,
               expected := add32 c.expected (sub16 seqno c.last),
               cycle := if seqno < c.last then add16 c.cycle 1 else c.cycle,
               last := seqno,
               keyframeValid :=
                 if c.keyframeValid && Loss.compare c.keyframe seqno > 0 then false
                 else c.keyframeValid }
    else if cmp > 0 then
      if c.received < c.expected then { c with received := add32 c.received 1 } else c
    else c

/-- `Stats.store` changes the counters exactly as `store1` does, and the bitmap by `Bitmap.set`. -/
theorem store_fields (c : Stats) (s : Nat) (kf : Bool) :
    (c.store s kf).1.totalExpected = (store1 c s).totalExpected ∧
    (c.store s kf).1.totalReceived = (store1 c s).totalReceived ∧
    (c.store s kf).1.expected = (store1 c s).expected ∧
    (c.store s kf).1.received = (store1 c s).received ∧
    (c.store s kf).1.cycle = (store1 c s).cycle ∧
    (c.store s kf).1.last = (store1 c s).last ∧
    (c.store s kf).1.lastValid = (store1 c s).lastValid := by
  unfold Stats.store store1
  cases kf <;> exact ⟨rfl, rfl, rfl, rfl, rfl, rfl, rfl⟩

theorem store1_bitmap (c : Stats) (s : Nat) : (store1 c s).bitmap = c.bitmap := by
  unfold store1
  split
  · rfl
  · simp only
    split
    · rfl
    · split
      · split <;> rfl
      · rfl

/-- the bitmap half of `Stats.store` is `Bitmap.set`, and the value returned is the new `bitmap.first` -/
theorem store_bitmap (c : Stats) (s : Nat) (kf : Bool) :
    (c.store s kf).1.bitmap = c.bitmap.set s ∧ (c.store s kf).2 = (c.bitmap.set s).first := by
  have h : (c.store s kf).1.bitmap = (store1 c s).bitmap.set s ∧
      (c.store s kf).2 = ((store1 c s).bitmap.set s).first := by
    unfold Stats.store store1
    cases kf <;> exact ⟨rfl, rfl⟩
  rw [store1_bitmap] at h
  exact h

/-- number of packets a `store` adds to `expected`, in unbounded arithmetic -/
def storeExpInc (c : Stats) (s : Nat) : Nat :=
  if !c.lastValid || seqnoInvalid s c.last then 1
  else if Loss.compare c.last s < 0 then sub16 s c.last else 0

/-- 1 if the `store` makes the 16-bit seqno roll over (increments `cycle`) -/
def storeWrapInc (c : Stats) (s : Nat) : Nat :=
  if !c.lastValid || seqnoInvalid s c.last then 0
  else if Loss.compare c.last s < 0 ∧ s < c.last then 1 else 0

/-- the `store` takes the `seqnoInvalid` branch on a valid `last` (the stream jumped back by > 256) -/
def storeJump (c : Stats) (s : Nat) : Bool := c.lastValid && seqnoInvalid s c.last

def eseq (c : Stats) : Nat := c.cycle * 65536 + c.last

theorem store1_counters (c : Stats) (s : Nat) (hs : s < 65536) (hl : c.last < 65536) :
    let c' := store1 c s
    c'.totalExpected = c.totalExpected ∧ c'.totalReceived = c.totalReceived ∧
    c'.expected = (if storeExpInc c s = 0 then c.expected else add32 c.expected (storeExpInc c s)) ∧
    (c'.received = c.received ∨ (c'.received = add32 c.received 1 ∧
        (1 ≤ storeExpInc c s ∨ c.received < c.expected))) ∧
    (c'.last = c.last ∨ c'.last = s) ∧ c'.lastValid = true := by
  intro c'
  have hc' : c' = store1 c s := rfl
  unfold store1 at hc'
  simp only at hc'
  by_cases h1 : (!c.lastValid || seqnoInvalid s c.last) = true
  · simp only [h1, if_true] at hc'
    simp only [storeExpInc, h1, if_true]
    simp [hc', add32]
  · have hlv : c.lastValid = true := by
      cases hq : c.lastValid
      · simp [hq] at h1
      · rfl
    by_cases h2 : Loss.compare c.last s < 0
    · simp only [h1, h2, if_true] at hc'
      simp only [storeExpInc, h1, h2, if_true]
      have hpos := ((compare_lt_iff' _ _ hl hs).mp h2).1
      simp [hc', hpos, hlv]; omega
    · simp only [h1, h2, if_false] at hc'
      simp only [storeExpInc, h1, h2, if_false]
      by_cases h4 : Loss.compare c.last s > 0
      · by_cases h5 : c.received < c.expected
        · simp [hc', h4, h5, add32, hlv]
        · simp [hc', h4, h5, add32, hlv]
      · simp [hc', h4, add32, hlv]

theorem store1_eseq (c : Stats) (s : Nat) (hs : s < 65536) (hl : c.last < 65536)
    (hz : c.lastValid = false → c.last = 0)
    (hW : c.cycle + storeWrapInc c s < 65536) (hj : storeJump c s = false) :
    eseq c ≤ eseq (store1 c s) ∧ (store1 c s).cycle = c.cycle + storeWrapInc c s := by
  generalize hc' : store1 c s = c'
  unfold store1 at hc'
  simp only at hc'
  replace hc' := hc'.symm
  simp only [storeWrapInc, storeJump, eseq] at hW hj ⊢
  by_cases h1 : (!c.lastValid || seqnoInvalid s c.last) = true
  · simp only [h1, if_true] at hc' hW ⊢
    subst hc'
    dsimp only
    cases hlv : c.lastValid
    · have := hz hlv; omega
    · rw [hlv] at h1 hj; simp at h1 hj; rw [hj] at h1; cases h1
  · by_cases h2 : Loss.compare c.last s < 0
    · by_cases h3 : s < c.last
      · simp only [h1, h2, h3, if_true, and_self, add16] at hc' hW ⊢
        subst hc'
        simp only [Bool.false_eq_true, if_false] at hW ⊢; omega
      · simp only [h1, h2, h3, if_true, if_false, and_false] at hc' hW ⊢
        subst hc'
        simp only [Bool.false_eq_true, if_false] at hW ⊢; omega
    · simp only [h1, h2, if_false, false_and] at hc' hW ⊢
      subst hc'
      simp only [Bool.false_eq_true, if_false] at hW ⊢
      split
      · split <;> simp
      · simp

theorem getStats_out (c : Stats) (r : Bool) :
    (c.getStats r).2 =
      { received := c.received, totalReceived := add32 c.totalReceived c.received,
        expected := c.expected, totalExpected := add32 c.totalExpected c.expected,
        eseqno := c.cycle * 65536 + c.last } := by
  cases r <;> rfl

theorem getStats_state (c : Stats) (r : Bool) :
    (c.getStats r).1 =
      if r then
        { c with totalExpected := add32 c.totalExpected c.expected, expected := 0,
                 totalReceived := add32 c.totalReceived c.received, received := 0 }
      else c := by
  cases r <;> rfl

end Galene.Lemmas.LossCounters
