import GaleneVerif.Model.Api
/-
Lemmas about the definition store of `Model/Api.lean`, shared by Props/C17 and Props/C18:
association lists (`lookup`/`upsert`/`erase`), `getFile`/`readDescription` return a file that
is in the store, `rewrite` writes one file, and what each update function of
group/description.go leaves alone.
-/
namespace Galene.Api

theorem lookup_upsert_self {β} (k : String) (v : β) (l : List (String × β)) : lookup k (upsert k v l) = some v := by
  induction l with
  | nil => simp [upsert, lookup]
  | cons hd tl ih =>
    obtain ⟨k', v'⟩ := hd
    unfold upsert
    split
    · simp [lookup]
    · split
      · simp [lookup]
      · simp [lookup, *]

theorem lookup_upsert_ne {β} (k k2 : String) (v : β) (l : List (String × β)) (h : k2 ≠ k) :
    lookup k2 (upsert k v l) = lookup k2 l := by
  induction l with
  | nil => simp [upsert, lookup, h]
  | cons hd tl ih =>
    obtain ⟨k', v'⟩ := hd
    unfold upsert
    split
    · next hk => subst hk; simp [lookup, h]
    · split
      · simp [lookup, h]
      · simp [lookup, ih]

theorem lookup_erase_self {β} (k : String) (l : List (String × β)) : lookup k (erase k l) = none := by
  induction l with
  | nil => simp [erase, lookup]
  | cons hd tl ih =>
    obtain ⟨k', v'⟩ := hd
    unfold erase
    split
    · exact ih
    · simp [lookup, *]

theorem lookup_erase_ne {β} (k k2 : String) (l : List (String × β)) (h : k2 ≠ k) :
    lookup k2 (erase k l) = lookup k2 l := by
  induction l with
  | nil => simp [erase, lookup]
  | cons hd tl ih =>
    obtain ⟨k', v'⟩ := hd
    unfold erase
    split
    · next hk => subst hk; simp [lookup, h, ih]
    · simp [lookup, ih]

theorem getFileAux_lookup (gs : List (String × GroupFile)) (a : Bool) (fuel : Nat) (name : String) (s0 : Bool)
    (k : String) (f : GroupFile) (s : Bool) (h : getFileAux gs a fuel name s0 = some (k, f, s)) :
    lookup k gs = some f := by
  induction fuel generalizing name s0 with
  | zero => simp [getFileAux] at h
  | succ n ih =>
    unfold getFileAux at h
    split at h
    · simp at h
    · split at h
      · next f' hf => simp at h; obtain ⟨h1, h2, _⟩ := h; subst h1; subst h2; exact hf
      · split at h
        · exact ih _ _ h
        · simp at h

theorem getFile_lookup (gs : List (String × GroupFile)) (name : String) (a : Bool)
    (k : String) (f : GroupFile) (s : Bool) (h : getFile gs name a = some (k, f, s)) : lookup k gs = some f :=
  getFileAux_lookup gs a _ name false k f s h

theorem readDescription_lookup (gs : List (String × GroupFile)) (name : String) (a : Bool)
    (k : String) (f : GroupFile) (s : Bool) (h : readDescription gs name a = some (k, f, s)) : lookup k gs = some f := by
  unfold readDescription at h
  split at h
  · simp at h
  · next k' f' s' hg =>
    split at h
    · simp at h
    · simp at h; obtain ⟨h1, h2, _⟩ := h; subst h1; subst h2; exact getFile_lookup _ _ _ _ _ _ hg

/-- without the subgroup walk, "not found" means that the file of that name does not exist -/
theorem getFile_none (gs : List (String × GroupFile)) (name : String) (hn : name ≠ "")
    (h : getFile gs name false = none) : lookup (fileKey name) gs = none := by
  unfold getFile at h
  unfold getFileAux at h
  simp only [hn, if_false] at h
  split at h
  · simp at h
  · next hl => exact hl

theorem readDescription_none (gs : List (String × GroupFile)) (name : String) (hn : name ≠ "")
    (h : readDescription gs name false = none) : lookup (fileKey name) gs = none := by
  unfold readDescription at h
  split at h
  · next hg => exact getFile_none gs name hn hg
  · next k f s hg =>
    -- found directly: isSub = false, so readDescription cannot fail
    unfold getFile at hg
    unfold getFileAux at hg
    simp only [hn, if_false] at hg
    split at hg
    · simp at hg; obtain ⟨_, _, h3⟩ := hg; subst h3; simp at h
    · simp at hg

theorem rewrite_ok (st : State) (key : String) (d : Desc) (st' : State) (h : rewrite st key d = .ok st') :
    st' = { st with groups := upsert key { desc := d, ver := st.ctr + 1 } st.groups, ctr := st.ctr + 1 } := by
  unfold rewrite at h
  split at h
  · simp at h
  · simp at h; exact h.symm

theorem getUser_setUser_self (d : Desc) (w : Who) (u : User) : (d.setUser w u).getUser w = some u := by
  cases w <;> simp [Desc.setUser, Desc.getUser, lookup_upsert_self]

theorem getUser_setUser_ne (d : Desc) (w w' : Who) (u : User) (h : w' ≠ w) :
    (d.setUser w u).getUser w' = d.getUser w' := by
  cases w <;> cases w' <;> simp_all [Desc.setUser, Desc.getUser]
  exact lookup_upsert_ne _ _ _ _ h

theorem getUser_delUser_self (d : Desc) (w : Who) : (d.delUser w).getUser w = none := by
  cases w <;> simp [Desc.delUser, Desc.getUser, lookup_erase_self]

theorem getUser_delUser_ne (d : Desc) (w w' : Who) (h : w' ≠ w) : (d.delUser w).getUser w' = d.getUser w' := by
  cases w <;> cases w' <;> simp_all [Desc.delUser, Desc.getUser]
  exact lookup_erase_ne _ _ _ h

theorem setUser_rest (d : Desc) (w : Who) (u : User) :
    (d.setUser w u).content = d.content ∧ (d.setUser w u).autoSub = d.autoSub ∧ (d.setUser w u).keys = d.keys := by
  cases w <;> simp [Desc.setUser]

theorem delUser_rest (d : Desc) (w : Who) :
    (d.delUser w).content = d.content ∧ (d.delUser w).autoSub = d.autoSub ∧ (d.delUser w).keys = d.keys := by
  cases w <;> simp [Desc.delUser]

/-- what a successful write of one definition file leaves alone -/
def OneFile (st st' : State) (key : String) (f f' : GroupFile) : Prop :=
  st'.conf = st.conf ∧ st'.tokens = st.tokens ∧
  lookup key st.groups = some f ∧ lookup key st'.groups = some f' ∧
  (∀ k', k' ≠ key → lookup k' st'.groups = lookup k' st.groups)

theorem rewrite_oneFile (st st' : State) (key : String) (f : GroupFile) (d : Desc)
    (hf : lookup key st.groups = some f) (h : rewrite st key d = .ok st') :
    ∃ f', OneFile st st' key f f' ∧ f'.desc = d := by
  have hst := rewrite_ok _ _ _ _ h
  subst hst
  exact ⟨_, ⟨rfl, rfl, hf, lookup_upsert_self _ _ _, fun k' hk => lookup_upsert_ne _ _ _ _ hk⟩, rfl⟩

end Galene.Api
