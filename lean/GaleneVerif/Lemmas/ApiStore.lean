import GaleneVerif.Model.Api
/-
Lemmas about the definition store of `Model/Api.lean`, shared by Props/C17 and Props/C18:
association lists (`lookup`/`upsert`/`erase`), `getFile`/`readDescription` return a file that
is in the store, `rewrite` writes one file, and what each update function of
group/description.go leaves alone.
-/
namespace Galene.Api

theorem lookup_upsert_self {β} (k : String) (v : β) (l : List (String × β)) : lookup k (upsert k v l) = some v := by
  induction l with
  | nil => simp [upsert, lookup]
  | cons hd tl ih =>
    obtain ⟨k', v'⟩ := hd
    unfold upsert
    split
    · simp [lookup]
    · split
      · simp [lookup]
      · simp [lookup, *]

theorem lookup_upsert_ne {β} (k k2 : String) (v : β) (l : List (String × β)) (h : k2 ≠ k) :
    lookup k2 (upsert k v l) = lookup k2 l := by
  induction l with
  | nil => simp [upsert, lookup, h]
  | cons hd tl ih =>
    obtain ⟨k', v'⟩ := hd
    unfold upsert
    split
    · next hk => subst hk; simp [lookup, h]
    · split
      · simp [lookup, h]
      · simp [lookup, ih]

theorem lookup_erase_self {β} (k : String) (l : List (String × β)) : lookup k (erase k l) = none := by
  induction l with
  | nil => simp [erase, lookup]
  | cons hd tl ih =>
    obtain ⟨k', v'⟩ := hd
    unfold erase
    split
    · exact ih
    · simp [lookup, *]

theorem lookup_erase_ne {β} (k k2 : String) (l : List (String × β)) (h : k2 ≠ k) :
    lookup k2 (erase k l) = lookup k2 l := by
  induction l with
  | nil => simp [erase, lookup]
  | cons hd tl ih =>
    obtain ⟨k', v'⟩ := hd
    unfold erase
    split
    · next hk => subst hk; simp [lookup, h, ih]
    · simp [lookup, ih]

theorem getFileAux_lookup (gs : List (String × GroupFile)) (a : Bool) (fuel : Nat) (name : String) (s0 : Bool)
    (k : String) (f : GroupFile) (s : Bool) (h : getFileAux gs a fuel name s0 = some (k, f, s)) :
    lookup k gs = some f := by
  induction fuel generalizing name s0 with
  | zero => simp [getFileAux] at h
  | succ n ih =>
    unfold getFileAux at h
    split at h
    · simp at h
    · split at h
      · next f' hf => simp at h; obtain ⟨h1, h2, _⟩ := h; subst h1; subst h2; exact hf
      · split at h
        · exact ih _ _ h
        · simp at h

theorem getFile_lookup (gs : List (String × GroupFile)) (name : String) (a : Bool)
    (k : String) (f : GroupFile) (s : Bool) (h : getFile gs name a = some (k, f, s)) : lookup k gs = some f :=
  getFileAux_lookup gs a _ name false k f s h

/-- `readDescription` returns a file of the store, with its description upgraded -/
theorem readDescription_lookup (gs : List (String × GroupFile)) (name : String) (a : Bool)
    (k : String) (f : GroupFile) (s : Bool) (h : readDescription gs name a = some (k, f, s)) :
    ∃ f0, lookup k gs = some f0 ∧ f = { f0 with desc := f0.desc.upgrade } := by
  unfold readDescription at h
  split at h
  · simp at h
  · next k' f' s' hg =>
    simp only at h
    split at h
    · simp at h
    · simp at h; obtain ⟨h1, h2, _⟩ := h; subst h1; subst h2
      exact ⟨f', getFile_lookup _ _ _ _ _ _ hg, rfl⟩

/-- without the subgroup walk, "not found" means that the file of that name does not exist -/
theorem getFile_none (gs : List (String × GroupFile)) (name : String) (hn : name ≠ "")
    (h : getFile gs name false = none) : lookup (fileKey name) gs = none := by
  unfold getFile at h
  unfold getFileAux at h
  simp only [hn, if_false] at h
  split at h
  · simp at h
  · next hl => exact hl

theorem readDescription_none (gs : List (String × GroupFile)) (name : String) (hn : name ≠ "")
    (h : readDescription gs name false = none) : lookup (fileKey name) gs = none := by
  unfold readDescription at h
  split at h
  · next hg => exact getFile_none gs name hn hg
  · next k f s hg =>
    -- found directly: isSub = false, so readDescription cannot fail
    unfold getFile at hg
    unfold getFileAux at hg
    simp only [hn, if_false] at hg
    split at hg
    · simp at hg; obtain ⟨_, _, h3⟩ := hg; subst h3; simp at h
    · simp at hg

/-! ### `upgradeDescription` -/

theorem upgradeStep_rest (d : Desc) (l : Legacy) :
    (upgradeStep d l).content = d.content ∧ (upgradeStep d l).keys = d.keys ∧ (upgradeStep d l).autoSub = d.autoSub := by
  unfold upgradeStep
  split
  · split <;> simp
  · split <;> simp

theorem fold_rest (l : List Legacy) (d : Desc) :
    (l.foldl upgradeStep d).content = d.content ∧ (l.foldl upgradeStep d).keys = d.keys ∧
    (l.foldl upgradeStep d).autoSub = d.autoSub := by
  induction l generalizing d with
  | nil => simp
  | cons x xs ih =>
    obtain ⟨h1, h2, h3⟩ := ih (upgradeStep d x)
    obtain ⟨g1, g2, g3⟩ := upgradeStep_rest d x
    simp only [List.foldl]
    exact ⟨h1.trans g1, h2.trans g2, h3.trans g3⟩

/-- the first entry of a legacy list that carries the name `n` -/
def firstLegacy (n : String) : List Legacy → Option Legacy
  | [] => none
  | x :: xs => if x.name = n then some x else firstLegacy n xs

theorem step_users (d : Desc) (x : Legacy) (n : String) (hn : n ≠ "") :
    lookup n (upgradeStep d x).users =
      match lookup n d.users with
      | some u => some u
      | none => if x.name = n then some (upgradeUser x) else none := by
  unfold upgradeStep
  by_cases hx : x.name = ""
  · have hxn : ¬ x.name = n := fun h => hn (h ▸ hx)
    simp only [hx, if_true]
    rw [hx] at hxn
    cases d.wildcard <;> cases lookup n d.users <;> simp [hxn]
  · simp only [hx, if_false]
    by_cases hxn : x.name = n
    · subst hxn
      cases hl : lookup x.name d.users with
      | some u => simp [hl]
      | none => simp [lookup_upsert_self]
    · cases hl : lookup x.name d.users with
      | some u => simp only [hxn, if_false]; cases lookup n d.users <;> rfl
      | none =>
        simp only [hxn, if_false]
        rw [lookup_upsert_ne _ _ _ _ (fun h => hxn h.symm)]
        cases lookup n d.users <;> rfl

theorem step_users_empty (d : Desc) (x : Legacy) : lookup "" (upgradeStep d x).users = lookup "" d.users := by
  unfold upgradeStep
  by_cases hx : x.name = ""
  · simp only [hx, if_true]; cases d.wildcard <;> rfl
  · simp only [hx, if_false]
    cases lookup x.name d.users with
    | some u => rfl
    | none => exact lookup_upsert_ne _ _ _ _ (fun h => hx h.symm)

theorem step_wildcard (d : Desc) (x : Legacy) :
    (upgradeStep d x).wildcard =
      match d.wildcard with
      | some w => some w
      | none => if x.name = "" then some (upgradeUser x) else none := by
  unfold upgradeStep
  by_cases hx : x.name = ""
  · simp only [hx, if_true]; cases hw : d.wildcard <;> simp [hw]
  · simp only [hx, if_false]
    cases lookup x.name d.users <;> cases hw : d.wildcard <;> simp [hw]

/-- the named users after folding the legacy entries: an existing entry wins, otherwise the
first legacy entry with that name, with the role of its array -/
theorem fold_users (l : List Legacy) (d : Desc) (n : String) (hn : n ≠ "") :
    lookup n (l.foldl upgradeStep d).users =
      match lookup n d.users with
      | some u => some u
      | none => (firstLegacy n l).map upgradeUser := by
  induction l generalizing d with
  | nil => simp [firstLegacy]; cases lookup n d.users <;> rfl
  | cons x xs ih =>
    simp only [List.foldl]
    rw [ih, step_users d x n hn]
    cases lookup n d.users with
    | some u => rfl
    | none =>
      by_cases hxn : x.name = n <;> simp [firstLegacy, hxn]

/-- the user with the empty name is never created or changed by the upgrade -/
theorem fold_users_empty (l : List Legacy) (d : Desc) :
    lookup "" (l.foldl upgradeStep d).users = lookup "" d.users := by
  induction l generalizing d with
  | nil => rfl
  | cons x xs ih => simp only [List.foldl]; rw [ih, step_users_empty]

/-- the wildcard user after folding: an existing one wins, otherwise the first entry without username -/
theorem fold_wildcard (l : List Legacy) (d : Desc) :
    (l.foldl upgradeStep d).wildcard =
      match d.wildcard with
      | some w => some w
      | none => (firstLegacy "" l).map upgradeUser := by
  induction l generalizing d with
  | nil => simp [firstLegacy]; cases d.wildcard <;> rfl
  | cons x xs ih =>
    simp only [List.foldl]
    rw [ih, step_wildcard]
    cases d.wildcard with
    | some w => rfl
    | none => by_cases hx : x.name = "" <;> simp [firstLegacy, hx]

/-- **`upgradeDescription`, specification.**  After the upgrade the obsolete arrays are empty;
description and keys are untouched; `allow-subgroups` has become `auto-subgroups`; a named user is
the `users` entry if there is one, otherwise the first legacy entry with that name (in the order
`op`, `presenter`, `other`) with the role of its array and "any password" if it has none — later
entries with the same name are dropped; the wildcard user is the `wildcard-user` field if present,
otherwise the first entry without username; the user with the empty name is left alone. -/
theorem upgrade_spec (d : Desc) :
    d.upgrade.legacy = [] ∧ d.upgrade.allowSubLegacy = false ∧
    d.upgrade.content = d.content ∧ d.upgrade.keys = d.keys ∧
    d.upgrade.autoSub = (d.autoSub || d.allowSubLegacy) ∧
    (∀ n, n ≠ "" → lookup n d.upgrade.users =
      match lookup n d.users with
      | some u => some u
      | none => (firstLegacy n d.legacy).map upgradeUser) ∧
    lookup "" d.upgrade.users = lookup "" d.users ∧
    d.upgrade.wildcard =
      (match d.wildcard with
       | some w => some w
       | none => (firstLegacy "" d.legacy).map upgradeUser) := by
  obtain ⟨h1, h2, _⟩ := fold_rest d.legacy d
  exact ⟨rfl, rfl, h1, h2, rfl, fun n hn => fold_users d.legacy d n hn, fold_users_empty d.legacy d,
    fold_wildcard d.legacy d⟩

/-- a description without legacy fields is its own upgrade -/
theorem upgrade_of_modern (d : Desc) (h1 : d.legacy = []) (h2 : d.allowSubLegacy = false) : d.upgrade = d := by
  unfold Desc.upgrade
  rw [h1, h2]
  simp only [List.foldl, Bool.or_false]
  cases d
  simp_all

theorem rewrite_ok (st : State) (key : String) (d : Desc) (st' : State) (h : rewrite st key d = .ok st') :
    st' = { st with groups := upsert key { desc := d, ver := st.ctr + 1 } st.groups, ctr := st.ctr + 1 } := by
  unfold rewrite at h
  split at h
  · simp at h
  · simp at h; exact h.symm

theorem getUser_setUser_self (d : Desc) (w : Who) (u : User) : (d.setUser w u).getUser w = some u := by
  cases w <;> simp [Desc.setUser, Desc.getUser, lookup_upsert_self]

theorem getUser_setUser_ne (d : Desc) (w w' : Who) (u : User) (h : w' ≠ w) :
    (d.setUser w u).getUser w' = d.getUser w' := by
  cases w <;> cases w' <;> simp_all [Desc.setUser, Desc.getUser]
  exact lookup_upsert_ne _ _ _ _ h

theorem getUser_delUser_self (d : Desc) (w : Who) : (d.delUser w).getUser w = none := by
  cases w <;> simp [Desc.delUser, Desc.getUser, lookup_erase_self]

theorem getUser_delUser_ne (d : Desc) (w w' : Who) (h : w' ≠ w) : (d.delUser w).getUser w' = d.getUser w' := by
  cases w <;> cases w' <;> simp_all [Desc.delUser, Desc.getUser]
  exact lookup_erase_ne _ _ _ h

theorem setUser_rest (d : Desc) (w : Who) (u : User) :
    (d.setUser w u).content = d.content ∧ (d.setUser w u).autoSub = d.autoSub ∧ (d.setUser w u).keys = d.keys := by
  cases w <;> simp [Desc.setUser]

theorem delUser_rest (d : Desc) (w : Who) :
    (d.delUser w).content = d.content ∧ (d.delUser w).autoSub = d.autoSub ∧ (d.delUser w).keys = d.keys := by
  cases w <;> simp [Desc.delUser]

theorem setUser_legacy (d : Desc) (w : Who) (u : User) : (d.setUser w u).legacy = d.legacy := by
  cases w <;> rfl

theorem delUser_legacy (d : Desc) (w : Who) : (d.delUser w).legacy = d.legacy := by
  cases w <;> rfl

/-- what a successful write of one definition file leaves alone -/
def OneFile (st st' : State) (key : String) (f f' : GroupFile) : Prop :=
  st'.conf = st.conf ∧ st'.tokens = st.tokens ∧
  lookup key st.groups = some f ∧ lookup key st'.groups = some f' ∧
  (∀ k', k' ≠ key → lookup k' st'.groups = lookup k' st.groups)

theorem rewrite_oneFile (st st' : State) (key : String) (f : GroupFile) (d : Desc)
    (hf : lookup key st.groups = some f) (h : rewrite st key d = .ok st') :
    ∃ f', OneFile st st' key f f' ∧ f'.desc = d := by
  have hst := rewrite_ok _ _ _ _ h
  subst hst
  exact ⟨_, ⟨rfl, rfl, hf, lookup_upsert_self _ _ _, fun k' hk => lookup_upsert_ne _ _ _ _ hk⟩, rfl⟩

end Galene.Api
