import GaleneVerif.Model.DiskTrack
/-!
# C20 — recordings contain exactly the frames sent (galene's own part)

Theorems about `Model/DiskTrack.lean`, the model of galene's glue between the publisher's
packet stream and the third-party sample builder / container writer:

* `gapStep_*`, `C20_all_pushed` — the sequence-number logic of `diskTrack.Write`: for every delivery
  order in which each packet is less than 256 ahead of / less than 512 behind the newest one seen,
  every seqno after the first delivered one that is delivered or available in the cache is handed
  to the builder at least once;
* `writeOp_pushed`, `C20_pushed_exact_partial`, `C20_pushed_exact`,
  `C20_pushed_exact_counterexample` — what is handed to the builder.  The full statement (every
  pushed packet is the unmarshalling of bytes the publisher sent) is FALSE for today's code (P22:
  `fetch` unmarshals the whole 1504-byte buffer); it is proved for the repaired `fetch` (`Fixes.fetchSlice`);
* `lateCheck_*`, `C20_time_monotone` — block times never decrease in the sample timestamp for a fixed
  origin; `C20_wrap_only_beyond_2_30`, `C20_old_sample_dropped` — with the repaired late/wrap threshold
  (`Fixes.lateWide`) the file is closed only for a sample 2^30 ticks or more before the origin;
  `old_sample_taken_for_wrap` — the pinned threshold closed it for a sample 65759 ticks before it; `setTimeOffset_can_move_time_back` shows that a sender report can move the origin forward
  (the [SR-shift] finding);
* `C20_shared_origin` — when the remote origins are known, the block time of the packet that sets a
  track's origin is the remote (NTP) time elapsed since the connection's remote origin in ms,
  whatever the track's clock rate: audio and video share one origin;
* `fromDuration_toDuration_*`, `ntp_roundtrip` — rtptime's conversions lose at most one tick / 5 NTP
  fraction units;
* `initWriter_dim_change_clears_origin` — the [dim-change] finding on the model.

Frame assembly (samplebuilder) and the container (ebml-go) are not modelled: that part of C20 is
correspondence-only.
-/
namespace Galene.Props.C20
open Galene Galene.DiskTrack
open Galene.Codecs (Bytes)

/-! ## machine arithmetic -/

theorem sub16_lt (a b : Nat) : sub16 a b < 65536 := by unfold sub16 two16; omega
theorem sub32_lt (a b : Nat) : sub32 a b < 4294967296 := by unfold sub32 two32; omega

/-- the seqno of source packet number `i` of a stream that starts at seqno `b` -/
def seqOf (b i : Nat) : Nat := (b + i) % 65536

theorem sub16_seqOf_fwd (b i j : Nat) (h : i ≤ j) (hlt : j - i < 65536) :
    sub16 (seqOf b j) (seqOf b i) = j - i := by
  unfold sub16 seqOf two16; omega

theorem sub16_seqOf_bwd (b i j : Nat) (h : j < i) (hlt : i - j < 65536) :
    sub16 (seqOf b j) (seqOf b i) = 65536 - (i - j) := by
  unfold sub16 seqOf two16; omega

theorem seqOf_add (b m k : Nat) : (seqOf b m + k) % two16 = seqOf b (m + k) := by
  unfold seqOf two16; omega

/-! ## the sequence-number logic of `Write` -/

theorem gapStep_none (s : Nat) : gapStep none s = { fetches := [], kfreq := false, last := some s } := rfl

/-- forward jump shorter than 256: every missing seqno, in order; no keyframe request -/
theorem gapStep_forward (l s : Nat) (h : sub16 s l < 256) :
    gapStep (some l) s =
      { fetches := (List.range (sub16 s l - 1)).map (fun i => (l + (i + 1)) % two16),
        kfreq := false, last := some s } := by
  have : sub16 s l < 32768 := by omega
  simp [gapStep, this, h]

/-- forward jump of 256 or more: nothing fetched, a keyframe requested -/
theorem gapStep_far (l s : Nat) (h1 : sub16 s l < 32768) (h2 : 256 ≤ sub16 s l) :
    gapStep (some l) s = { fetches := [], kfreq := true, last := some s } := by
  have : ¬ sub16 s l < 256 := by omega
  simp [gapStep, h1, this]

/-- backward jump shorter than 512: nothing happens to `lastSeqno` -/
theorem gapStep_back (l s : Nat) (h1 : 32768 ≤ sub16 s l) (h2 : sub16 l s < 512) :
    gapStep (some l) s = { fetches := [], kfreq := false, last := some l } := by
  have a : ¬ sub16 s l < 32768 := by omega
  have b : ¬ sub16 l s ≥ 512 := by omega
  simp [gapStep, a, b]

/-- backward jump of 512 or more: `lastSeqno` forgotten, keyframe requested -/
theorem gapStep_reset (l s : Nat) (h1 : 32768 ≤ sub16 s l) (h2 : 512 ≤ sub16 l s) :
    gapStep (some l) s = { fetches := [], kfreq := true, last := none } := by
  have a : ¬ sub16 s l < 32768 := by omega
  simp [gapStep, a, h2]

/-- `fetch` is only ever asked for seqnos strictly between the last and the new one -/
theorem gapStep_fetches_between (l s q : Nat) (h : q ∈ (gapStep (some l) s).fetches) :
    sub16 s l < 256 ∧ ∃ i, 0 < i ∧ i < sub16 s l ∧ q = (l + i) % two16 := by
  by_cases h1 : sub16 s l < 256
  · rw [gapStep_forward l s h1] at h
    simp only [List.mem_map, List.mem_range] at h
    obtain ⟨i, hi, rfl⟩ := h
    exact ⟨h1, i + 1, by omega, by omega, rfl⟩
  · exfalso
    by_cases h2 : sub16 s l < 32768
    · rw [gapStep_far l s h2 (by omega)] at h; simp at h
    · by_cases h3 : sub16 l s < 512
      · rw [gapStep_back l s (by omega) h3] at h; simp at h
      · rw [gapStep_reset l s (by omega) (by omega)] at h; simp at h

/-! ### delivery histories -/

/-- seqnos handed to the builder by one `Write`: the fetches that the cache can answer, then the
packet itself -/
def pushedSeqs (avail : Nat → Bool) (last : Option Nat) (s : Nat) : List Nat :=
  ((gapStep last s).fetches.filter avail) ++ [s]

/-- all seqnos handed to the builder over a delivery history -/
def runPushed (avail : Nat → Bool) : Option Nat → List Nat → List Nat
  | _, [] => []
  | last, s :: ss => pushedSeqs avail last s ++ runPushed avail (gapStep last s).last ss

/-- every delivery is less than 256 ahead of, or less than 512 behind, the newest index so far -/
def Gaps : Nat → List Nat → Prop
  | _, [] => True
  | m, x :: rest => (x ≤ m → m - x < 512) ∧ (m < x → x - m < 256) ∧ Gaps (max m x) rest

def maxOf : Nat → List Nat → Nat
  | m, [] => m
  | m, x :: rest => maxOf (max m x) rest

theorem delivered_pushed (avail : Nat → Bool) (b : Nat) (ds : List Nat) (last : Option Nat) (x : Nat)
    (hx : x ∈ ds) : seqOf b x ∈ runPushed avail last (ds.map (seqOf b)) := by
  induction ds generalizing last with
  | nil => simp at hx
  | cons d rest ih =>
    simp only [List.map_cons, runPushed, List.mem_append]
    rcases List.mem_cons.mp hx with h | h
    · subst h; left; simp [pushedSeqs]
    · right; exact ih _ h

theorem run_covers (avail : Nat → Bool) (b n : Nat) (hn : n ≤ 32768) :
    ∀ (ds : List Nat) (m : Nat), m < n → (∀ x ∈ ds, x < n) → Gaps m ds →
      ∀ i, m < i → i ≤ maxOf m ds → (i ∈ ds ∨ avail (seqOf b i) = true) →
        seqOf b i ∈ runPushed avail (some (seqOf b m)) (ds.map (seqOf b)) := by
  intro ds
  induction ds with
  | nil => intro m _ _ _ i h1 h2 _; simp [maxOf] at h2; omega
  | cons x rest ih =>
    intro m hm hin hg i h1 h2 hav
    have hx : x < n := hin x (List.mem_cons_self ..)
    have hin' : ∀ y ∈ rest, y < n := fun y hy => hin y (List.mem_cons_of_mem _ hy)
    obtain ⟨gb, gf, grest⟩ := hg
    simp only [List.map_cons, runPushed, List.mem_append]
    by_cases hxm : x ≤ m
    · -- not ahead of the newest: lastSeqno unchanged (or equal)
      have hmax : max m x = m := by omega
      rw [hmax] at grest
      have hlast : (gapStep (some (seqOf b m)) (seqOf b x)).last = some (seqOf b m) := by
        by_cases hxe : x = m
        · subst hxe
          have : sub16 (seqOf b x) (seqOf b x) = 0 := by rw [sub16_seqOf_fwd b x x (by omega) (by omega)]; omega
          rw [gapStep_forward _ _ (by omega)]
        · have hb := sub16_seqOf_bwd b m x (by omega) (by omega)
          have hf := sub16_seqOf_fwd b x m (by omega) (by omega)
          have := gb hxm
          rw [gapStep_back _ _ (by omega) (by omega)]
      right
      rw [hlast]
      have h2' : i ≤ maxOf m rest := by simpa [maxOf, hmax] using h2
      have hav' : i ∈ rest ∨ avail (seqOf b i) = true := by
        rcases hav with h | h
        · rcases List.mem_cons.mp h with h | h
          · omega
          · exact Or.inl h
        · exact Or.inr h
      exact ih m hm hin' grest i h1 h2' hav'
    · -- ahead: everything in between is fetched
      have hmx : m < x := by omega
      have hcount := sub16_seqOf_fwd b m x (by omega) (by omega)
      have hlt := gf hmx
      have hstep := gapStep_forward (seqOf b m) (seqOf b x) (by omega)
      have hmax : max m x = x := by omega
      rw [hmax] at grest
      by_cases hix : i ≤ x
      · by_cases hie : i = x
        · left; subst hie; simp [pushedSeqs]
        · rcases hav with h | h
          · -- delivered later (as a late packet)
            rcases List.mem_cons.mp h with h | h
            · omega
            · right; exact delivered_pushed avail b rest _ i h
          · left
            simp only [pushedSeqs, List.mem_append, List.mem_filter]
            left
            refine ⟨?_, h⟩
            rw [hstep]
            simp only [List.mem_map, List.mem_range]
            refine ⟨i - m - 1, by omega, ?_⟩
            rw [seqOf_add]; congr 1; omega
      · right
        rw [hstep]
        have h2' : i ≤ maxOf x rest := by simpa [maxOf, hmax] using h2
        have hav' : i ∈ rest ∨ avail (seqOf b i) = true := by
          rcases hav with h | h
          · rcases List.mem_cons.mp h with h | h
            · omega
            · exact Or.inl h
          · exact Or.inr h
        exact ih x hx hin' grest i (by omega) h2' hav'

/-- **C20_all_pushed.**  A stream of `n ≤ 32768` packets starts at seqno `b`; its packets reach
`Write` in the order `d :: ds` (indices into the stream; any order, duplicates allowed) such that
every delivery is less than 256 ahead of and less than 512 behind the newest delivered so far.
Then every packet after the first delivered one, up to the newest delivered one, that is delivered
at some point or that the cache can supply is handed to the sample builder at least once. -/
theorem C20_all_pushed (avail : Nat → Bool) (b n : Nat) (hn : n ≤ 32768) (d : Nat) (ds : List Nat)
    (hin : ∀ x ∈ d :: ds, x < n) (hg : Gaps d ds)
    (i : Nat) (h1 : d < i) (h2 : i ≤ maxOf d ds) (hav : i ∈ ds ∨ avail (seqOf b i) = true) :
    seqOf b i ∈ runPushed avail none ((d :: ds).map (seqOf b)) := by
  simp only [List.map_cons, runPushed, List.mem_append, gapStep_none]
  right
  exact run_covers avail b n hn ds d (hin d (List.mem_cons_self ..))
    (fun x hx => hin x (List.mem_cons_of_mem _ hx)) hg i h1 h2 hav

/-! ## what is handed to the builder -/

/-- the packet `fetch` pushes for seqno `q` (if any) -/
def fetchedPkt (view : Bytes → Bytes) (cache : Cache.Ring) (q : Nat) : Option Pkt :=
  match Cache.get cache q with
  | none => none
  | some slot => if slot.bytes.length = 0 then none else unmarshal (view slot.bytes)

theorem fetchAll_pushed (fx : Fixes) (cache : Cache.Ring) (ti : Nat) :
    ∀ (qs : List Nat) (c : Conn) (s : OpSt) (env : List Env) (out : List Out) (ps : List Pkt),
      (fetchAll fx cache ti qs c s env out ps).2.2.2.2 = ps ++ qs.filterMap (fetchedPkt (fetchView fx) cache) := by
  intro qs
  induction qs with
  | nil => intro c s env out ps; simp [fetchAll]
  | cons q qs ih =>
    intro c s env out ps
    unfold fetchAll
    cases hg : Cache.get cache q with
    | none => simp only []; rw [ih]; simp [fetchedPkt, hg]
    | some slot =>
      simp only []
      by_cases hl : slot.bytes.length = 0
      · simp only [hl, if_true]; rw [ih]; simp [fetchedPkt, hg, hl]
      · simp only [hl, if_false]
        cases hu : unmarshal (fetchView fx slot.bytes) with
        | none => simp only []; rw [ih]; simp [fetchedPkt, hg, hl, hu]
        | some p =>
          simp only []
          rw [ih]
          simp [fetchedPkt, hg, hl, hu]

/-- The packets `Write` hands to the sample builder, in order: for every missing seqno that the
cache can answer (and whose buffer unmarshals) the fetched packet, then the delivered packet. -/
theorem writeOp_pushed (c : Conn) (cache : Cache.Ring) (ti : Nat) (buf : Bytes) (env : List Env)
    (fx : Fixes) (p : Pkt) (hp : unmarshal buf = some p) :
    (writeOp c cache ti buf env fx).pushed =
      (gapStep (c.track ti).lastSeqno p.seq).fetches.filterMap (fetchedPkt (fetchView fx) cache) ++ [p] := by
  unfold writeOp
  simp only [hp]
  have := fetchAll_pushed fx cache ti (gapStep (c.track ti).lastSeqno p.seq).fetches c {} env [] []
  revert this
  generalize fetchAll fx cache ti (gapStep (c.track ti).lastSeqno p.seq).fetches c {} env [] [] = r
  obtain ⟨c', s', env', out', ps'⟩ := r
  intro h
  simp only at h
  simp [h]

/-- An undecodable buffer never reaches the builder. -/
theorem writeOp_pushed_none (c : Conn) (cache : Cache.Ring) (ti : Nat) (buf : Bytes) (env : List Env)
    (fx : Fixes) (hp : unmarshal buf = none) :
    (writeOp c cache ti buf env fx).pushed = [] ∧ (writeOp c cache ti buf env fx).n = 0 := by
  unfold writeOp; simp [hp]

theorem pushed_cases (c : Conn) (cache : Cache.Ring) (ti : Nat) (buf : Bytes) (env : List Env) (fx : Fixes)
    (p : Pkt) (hp : p ∈ (writeOp c cache ti buf env fx).pushed) :
    unmarshal buf = some p ∨
      ∃ q slot, Cache.get cache q = some slot ∧ slot.bytes.length ≠ 0 ∧
        unmarshal (fetchView fx slot.bytes) = some p := by
  cases hu : unmarshal buf with
  | none => rw [(writeOp_pushed_none c cache ti buf env fx hu).1] at hp; simp at hp
  | some p0 =>
    rw [writeOp_pushed c cache ti buf env fx p0 hu] at hp
    rcases List.mem_append.mp hp with h | h
    · right
      obtain ⟨q, _, hq⟩ := List.mem_filterMap.mp h
      unfold fetchedPkt at hq
      cases hg : Cache.get cache q with
      | none => simp [hg] at hq
      | some slot =>
        simp only [hg] at hq
        by_cases hl : slot.bytes.length = 0
        · simp [hl] at hq
        · simp only [hl, if_false] at hq
          exact ⟨q, slot, hg, hl, hq⟩
    · left; simp at h; rw [h]

/-- `fetch` leaves the packet's own bytes in place (header, payload) and appends zeros up to 1504. -/
theorem fetched_take (b : Bytes) : (fetched b).take b.length = b := by
  unfold fetched; simp

theorem fetched_length (b : Bytes) (h : b.length ≤ bufSize) : (fetched b).length = bufSize := by
  unfold fetched; simp; omega

theorem fetched_full (b : Bytes) (h : bufSize ≤ b.length) : fetched b = b := by
  unfold fetched
  have : bufSize - b.length = 0 := by omega
  simp [this]

/-- **C20_pushed_exact (full statement, false today):** every packet handed to the builder is
`unmarshal bytes` for bytes the publisher sent (the delivered buffer, or the bytes of a cache
entry — which are bytes that were stored, C05).

**C20_pushed_exact_partial** is what holds for today's code: the delivered packet is pushed
unchanged, and a packet recovered from the cache is the unmarshalling of the cache entry's bytes
*followed by `1504 - n` zero bytes* (`fetched`): identical to the sent packet only when the entry
fills the whole buffer (`fetched_full`).  The missing hypothesis is the repair of P22
(`buf[:n]`); `C20_pushed_exact_counterexample` shows the full statement false without it. -/
theorem C20_pushed_exact_partial (c : Conn) (cache : Cache.Ring) (ti : Nat) (buf : Bytes) (env : List Env)
    (fx : Fixes) (hfx : fx.fetchSlice = false)
    (p : Pkt) (hp : p ∈ (writeOp c cache ti buf env fx).pushed) :
    unmarshal buf = some p ∨
      ∃ q slot, Cache.get cache q = some slot ∧ slot.bytes.length ≠ 0 ∧
        unmarshal (fetched slot.bytes) = some p := by
  have h := pushed_cases c cache ti buf env fx p hp
  simpa [fetchView, hfx] using h

/-- **C20_pushed_exact** for the repaired `fetch` (`fetchSlice`, i.e. `p.Unmarshal(buf[:n])`): every
packet handed to the sample builder is the unmarshalling of the delivered buffer or of the bytes
of a cache entry (which, by C05, are bytes the publisher's read loop stored). -/
theorem C20_pushed_exact (c : Conn) (cache : Cache.Ring) (ti : Nat) (buf : Bytes) (env : List Env)
    (fx : Fixes) (hfx : fx.fetchSlice = true)
    (p : Pkt) (hp : p ∈ (writeOp c cache ti buf env fx).pushed) :
    unmarshal buf = some p ∨
      ∃ q slot, Cache.get cache q = some slot ∧ unmarshal slot.bytes = some p := by
  rcases pushed_cases c cache ti buf env fx p hp with h | ⟨q, slot, hg, _, hq⟩
  · exact Or.inl h
  · right
    refine ⟨q, slot, hg, ?_⟩
    simpa [fetchView, hfx] using hq

/-! ## block times -/

theorem i32_neg_iff (x : Nat) : i32 x < 0 ↔ two31 ≤ x % two32 := by
  unfold i32 two31 two32
  split <;> omega

theorem lateCheck_ok_iff (lim o ts : Nat) : lateCheck lim (some o) ts = .ok ↔ sub32 ts o < two31 := by
  have hb := sub32_lt ts o
  unfold lateCheck
  simp only [i32_neg_iff]
  by_cases h : two31 ≤ sub32 ts o % two32
  · simp only [h, if_true]
    constructor
    · intro hh; split at hh <;> cases hh
    · intro hh; unfold two31 two32 at *; omega
  · simp only [h, if_false, true_iff]
    unfold two31 two32 at *; omega

/-- a sample is dropped as late iff it is before the origin by less than the threshold `lim`
(`lateThreshold fx`: 2^16 ticks in the pinned code, 2^30 after the repair `lateWide`) -/
theorem lateCheck_drop_iff (lim o ts : Nat) :
    lateCheck lim (some o) ts = .drop ↔ two31 ≤ sub32 ts o ∧ sub32 o ts < lim := by
  have hb := sub32_lt ts o
  unfold lateCheck
  simp only [i32_neg_iff]
  by_cases h : two31 ≤ sub32 ts o % two32
  · have h' : two31 ≤ sub32 ts o := by unfold two31 two32 at *; omega
    simp only [h, if_true, h', true_and]
    by_cases h2 : sub32 o ts < lim <;> simp [h2]
  · have h' : ¬ two31 ≤ sub32 ts o := by unfold two31 two32 at *; omega
    simp [h, h']

/-- the file is closed ("gone around 2^31 timestamps") iff the sample is before the origin by the
threshold or more -/
theorem lateCheck_wrap_iff (lim o ts : Nat) :
    lateCheck lim (some o) ts = .wrap ↔ two31 ≤ sub32 ts o ∧ lim ≤ sub32 o ts := by
  have hb := sub32_lt ts o
  unfold lateCheck
  simp only [i32_neg_iff]
  by_cases h : two31 ≤ sub32 ts o % two32
  · have h' : two31 ≤ sub32 ts o := by unfold two31 two32 at *; omega
    simp only [h, if_true, h', true_and]
    by_cases h2 : sub32 o ts < lim
    · simp [h2]
    · simp only [h2, if_false, true_iff]; omega
  · have h' : ¬ two31 ≤ sub32 ts o := by unfold two31 two32 at *; omega
    simp [h, h']

theorem lateThreshold_wide (fx : Fixes) (h : fx.lateWide = true) : lateThreshold fx = 1073741824 := by
  simp [lateThreshold, h]

theorem lateThreshold_narrow (fx : Fixes) (h : fx.lateWide = false) : lateThreshold fx = 65536 := by
  simp [lateThreshold, h]

/-- **C20_wrap_only_beyond_2_30** (what the repair `lateWide` buys).  With the repaired threshold
`writeBuffered` closes the file only for a sample that is at least 2^30 ticks (and, being "before", at most
2^31) before the origin: more than 3 h of video at 90 kHz, 6 h of audio at 48 kHz — a timestamp that has
really gone around, never a sample that is merely old (audio recovered from the cache through a long gap,
a sample overtaken by a sender report that moved the origin). -/
theorem C20_wrap_only_beyond_2_30 (fx : Fixes) (hfx : fx.lateWide = true) (o ts : Nat)
    (h : lateCheck (lateThreshold fx) (some o) ts = .wrap) :
    1073741824 ≤ sub32 o ts ∧ sub32 o ts ≤ two31 := by
  rw [lateThreshold_wide fx hfx, lateCheck_wrap_iff] at h
  refine ⟨h.2, ?_⟩
  have := h.1
  unfold sub32 two32 two31 at *
  omega

/-- … and every sample less than 2^30 ticks before the origin is dropped as late, the file stays open -/
theorem C20_old_sample_dropped (fx : Fixes) (hfx : fx.lateWide = true) (o ts : Nat)
    (hbefore : two31 ≤ sub32 ts o) (hold : sub32 o ts < 1073741824) :
    lateCheck (lateThreshold fx) (some o) ts = .drop := by
  rw [lateThreshold_wide fx hfx, lateCheck_drop_iff]
  exact ⟨hbefore, hold⟩

/-- the code under test has the repair -/
theorem codeFixes_lateWide : lateThreshold codeFixes = 1073741824 := by decide

/-- **the old behaviour** (flag off; the history of replays/C20-3e9f528a9b.json, finding
`old-sample-taken-for-wrap`): the audio origin fixed from the sender reports is 4294899980, the packet
recovered from the cache has timestamp 4294834221, 65759 ticks (1370 ms at 48 kHz) before it: taken for a
timestamp wrap, the file is closed.  With the repair the same sample is dropped as late. -/
theorem old_sample_taken_for_wrap :
    sub32 4294899980 4294834221 = 65759 ∧
    lateCheck (lateThreshold {}) (some 4294899980) 4294834221 = .wrap ∧
    lateCheck (lateThreshold { lateWide := true }) (some 4294899980) 4294834221 = .drop := by decide

/-- **C20_time_monotone.**  Two samples of a track that pass the "late" test against the same
origin and whose timestamps are in order (`ts2` is at most 2^31 ticks after `ts1`) get block
times in the same order: within a file, and as long as no sender report moves the origin, block
times never decrease in the sample timestamp (this includes timestamps that wrap through 2^32).
(Whatever the late/wrap threshold `lim` is.) -/
theorem C20_time_monotone (lim o ts1 ts2 rate : Nat)
    (h1 : lateCheck lim (some o) ts1 = .ok) (h2 : lateCheck lim (some o) ts2 = .ok)
    (hord : sub32 ts2 ts1 < two31) :
    blockTime o ts1 rate ≤ blockTime o ts2 rate := by
  rw [lateCheck_ok_iff] at h1 h2
  unfold blockTime
  apply Nat.div_le_div_right
  unfold sub32 two32 two31 at *
  omega

/-- a sample that is written was not before the origin: its block time is the number of whole
milliseconds (for a clock rate that is a multiple of 1000) since the origin, below 2^31 ticks -/
theorem blockTime_bound (lim o ts rate : Nat) (h : lateCheck lim (some o) ts = .ok) (hr : 1000 ≤ rate) :
    blockTime o ts rate < two31 := by
  rw [lateCheck_ok_iff] at h
  unfold blockTime
  have : 0 < rate / 1000 := Nat.div_pos hr (by decide)
  exact Nat.lt_of_le_of_lt (Nat.div_le_self _ _) h

/-! ## rtptime round trips -/

theorem fromDuration_nat (n hz : Nat) : fromDuration (n : Int) hz = ((n * hz / second : Nat) : Int) := by
  unfold fromDuration
  have h1 : ¬ ((n : Int) < 0) := by omega
  simp only [h1, if_false, Int.toNat_natCast]

theorem toDuration_nat (n hz : Nat) : toDuration (n : Int) hz = ((n * second / hz : Nat) : Int) := by
  unfold toDuration
  have h1 : ¬ ((n : Int) < 0) := by omega
  simp only [h1, if_false, Int.toNat_natCast]

/-- conversions are odd functions (Go: `-FromDuration(d.Abs(), hz)`) -/
theorem fromDuration_neg (n hz : Nat) : fromDuration (-(n : Int)) hz = -fromDuration (n : Int) hz := by
  rw [fromDuration_nat]
  unfold fromDuration
  by_cases h : n = 0
  · subst h; simp
  · have h1 : (-(n : Int) < 0) := by omega
    simp only [h1, if_true, Int.neg_neg, Int.toNat_natCast]

theorem roundtrip_nat (x hz : Nat) (hz0 : 0 < hz) (hz1 : hz ≤ second) :
    x * second / hz * hz / second ≤ x ∧ x ≤ x * second / hz * hz / second + 1 := by
  have a1 := Nat.div_add_mod (x * second) hz
  have a2 := Nat.mod_lt (x * second) hz0
  have a3 := Nat.div_add_mod (x * second / hz * hz) second
  have a4 := Nat.mod_lt (x * second / hz * hz) (by decide : 0 < second)
  rw [Nat.mul_comm hz] at a1
  generalize x * second / hz * hz = A at *
  generalize A / second = r at *
  unfold second at *
  omega

/-- ticks → duration → ticks (`adjustOrigin`, `setTimeOffset`) loses at most one tick -/
theorem fromDuration_toDuration_le (x hz : Nat) (hz0 : 0 < hz) (hz1 : hz ≤ second) :
    fromDuration (toDuration (x : Int) hz) hz ≤ (x : Int) := by
  rw [toDuration_nat, fromDuration_nat]
  exact_mod_cast (roundtrip_nat x hz hz0 hz1).1

theorem fromDuration_toDuration_ge (x hz : Nat) (hz0 : 0 < hz) (hz1 : hz ≤ second) :
    (x : Int) ≤ fromDuration (toDuration (x : Int) hz) hz + 1 := by
  rw [toDuration_nat, fromDuration_nat]
  exact_mod_cast (roundtrip_nat x hz hz0 hz1).2

/-- the round trip is exact for a clock rate that divides 10^9 ns evenly per tick (e.g. 1000 Hz);
at 48000 and 90000 Hz it is not: one tick can be lost -/
example : fromDuration (toDuration 1 90000) 90000 = 0 := by decide
example : fromDuration (toDuration 1 48000) 48000 = 0 := by decide
example : fromDuration (toDuration 90 90000) 90000 = 90 := by decide

theorem u32_nat (m : Nat) : u32 (m : Int) = m % two32 := by
  unfold u32
  have : ((m : Int) % (two32 : Int)) = ((m % two32 : Nat) : Int) := by norm_cast
  rw [this, Int.toNat_natCast]

theorem timeToNTP_nat (T : Nat) :
    timeToNTP (T : Int) = ((T / second % two32) * two32 + (T % second % two32) * two32 / second) % two64 := by
  unfold timeToNTP
  simp only []
  rw [Int.tdiv_eq_ediv_of_nonneg (by omega), Int.tmod_eq_emod_of_nonneg (by omega)]
  have h1 : ((T : Int) / (second : Int)) = ((T / second : Nat) : Int) := by norm_cast
  have h2 : ((T : Int) % (second : Int)) = ((T % second : Nat) : Int) := by norm_cast
  rw [h1, h2, u32_nat, u32_nat]

/-- NTP → time → NTP loses at most 5 units of 2^-32 s (about 1.2 ns) and never gains -/
theorem ntp_roundtrip (n : Nat) (hn : n < two64) :
    timeToNTP (ntpToTime n) ≤ n ∧ n ≤ timeToNTP (ntpToTime n) + 5 := by
  unfold ntpToTime
  simp only []
  have hcast : ((n / two32 % two32 * second + n % two32 * second / two32 : Nat) : Int) =
      ((n / two32 % two32 * second + n % two32 * second / two32 : Nat) : Int) := rfl
  rw [timeToNTP_nat]
  have hsec : n / two32 % two32 = n / two32 := by unfold two32 two64 at *; omega
  rw [hsec]
  have hfrac : n % two32 < two32 := Nat.mod_lt _ (by decide)
  have hn' : n = n / two32 * two32 + n % two32 := by unfold two32; omega
  generalize n / two32 = sec at *
  generalize n % two32 = frac at *
  have hsec2 : sec < two32 := by unfold two32 two64 at *; omega
  have hf : frac * second / two32 < second := by unfold second two32 at *; omega
  have hf0 : frac * second / two32 * two32 ≤ frac * second := Nat.div_mul_le_self _ _
  have hf1 : frac * second < (frac * second / two32 + 1) * two32 :=
    Nat.lt_mul_of_div_lt (Nat.lt_succ_self _) (by decide)
  generalize frac * second / two32 = f at *
  have hdiv : (sec * second + f) / second = sec := by unfold second at *; omega
  have hmod : (sec * second + f) % second = f := by unfold second at *; omega
  rw [hdiv, hmod]
  have hfm : f % two32 = f := by unfold second two32 at *; omega
  have hsm : sec % two32 = sec := Nat.mod_eq_of_lt hsec2
  rw [hfm, hsm]
  have hg0 : f * two32 / second * second ≤ f * two32 := Nat.div_mul_le_self _ _
  have hg1 : f * two32 < (f * two32 / second + 1) * second :=
    Nat.lt_mul_of_div_lt (Nat.lt_succ_self _) (by decide)
  generalize f * two32 / second = g at *
  have hle : g ≤ frac := by unfold second two32 at *; omega
  have hge : frac ≤ g + 5 := by unfold second two32 at *; omega
  have hnm : (sec * two32 + g) % two64 = sec * two32 + g := by
    apply Nat.mod_eq_of_lt
    have h1 : sec + 1 ≤ two32 := hsec2
    calc sec * two32 + g < sec * two32 + two32 := by omega
      _ = (sec + 1) * two32 := by rw [Nat.add_mul, Nat.one_mul]
      _ ≤ two32 * two32 := Nat.mul_le_mul_right _ h1
      _ = two64 := by decide
  rw [hnm, hn']
  omega

/-! ## one time origin for audio and video -/

theorem track_setTrack (c : Conn) (ti : Nat) (t : Track) (h : ti < c.tracks.length) :
    (c.setTrack ti t).track ti = t := by
  unfold Conn.track Conn.setTrack
  simp [List.getD_eq_getElem?_getD, h]

theorem ms_of_ticks (D k : Nat) (hk : 0 < k) : D * (1000 * k) / second / (1000 * k / 1000) = D / 1000000 := by
  have e1 : D * (1000 * k) = 1000 * (D * k) := by
    rw [Nat.mul_left_comm]
  have e2 : second = 1000 * 1000000 := by decide
  rw [e1, e2, Nat.mul_div_mul_left _ _ (by decide : 0 < 1000), Nat.mul_div_cancel_left _ (by decide : 0 < 1000),
    Nat.div_div_eq_div_mul, Nat.mul_div_mul_right _ _ hk]

/-- **C20_shared_origin.**  The connection has a local and a remote (NTP) origin and the track has
received a sender report.  `setOrigin`, called for a packet with timestamp `ts` whose remote
(sender-report) time is `D` ns after the connection's remote origin, gives the track an origin
such that the packet's block time is `D / 10^6` ms — independent of the track's clock rate
(any multiple `1000·k` of 1000 Hz).  Audio and video packets captured at the same remote instant
therefore get the same block time: the tracks share one time origin. -/
theorem C20_shared_origin (c : Conn) (ti ts k D : Nat) (now : LocalTime) (el : Elapsed)
    (hti : ti < c.tracks.length) (hl : c.originLocal ≠ .zero) (hr : c.originRemote ≠ 0)
    (hn : (c.track ti).remoteNTP ≠ 0) (hk : 0 < k)
    (hD : remoteOf (c.track ti) ts (1000 * k) - ntpToTime c.originRemote = (D : Int))
    (hsmall : D * (1000 * k) / second < two32) :
    ((setOrigin c ti ts now el (1000 * k)).track ti).origin = some (sub32 ts (D * (1000 * k) / second)) ∧
    blockTime (sub32 ts (D * (1000 * k) / second)) ts (1000 * k) = D / 1000000 := by
  constructor
  · unfold setOrigin
    simp only [hl, if_false, hr, hn, ne_eq, not_false_eq_true, and_self, if_true]
    rw [track_setTrack _ _ _ hti, hD, fromDuration_nat, u32_nat, Nat.mod_eq_of_lt hsmall]
  · unfold blockTime
    have : sub32 ts (sub32 ts (D * (1000 * k) / second)) = D * (1000 * k) / second := by
      generalize D * (1000 * k) / second = m at *
      unfold sub32 two32 at *; omega
    rw [this, ms_of_ticks D k hk]

/-- two tracks (clock rates `1000·ka`, `1000·kv`) whose origins were set against the same remote
origin: packets with the same remote capture instant get the same block time -/
theorem C20_shared_origin_pair (D ka kv tsa tsv : Nat) (ha : 0 < ka) (hv : 0 < kv) :
    blockTime (sub32 tsa (D * (1000 * ka) / second)) tsa (1000 * ka) =
    blockTime (sub32 tsv (D * (1000 * kv) / second)) tsv (1000 * kv) ∨
    ¬ (D * (1000 * ka) / second < two32 ∧ D * (1000 * kv) / second < two32) := by
  by_cases h : D * (1000 * ka) / second < two32 ∧ D * (1000 * kv) / second < two32
  · left
    have e : ∀ ts k, 0 < k → D * (1000 * k) / second < two32 →
        blockTime (sub32 ts (D * (1000 * k) / second)) ts (1000 * k) = D / 1000000 := by
      intro ts k hk hs
      unfold blockTime
      have : sub32 ts (sub32 ts (D * (1000 * k) / second)) = D * (1000 * k) / second := by
        generalize D * (1000 * k) / second = m at *
        unfold sub32 two32 at *; omega
      rw [this, ms_of_ticks D k hk]
    rw [e tsa ka ha h.1, e tsv kv hv h.2]
  · right; exact h

/-! ## proved counterexamples and non-vacuity -/

/-- a 13-byte opus packet (seqno 7, one payload byte) -/
def pkt13 : Bytes := [0x80, 111, 0, 7, 0, 0, 3, 192, 0xca, 0xfe, 0, 0, 0x42]

/-- **C20_pushed_exact is false for today's code:** the packet that `fetch` pushes for a cache
entry holding `pkt13` is not the packet the publisher sent: its payload is 1492 bytes long (the
sent byte followed by 1491 zeros) instead of 1. -/
theorem C20_pushed_exact_counterexample :
    unmarshal (fetched pkt13) ≠ unmarshal pkt13 ∧
    (unmarshal pkt13).map (·.payload) = some [0x42] ∧
    (unmarshal (fetched pkt13)).map (·.payload.length) = some 1492 := by decide +kernel

/-- a recovered packet that carries RTP padding is rejected altogether: the padding length is read
from the last byte of the 1504-byte buffer, which is 0 -/
theorem fetched_padding_rejected :
    let b : Bytes := [0xa0, 111, 0, 7, 0, 0, 3, 192, 0xca, 0xfe, 0, 0, 0x42, 0, 0, 3]
    (unmarshal b).map (·.payload) = some [0x42] ∧ unmarshal (fetched b) = none := by decide +kernel

/-- `C20_time_monotone` needs the fixed origin: a sender report that arrives after the origin was
set from the arrival time moves the origin forward (here by one second) and the block time of a
later sample is smaller than that of an earlier one (the [SR-shift] finding). -/
theorem setTimeOffset_can_move_time_back :
    let c : Conn := { tracks := [{ codec := "audio/opus", rate := 48000, origin := some 1000 }], hasVideo := false,
                      originLocal := .real, originRemote := 10 * two32 }
    let c' := setTimeOffset c 0 (10 * two32) 49000 48000
    (c.track 0).origin = some 1000 ∧ (c'.track 0).origin = some 49000 ∧
      blockTime 49000 49960 48000 < blockTime 1000 49000 48000 := by decide +kernel

-- non-vacuity: a history with loss, reordering, a duplicate and a seqno wrap satisfies the
-- hypotheses of `C20_all_pushed`; index 2 is never delivered but available, index 3 arrives late
example : Gaps 0 [1, 4, 3, 4, 6] ∧ maxOf 0 [1, 4, 3, 4, 6] = 6 := by
  refine ⟨?_, by decide⟩
  simp [Gaps]
example : runPushed (fun _ => true) none ([0, 1, 4, 3, 4, 6].map (seqOf 65533)) =
    [65533, 65534, 65535, 0, 1, 0, 1, 2, 3] := by decide +kernel
example : runPushed (fun q => q != 0) none ([0, 1, 4, 3, 4, 6].map (seqOf 65533)) =
    [65533, 65534, 65535, 1, 0, 1, 2, 3] := by decide +kernel
-- gaps of 256 and more are not fetched (keyframe request instead); a jump back by 512 resets
example : gapStep (some 10) 266 = { fetches := [], kfreq := true, last := some 266 } := by decide
example : (gapStep (some 10) 265).fetches.length = 254 := by decide +kernel
example : gapStep (some 600) 88 = { fetches := [], kfreq := true, last := none } := by decide
example : gapStep (some 600) 89 = { fetches := [], kfreq := false, last := some 600 } := by decide
-- time: timestamps that wrap through 2^32 keep increasing block times; a sample before the
-- origin is dropped, one 2^31 away forces a new file
example : lateCheck (lateThreshold codeFixes) (some 4294967000) 200 = .ok ∧ blockTime 4294967000 200 90000 = 5 := by decide
example : lateCheck (lateThreshold codeFixes) (some 1000) 999 = .drop ∧
    lateCheck (lateThreshold codeFixes) (some 1000) (1000 + two31) = .wrap := by decide
-- the thresholds: 65535 / 65536 ticks before the origin in the pinned code, 2^30 - 1 / 2^30 after the repair
example : lateCheck (lateThreshold {}) (some 100000) 34465 = .drop ∧ lateCheck (lateThreshold {}) (some 100000) 34464 = .wrap := by decide
example : lateCheck (lateThreshold codeFixes) (some 100000) 34464 = .drop ∧
    lateCheck (lateThreshold codeFixes) (some 1073841824) 100001 = .drop ∧
    lateCheck (lateThreshold codeFixes) (some 1073841824) 100000 = .wrap := by decide
-- shared origin: 1.5 s after the remote origin is block time 1500 at 48 kHz and at 90 kHz
example : blockTime (sub32 5 (1500000000 * 48000 / second)) 5 48000 = 1500 ∧
    blockTime (sub32 77 (1500000000 * 90000 / second)) 77 90000 = 1500 := by decide
example : timeToNTP (ntpToTime 17046033070595202949) = 17046033070595202946 := by decide

end Galene.Props.C20
