import GaleneVerif.Model.Etag
/-
C18 (string part) — `scanETag`, `etagMatch` and the decision table of `checkPreconditions`
(webserver/precondition.go) against a declarative reading of RFC 7232.

  * `IsTag t`            — `t` is an entity-tag as written on the wire: optional `W/`, a quoted string
                            of the bytes 0x21, 0x23–0x7E, 0x80–0xFF.
  * `ListPrefix ts h r`  — the header value `h` is: separators (SP, HTAB, CR, LF, ',') and the
                            entity-tags `ts`, in order, followed by `r` (any text).  As in Go's
                            net/http and in galene, separators between tags are optional and a
                            malformed tail `r` ends the list silently.
  * `Matches e h`        — `h ≠ ""` and (`h = e` byte for byte, or some well-formed prefix of `h`
                            lists `e`, or reaches a `*` while the object exists (`e ≠ ""`)).
                            Tags are compared as written: `W/"a"` and `"a"` differ (galene only
                            issues strong tags).

Theorems: `C18_scanETag` (what `scanETag` returns, for every string), `C18_etagMatch_spec`
(`etagMatch e h = true ↔ Matches e h`), `C18_preconditions_*` (the 412 / 304 / continue table) and
the corollaries that C18's statement uses: `If-Match: <tag>` passes only for the current tag,
`If-None-Match: *` only for an absent object, GET + `If-None-Match: <tag>` is 304 exactly for the
current tag.  All core Lean.
-/
set_option linter.unusedSimpArgs false

namespace Galene.Props.C18Etag
open Galene.Etag

/-- an entity-tag as written: `"…"` or `W/"…"` with only etagc bytes between the quotes -/
def IsTag (t : Str) : Prop :=
  ∃ body : Str, (∀ c ∈ body, etagc c = true) ∧ (t = '"' :: body ++ ['"'] ∨ t = 'W' :: '/' :: '"' :: body ++ ['"'])

/-- separators and entity-tags `ts`, then `rest` -/
inductive ListPrefix : List Str → Str → Str → Prop
  | nil (h : Str) : ListPrefix [] h h
  | sep {c : Char} {ts : List Str} {h rest : Str} :
      (isOWS c = true ∨ c = ',') → ListPrefix ts h rest → ListPrefix ts (c :: h) rest
  | tag {t : Str} {ts : List Str} {h rest : Str} :
      IsTag t → ListPrefix ts h rest → ListPrefix (t :: ts) (t ++ h) rest

/-- the reading of "tag `e` ("" = no such object) matches the header value `h`" -/
def Matches (e h : Str) : Prop :=
  h ≠ [] ∧ (h = e ∨ ∃ ts rest, ListPrefix ts h rest ∧ (e ∈ ts ∨ (e ≠ [] ∧ rest.head? = some '*')))

/-! ### scanETag -/

theorem etagc_quote : etagc '"' = false := by decide

theorem scanBody_append (body r : Str) (hb : ∀ c ∈ body, etagc c = true) : ∀ acc : Str,
    scanBody (body ++ '"' :: r) acc = some (acc.reverse ++ body ++ ['"'], r) := by
  induction body with
  | nil => intro acc; simp [scanBody, etagc_quote]
  | cons c body ih =>
    intro acc
    have hc : etagc c = true := hb c (by simp)
    simp only [List.cons_append, scanBody, hc, if_true]
    rw [ih (fun x hx => hb x (List.mem_cons_of_mem _ hx))]
    simp

theorem scanBody_sound : ∀ (s acc b r : Str), scanBody s acc = some (b, r) →
    ∃ body : Str, (∀ c ∈ body, etagc c = true) ∧ s = body ++ '"' :: r ∧ b = acc.reverse ++ body ++ ['"'] := by
  intro s
  induction s with
  | nil => intro acc b r h; simp [scanBody] at h
  | cons c t ih =>
    intro acc b r h
    simp only [scanBody] at h
    split at h
    · rename_i hc
      obtain ⟨body, h1, h2, h3⟩ := ih _ _ _ h
      refine ⟨c :: body, ?_, by simp [h2], by simp [h3]⟩
      intro x hx
      rcases List.mem_cons.mp hx with rfl | hx
      · exact hc
      · exact h1 x hx
    · split at h
      · rename_i hq
        simp only [Option.some.injEq, Prod.mk.injEq] at h
        subst hq
        exact ⟨[], by simp, by simp [h.2], by simp [← h.1]⟩
      · simp at h

theorem trimLeft_of_head {c : Char} {t : Str} (h : isOWS c = false) : trimLeft (c :: t) = c :: t := by
  simp [trimLeft, List.dropWhile_cons, h]

theorem trimLeft_idem (s : Str) : trimLeft (trimLeft s) = trimLeft s := by
  induction s with
  | nil => rfl
  | cons c t ih =>
    by_cases hc : isOWS c = true
    · have : trimLeft (c :: t) = trimLeft t := by simp [trimLeft, List.dropWhile_cons, hc]
      rw [this, ih]
    · have hc' : isOWS c = false := by simpa using hc
      rw [trimLeft_of_head hc', trimLeft_of_head hc']

theorem scanETag_trim (s : Str) : scanETag (trimLeft s) = scanETag s := by
  unfold scanETag; rw [trimLeft_idem]

/-- on a string that starts with an entity-tag, `scanETag` returns that tag and the text after it -/
theorem scanETag_tag {t : Str} (ht : IsTag t) (r : Str) : scanETag (t ++ r) = (t, r) := by
  obtain ⟨body, hb, h | h⟩ := ht
  · subst h
    have htr : trimLeft (('"' :: body ++ ['"']) ++ r) = '"' :: (body ++ '"' :: r) := by
      simp [trimLeft, List.dropWhile_cons, isOWS]
    unfold scanETag
    simp only [htr]
    have hp : (['W', '/'] : Str).isPrefixOf ('"' :: (body ++ '"' :: r)) = false := by simp [List.isPrefixOf]
    simp only [hp, Bool.false_eq_true, if_false, List.drop_zero, List.head?_cons, List.drop_one, List.tail_cons,
      List.length_cons, List.length_append, ne_eq, not_true_eq_false, or_false]
    rw [if_neg (by omega), scanBody_append body r hb []]
    rfl
  · subst h
    have htr : trimLeft (('W' :: '/' :: '"' :: body ++ ['"']) ++ r) = 'W' :: '/' :: '"' :: (body ++ '"' :: r) := by
      simp [trimLeft, List.dropWhile_cons, isOWS]
    unfold scanETag
    simp only [htr]
    have hp : (['W', '/'] : Str).isPrefixOf ('W' :: '/' :: '"' :: (body ++ '"' :: r)) = true := by simp [List.isPrefixOf]
    simp only [hp, if_true, List.drop_succ_cons, List.drop_zero, List.head?_cons, List.drop_one, List.tail_cons,
      List.length_cons, List.length_append, ne_eq, not_true_eq_false, or_false]
    rw [if_neg (by omega), scanBody_append body r hb []]
    rfl

/-- whatever `scanETag` returns with a non-empty first component is an entity-tag at the head of the
(left-trimmed) string, followed by exactly the returned remainder -/
theorem scanETag_sound {s e r : Str} (h : scanETag s = (e, r)) (he : e ≠ []) : IsTag e ∧ trimLeft s = e ++ r := by
  unfold scanETag at h
  simp only at h
  -- common tail: `u` is the text from the opening quote on, `w` the (possibly empty) weakness prefix
  have key : ∀ (w u : Str), trimLeft s = w ++ u → (w = [] ∨ w = ['W', '/']) →
      ¬ (u.length < 2 ∨ u.head? ≠ some '"') →
      (match scanBody (u.drop 1) [] with
        | some (body, remain) => (w ++ u.take 1 ++ body, remain)
        | none => (([], []) : Str × Str)) = (e, r) → IsTag e ∧ trimLeft s = e ++ r := by
    intro w u hts hw hc h
    simp only [not_or, Decidable.not_not] at hc
    cases u with
    | nil => simp at hc
    | cons q u =>
      simp only [List.head?_cons, Option.some.injEq] at hc
      have hq := hc.2; subst hq
      simp only [List.drop_one, List.tail_cons, List.take_succ_cons, List.take_zero] at h
      cases hsb : scanBody u [] with
      | none => rw [hsb] at h; simp only [Prod.mk.injEq] at h; exact absurd h.1.symm he
      | some pr =>
        obtain ⟨body, remain⟩ := pr
        rw [hsb] at h
        simp only [Prod.mk.injEq] at h
        obtain ⟨b, hb1, hb2, hb3⟩ := scanBody_sound _ _ _ _ hsb
        simp only [List.reverse_nil, List.nil_append] at hb3
        refine ⟨⟨b, hb1, ?_⟩, ?_⟩
        · rcases hw with rfl | rfl
          · left; rw [← h.1, hb3]; simp
          · right; rw [← h.1, hb3]; simp
        · rw [hts, ← h.1, ← h.2, hb3, hb2]; simp
  by_cases hw : (['W', '/'] : Str).isPrefixOf (trimLeft s) = true
  · simp only [hw, if_true] at h
    obtain ⟨u, hu⟩ : ∃ u, trimLeft s = 'W' :: '/' :: u := by
      cases hts : trimLeft s with
      | nil => rw [hts] at hw; simp [List.isPrefixOf] at hw
      | cons a t1 =>
        cases t1 with
        | nil => rw [hts] at hw; simp [List.isPrefixOf] at hw
        | cons b t2 =>
          rw [hts] at hw
          simp only [List.isPrefixOf, Bool.and_eq_true, beq_iff_eq, List.isPrefixOf_nil_left, and_true] at hw
          exact ⟨t2, by rw [hw.1, hw.2]⟩
    rw [hu] at h
    simp only [List.drop_succ_cons, List.drop_zero, List.take_succ_cons] at h
    by_cases hc : u.length < 2 ∨ u.head? ≠ some '"'
    · rw [if_pos hc] at h; simp only [Prod.mk.injEq] at h; exact absurd h.1.symm he
    · rw [if_neg hc] at h
      exact key ['W', '/'] u hu (Or.inr rfl) hc h
  · have hw' : (['W', '/'] : Str).isPrefixOf (trimLeft s) = false := Bool.eq_false_iff.2 hw
    simp only [hw', Bool.false_eq_true, if_false, List.drop_zero, Nat.zero_add] at h
    by_cases hc : (trimLeft s).length < 2 ∨ (trimLeft s).head? ≠ some '"'
    · rw [if_pos hc] at h; simp only [Prod.mk.injEq] at h; exact absurd h.1.symm he
    · rw [if_neg hc] at h
      exact key [] (trimLeft s) rfl (Or.inl rfl) hc h

theorem scanETag_fst_nil_snd (s : Str) (h : (scanETag s).1 = []) : scanETag s = ([], []) := by
  unfold scanETag at h ⊢
  simp only at h ⊢
  generalize (if (['W', '/'] : Str).isPrefixOf (trimLeft s) = true then 2 else 0) = st at h ⊢
  by_cases hc : (List.drop st (trimLeft s)).length < 2 ∨ (List.drop st (trimLeft s)).head? ≠ some '"'
  · rw [if_pos hc]
  · rw [if_neg hc] at h ⊢
    cases hsb : scanBody (List.drop 1 (List.drop st (trimLeft s))) [] with
    | none => rfl
    | some pr =>
      obtain ⟨body, remain⟩ := pr
      rw [hsb] at h
      simp only at h
      obtain ⟨b, _, _, hb3⟩ := scanBody_sound _ _ _ _ hsb
      rw [hb3] at h
      simp at h

/-- **C18_scanETag**: for every string `s`, either the left-trimmed `s` starts with an entity-tag
`t` and `scanETag s = (t, text after t)`, or it does not and `scanETag s = ("", "")`. -/
theorem C18_scanETag (s : Str) :
    (∃ t r, IsTag t ∧ trimLeft s = t ++ r ∧ scanETag s = (t, r)) ∨
    ((¬ ∃ t r, IsTag t ∧ trimLeft s = t ++ r) ∧ scanETag s = ([], [])) := by
  by_cases h : (scanETag s).1 = []
  · right
    refine ⟨?_, scanETag_fst_nil_snd s h⟩
    rintro ⟨t, r, ht, hs⟩
    have := scanETag_tag ht r
    rw [← hs, scanETag_trim] at this
    rw [this] at h
    obtain ⟨body, _, h1 | h1⟩ := ht <;> simp [h1] at h
  · left
    have := scanETag_sound (s := s) (e := (scanETag s).1) (r := (scanETag s).2) rfl h
    exact ⟨_, _, this.1, this.2, rfl⟩

/-! ### etagMatch -/

theorem isTag_shape {t : Str} (ht : IsTag t) :
    ∃ c u, t = c :: u ∧ isOWS c = false ∧ c ≠ ',' ∧ c ≠ '*' ∧ 2 ≤ t.length := by
  obtain ⟨body, _, h | h⟩ := ht
  · exact ⟨'"', body ++ ['"'], h, by decide, by decide, by decide, by rw [h]; simp⟩
  · exact ⟨'W', '/' :: '"' :: body ++ ['"'], h, by decide, by decide, by decide, by rw [h]; simp⟩

theorem trimLeft_ows {c : Char} (hc : isOWS c = true) (h : Str) : trimLeft (c :: h) = trimLeft h := by
  simp [trimLeft, List.dropWhile_cons, hc]

theorem etagLoop_ows (e : Str) (fuel : Nat) {c : Char} (hc : isOWS c = true) (h : Str) :
    etagLoop e (fuel + 1) (c :: h) = etagLoop e (fuel + 1) h := by
  simp only [etagLoop, trimLeft_ows hc]

theorem listPrefix_trim {ts : List Str} {rest : Str} : ∀ h : Str, ListPrefix ts (trimLeft h) rest → ListPrefix ts h rest := by
  intro h
  induction h with
  | nil => intro hp; exact hp
  | cons c t ih =>
    intro hp
    by_cases hc : isOWS c = true
    · rw [trimLeft_ows hc] at hp
      exact ListPrefix.sep (Or.inl hc) (ih hp)
    · rw [trimLeft_of_head (by simpa using hc)] at hp
      exact hp

/-- completeness of the loop: a tag listed in a well-formed prefix (or a `*` reached while the object
exists) is found, with any fuel above the header length -/
theorem etagLoop_complete {e : Str} {ts : List Str} {h rest : Str} (hp : ListPrefix ts h rest) :
    (e ∈ ts ∨ (e ≠ [] ∧ rest.head? = some '*')) → ∀ fuel, h.length < fuel → etagLoop e fuel h = true := by
  induction hp with
  | nil h =>
    intro hm fuel hf
    rcases hm with hm | ⟨he, hs⟩
    · simp at hm
    · cases h with
      | nil => simp at hs
      | cons c t =>
        simp only [List.head?_cons, Option.some.injEq] at hs
        subst hs
        cases fuel with
        | zero => omega
        | succ f =>
          simp only [etagLoop, trimLeft_of_head (c := '*') (by decide)]
          simp [he]
  | @sep c ts h rest hc _ ih =>
    intro hm fuel hf
    cases fuel with
    | zero => omega
    | succ f =>
      simp only [List.length_cons] at hf
      by_cases hw : isOWS c = true
      · rw [etagLoop_ows e f hw]; exact ih hm (f + 1) (by omega)
      · have hcomma : c = ',' := by rcases hc with hc | hc; exact absurd hc hw; exact hc
        subst hcomma
        simp only [etagLoop, trimLeft_of_head (c := ',') (by decide), if_true]
        exact ih hm f (by omega)
  | @tag t ts h rest ht _ ih =>
    intro hm fuel hf
    obtain ⟨c, u, htc, h1, h2, h3, h4⟩ := isTag_shape ht
    cases fuel with
    | zero => omega
    | succ f =>
      have hsc : scanETag (c :: (u ++ h)) = (t, h) := by
        have := scanETag_tag ht h
        rw [htc] at this ⊢
        simpa using this
      simp only [List.length_append] at hf
      rw [htc, List.cons_append]
      simp only [etagLoop, trimLeft_of_head h1, h2, h3, if_false, hsc]
      have htn : t ≠ [] := by rw [htc]; simp
      simp only [htn, if_false]
      by_cases hte : t = e
      · simp [hte]
      · simp only [hte, if_false]
        apply ih _ f (by omega)
        rcases hm with hm | hm
        · rcases List.mem_cons.mp hm with hm | hm
          · exact absurd hm.symm hte
          · exact Or.inl hm
        · exact Or.inr hm

/-- soundness of the loop: it answers true only for a tag listed in a well-formed prefix, or at a `*`
for an existing object -/
theorem etagLoop_sound {e : Str} : ∀ (fuel : Nat) (h : Str), etagLoop e fuel h = true →
    ∃ ts rest, ListPrefix ts h rest ∧ (e ∈ ts ∨ (e ≠ [] ∧ rest.head? = some '*')) := by
  intro fuel
  induction fuel with
  | zero => intro h hl; simp [etagLoop] at hl
  | succ f ih =>
    intro h hl
    simp only [etagLoop] at hl
    cases hts : trimLeft h with
    | nil => rw [hts] at hl; simp at hl
    | cons c t =>
      rw [hts] at hl
      simp only at hl
      by_cases hcomma : c = ','
      · subst hcomma
        simp only [if_true] at hl
        obtain ⟨ts, rest, hp, hm⟩ := ih t hl
        exact ⟨ts, rest, listPrefix_trim h (hts ▸ ListPrefix.sep (Or.inr rfl) hp), hm⟩
      · simp only [hcomma, if_false] at hl
        by_cases hstar : c = '*'
        · subst hstar
          simp only [if_true, decide_eq_true_eq] at hl
          exact ⟨[], '*' :: t, listPrefix_trim h (hts ▸ ListPrefix.nil _), Or.inr ⟨hl, rfl⟩⟩
        · simp only [hstar, if_false] at hl
          generalize hsc : scanETag (c :: t) = pr at hl
          obtain ⟨e', remain⟩ := pr
          simp only at hl
          by_cases he' : e' = []
          · simp [he'] at hl
          · simp only [he', if_false] at hl
            have hsnd := scanETag_sound hsc he'
            have htrim : trimLeft (c :: t) = c :: t := by rw [← hts, trimLeft_idem]
            rw [htrim] at hsnd
            by_cases hee : e' = e
            · refine ⟨[e'], remain, listPrefix_trim h ?_, Or.inl (by simp [hee])⟩
              rw [hts, hsnd.2]
              exact ListPrefix.tag hsnd.1 (ListPrefix.nil _)
            · simp only [hee, if_false] at hl
              obtain ⟨ts, rest, hp, hm⟩ := ih remain hl
              refine ⟨e' :: ts, rest, listPrefix_trim h ?_, ?_⟩
              · rw [hts, hsnd.2]; exact ListPrefix.tag hsnd.1 hp
              · rcases hm with hm | hm
                · exact Or.inl (List.mem_cons_of_mem _ hm)
                · exact Or.inr hm

/-- the fuel of the model's loop is only a termination device -/
theorem etagLoop_fuel (e h : Str) (f1 f2 : Nat) (h1 : h.length < f1) (h2 : h.length < f2) :
    etagLoop e f1 h = etagLoop e f2 h := by
  have key : ∀ a b, h.length < a → h.length < b → etagLoop e a h = true → etagLoop e b h = true := by
    intro a b _ hb hl
    obtain ⟨ts, rest, hp, hm⟩ := etagLoop_sound a h hl
    exact etagLoop_complete hp hm b hb
  cases hx : etagLoop e f1 h with
  | true => exact (key f1 f2 h1 h2 hx).symm
  | false =>
    cases hy : etagLoop e f2 h with
    | false => rfl
    | true => rw [key f2 f1 h2 h1 hy] at hx; exact absurd hx (by simp)

/-- **C18_etagMatch_spec**: `etagMatch e h` is true exactly when `h` is non-empty and either equals
`e` byte for byte, or a well-formed prefix of the comma list `h` contains `e`, or reaches `*` while
the object exists (`e ≠ ""`).  In particular the empty tag (no object) matches nothing, not even `*`. -/
theorem C18_etagMatch_spec (e h : Str) : etagMatch e h = true ↔ Matches e h := by
  unfold etagMatch Matches
  by_cases hn : h = []
  · simp [hn]
  · simp only [hn, if_false, ne_eq, not_false_eq_true, true_and]
    by_cases he : h = e
    · simp [he]
    · simp only [he, if_false, false_or]
      constructor
      · exact etagLoop_sound _ h
      · rintro ⟨ts, rest, hp, hm⟩
        exact etagLoop_complete hp hm _ (by omega)

theorem listPrefix_nil_not_mem {ts : List Str} {h rest : Str} (hp : ListPrefix ts h rest) : [] ∉ ts := by
  induction hp with
  | nil h => simp
  | sep _ _ ih => exact ih
  | @tag t ts h rest ht _ ih =>
    intro hm
    rcases List.mem_cons.mp hm with hm | hm
    · obtain ⟨c, u, htc, _⟩ := isTag_shape ht
      rw [htc] at hm; simp at hm
    · exact ih hm

/-- no object (`e = ""`): nothing matches -/
theorem C18_no_object_never_matches (h : Str) : etagMatch [] h = false := by
  cases hx : etagMatch [] h with
  | false => rfl
  | true =>
    obtain ⟨hn, hh | ⟨ts, rest, hp, hm | hm⟩⟩ := (C18_etagMatch_spec [] h).mp hx
    · exact absurd hh hn
    · exact absurd hm (listPrefix_nil_not_mem hp)
    · exact absurd rfl hm.1

/-- a header that is exactly one entity-tag matches exactly that tag -/
theorem etagMatch_single_tag {t : Str} (ht : IsTag t) (e : Str) : etagMatch e t = true ↔ e = t := by
  obtain ⟨c, u, htc, h1, h2, h3, h4⟩ := isTag_shape ht
  have htn : t ≠ [] := by rw [htc]; simp
  unfold etagMatch
  simp only [htn, if_false]
  by_cases hte : t = e
  · simp [hte]
  · simp only [hte, if_false]
    have hsc : scanETag (c :: u) = (t, []) := by
      have := scanETag_tag ht []
      rw [htc] at this ⊢
      simpa using this
    have : etagLoop e (t.length + 1) t = false := by
      rw [htc]
      simp only [etagLoop, trimLeft_of_head h1, h2, h3, if_false, hsc]
      rw [← htc]
      simp only [htn, hte, if_false]
      rw [htc]
      simp [etagLoop, trimLeft]
    rw [this]
    simp only [Bool.false_eq_true, false_iff]
    exact fun h => hte h.symm

/-- a header that is exactly `*` matches exactly when the object exists -/
theorem etagMatch_star (e : Str) : etagMatch e ['*'] = true ↔ e ≠ [] := by
  unfold etagMatch
  by_cases he : ['*'] = e
  · subst he; simp
  · simp only [List.cons_ne_nil, if_false, he]
    simp [etagLoop, trimLeft, isOWS]

/-! ### checkPreconditions -/

def isGetOrHead (m : Str) : Prop := m = "GET".toList ∨ m = "HEAD".toList

/-- **C18_preconditions (412)**: the answer is 412 Precondition Failed exactly when If-Match is
present and does not match, or else If-None-Match is present and matches and the method is neither
GET nor HEAD. -/
theorem C18_preconditions_412 (m e im inm : Str) :
    checkPreconditions m e im inm = .preconditionFailed ↔
      (im ≠ [] ∧ ¬ Matches e im) ∨
      ((im = [] ∨ Matches e im) ∧ inm ≠ [] ∧ Matches e inm ∧ ¬ isGetOrHead m) := by
  unfold checkPreconditions isGetOrHead
  simp only [← C18_etagMatch_spec]
  by_cases h1 : im = [] <;> by_cases h2 : etagMatch e im = true <;> by_cases h3 : inm = [] <;>
    by_cases h4 : etagMatch e inm = true <;> by_cases h5 : m = ['G', 'E', 'T'] <;>
    by_cases h6 : m = ['H', 'E', 'A', 'D'] <;> simp [h1, h2, h3, h4, h5, h6]

/-- **C18_preconditions (304)**: the answer is 304 Not Modified exactly when If-Match is absent or
matches, If-None-Match is present and matches, and the method is GET or HEAD. -/
theorem C18_preconditions_304 (m e im inm : Str) :
    checkPreconditions m e im inm = .notModified ↔
      (im = [] ∨ Matches e im) ∧ inm ≠ [] ∧ Matches e inm ∧ isGetOrHead m := by
  unfold checkPreconditions isGetOrHead
  simp only [← C18_etagMatch_spec]
  by_cases h1 : im = [] <;> by_cases h2 : etagMatch e im = true <;> by_cases h3 : inm = [] <;>
    by_cases h4 : etagMatch e inm = true <;> by_cases h5 : m = ['G', 'E', 'T'] <;>
    by_cases h6 : m = ['H', 'E', 'A', 'D'] <;> simp [h1, h2, h3, h4, h5, h6]

/-- **C18_preconditions (continue)**: the handler goes on exactly when If-Match is absent or matches
and If-None-Match is absent or does not match. -/
theorem C18_preconditions_continue (m e im inm : Str) :
    checkPreconditions m e im inm = .continue_ ↔
      (im = [] ∨ Matches e im) ∧ (inm = [] ∨ ¬ Matches e inm) := by
  unfold checkPreconditions
  simp only [← C18_etagMatch_spec]
  by_cases h1 : im = [] <;> by_cases h2 : etagMatch e im = true <;> by_cases h3 : inm = [] <;>
    by_cases h4 : etagMatch e inm = true <;> by_cases h5 : m = ['G', 'E', 'T'] <;>
    by_cases h6 : m = ['H', 'E', 'A', 'D'] <;> simp [h1, h2, h3, h4, h5, h6]

/-- a write (or any request) carrying `If-Match: <one tag>` and no If-None-Match gets past the
preconditions exactly when the current tag IS that tag (`e = ""`, no object, never passes) -/
theorem C18_if_match_single {t : Str} (ht : IsTag t) (m e : Str) :
    checkPreconditions m e t [] = .continue_ ↔ e = t := by
  have htn : t ≠ [] := by obtain ⟨c, u, htc, _⟩ := isTag_shape ht; rw [htc]; simp
  rw [C18_preconditions_continue]
  simp only [← C18_etagMatch_spec, etagMatch_single_tag ht]
  simp [htn]

/-- a request carrying `If-None-Match: *` (and no If-Match) gets past the preconditions exactly when
the object does not exist -/
theorem C18_if_none_match_star (m e : Str) :
    checkPreconditions m e [] ['*'] = .continue_ ↔ e = [] := by
  rw [C18_preconditions_continue]
  simp only [← C18_etagMatch_spec, etagMatch_star]
  simp

/-- a GET carrying `If-None-Match: <one tag>` is answered 304 exactly when that tag is current -/
theorem C18_get_if_none_match_single {t : Str} (ht : IsTag t) (e : Str) :
    checkPreconditions "GET".toList e [] t = .notModified ↔ e = t := by
  have htn : t ≠ [] := by obtain ⟨c, u, htc, _⟩ := isTag_shape ht; rw [htc]; simp
  rw [C18_preconditions_304]
  simp only [← C18_etagMatch_spec, etagMatch_single_tag ht]
  simp [htn, isGetOrHead]

/-! ### non-vacuity -/

example : IsTag "\"12-34\"".toList := ⟨"12-34".toList, by decide, Or.inl (by decide)⟩
example : scanETag " W/\"a\", \"b\"".toList = ("W/\"a\"".toList, ", \"b\"".toList) := by decide
example : scanETag "\"a b\"".toList = ([], []) := by decide
example : etagMatch "\"b\"".toList "\"a\" , \"b\"".toList = true := by decide
example : etagMatch "\"b\"".toList "\"a\" x \"b\"".toList = false := by decide
example : etagMatch "\"a\"".toList "W/\"a\"".toList = false := by decide
example : etagMatch "\"a\"".toList "\"b\", *".toList = true := by decide
example : etagMatch [] "*".toList = false := by decide
example : Matches "\"b\"".toList "\"a\",\"b\"".toList :=
  ⟨by decide, Or.inr ⟨["\"a\"".toList, "\"b\"".toList], [],
    ListPrefix.tag ⟨['a'], by decide, Or.inl rfl⟩
      (ListPrefix.sep (Or.inr rfl) (ListPrefix.tag ⟨['b'], by decide, Or.inl rfl⟩ (ListPrefix.nil []))),
    Or.inl (by decide)⟩⟩
example : checkPreconditions "PUT".toList "\"2\"".toList "\"1\"".toList [] = .preconditionFailed := by decide
example : checkPreconditions "PUT".toList "\"1\"".toList "\"1\"".toList [] = .continue_ := by decide
example : checkPreconditions "PUT".toList "\"1\"".toList [] "*".toList = .preconditionFailed := by decide
example : checkPreconditions "PUT".toList [] [] "*".toList = .continue_ := by decide
example : checkPreconditions "GET".toList "\"1\"".toList [] "\"0\", \"1\"".toList = .notModified := by decide
example : checkPreconditions "GET".toList "\"1\"".toList "\"0\"".toList "\"1\"".toList = .preconditionFailed := by decide

end Galene.Props.C18Etag
