import GaleneVerif.Lemmas.SigWorldChange
/-
C14 on the concrete signalling model — every member's user list converges to the membership.

Props/C14.lean proves convergence on the abstract announcement machine (Model/Membership.lean).
This file proves it on the executable world model itself (Model/Signalling.lean, the model that is
differential-tested against rtpconn/webclient.go and group/group.go), for all schedules of

* client messages handled by `handleMsg` — every message except `offer`, the group actions
  `record`/`maketoken`/`edittoken` and the user actions that change attributes (`Msg.covered`);
  in particular **every** `join` and `leave` message with any fields and any outcome (wrong
  password, unknown group, already joined, not joined, locked, full, duplicate id, redirect,
  autolock, autokick …), chat, lock/unlock, group setdata, clearchat, kick, identify, request,
  close/abort/ice, ping/pong, malformed and spoofed messages (which close the connection);
* iterations of any client's action loop (`stepAction`, including the kick action, which runs
  the close sequence);
* connection drops (`dropConn`, a copy of what Engine/Sig.lean does for the op `drop`).

Main results
* `C14_world_inv`                 the invariant `WInv` (Lemmas/SigWorldBasic.lean) holds along every such run;
* `C14_world_converges_partial`   hence in every quiescent world every web member's folded user list is the membership
  (`C14_world_converges_client`: already as soon as that member's own queue is empty; `C14_world_converges_entry`: entry by entry);
* `WInv_init`, `WInv_addCfg`, `WInv_addClient`   the invariant holds initially and is kept by the creation of
  group descriptions and of connections;
* `C14_world_setdata_sequential`  (the sequential special case of a change) a `useraction/setdata` of a member whose
  broadcast is not parked by a blocking mock also preserves the invariant;
* `C14_world_converges_false_overtake`  with a parked broadcast it does not: P17 as a run of the world model.

*Partial* because the step language leaves out the attribute changes announced from a detached
goroutine (`useraction` op/unop/present/unpresent/shutup/unshutup and `setdata` → `broadcastChange`):
with them the statement is false (P17; `Galene.Membership.C14_converges_false_overtake`,
`C14_converges_false_ghost` in Props/C14.lean).  Also left out, for reasons that have nothing to do with
C14: `offer` (the model's `publish` effect is about C07/C12), `record` (the recorder's id is the model's
`fresh` counter, which nothing in the model keeps distinct from client-chosen ids) and
`maketoken`/`edittoken` (they change the token store).
-/
namespace Galene.Sig

/-! ### the step language -/

/-- one step of a schedule -/
inductive WStep where
  /-- client `i`'s reader handles message `m` -/
  | msg (i : Nat) (m : Msg)
  /-- one iteration of client `i`'s action loop -/
  | act (i : Nat)
  /-- client `i`'s websocket is closed -/
  | drop (i : Nat)

def WStep.ok : WStep → Prop
  | .msg _ m => m.covered
  | _ => True

instance (s : WStep) : Decidable s.ok := by cases s <;> unfold WStep.ok <;> infer_instance

/-- the connection is closed by the peer: a **copy** of what Engine/Sig.lean does for the op `drop`
(`observe st (finish w i .ws).flush "ok"`; the engine refuses the op for a missing or dead
connection, here it is allowed for any `i`) -/
def dropConn (w : World) (i : Nat) : World := (finish w i .ws).flush

def wstep (w : World) : WStep → World
  | .msg i m => handleMsg w i m
  | .act i => (stepAction w i).1
  | .drop i => dropConn w i

def wrun (w : World) (steps : List WStep) : World := steps.foldl wstep w

/-- all action queues are drained -/
def Quiescent (w : World) : Prop := ∀ c ∈ w.clients, c.queue = []

instance (w : World) : Decidable (Quiescent w) := by unfold Quiescent; infer_instance

theorem wstep_inv (w : World) (s : WStep) (hs : s.ok) (hi : WInv w) : WInv (wstep w s) := by
  cases s with
  | msg i m => exact handleMsg_inv w i m hs hi
  | act i => exact stepAction_inv w i hi
  | drop i => exact (finish_inv w i .ws hi).flush

/-- **C14_world_inv.**  The invariant holds along every run of covered steps. -/
theorem C14_world_inv (steps : List WStep) (hs : ∀ s ∈ steps, s.ok) (w0 : World) (h0 : WInv w0) :
    WInv (wrun w0 steps) := by
  induction steps generalizing w0 with
  | nil => exact h0
  | cons s r ih =>
    simp only [wrun, List.foldl_cons]
    exact ih (fun s' h' => hs s' (List.mem_cons_of_mem _ h')) _ (wstep_inv w0 s (hs s List.mem_cons_self) h0)

/-- the membership as a finite map, spelled out: the attributes of the first member with that id
(ids are unique by the invariant) -/
theorem truth_eq_find (w : World) (g : String) :
    truth w g = fun id => ((mem w g).find? (fun r => w.refId r = id)).map (attrOf w) := by
  funext id
  unfold truth
  induction mem w g with
  | nil => rfl
  | cons r l ih =>
    simp only [List.map_cons, truthL, List.find?_cons]
    by_cases h : id = w.refId r
    · simp [h]
    · have : ¬ (w.refId r = id) := fun e => h e.symm
      simp [h, this, ih]

/-- **C14_world_converges_client** (the per-connection form, slightly stronger than
`C14_world_converges_partial`).  After any run of covered steps from a world satisfying `WInv`: every web
client `i` in the member list of a group `g` is a connection whose `group` field is `g`; the list it is heading
for (`pview`: what has been written to it, then what is queued for it) is the membership of `g`; and as
soon as **its own** queue is empty, the fold of the `user` messages written to it since the last
`joined`/`join` for `g` is exactly the membership of `g`. -/
theorem C14_world_converges_client (w0 : World) (h0 : WInv w0) (steps : List WStep) (hs : ∀ s ∈ steps, s.ok)
    (g : String) (gr : Group) (i : Nat) (hg : (wrun w0 steps).group? g = some gr) (hm : Ref.web i ∈ gr.members) :
    ∃ c, (wrun w0 steps).clients[i]? = some c ∧ c.group = some g ∧
      pview (wrun w0 steps) i g = truth (wrun w0 steps) g ∧
      (c.queue = [] → userFold (sinceJoin g (written (wrun w0 steps) i)) = truth (wrun w0 steps) g) := by
  have hi := C14_world_inv steps hs w0 h0
  have hm' : Ref.web i ∈ mem (wrun w0 steps) g := by rw [mem_of_group? hg]; exact hm
  obtain ⟨c, hc, hcg⟩ := hi.memb g i hm'
  refine ⟨c, hc, hcg, hi.view g i hm', ?_⟩
  intro hq
  have hv := hi.view g i hm'
  unfold pview at hv
  rw [hc] at hv
  simp only [] at hv
  rw [hq] at hv
  rw [← viewOf_eq_sinceJoin]
  exact hv

/-- **C14_world_converges_partial.**  Let `w0` be any world satisfying the invariant `WInv` (for
instance the empty world, or any world reached from it by creating group descriptions and
connections: `WInv_init`, `WInv_addCfg`, `WInv_addClient`), and let `steps` be any schedule of
covered client messages (all joins and leaves with all outcomes, chat, lock, kick, …: `Msg.covered`),
action-loop iterations of any client, and connection drops.  Then the final world has not crashed,
and if it is quiescent (every action queue is empty) then for every group `g` and every web
client `i` in `g`'s member list: `i` is a connection whose `group` field is `g`, and folding, the way
static/protocol.js does, the `user` messages written to `i` since the last `joined`/`join` message
for `g` gives exactly the membership of `g`: every member's id mapped to its current username,
permissions and data — no ghost entry, no missing entry, no stale attribute.

*Partial*: the step language leaves out the messages that change permissions or a user's data
(`useraction` with kind op/unop/present/unpresent/shutup/unshutup/setdata), because those are
announced by a detached goroutine and the full statement is false for them (P17, an unrepaired
defect of the code; counterexamples `C14_world_converges_false_overtake` below on this model,
`C14_converges_false_overtake`/`_ghost` in Props/C14.lean on the abstract one), and
`offer`, `record`, `maketoken`, `edittoken` (unrelated to the user lists).  The invariant also says
that no permission-change action is queued in `w0`, and that the repairs P12 and P18 are in
(`currentFixes` has them). -/
theorem C14_world_converges_partial (w0 : World) (h0 : WInv w0) (steps : List WStep) (hs : ∀ s ∈ steps, s.ok)
    (hq : Quiescent (wrun w0 steps)) :
    (wrun w0 steps).crashed = false ∧
    ∀ g gr i, (wrun w0 steps).group? g = some gr → Ref.web i ∈ gr.members →
      ∃ c, (wrun w0 steps).clients[i]? = some c ∧ c.group = some g ∧
        userFold (sinceJoin g (written (wrun w0 steps) i)) = truth (wrun w0 steps) g := by
  refine ⟨(C14_world_inv steps hs w0 h0).ok, ?_⟩
  intro g gr i hg hm
  obtain ⟨c, hc, hcg, _, hv⟩ := C14_world_converges_client w0 h0 steps hs g gr i hg hm
  exact ⟨c, hc, hcg, hv (hq c (List.mem_of_getElem? hc))⟩

/-- the same conclusion entry by entry: what client `i` shows for `id` is the first member of `g` with that id -/
theorem C14_world_converges_entry (w0 : World) (h0 : WInv w0) (steps : List WStep) (hs : ∀ s ∈ steps, s.ok)
    (hq : Quiescent (wrun w0 steps)) (g : String) (gr : Group) (i : Nat)
    (hg : (wrun w0 steps).group? g = some gr) (hm : Ref.web i ∈ gr.members) (id : String) :
    userFold (sinceJoin g (written (wrun w0 steps) i)) id =
      (gr.members.find? (fun r => (wrun w0 steps).refId r = id)).map (attrOf (wrun w0 steps)) := by
  obtain ⟨_, h⟩ := C14_world_converges_partial w0 h0 steps hs hq
  obtain ⟨c, _, _, hv⟩ := h g gr i hg hm
  rw [hv, truth_eq_find, mem_of_group? hg]

/-! ### the invariant holds initially -/

/-- a world without groups, tokens, mocks, pending actions: the state of the server after start-up
(group descriptions `cfgs` on disk, connections accepted but idle), with the repairs P12 and P18;
`ch` is the schedule choice for detached broadcasts, irrelevant to the invariant -/
theorem WInv_init' (cfgs : List GroupCfg) (clients : List Client) (fx : Fixes) (ch : Nat → Bool) (h12 : fx.p12 = true)
    (h18 : fx.p18 = true) (hq : ∀ c ∈ clients, c.queue = []) :
    WInv { cfgs := cfgs, clients := clients, fix := fx, choice := ch } := by
  have hmem : ∀ g, mem ({ cfgs := cfgs, clients := clients, fix := fx, choice := ch } : World) g = [] := fun g => rfl
  refine ⟨⟨h12, h18, rfl, ?_, ?_, ?_, ?_, ?_, ?_⟩, ?_⟩
  · intro g i hm; rw [hmem] at hm; cases hm
  · intro g; rw [hmem]; exact List.nodup_nil
  · intro i c hc a ha
    rw [hq c (List.mem_of_getElem? hc)] at ha
    cases ha
  · intro e he; cases he
  · intro g i c hm; rw [hmem] at hm; cases hm
  · intro t ht; cases ht
  · intro g i hm; rw [hmem] at hm; cases hm

theorem WInv_init (cfgs : List GroupCfg) (clients : List Client) (fx : Fixes) (h12 : fx.p12 = true)
    (h18 : fx.p18 = true) (hq : ∀ c ∈ clients, c.queue = []) :
    WInv { cfgs := cfgs, clients := clients, fix := fx } :=
  WInv_init' cfgs clients fx _ h12 h18 hq

/-- today's code (`currentFixes`) starts in the invariant -/
theorem WInv_empty : WInv {} := WInv_init [] [] currentFixes rfl rfl (by intro c hc; cases hc)

/-- a new group description (the engine's op `group`) -/
theorem WInv_addCfg (w : World) (hi : WInv w) (cfg : GroupCfg) : WInv { w with cfgs := w.cfgs ++ [cfg] } :=
  hi.neutral (Neutral.of_frame rfl rfl rfl ⟨[], by simp⟩ rfl rfl ⟨[], by simp, by simp⟩ (fun h => h))

/-- a new connection (the engine's op `client`): any id, no pending action -/
theorem WInv_addClient (w : World) (hi : WInv w) (c : Client) (hq : c.queue = []) :
    WInv { w with clients := w.clients ++ [c] } := by
  have hold : ∀ (j : Nat) (cj : Client), w.clients[j]? = some cj → (w.clients ++ [c])[j]? = some cj := by
    intro j cj h
    rw [List.getElem?_append_left (List.getElem?_eq_some_iff.mp h).1]
    exact h
  have hnew : ∀ (j : Nat) (cj : Client), (w.clients ++ [c])[j]? = some cj → w.clients[j]? = some cj ∨ cj = c := by
    intro j cj h
    by_cases hlt : j < w.clients.length
    · rw [List.getElem?_append_left hlt] at h; exact Or.inl h
    · rw [List.getElem?_append_right (by omega)] at h
      right
      cases hk : j - w.clients.length with
      | zero => rw [hk] at h; simpa using h.symm
      | succ k => rw [hk] at h; simp at h
  have hmem : ∀ g, mem { w with clients := w.clients ++ [c] } g = mem w g := fun g => rfl
  have href : ∀ g r, r ∈ mem w g → World.refId { w with clients := w.clients ++ [c] } r = w.refId r ∧
      attrOf { w with clients := w.clients ++ [c] } r = attrOf w r := by
    intro g r hr
    cases r with
    | web j =>
      obtain ⟨cj, hcj, _⟩ := hi.memb g j hr
      have h2 : ({ w with clients := w.clients ++ [c] } : World).clients[j]? = some cj := hold j cj hcj
      rw [refId_web _ j cj h2, refId_web w j cj hcj, attrOf_web _ j cj h2, attrOf_web w j cj hcj]
      exact ⟨rfl, rfl⟩
    | mock id => exact ⟨rfl, rfl⟩
    | disk id => exact ⟨rfl, rfl⟩
  refine ⟨⟨hi.p12, hi.p18, hi.ok, ?_, ?_, ?_, hi.dfr, ?_, hi.toksR⟩, ?_⟩
  · intro g j hm
    obtain ⟨cj, hcj, hg⟩ := hi.memb g j hm
    exact ⟨cj, hold j cj hcj, hg⟩
  · intro g
    rw [hmem, List.map_congr_left (fun r hr => (href g r hr).1)]
    exact hi.ids g
  · intro j cj hcj a ha
    rcases hnew j cj hcj with h | h
    · exact hi.tame j cj h a ha
    · rw [h, hq] at ha; cases ha
  · intro g j cj hm hcj
    obtain ⟨cj', hcj', _⟩ := hi.memb g j hm
    have := hold j cj' hcj'
    rw [show ({ w with clients := w.clients ++ [c] } : World).clients[j]? = (w.clients ++ [c])[j]? from rfl] at hcj
    rw [this] at hcj
    rw [← Option.some.inj hcj]
    exact hi.permsR g j cj' hm hcj'
  · intro g j hm
    obtain ⟨cj, hcj, _⟩ := hi.memb g j hm
    have ht : truth { w with clients := w.clients ++ [c] } g = truth w g :=
      truth_congr (hmem g) (fun r hr => href g r hr)
    rw [ht, ← hi.view g j hm]
    unfold pview
    rw [show ({ w with clients := w.clients ++ [c] } : World).clients[j]? = (w.clients ++ [c])[j]? from rfl,
      hold j cj hcj, hcj]
    rfl

/-! ### the sequential special case of a change -/

/-- **C14_world_setdata_sequential** (the sequential special case of an attribute change).  A
`useraction`/`setdata` message (a member replaces its own data) also preserves the invariant —
hence convergence — **provided its announcement is not detached from the step**: no mock member is
blocking, so `broadcastChange` (the model of the `go func(clients)` of the code) queues the `change`
event for every member before anything else happens.  Second added hypothesis: the connection is a
member of the group named by its `group` field (true of every reachable state; `WInv` only records
the converse).  Without the first hypothesis the statement is false: P17. -/
theorem C14_world_setdata_sequential (w : World) (i : Nat) (m : Msg) (ht : m.type = "useraction")
    (hk : m.kind = "setdata") (hi : WInv w)
    (hmemb : ∀ c g, w.clients[i]? = some c → c.group = some g → Ref.web i ∈ mem w g)
    (hnb : ∀ mk ∈ w.mocks, mk.block = false) : WInv (handleMsg w i m) := by
  unfold handleMsg
  obtain ⟨e, heq, he⟩ := handle_setdata (w.conn i) (w.env i) m ht hk
  rw [heq]
  simp only [List.foldl_cons, List.foldl_nil, hi.ok, Bool.false_eq_true, if_false]
  refine WInv.flush ?_
  rcases he with he | ⟨hg, d, rfl⟩
  · exact applyEffect_inv w i e he hi
  · cases hc : w.clients[i]? with
    | none => simp [World.conn, World.client?, hc] at hg
    | some c =>
      have hcg : (w.conn i).group = c.group := by simp [World.conn, World.client?, hc]
      rw [hcg] at hg
      obtain ⟨gn, hgn⟩ := Option.isSome_iff_exists.mp hg
      exact setOwnData_inv w i d c gn hi hc hgn (hmemb c gn hc hgn) hnb

/-! ### non-vacuity

Two groups, three connections.  alice joins g1; connection 1 first tries alice's name with a wrong
password (refused), then joins g1 as bob; carol joins g2; everybody drains its queue; bob leaves g1
and joins again as bobby **before** his own action loop has run (so his queue holds the `joined`/`leave`
of the first session, then the second session's events); the queues are drained again. -/

def exCfg (n : String) : GroupCfg :=
  { name := n, users := [{ name := "alice", pw := some "pw", perms := .role "op" }],
    wildcard := some { name := "", anyPw := true, perms := .role "present" } }

def exW0 : World := { cfgs := [exCfg "g1", exCfg "g2"], clients := [{ id := "c0" }, { id := "c1" }, { id := "c2" }] }

def exJoin (g u pw : String) : Msg := { type := "join", kind := "join", group := g, username := some u, password := pw }
def exLeave (g : String) : Msg := { type := "join", kind := "leave", group := g }

def exSteps : List WStep :=
  [.msg 0 (exJoin "g1" "alice" "pw"), .msg 1 (exJoin "g1" "alice" "wrong"), .msg 1 (exJoin "g1" "bob" ""),
   .msg 2 (exJoin "g2" "carol" ""),
   .act 0, .act 0, .act 0, .act 1, .act 1, .act 1, .act 2, .act 2,
   .msg 1 (exLeave "g1"), .msg 1 (exJoin "g1" "bobby" ""),
   .act 0, .act 0, .act 1, .act 1, .act 1, .act 1]

/-- the hypotheses of `C14_world_converges_partial` hold of this run -/
example : WInv exW0 ∧ (∀ s ∈ exSteps, s.ok) ∧ Quiescent (wrun exW0 exSteps) :=
  ⟨WInv_init _ _ currentFixes rfl rfl (by decide), by decide, by decide⟩

/-- and its conclusion is not trivial: the groups have members, the lists are not empty, bob's re-join
under another name is reflected, g2's member is unknown in g1 and conversely -/
example :
    let w := wrun exW0 exSteps
    w.groups.map (fun g => (g.name, g.members)) = [("g1", [.web 0, .web 1]), ("g2", [.web 2])] ∧
    ["c0", "c1", "c2"].map (userFold (sinceJoin "g1" (written w 0))) =
      [some ⟨some "alice", ["op", "present", "message", "caption", "token"], []⟩,
       some ⟨some "bobby", ["present", "message"], []⟩, none] ∧
    ["c0", "c1", "c2"].map (userFold (sinceJoin "g1" (written w 1))) =
      [some ⟨some "alice", ["op", "present", "message", "caption", "token"], []⟩,
       some ⟨some "bobby", ["present", "message"], []⟩, none] ∧
    ["c0", "c1", "c2"].map (userFold (sinceJoin "g2" (written w 2))) =
      [none, none, some ⟨some "carol", ["present", "message"], []⟩] ∧
    (written w 1).map (fun m => (m.type, m.kind)) =
      [("joined", "fail"), ("joined", "join"), ("user", "add"), ("user", "add"), ("joined", "leave"),
       ("joined", "join"), ("user", "add"), ("user", "add")] := by
  decide

/-- the theorem applied to the run -/
example : userFold (sinceJoin "g1" (written (wrun exW0 exSteps) 1)) = truth (wrun exW0 exSteps) "g1" := by
  obtain ⟨_, h⟩ := C14_world_converges_partial exW0 (WInv_init _ _ currentFixes rfl rfl (by decide)) exSteps
    (by decide) (by decide)
  have hm : (((wrun exW0 exSteps).group? "g1").map fun g => decide (Ref.web 1 ∈ g.members)) = some true := by decide
  cases hg : (wrun exW0 exSteps).group? "g1" with
  | none => rw [hg] at hm; cases hm
  | some gr =>
    rw [hg] at hm
    obtain ⟨c, _, _, hv⟩ := h "g1" gr 1 hg (by simpa using hm)
    exact hv

/-! ### the sequential change: non-vacuity; the detached change: a counterexample on the world model -/

def exSetData (id v : String) : Msg :=
  { type := "useraction", kind := "setdata", dest := id, value := .map [("k", .str v)] }

/-- alice and bob in g1, queues drained; the schedule choice `choice` parks every recipient of a
detached broadcast that meets a blocking mock (irrelevant as long as there is no mock) -/
def exW1 : World :=
  wrun { exW0 with choice := fun _ => false }
    [.msg 0 (exJoin "g1" "alice" "pw"), .msg 1 (exJoin "g1" "bob" ""), .act 0, .act 0, .act 0, .act 1, .act 1, .act 1]

theorem exW1_inv : WInv exW1 :=
  C14_world_inv _ (by decide) _
    (WInv_init' [exCfg "g1", exCfg "g2"] [{ id := "c0" }, { id := "c1" }, { id := "c2" }] currentFixes (fun _ => false)
      rfl rfl (by decide))

/-- `C14_world_setdata_sequential` applies to alice's `setdata` in `exW1` … -/
example : WInv (handleMsg exW1 0 (exSetData "c0" "one")) := by
  refine C14_world_setdata_sequential exW1 0 _ rfl rfl exW1_inv ?_ (by decide)
  intro c g hc hg
  have h : (exW1.clients[0]?).bind (·.group) = some "g1" := by decide
  rw [hc] at h
  simp only [Option.bind_some] at h
  rw [hg] at h
  cases h
  decide

/-- … and after the queues are drained bob's list shows the new data -/
example :
    let w := wrun (handleMsg exW1 0 (exSetData "c0" "one")) [.act 0, .act 1]
    Quiescent w ∧ (userFold (sinceJoin "g1" (written w 1)) "c0").map (·.data) = some [("k", .str "one")] ∧
      (truth w "g1" "c0").map (·.data) = some [("k", .str "one")] := by
  decide

/-- a **copy** of the success path of the engine's op `mock` followed by `block` (Engine/Sig.lean):
`group.AddClient(name, mock, System)` for a test client whose PushClient blocks -/
def mockJoin (w : World) (gn id : String) : World :=
  match addGroup w gn with
  | (w, .error _) => w.flush
  | (w, .ok ()) =>
    match w.group? gn with
    | none => w.flush
    | some gr =>
      let w : World := { w with mocks := w.mocks ++ [({ id := id, group := some gn, block := true } : Mock)] }
      let w : World := w.modGroup gn fun x => { x with members := x.members ++ [Ref.mock id] }
      let w : World := gr.members.foldl (fun w cc =>
        w.pushClientTo cc (.pushClient gn "add" id "MOCK" (.fixed ["system"]) [])) w
      w.flush

/-- a **copy** of the engine's op `release`: the parked goroutine `k` of mock `id` runs to completion -/
def releaseParked (w : World) (id : String) (k : Nat) : World :=
  match w.mocks.find? (·.id = id) with
  | none => w
  | some m =>
    match m.parked[k]? with
    | none => w
    | some p =>
      let w : World := { w with mocks := w.mocks.map fun (x : Mock) =>
        if x.id = m.id then { x with parked := x.parked.eraseIdx k } else x }
      p.pending.foldl (fun w j => w.enq j p.act) w

/-- **C14_world_converges_false_overtake** (P17 on the world model itself).  With the attribute
changes in the step language the convergence statement is false: a slow member (the blocking mock)
parks the two detached broadcasts of alice's two `setdata`; the second goroutine finishes first; when
everything has been delivered and handled (no goroutine parked, all queues empty) bob's list shows
alice's **older** data while the group holds the newer. -/
theorem C14_world_converges_false_overtake :
    let w := mockJoin exW1 "g1" "mk"
    let w := wrun w [.act 0, .act 1]
    let w := handleMsg w 0 (exSetData "c0" "one")
    let w := handleMsg w 0 (exSetData "c0" "two")
    let w := releaseParked w "mk" 1                     -- the second change is announced first
    let w := releaseParked w "mk" 0
    let w := wrun w [.act 0, .act 0, .act 1, .act 1]
    Quiescent w ∧ w.mocks.all (fun m => m.parked.isEmpty) = true ∧ w.crashed = false ∧
      (userFold (sinceJoin "g1" (written w 1)) "c0").map (·.data) = some [("k", .str "one")] ∧
      (truth w "g1" "c0").map (·.data) = some [("k", .str "two")] := by
  decide

end Galene.Sig
