import GaleneVerif.Lemmas.DownLayer
import GaleneVerif.Lemmas.FlagsSmall
/-
C04 — layer selection of the down track (`rtpDownTrack.Write`, `adjustLayer`,
`updateRate`, the `limitSid` loop of `replaceTracks`; model `Model/DownTrack.lean`).

  A packet above the receiver's current temporal or spatial layer that arrives in order is
  withheld; the spatial layer changes only at the first packet of a keyframe, and the
  temporal layer falls only at the start of a frame and rises only at a keyframe or at a
  packet the codec marks as an up-switch point for a layer not above the wanted one — the
  sole exception being that a receiver already at the top layer follows a new top layer the
  first time it appears.  The selected layers never exceed the highest layers seen in the
  stream, a receiver that asked for low quality from a non-simulcast publisher is steered to
  the lowest spatial layer from the next keyframe on, and the loss-based bitrate ceiling
  always stays within its fixed bounds.

`L s = unpack s.word` is the layer record stored in the 32-bit atomic word.
`Small l`: the six numeric fields are < 16.  `Inv l`: `Small l`, `sid ≤ maxSid`,
`tid ≤ maxTid`, `wantedSid ≤ maxSid`, `wantedTid ≤ maxTid`, `limitSid → wantedSid = 0`
(both defined in `Lemmas/DownLayer.lean`).

Method.  `Lemmas/DownLayer.lean` shows that `layerStep` (which packs and unpacks the word up
to five times) computes, for flags that fit the 4-bit fields, exactly the pure function
`stepL (dir C s) (L s) flags` on layer records (`layerStep_val`), that the layer it returns
is the stored one and nothing but the word changes (`layerStep_coh`, for ALL flags), and
gives relational specifications of the four phases (`bumpL`, `adjL`, `tidL`, `sidL`).  Every
theorem below is a fact about `stepL`, lifted.  `Lemmas/FlagsSmall.lean` shows that the
parser (`packetFlags`) returns `tid, sid < 8` on byte buffers, which discharges the flags
hypothesis for real packets (section 10).

All theorems are for every state, constants record, flags value and sequence of operations
(induction over the op list).  The flags hypothesis `tid < 16 ∧ sid < 16` is needed wherever
stated (proved counterexamples in sections 2 and 11): a larger id is truncated by the word.

Sections: 1 packed word; 2 invariant and reachability; 3–4 switch rules; 5 feedback keeps the
layer; 6 withheld packets; 7 layers seen; 8 low quality; 9 loss-based ceiling; 10 histories of
real `Write` calls; 11 non-vacuity examples and proved counterexamples.

Observations recorded as examples in section 11 (behaviour of the code, not defects of the
proof): a packet above the layer is forwarded, not withheld, when it is the first packet the
track ever writes (`packetmap.Drop` refuses until the map has started) or when it arrives out
of order (`Drop` only accepts the next expected seqno) — the hypotheses `started` and
`seqno = next` of `C04_withheld` cannot be dropped.
-/
namespace Galene.Props.C04
open Galene Galene.Codecs Galene.Down

/-! ### 1. the packed word -/

/-- **Pack/unpack round trip**: a layer record whose six numeric fields fit in four
bits is recovered exactly from the packed word, and the word fits in 32 bits. -/
theorem C04_pack_roundtrip (l : Layer) : (Small l → unpack (pack l) = l) ∧ pack l < 2^32 :=
  ⟨unpack_pack l, pack_lt l⟩

/-- what is read back from the word is always small -/
theorem C04_unpack_small (w : Nat) : Small (unpack w) := unpack_small w

/-! ### operations -/

/-- the operations that touch a down track's layer word, bitrate ceiling, REMB value
and rate estimate -/
inductive Op where
  | packet (flags : Flags)
  | adjust
  | setLimit (b : Bool)
  | updateRate (loss : Nat)
  | setRate (r : Nat)
  | setMax (o : Option Nat)
  | setRemb (o : Option Nat)
  deriving Repr, DecidableEq

/-- packets carry layer ids that fit the 4-bit fields (the parsers give ≤ 7) -/
def Op.ok : Op → Prop
  | .packet f => f.tid < 16 ∧ f.sid < 16
  | _ => True

instance (op : Op) : Decidable op.ok := by cases op <;> unfold Op.ok <;> infer_instance

def step (C : Consts) (s : State) : Op → State
  | .packet f => (layerStep C s f).1
  | .adjust => adjustLayer C s
  | .setLimit b => setLimit s b
  | .updateRate loss => updateRate C s loss
  | .setRate r => { s with rate := r }
  | .setMax o => { s with maxBitrate := o }
  | .setRemb o => { s with remb := o }

def run (C : Consts) (s : State) (ops : List Op) : State := ops.foldl (step C) s

theorem run_nil (C : Consts) (s : State) : run C s [] = s := rfl
theorem run_cons (C : Consts) (s : State) (op : Op) (ops : List Op) :
    run C s (op :: ops) = run C (step C s op) ops := rfl
theorem run_append (C : Consts) (s : State) (a b : List Op) :
    run C s (a ++ b) = run C (run C s a) b := by
  unfold run; rw [List.foldl_append]

/-! ### layer effect of each operation -/

theorem L_layerStep (C : Consts) (s : State) (flags : Flags) (hf : flags.tid < 16 ∧ flags.sid < 16) :
    L (layerStep C s flags).1 = (stepL (dir C s) (L s) flags).1 := by
  rw [(layerStep_coh C s flags).1, layerStep_val C s flags hf]

theorem L_adjustLayer (C : Consts) (s : State) : L (adjustLayer C s) = adjL (dir C s) (L s) :=
  (adjustLayer_spec C s).1

/-- the pure effect of `setLimit` -/
def limitL (l : Layer) (b : Bool) : Layer :=
  if b then { l with limitSid := true, wantedSid := 0 } else { l with limitSid := false }

theorem L_setLimit (s : State) (b : Bool) : L (setLimit s b) = limitL (L s) b := by
  have hs := L_small s
  unfold setLimit limitL
  cases b
  · exact L_setword s _ hs
  · refine L_setword s _ ?_
    unfold L at hs
    unfold Small at *; simp only [if_true]; omega

theorem L_updateRate (C : Consts) (s : State) (loss : Nat) : L (updateRate C s loss) = L s := rfl

/-! ### 2. the invariant -/

theorem limitL_inv (l : Layer) (b : Bool) (h : Inv l) : Inv (limitL l b) := by
  obtain ⟨sid, wsid, msid, tid, wtid, mtid, lim⟩ := l
  unfold Inv Small limitL at *
  cases b <;> simp at * <;> omega

/-- the initial state satisfies the invariant -/
theorem C04_inv_init : Inv (L {}) := by decide

/-- `Write`'s layer bookkeeping preserves the invariant -/
theorem C04_inv_layerStep (C : Consts) (s : State) (flags : Flags) (hf : flags.tid < 16 ∧ flags.sid < 16)
    (h : Inv (L s)) : Inv (L (layerStep C s flags).1) := by
  rw [L_layerStep C s flags hf]; exact stepL_inv _ _ _ h hf

/-- `adjustLayer` preserves the invariant -/
theorem C04_inv_adjustLayer (C : Consts) (s : State) (h : Inv (L s)) : Inv (L (adjustLayer C s)) := by
  rw [L_adjustLayer]; exact adjL_inv _ _ h

/-- the `limitSid` loop of `replaceTracks` preserves the invariant -/
theorem C04_inv_setLimit (s : State) (b : Bool) (h : Inv (L s)) : Inv (L (setLimit s b)) := by
  rw [L_setLimit]; exact limitL_inv _ _ h

/-- `updateRate` does not touch the layer word -/
theorem C04_inv_updateRate (C : Consts) (s : State) (loss : Nat) (h : Inv (L s)) :
    Inv (L (updateRate C s loss)) := h

theorem C04_inv_step (C : Consts) (s : State) (op : Op) (hok : op.ok) (h : Inv (L s)) :
    Inv (L (step C s op)) := by
  cases op with
  | packet f => exact C04_inv_layerStep C s f hok h
  | adjust => exact C04_inv_adjustLayer C s h
  | setLimit b => exact C04_inv_setLimit s b h
  | updateRate loss => exact h
  | setRate r => exact h
  | setMax o => exact h
  | setRemb o => exact h

theorem C04_inv_run (C : Consts) (ops : List Op) (s : State) (hok : ∀ op ∈ ops, op.ok) (h : Inv (L s)) :
    Inv (L (run C s ops)) := by
  induction ops generalizing s with
  | nil => exact h
  | cons op ops ih =>
    rw [run_cons]
    exact ih _ (fun o ho => hok o (List.mem_cons_of_mem _ ho)) (C04_inv_step C s op (hok op List.mem_cons_self) h)

/-- **The invariant holds in every reachable state**: after any sequence of packets
(with layer ids < 16), `adjustLayer` calls, `limitSid` updates, loss reports and
changes of the rate estimate / bitrate ceiling / REMB value, the stored layers satisfy
`sid ≤ maxSid`, `tid ≤ maxTid`, `wantedSid ≤ maxSid`, `wantedTid ≤ maxTid`, and
`limitSid → wantedSid = 0`. -/
theorem C04_inv_reachable (C : Consts) (ops : List Op) (hok : ∀ op ∈ ops, op.ok) :
    Inv (L (run C {} ops)) :=
  C04_inv_run C ops {} hok C04_inv_init

/-- **The drop decision uses the stored layer**: the layer `Write` goes on to use is the
one it left in the atomic word, and nothing but the word changed.  For ALL flags. -/
theorem C04_layer_stored (C : Consts) (s s' : State) (flags : Flags) (l' : Layer) (kf : Bool)
    (h : layerStep C s flags = (s', l', kf)) :
    l' = L s' ∧ s'.pm = s.pm ∧ s'.maxBitrate = s.maxBitrate ∧ s'.remb = s.remb ∧ s'.rate = s.rate := by
  have hc := layerStep_coh C s flags
  rw [h] at hc
  exact ⟨hc.1.symm, hc.2⟩

/-- The size hypothesis on the flags cannot be dropped from `C04_inv_layerStep`: a
temporal id of 17 is stored as 1, below the wanted layer. -/
example : Inv (L { word := pack { wantedTid := 3, maxTid := 5 }, rate := 60000 }) ∧
    ¬ Inv (L (layerStep {} { word := pack { wantedTid := 3, maxTid := 5 }, rate := 60000 } { tid := 17 }).1) := by
  decide


/-! ### 3–4. switch rules -/

/-- **The spatial layer changes only at the first packet of a keyframe**, except that a
receiver at the top spatial layer (and not limited to the lowest one) follows a new top
layer the first time it appears.  (`Inv (L s)` is not needed for this one.) -/
theorem C04_sid_switch (C : Consts) (s s' : State) (flags : Flags) (l' : Layer) (kf : Bool)
    (hf : flags.tid < 16 ∧ flags.sid < 16)
    (h : layerStep C s flags = (s', l', kf)) (hne : l'.sid ≠ (L s).sid) :
    (flags.start = true ∧ flags.keyframe = true) ∨
    ((L s).sid = (L s).maxSid ∧ flags.sid > (L s).maxSid ∧ (L s).limitSid = false ∧ l'.sid = flags.sid) := by
  have hv := layerStep_val C s flags hf
  rw [h] at hv
  have hl : l' = (stepL (dir C s) (L s) flags).1 := congrArg Prod.fst hv
  subst hl
  exact stepL_sid _ _ _ hne

/-- **The temporal layer falls only at the start of a frame.** -/
theorem C04_tid_fall (C : Consts) (s s' : State) (flags : Flags) (l' : Layer) (kf : Bool)
    (hf : flags.tid < 16 ∧ flags.sid < 16)
    (h : layerStep C s flags = (s', l', kf)) (hlt : l'.tid < (L s).tid) :
    flags.start = true := by
  have hv := layerStep_val C s flags hf
  rw [h] at hv
  have hl : l' = (stepL (dir C s) (L s) flags).1 := congrArg Prod.fst hv
  subst hl
  exact stepL_tid_down _ _ _ hlt

/-- **The temporal layer rises only at a keyframe or at a frame start that the codec marks
as an up-switch point for a layer not above the wanted one**, except that a receiver at
the top temporal layer follows a new top layer at once (and the same packet may then, if it
starts a frame, fall to the wanted layer chosen by the rate check). -/
theorem C04_tid_rise (C : Consts) (s s' : State) (flags : Flags) (l' : Layer) (kf : Bool)
    (hf : flags.tid < 16 ∧ flags.sid < 16) (hi : Inv (L s))
    (h : layerStep C s flags = (s', l', kf)) (hgt : l'.tid > (L s).tid) :
    (flags.start = true ∧ flags.keyframe = true) ∨
    (flags.start = true ∧ flags.tidUpSync = true ∧ flags.tid ≤ l'.wantedTid ∧ l'.tid = flags.tid) ∨
    ((L s).tid = (L s).maxTid ∧ flags.tid > (L s).maxTid ∧
      (l'.tid = flags.tid ∨ (flags.start = true ∧ l'.tid < flags.tid))) := by
  have hv := layerStep_val C s flags hf
  rw [h] at hv
  have hl : l' = (stepL (dir C s) (L s) flags).1 := congrArg Prod.fst hv
  subst hl
  exact stepL_tid_up _ _ _ hi hf hgt

/-- items 4 of the task in one statement -/
theorem C04_tid_switch (C : Consts) (s s' : State) (flags : Flags) (l' : Layer) (kf : Bool)
    (hf : flags.tid < 16 ∧ flags.sid < 16) (hi : Inv (L s))
    (h : layerStep C s flags = (s', l', kf)) :
    (l'.tid < (L s).tid → flags.start = true) ∧
    (l'.tid > (L s).tid →
      (flags.start = true ∧ flags.keyframe = true) ∨
      (flags.start = true ∧ flags.tidUpSync = true ∧ flags.tid ≤ l'.wantedTid ∧ l'.tid = flags.tid) ∨
      ((L s).tid = (L s).maxTid ∧ flags.tid > (L s).maxTid ∧
        (l'.tid = flags.tid ∨ (flags.start = true ∧ l'.tid < flags.tid)))) :=
  ⟨C04_tid_fall C s s' flags l' kf hf h, C04_tid_rise C s s' flags l' kf hf hi h⟩

/-- **A receiver at the top layer follows a new top layer the first time it appears**
(the converse of the exceptions in `C04_sid_switch` and `C04_tid_rise`): at the top spatial
layer and not limited, a packet of a higher spatial layer that is not the first packet of a
keyframe moves the receiver to that layer; at the top temporal layer, a packet of a higher
temporal layer that does not start a frame moves the receiver to that layer.  (A packet that
does start a frame / keyframe may in addition apply the wanted layer just chosen by the rate
check, see `C04_tid_rise`.) -/
theorem C04_follow_top (C : Consts) (s s' : State) (flags : Flags) (l' : Layer) (kf : Bool)
    (hf : flags.tid < 16 ∧ flags.sid < 16) (h : layerStep C s flags = (s', l', kf)) :
    ((L s).sid = (L s).maxSid → flags.sid > (L s).maxSid → (L s).limitSid = false →
      ¬ (flags.start = true ∧ flags.keyframe = true) → l'.sid = flags.sid) ∧
    ((L s).tid = (L s).maxTid → flags.tid > (L s).maxTid → flags.start = false → l'.tid = flags.tid) := by
  have hv := layerStep_val C s flags hf
  rw [h] at hv
  have hl : l' = (stepL (dir C s) (L s) flags).1 := congrArg Prod.fst hv
  subst hl
  exact ⟨stepL_follow_sid _ _ _, stepL_follow_tid _ _ _⟩

/-! ### 5. feedback never moves the selected layer -/

theorem limitL_keeps (l : Layer) (b : Bool) :
    (limitL l b).sid = l.sid ∧ (limitL l b).tid = l.tid ∧ (limitL l b).maxSid = l.maxSid
    ∧ (limitL l b).maxTid = l.maxTid := by
  unfold limitL; cases b <;> exact ⟨rfl, rfl, rfl, rfl⟩

/-- **Feedback keeps the layer**: `adjustLayer`, the `limitSid` loop and `updateRate`
change neither the selected layers `sid`/`tid` nor `maxSid`/`maxTid`; they only move the
wanted layers, which take effect at the next switch point of `Write`. -/
theorem C04_feedback_keeps_layer (C : Consts) (s : State) (b : Bool) (loss : Nat) :
    ((L (adjustLayer C s)).sid = (L s).sid ∧ (L (adjustLayer C s)).tid = (L s).tid ∧
      (L (adjustLayer C s)).maxSid = (L s).maxSid ∧ (L (adjustLayer C s)).maxTid = (L s).maxTid) ∧
    ((L (setLimit s b)).sid = (L s).sid ∧ (L (setLimit s b)).tid = (L s).tid ∧
      (L (setLimit s b)).maxSid = (L s).maxSid ∧ (L (setLimit s b)).maxTid = (L s).maxTid) ∧
    ((L (updateRate C s loss)).sid = (L s).sid ∧ (L (updateRate C s loss)).tid = (L s).tid ∧
      (L (updateRate C s loss)).maxSid = (L s).maxSid ∧ (L (updateRate C s loss)).maxTid = (L s).maxTid) := by
  refine ⟨?_, ?_, ⟨rfl, rfl, rfl, rfl⟩⟩
  · rw [L_adjustLayer]
    obtain ⟨a, b, c, d, _⟩ := adjL_rel (dir C s) (L s)
    exact ⟨a, b, c, d⟩
  · rw [L_setLimit]; exact limitL_keeps _ _

/-! ### 6. withheld packets -/

/-- **An in-order packet above the receiver's layer is withheld**: if the packet parses,
the layer bookkeeping leaves a layer `l'` for which `wantDrop` holds, and the packet is the
next in-order one for the packet map, then `Write` writes nothing (`out = .none`) and the
packet map has recorded the drop. -/
theorem C04_withheld (C : Consts) (P : PacketMap.Params) (codec : String) (s s1 : State) (buf : Bytes)
    (flags : Flags) (l' : Layer) (kf : Bool)
    (hp : packetFlags codec buf = .ok flags) (hl : layerStep C s flags = (s1, l', kf))
    (hd : wantDrop flags l' = true) (hst : s.pm.started = true) (hseq : flags.seqno = s.pm.next) :
    (write C P codec s buf).out = .none ∧ (write C P codec s buf).dropped = true
    ∧ (write C P codec s buf).panic = false ∧ (write C P codec s buf).kfreq = kf := by
  have hpm : s1.pm = s.pm := (C04_layer_stored C s s1 flags l' kf hl).2.1
  have hdrop : (PacketMap.dropOp P s1.pm flags.seqno flags.pid).2 = true := by
    unfold PacketMap.dropOp
    rw [hpm, hst, hseq]
    simp
  unfold write
  rw [hp]
  simp only [hl, hd, if_true]
  rw [hdrop]
  simp


/-- **A packet within the receiver's layer is never dropped by the layer filter**: if
`wantDrop` is false for the layer left by the bookkeeping, `packetmap.Drop` is not
invoked; the packet map is only asked to `Map` the packet. -/
theorem C04_not_withheld (C : Consts) (P : PacketMap.Params) (codec : String) (s s1 : State) (buf : Bytes)
    (flags : Flags) (l' : Layer) (kf : Bool)
    (hp : packetFlags codec buf = .ok flags) (hl : layerStep C s flags = (s1, l', kf))
    (hd : wantDrop flags l' = false) :
    (write C P codec s buf).dropped = false := by
  unfold write
  rw [hp]
  simp only [hl, hd]
  simp only [Bool.false_eq_true, if_false]
  split
  · rfl
  · split
    · rfl
    · split
      · rfl
      · split <;> rfl

/-- a packet that does not parse changes nothing and writes nothing -/
theorem C04_write_error (C : Consts) (P : PacketMap.Params) (codec : String) (s : State) (buf : Bytes)
    (e : Fail) (hp : packetFlags codec buf = .error e) :
    (write C P codec s buf).st = s ∧ (write C P codec s buf).out = .err
    ∧ (write C P codec s buf).dropped = false := by
  unfold write
  rw [hp]
  cases e <;> exact ⟨rfl, rfl, rfl⟩

/-- whatever else `Write` does, the layer word it leaves is the one computed by `layerStep` -/
theorem C04_write_layer (C : Consts) (P : PacketMap.Params) (codec : String) (s : State) (buf : Bytes)
    (flags : Flags) (hp : packetFlags codec buf = .ok flags) :
    (write C P codec s buf).st.word = (layerStep C s flags).1.word := by
  unfold write
  rw [hp]
  simp only
  (repeat' split) <;> rfl


/-- the statement of the property in the words of C04: a packet whose temporal or spatial
id is above the layer left by the bookkeeping, arriving in order, is withheld -/
theorem C04_withheld_above (C : Consts) (P : PacketMap.Params) (codec : String) (s s1 : State) (buf : Bytes)
    (flags : Flags) (l' : Layer) (kf : Bool)
    (hp : packetFlags codec buf = .ok flags) (hl : layerStep C s flags = (s1, l', kf))
    (hab : flags.tid > l'.tid ∨ flags.sid > l'.sid) (hst : s.pm.started = true) (hseq : flags.seqno = s.pm.next) :
    (write C P codec s buf).out = .none ∧ (write C P codec s buf).dropped = true := by
  have hd : wantDrop flags l' = true := by
    unfold wantDrop
    rcases hab with h | h <;> simp [h]
  have := C04_withheld C P codec s s1 buf flags l' kf hp hl hd hst hseq
  exact ⟨this.1, this.2.1⟩

/-! ### 7. the selected layers never exceed the layers seen -/

/-- highest spatial id among the packets of an op sequence -/
def seenSid : List Op → Nat
  | [] => 0
  | .packet f :: ops => max f.sid (seenSid ops)
  | _ :: ops => seenSid ops

/-- highest temporal id among the packets of an op sequence -/
def seenTid : List Op → Nat
  | [] => 0
  | .packet f :: ops => max f.tid (seenTid ops)
  | _ :: ops => seenTid ops

theorem step_max (C : Consts) (s : State) (op : Op) (hok : op.ok) :
    (L (step C s op)).maxSid = max (L s).maxSid (seenSid [op]) ∧
    (L (step C s op)).maxTid = max (L s).maxTid (seenTid [op]) := by
  cases op with
  | packet f =>
    simp only [step, seenSid, seenTid, Nat.max_zero]
    rw [L_layerStep C s f hok]
    exact ⟨stepL_maxSid _ _ _, stepL_maxTid _ _ _⟩
  | adjust =>
    have h := (C04_feedback_keeps_layer C s false 0).1
    simp only [step, seenSid, seenTid, Nat.max_zero]
    exact ⟨h.2.2.1, h.2.2.2⟩
  | setLimit b =>
    have h := (C04_feedback_keeps_layer C s b 0).2.1
    simp only [step, seenSid, seenTid, Nat.max_zero]
    exact ⟨h.2.2.1, h.2.2.2⟩
  | updateRate loss => simp only [step, seenSid, seenTid, Nat.max_zero]; exact ⟨rfl, rfl⟩
  | setRate r => simp only [step, seenSid, seenTid, Nat.max_zero]; exact ⟨rfl, rfl⟩
  | setMax o => simp only [step, seenSid, seenTid, Nat.max_zero]; exact ⟨rfl, rfl⟩
  | setRemb o => simp only [step, seenSid, seenTid, Nat.max_zero]; exact ⟨rfl, rfl⟩

theorem seen_cons (op : Op) (ops : List Op) :
    seenSid (op :: ops) = max (seenSid [op]) (seenSid ops) ∧
    seenTid (op :: ops) = max (seenTid [op]) (seenTid ops) := by
  cases op <;> simp [seenSid, seenTid]

theorem run_max (C : Consts) (ops : List Op) (s : State) (hok : ∀ op ∈ ops, op.ok) :
    (L (run C s ops)).maxSid = max (L s).maxSid (seenSid ops) ∧
    (L (run C s ops)).maxTid = max (L s).maxTid (seenTid ops) := by
  induction ops generalizing s with
  | nil => simp [run_nil, seenSid, seenTid]
  | cons op ops ih =>
    rw [run_cons]
    obtain ⟨i1, i2⟩ := ih (step C s op) (fun o ho => hok o (List.mem_cons_of_mem _ ho))
    obtain ⟨s1, s2⟩ := step_max C s op (hok op List.mem_cons_self)
    obtain ⟨c1, c2⟩ := seen_cons op ops
    rw [i1, i2, s1, s2, c1, c2]
    exact ⟨by omega, by omega⟩

/-- **The selected layers never exceed the highest layers seen in the stream**: from the
initial state, `maxSid`/`maxTid` are exactly the highest spatial/temporal ids among the
packets so far, and the selected and wanted layers are at most that. -/
theorem C04_max_seen (C : Consts) (ops : List Op) (hok : ∀ op ∈ ops, op.ok) :
    (L (run C {} ops)).maxSid = seenSid ops ∧ (L (run C {} ops)).maxTid = seenTid ops ∧
    (L (run C {} ops)).sid ≤ seenSid ops ∧ (L (run C {} ops)).tid ≤ seenTid ops ∧
    (L (run C {} ops)).wantedSid ≤ seenSid ops ∧ (L (run C {} ops)).wantedTid ≤ seenTid ops := by
  obtain ⟨h1, h2⟩ := run_max C ops {} hok
  have h0s : (L ({} : State)).maxSid = 0 := by decide
  have h0t : (L ({} : State)).maxTid = 0 := by decide
  rw [h0s, Nat.zero_max] at h1
  rw [h0t, Nat.zero_max] at h2
  obtain ⟨_, a, b, c, d, _⟩ := C04_inv_reachable C ops hok
  rw [← h1, ← h2]
  exact ⟨rfl, rfl, a, b, c, d⟩

/-! ### 8. low quality from a non-simulcast publisher -/

/-- (a) the `limitSid` loop with `true` sets the flag and asks for the lowest spatial layer -/
theorem C04_low_quality_set (s : State) :
    (L (setLimit s true)).limitSid = true ∧ (L (setLimit s true)).wantedSid = 0 := by
  rw [L_setLimit]; exact ⟨rfl, rfl⟩

/-- an op that clears the flag -/
def Op.clears : Op → Prop
  | .setLimit false => True
  | _ => False

/-- (b) `limitSid` persists through every op other than `setLimit false` -/
theorem C04_low_quality_persist (C : Consts) (s : State) (op : Op) (hok : op.ok) (hc : ¬ op.clears)
    (hl : (L s).limitSid = true) : (L (step C s op)).limitSid = true := by
  cases op with
  | packet f =>
    simp only [step]
    rw [L_layerStep C s f hok, stepL_limit]; exact hl
  | adjust =>
    simp only [step]
    rw [L_adjustLayer, (adjL_rel _ _).2.2.2.2]; exact hl
  | setLimit b =>
    cases b
    · exact absurd trivial hc
    · exact (C04_low_quality_set s).1
  | updateRate loss => exact hl
  | setRate r => exact hl
  | setMax o => exact hl
  | setRemb o => exact hl

/-- (b') and hence, in states satisfying the invariant, the wanted spatial layer stays 0 -/
theorem C04_low_quality_wanted (C : Consts) (s : State) (op : Op) (hok : op.ok) (hc : ¬ op.clears)
    (hi : Inv (L s)) (hl : (L s).limitSid = true) : (L (step C s op)).wantedSid = 0 :=
  (C04_inv_step C s op hok hi).2.2.2.2.2 (C04_low_quality_persist C s op hok hc hl)

/-- (c) with `limitSid` set, the first packet of a keyframe brings the receiver to spatial layer 0 -/
theorem C04_low_quality_keyframe (C : Consts) (s : State) (flags : Flags) (hf : flags.tid < 16 ∧ flags.sid < 16)
    (hi : Inv (L s)) (hl : (L s).limitSid = true) (hs : flags.start = true) (hk : flags.keyframe = true) :
    (L (layerStep C s flags).1).sid = 0 ∧ (layerStep C s flags).2.1.sid = 0 := by
  rw [(layerStep_coh C s flags).1.symm, L_layerStep C s flags hf]
  exact ⟨stepL_low_kf _ _ _ hi hf hl hs hk, stepL_low_kf _ _ _ hi hf hl hs hk⟩

/-- (d) while `limitSid` holds, spatial layer 0 is kept by every op -/
theorem C04_low_quality_stay (C : Consts) (s : State) (op : Op) (hok : op.ok)
    (hi : Inv (L s)) (hl : (L s).limitSid = true) (h0 : (L s).sid = 0) : (L (step C s op)).sid = 0 := by
  cases op with
  | packet f =>
    simp only [step]
    rw [L_layerStep C s f hok]; exact stepL_low_stay _ _ _ hi hok hl h0
  | adjust =>
    simp only [step]
    rw [(C04_feedback_keeps_layer C s false 0).1.1]; exact h0
  | setLimit b =>
    simp only [step]
    rw [(C04_feedback_keeps_layer C s b 0).2.1.1]; exact h0
  | updateRate loss => exact h0
  | setRate r => exact h0
  | setMax o => exact h0
  | setRemb o => exact h0

/-- the flag persists along a sequence without `setLimit false` -/
theorem run_limit (C : Consts) (ops : List Op) (s : State) (hok : ∀ op ∈ ops, op.ok)
    (hc : ∀ op ∈ ops, ¬ op.clears) (hl : (L s).limitSid = true) : (L (run C s ops)).limitSid = true := by
  induction ops generalizing s with
  | nil => exact hl
  | cons op ops ih =>
    rw [run_cons]
    exact ih _ (fun o ho => hok o (List.mem_cons_of_mem _ ho)) (fun o ho => hc o (List.mem_cons_of_mem _ ho))
      (C04_low_quality_persist C s op (hok op List.mem_cons_self) (hc op List.mem_cons_self) hl)

/-- spatial layer 0 is kept along a sequence without `setLimit false` -/
theorem run_low (C : Consts) (ops : List Op) (s : State) (hok : ∀ op ∈ ops, op.ok)
    (hc : ∀ op ∈ ops, ¬ op.clears) (hi : Inv (L s)) (hl : (L s).limitSid = true) (h0 : (L s).sid = 0) :
    (L (run C s ops)).sid = 0 := by
  induction ops generalizing s with
  | nil => exact h0
  | cons op ops ih =>
    rw [run_cons]
    have hok1 := hok op List.mem_cons_self
    exact ih _ (fun o ho => hok o (List.mem_cons_of_mem _ ho)) (fun o ho => hc o (List.mem_cons_of_mem _ ho))
      (C04_inv_step C s op hok1 hi)
      (C04_low_quality_persist C s op hok1 (hc op List.mem_cons_self) hl)
      (C04_low_quality_stay C s op hok1 hi hl h0)

/-- **A receiver that asked for low quality from a non-simulcast publisher is steered to the
lowest spatial layer from the next keyframe on**: in any history
`pre ++ [setLimit true] ++ mid ++ [packet f] ++ post` from a state satisfying the invariant,
where `f` is the first packet of a keyframe and no `setLimit false` occurs in `mid` or `post`,
the spatial layer is 0 after `post` — for every `post`, i.e. in every later state — and the
wanted spatial layer is still 0 and the limit still set. -/
theorem C04_low_quality (C : Consts) (s : State) (pre mid post : List Op) (f : Flags)
    (hi : Inv (L s))
    (hpre : ∀ op ∈ pre, op.ok) (hmid : ∀ op ∈ mid, op.ok) (hpost : ∀ op ∈ post, op.ok)
    (hf : f.tid < 16 ∧ f.sid < 16)
    (hcm : ∀ op ∈ mid, ¬ op.clears) (hcp : ∀ op ∈ post, ¬ op.clears)
    (hs : f.start = true) (hk : f.keyframe = true) :
    (L (run C s (pre ++ [.setLimit true] ++ mid ++ [.packet f] ++ post))).sid = 0
    ∧ (L (run C s (pre ++ [.setLimit true] ++ mid ++ [.packet f] ++ post))).wantedSid = 0
    ∧ (L (run C s (pre ++ [.setLimit true] ++ mid ++ [.packet f] ++ post))).limitSid = true := by
  simp only [run_append, run_cons, run_nil]
  have i1 := C04_inv_run C pre s hpre hi
  generalize run C s pre = s1 at i1
  have i2 : Inv (L (step C s1 (.setLimit true))) := C04_inv_step C s1 _ trivial i1
  have l2 : (L (step C s1 (.setLimit true))).limitSid = true := (C04_low_quality_set s1).1
  generalize step C s1 (.setLimit true) = s2 at i2 l2
  have i3 := C04_inv_run C mid s2 hmid i2
  have l3 := run_limit C mid s2 hmid hcm l2
  generalize run C s2 mid = s3 at i3 l3
  have i4 : Inv (L (step C s3 (.packet f))) := C04_inv_step C s3 _ hf i3
  have l4 : (L (step C s3 (.packet f))).limitSid = true :=
    C04_low_quality_persist C s3 _ hf (fun h => h) l3
  have z4 : (L (step C s3 (.packet f))).sid = 0 := (C04_low_quality_keyframe C s3 f hf i3 l3 hs hk).1
  generalize step C s3 (.packet f) = s4 at i4 l4 z4
  have l5 := run_limit C post s4 hpost hcp l4
  exact ⟨run_low C post s4 hpost hcp i4 l4 z4, (C04_inv_run C post s4 hpost i4).2.2.2.2.2 l5, l5⟩


/-- when the limit is requested: the receiver asked for "video-low" but not "video", and the
publisher's stream has fewer than two video tracks (no simulcast) -/
theorem C04_limit_requested (requested : List String) (videoCount : Nat) :
    requestedLimitSid requested videoCount = true ↔
      ("video" ∉ requested ∧ "video-low" ∈ requested ∧ videoCount < 2) := by
  unfold requestedLimitSid
  by_cases h1 : "video" ∈ requested <;> by_cases h2 : "video-low" ∈ requested <;> simp [h1, h2]

/-! ### 9. the loss-based ceiling -/

/-- one adjustment of an in-range ceiling stays in range -/
theorem rate_adjust_bounds (mn mx rate actual loss : Nat) (hb : mn ≤ rate ∧ rate ≤ mx) :
    mn ≤ (if loss < 5 then
            if actual ≥ (rate * 3) / 4 then
              if rate * 269 / 256 > mx then mx else rate * 269 / 256
            else rate
          else if loss > 25 then
            if rate * (512 - loss) / 512 < mn then mn else rate * (512 - loss) / 512
          else rate) ∧
    (if loss < 5 then
            if actual ≥ (rate * 3) / 4 then
              if rate * 269 / 256 > mx then mx else rate * 269 / 256
            else rate
          else if loss > 25 then
            if rate * (512 - loss) / 512 < mn then mn else rate * (512 - loss) / 512
          else rate) ≤ mx := by
  have hdown : rate * (512 - loss) / 512 ≤ rate := by
    apply Nat.div_le_of_le_mul
    rw [Nat.mul_comm 512 rate]
    exact Nat.mul_le_mul_left _ (Nat.sub_le _ _)
  split
  · split
    · split <;> omega
    · exact hb
  · split
    · split <;> omega
    · exact hb

/-- the ceiling `updateRate` starts from is in range -/
theorem rate_start_bounds (C : Consts) (hC : C.minLossRate ≤ C.initLossRate ∧ C.initLossRate ≤ C.maxLossRate)
    (rate0 : Nat) :
    C.minLossRate ≤ (if rate0 < C.minLossRate || rate0 > C.maxLossRate then C.initLossRate else rate0) ∧
    (if rate0 < C.minLossRate || rate0 > C.maxLossRate then C.initLossRate else rate0) ≤ C.maxLossRate := by
  split
  · exact hC
  · rename_i h
    simp only [Bool.or_eq_true, decide_eq_true_eq, not_or, Nat.not_lt] at h
    omega

/-- **The loss-based bitrate ceiling stays within its bounds**: whatever the previous
ceiling (even timed out or out of range), the estimator rate and the reported loss,
`updateRate` leaves a ceiling between `minLossRate` and `maxLossRate`.  (The model's `loss`
is a `uint8` in Go; the bound `loss ≤ 255` is not needed.) -/
theorem C04_rate_bounds (C : Consts) (hC : C.minLossRate ≤ C.initLossRate ∧ C.initLossRate ≤ C.maxLossRate)
    (s : State) (loss : Nat) :
    ∃ r, (updateRate C s loss).maxBitrate = some r ∧ C.minLossRate ≤ r ∧ r ≤ C.maxLossRate :=
  ⟨_, rfl, rate_adjust_bounds C.minLossRate C.maxLossRate _ (8 * s.rate) loss
    (rate_start_bounds C hC (match s.maxBitrate with | none => M64 - 1 | some r => r))⟩

/-! ### 10. real `Write` calls and the parser -/

/-- no op reads or writes the packet map -/
theorem step_pm (C : Consts) (s : State) (x : PacketMap.State) (op : Op) :
    step C { s with pm := x } op = { step C s op with pm := x } := by
  cases op with
  | packet f => simp only [step]; rw [layerStep_pm]
  | adjust => exact adjustLayer_pm C s x
  | setLimit b => rfl
  | updateRate loss => rfl
  | setRate r => rfl
  | setMax o => rfl
  | setRemb o => rfl

theorem run_pm (C : Consts) (ops : List Op) (s : State) (x : PacketMap.State) :
    run C { s with pm := x } ops = { run C s ops with pm := x } := by
  induction ops generalizing s with
  | nil => rfl
  | cons op ops ih => rw [run_cons, run_cons, step_pm, ih]

/-- **`Write` is the packet op plus a packet-map update**: on a buffer that parses, the
state `Write` leaves is the one `layerStep` leaves, except for the packet map. -/
theorem C04_write_state (C : Consts) (P : PacketMap.Params) (codec : String) (s : State) (buf : Bytes)
    (flags : Flags) (hp : packetFlags codec buf = .ok flags) :
    (write C P codec s buf).st =
      { step C s (.packet flags) with pm := (write C P codec s buf).st.pm } := by
  unfold write step
  rw [hp]
  simp only
  (repeat' split) <;> rfl

/-- **The parsers give layer ids that fit the word**: for a buffer of bytes, the flags
`PacketFlags` returns have `tid < 16` and `sid < 16` (in fact `< 8`), so the hypothesis
`Op.ok` of the theorems above holds for every packet the real parser accepts. -/
theorem C04_parser_flags_small (codec : String) (buf : Bytes) (flags : Flags) (hb : ∀ b ∈ buf, b < 256)
    (hp : packetFlags codec buf = .ok flags) : flags.tid < 16 ∧ flags.sid < 16 := by
  have := packetFlags_small codec buf hb flags hp
  simp only at this
  omega

/-- what the real code does to a down track: `Write` of a buffer, or one of the ops above -/
inductive WOp where
  | write (buf : Bytes)
  | other (op : Op)

def WOp.ok : WOp → Prop
  | .write buf => ∀ b ∈ buf, b < 256
  | .other op => op.ok

instance (o : WOp) : Decidable o.ok := by cases o <;> unfold WOp.ok <;> infer_instance

def wstep (C : Consts) (P : PacketMap.Params) (codec : String) (s : State) : WOp → State
  | .write buf => (write C P codec s buf).st
  | .other op => step C s op

def wrun (C : Consts) (P : PacketMap.Params) (codec : String) (s : State) (w : List WOp) : State :=
  w.foldl (wstep C P codec) s

/-- the layer-level ops of one step of a history: a `Write` is a `packet` op if the buffer
parses and nothing otherwise -/
def opOf (codec : String) : WOp → List Op
  | .write buf => match packetFlags codec buf with
    | .ok f => [.packet f]
    | .error _ => []
  | .other op => [op]

def opsOf (codec : String) (w : List WOp) : List Op := w.flatMap (opOf codec)

theorem wstep_sim (C : Consts) (P : PacketMap.Params) (codec : String) (s : State) (o : WOp) :
    wstep C P codec s o = { run C s (opOf codec o) with pm := (wstep C P codec s o).pm } := by
  cases o with
  | other op => rfl
  | write buf =>
    simp only [wstep, opOf]
    cases hp : packetFlags codec buf with
    | ok f => exact C04_write_state C P codec s buf f hp
    | error e =>
      have : (write C P codec s buf).st = s := by
        unfold write; rw [hp]; cases e <;> rfl
      rw [this]; rfl

/-- **Histories of real `Write` calls are op sequences**: after any history of `Write`s
and ops, the state is, up to the packet map, the one reached by the corresponding op list;
in particular the layer words agree. -/
theorem C04_write_history (C : Consts) (P : PacketMap.Params) (codec : String) (w : List WOp) (s : State) :
    wrun C P codec s w = { run C s (opsOf codec w) with pm := (wrun C P codec s w).pm } := by
  induction w generalizing s with
  | nil => rfl
  | cons o w ih =>
    have h1 : wrun C P codec s (o :: w) = wrun C P codec (wstep C P codec s o) w := rfl
    have h2 : opsOf codec (o :: w) = opOf codec o ++ opsOf codec w := by simp [opsOf]
    rw [h1, h2, run_append]
    generalize hs1 : wstep C P codec s o = s1
    have hsim := wstep_sim C P codec s o
    rw [hs1] at hsim
    rw [ih s1]
    generalize hpm : (wrun C P codec s1 w).pm = x
    rw [hsim, run_pm]

theorem opsOf_ok (codec : String) (w : List WOp) (hok : ∀ o ∈ w, o.ok) : ∀ op ∈ opsOf codec w, op.ok := by
  intro op hop
  simp only [opsOf, List.mem_flatMap] at hop
  obtain ⟨o, ho, hin⟩ := hop
  have hk := hok o ho
  cases o with
  | other op' =>
    simp only [opOf, List.mem_singleton] at hin
    subst hin; exact hk
  | write buf =>
    simp only [opOf] at hin
    cases hp : packetFlags codec buf with
    | ok f =>
      rw [hp] at hin
      simp only [List.mem_singleton] at hin
      subst hin
      exact C04_parser_flags_small codec buf f hk hp
    | error e => rw [hp] at hin; cases hin

/-- **The invariant holds after every history of real `Write` calls** (buffers of bytes, no
hypothesis on the parsed flags) interleaved with feedback and configuration ops. -/
theorem C04_inv_write_history (C : Consts) (P : PacketMap.Params) (codec : String) (w : List WOp)
    (hok : ∀ o ∈ w, o.ok) : Inv (L (wrun C P codec {} w)) := by
  rw [C04_write_history]
  exact C04_inv_reachable C (opsOf codec w) (opsOf_ok codec w hok)


/-! ### 11. non-vacuity -/


/-- the default constants satisfy the hypothesis of `C04_rate_bounds` -/
example : ({} : Consts).minLossRate ≤ ({} : Consts).initLossRate ∧
    ({} : Consts).initLossRate ≤ ({} : Consts).maxLossRate := by decide

/-- A stream with three temporal layers; the rate check lowers the wanted layer, the next
frame start falls to it, then the rate check raises the wanted layer again. -/
def upOps : List Op :=
  [.setRate 60000, .packet { tid := 2, start := true }, .setRate 200000, .adjust,
   .packet { tid := 0, start := true }, .setRate 0, .adjust]

example : ∀ op ∈ upOps, op.ok := by decide
example : L (run {} {} upOps) = { tid := 1, wantedTid := 2, maxTid := 2 } := by decide
/-- the temporal layer rises at a frame start marked as an up-switch point … -/
example : (L (run {} {} (upOps ++ [.packet { tid := 2, start := true, tidUpSync := true }]))).tid = 2 := by
  decide
/-- … and not at a frame start without the mark, nor inside a frame; the packet is above the
layer (`wantDrop`) in both cases -/
example : (L (run {} {} (upOps ++ [.packet { tid := 2, start := true }]))).tid = 1 ∧
    (L (run {} {} (upOps ++ [.packet { tid := 2, tidUpSync := true }]))).tid = 1 ∧
    wantDrop { tid := 2, start := true } (layerStep {} (run {} {} upOps) { tid := 2, start := true }).2.1 = true := by
  decide

/-- Two spatial layers; the rate check asks for the lower one. -/
def kfOps : List Op :=
  [.setRate 60000, .packet { sid := 1, start := true, keyframe := true }, .setRate 200000, .adjust]

example : L (run {} {} kfOps) = { sid := 1, wantedSid := 0, maxSid := 1 } := by decide
/-- a frame start that is not a keyframe keeps the spatial layer and requests a keyframe;
the first packet of a keyframe switches -/
example : (layerStep {} (run {} {} kfOps) { start := true }).2 = ({ sid := 1, wantedSid := 0, maxSid := 1 }, true) ∧
    (layerStep {} (run {} {} kfOps) { start := true, keyframe := true }).2
      = ({ sid := 0, wantedSid := 0, maxSid := 1 }, false) := by decide

/-- Low quality from a publisher sending three spatial layers in one track: the limit is
set while the receiver is at the top layer. -/
def lowOps : List Op :=
  [.setRate 60000, .packet { sid := 2, start := true, keyframe := true }, .setLimit true,
   .packet { start := true }]

example : L (run {} {} lowOps) = { sid := 2, wantedSid := 0, maxSid := 2, limitSid := true } := by decide
/-- from the next keyframe on the receiver is at spatial layer 0 and stays there, even when
the rate check would go up; after `setLimit false` it climbs again -/
example :
    (L (run {} {} (lowOps ++ [.packet { start := true, keyframe := true }]))).sid = 0 ∧
    (L (run {} {} (lowOps ++ [.packet { start := true, keyframe := true }, .setRate 0, .adjust,
        .packet { sid := 2, start := true, keyframe := true }]))).sid = 0 ∧
    (L (run {} {} (lowOps ++ [.packet { start := true, keyframe := true }, .setRate 0, .setLimit false, .adjust,
        .packet { sid := 2, start := true, keyframe := true }]))).sid = 1 := by decide

/-- The size hypothesis on packet flags (`Op.ok`) cannot be dropped from `C04_inv_reachable`:
a temporal id of 17 is stored as `maxTid = 1`, below the selected layer 4. -/
example : ¬ Inv (L (run {} {}
    [.setRate 60000, .packet { tid := 5, start := true }, .setRate 200000, .adjust,
     .packet { tid := 0, start := true }, .setRate 60000, .packet { tid := 17 }])) := by decide

/-- a VP8 packet: RTP header, payload descriptor with the T bit and a temporal id -/
def vp8pkt (seq tid : Nat) (start : Bool) : Bytes :=
  [0x80, 96, seq / 256, seq % 256, 0, 0, 0, 1, 0, 0, 0, 2, (if start then 0x90 else 0x80), 0x20, tid * 64, 1, 2, 3]

/-- state after a first packet (seqno 6) written while the rate check points down: the
receiver is at temporal layer 1 of 3 and the packet map is started -/
def wState : State := (write {} {} "video/VP8" { rate := 200000 } (vp8pkt 6 2 true)).st

/- The examples about `write` are checked by kernel evaluation (`decide +kernel`, no axioms
beyond the standard three): `isCodec` uses `String.map`, which plain `decide` cannot unfold. -/

/-- decidable equality of parser results (for the examples only) -/
local instance : DecidableEq (Except Fail Flags)
  | .ok a, .ok b => if h : a = b then isTrue (h ▸ rfl) else isFalse (fun e => h (Except.ok.inj e))
  | .error a, .error b => if h : a = b then isTrue (h ▸ rfl) else isFalse (fun e => h (Except.error.inj e))
  | .ok _, .error _ => isFalse (fun e => nomatch e)
  | .error _, .ok _ => isFalse (fun e => nomatch e)

/-- the flags of `vp8pkt seq 2 start` -/
def wFlags (seq : Nat) (start : Bool) : Flags := { seqno := seq, tid := 2, start := start }

example : packetFlags "video/VP8" (vp8pkt 7 2 false) = .ok (wFlags 7 false) := by decide +kernel
example : packetFlags "video/VP8" (vp8pkt 6 2 true) = .ok (wFlags 6 true) := by decide +kernel
example : packetFlags "video/VP8" (vp8pkt 9 2 false) = .ok (wFlags 9 false) := by decide +kernel

/-- the hypotheses of `C04_withheld` are satisfiable (the next in-order packet, of temporal
layer 2, inside a frame), and the conclusion is what happens -/
example :
    wantDrop (wFlags 7 false) (layerStep {} wState (wFlags 7 false)).2.1 = true ∧
    wState.pm.started = true ∧ (wFlags 7 false).seqno = wState.pm.next ∧
    (wFlags 7 false).tid > (layerStep {} wState (wFlags 7 false)).2.1.tid ∧
    (write {} {} "video/VP8" wState (vp8pkt 7 2 false)).out = .none ∧
    (write {} {} "video/VP8" wState (vp8pkt 7 2 false)).dropped = true := by decide +kernel

/-- The hypothesis `s.pm.started` of `C04_withheld` cannot be dropped: the very first packet
is above the layer the bookkeeping leaves (`wantDrop`), but `packetmap.Drop` refuses because
the map has not started, and the packet is forwarded. -/
example :
    wantDrop (wFlags 6 true) (layerStep {} { rate := 200000 } (wFlags 6 true)).2.1 = true ∧
    (write {} {} "video/VP8" { rate := 200000 } (vp8pkt 6 2 true)).out = .sent (vp8pkt 6 2 true) := by decide +kernel

/-- Likewise `flags.seqno = s.pm.next`: the same packet arriving out of order (seqno 9
instead of 7) is above the layer but forwarded. -/
example :
    wantDrop (wFlags 9 false) (layerStep {} wState (wFlags 9 false)).2.1 = true ∧
    (write {} {} "video/VP8" wState (vp8pkt 9 2 false)).out = .sent (vp8pkt 9 2 false) := by decide +kernel

/-- a history of real `Write` calls (section 10): the rate estimate is high, a first packet of
temporal layer 2 starts a frame, the next one continues it -/
def wHist : List WOp := [.other (.setRate 200000), .write (vp8pkt 6 2 true), .write (vp8pkt 7 2 false)]

example : ∀ o ∈ wHist, o.ok := by decide
example : L (wrun {} {} "video/VP8" {} wHist) = { tid := 1, wantedTid := 1, maxTid := 2 } := by decide +kernel
example : opsOf "video/VP8" wHist = [.setRate 200000, .packet (wFlags 6 true), .packet (wFlags 7 false)] := by
  decide +kernel

end Galene.Props.C04

