import GaleneVerif.Model.LossStats
/-
C06, buffered-NACK path: what `nackWriter` (rtpconn/rtpwriter.go) ships upstream.
Every seqno it sends was asked for by a subscriber, is not before the cutoff
(last keyframe, or newest − 256), is not beyond the newest packet received
(the bound added by the fix "don't forward NACKs for packets we haven't seen
yet"), and is absent from the cache.  The full claim of C06 ("never a packet
already received") does not follow: absent from the cache is weaker than never
received (known finding buffered-nack-evicted), so this is `_partial` in that
one respect and says exactly what is guaranteed.
-/
namespace Galene.Props.C06NackWriter
open Galene.Loss

theorem mem_insertNack (cutoff n : Nat) (l : List Nat) (y : Nat) :
    y ∈ insertNack cutoff n l ↔ y = n ∨ y ∈ l := by
  induction l with
  | nil => simp [insertNack]
  | cons m ms ih =>
    unfold insertNack
    split
    · simp only [List.mem_cons, ih]
      constructor
      · rintro (h | h | h)
        · exact Or.inr (Or.inl h)
        · exact Or.inl h
        · exact Or.inr (Or.inr h)
      · rintro (h | h | h)
        · exact Or.inr (Or.inl h)
        · exact Or.inl h
        · exact Or.inr (Or.inr h)
    · simp only [List.mem_cons]

theorem mem_insert_fold (cutoff : Nat) (xs : List Nat) :
    ∀ (acc : List Nat) (y : Nat),
      y ∈ xs.foldl (fun acc n => insertNack cutoff n acc) acc ↔ y ∈ acc ∨ y ∈ xs := by
  induction xs with
  | nil => intro acc y; simp
  | cons x xs ih =>
    intro acc y
    simp only [List.foldl_cons]
    rw [ih, mem_insertNack]
    simp only [List.mem_cons]
    constructor
    · rintro ((h | h) | h)
      · exact Or.inr (Or.inl h)
      · exact Or.inl h
      · exact Or.inr (Or.inr h)
    · rintro (h | h | h)
      · exact Or.inl (Or.inr h)
      · exact Or.inl (Or.inl h)
      · exact Or.inr h

/-- the cutoff `nackWriter` uses -/
def cutoffOf (kf : Option Nat) (l : Nat) : Nat := match kf with | some k => k | none => sub16 l 256

theorem nackWriter_some (kf : Option Nat) (l : Nat) (inCache : Nat → Bool) (nacks : List Nat) :
    nackWriter kf (some l) inCache nacks =
      (nacks.filter (fun n => decide (sub16 n (cutoffOf kf l) < 32768) && decide (sub16 l n < 32768) && !inCache n)).foldl
        (fun acc n => insertNack (cutoffOf kf l) n acc) [] := by
  unfold nackWriter cutoffOf
  cases kf <;> rfl

/-- **What nackWriter sends** (for every keyframe state, newest seqno, cache content and buffered list). -/
theorem C06_nackwriter_partial (kf last : Option Nat) (inCache : Nat → Bool) (nacks : List Nat) (n : Nat)
    (h : n ∈ nackWriter kf last inCache nacks) :
    ∃ l, last = some l ∧ n ∈ nacks ∧
      sub16 n (cutoffOf kf l) < 32768 ∧     -- not before the cutoff
      sub16 l n < 32768 ∧                   -- not beyond the newest packet
      inCache n = false := by               -- not in the cache
  cases last with
  | none =>
    have : nackWriter kf none inCache nacks = [] := by unfold nackWriter; rfl
    rw [this] at h; cases h
  | some l =>
    rw [nackWriter_some, mem_insert_fold] at h
    rcases h with h | h
    · cases h
    · rw [List.mem_filter] at h
      obtain ⟨hm, hp⟩ := h
      rw [Bool.and_eq_true, Bool.and_eq_true] at hp
      obtain ⟨⟨h1, h2⟩, h3⟩ := hp
      refine ⟨l, rfl, hm, of_decide_eq_true h1, of_decide_eq_true h2, ?_⟩
      cases hc : inCache n
      · rfl
      · rw [hc] at h3; cases h3

/-- nothing is sent on a fresh track (no packet received yet) -/
theorem C06_nackwriter_fresh (kf : Option Nat) (inCache : Nat → Bool) (nacks : List Nat) :
    nackWriter kf none inCache nacks = [] := by
  unfold nackWriter; rfl

/-- everything that passes the three tests is sent (nothing is lost by the sort) -/
theorem C06_nackwriter_complete (kf : Option Nat) (l : Nat) (inCache : Nat → Bool) (nacks : List Nat) (n : Nat)
    (hn : n ∈ nacks) (hc : sub16 n (cutoffOf kf l) < 32768)
    (hl : sub16 l n < 32768) (hi : inCache n = false) :
    n ∈ nackWriter kf (some l) inCache nacks := by
  rw [nackWriter_some, mem_insert_fold]
  right
  rw [List.mem_filter]
  refine ⟨hn, ?_⟩
  rw [Bool.and_eq_true, Bool.and_eq_true]
  exact ⟨⟨decide_eq_true hc, decide_eq_true hl⟩, by rw [hi]; rfl⟩

-- non-vacuity: newest 300, no keyframe (cutoff 44); 310 is beyond the newest, 40 before the cutoff,
-- 290 is in the cache; 100 and 250 are sent, ordered by distance from the cutoff
example : nackWriter none (some 300) (fun n => n == 290) [250, 310, 40, 290, 100] = [100, 250] := by
  decide +kernel

end Galene.Props.C06NackWriter
