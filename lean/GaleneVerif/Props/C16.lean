import GaleneVerif.Lemmas.TokenStore
import GaleneVerif.Lemmas.SafeReplace
import GaleneVerif.Generated.SyscallsToken
/-
C16 — stateful tokens: durable, conditionally updated, revocation final; the
token file is replaced atomically.

Model: `Model/TokenStore.lean` (token/stateful.go branch for branch; file
versions are abstract and fresh on every change; `fs`/`fd` faults make every
write / every open fail) and `Model/SafeReplace.lean` (syscall semantics).
All theorems are for every history (`Reach`: any sequence of
update/delete/get/list/expire with any tags and faults, external edits and
removals of the file, restarts, SetStatefulFilename), by induction with the
invariant `Inv` of `Lemmas/TokenStore.lean`.

What is proved:
* `C16_refines` — live view = view of a freshly started server, for EVERY
  history, failed expiry sweeps included.  This is the full statement; it holds
  since `Expire` calls `state.reset()` when its sweep fails (model: `expire` =
  `expireSweep` + reset on error).  Before that fix (a `fix:` commit suggested
  by these proofs) `Expire` was the bare `expireSweep`, which does not roll back
  when `rewrite` fails, and the statement was false:
  `C16_refines_counterexample_before_fix` keeps the counterexample, as a theorem
  about `expireSweep`.  `C16_live_subset_file` (the live server honours nothing
  that the file does not hold with the same contents) is kept; it is now a
  corollary.
* `C16_cas`, `C16_cas_exclusive`, `C16_no_panic` — unconditional.
* `C16_revocation` — unconditional (a *successful* delete / sweep).
* `C16_atomic_replace` — generic `safeReplace_atomic` + `decide` on the
  strace-captured syscall lists (regenerated on every run).
Concurrency: Update/Delete lock `tokens.mu`, Get/List/Expire lock `state.mu`;
for the package-level instance (the only one in production) these are the same
mutex, held for the whole body, so concurrent histories are sequential ones
(checked dynamically by the harness's `race` op).
Remarks (not findings): `rewrite` does not fsync (`C16_no_fsync`: power-loss
durability is outside the model); Update/Delete lock the global `tokens.mu`
even when called on another instance.
-/
namespace Galene.Props.C16
open Galene.TokenStore

/-! ### refinement: what the server honours is what a fresh server loads -/

/-- C16 (durability), for EVERY history: after every operation — including failed writes with
their rollback, expiry sweeps whose rewrite fails (followed by the reset that makes the next
operation reload the file), external edits and removals of the file, restarts — the live server and
a freshly started server on the same file either both fail to load it or honour exactly the same
tokens with the same contents. -/
theorem C16_refines (s : St) (h : Reach s) : OptRel Equiv (honoured s) (freshHonoured s) :=
  honoured_rel relOK_equiv s (reach_inv h)

def cxA : Tok := { id := "a", group := "g", exp := some (-700000) }
def cxB : Tok := { id := "b", group := "g", exp := some 3600 }
/-- two tokens, one expired for more than a week -/
def cxHist : List Op := [.update cxA none .none, .update cxB none .none]

theorem reach_run (ops : List Op) (s : St) (h : Reach s) : Reach (run s ops) := by
  induction ops generalizing s with
  | nil => exact h
  | cons op ops ih => exact ih _ (Reach.step s op h)

/-- The defect that was repaired by a `fix:` commit, kept as a theorem about the pre-fix function:
with `Expire` = the bare sweep `expireSweep` (no `state.reset()` on failure) the refinement statement
was false.  From a reachable state (two tokens, one expired for more than a week), a sweep whose
rewrite fails leaves a live server that has forgotten token `a`, which the file still holds (and a
fresh server loads). -/
theorem C16_refines_counterexample_before_fix :
    ∃ s0, Reach s0 ∧ (expireSweep s0 0 .fs).2 = .err ∧
      honoured (expireSweep s0 0 .fs).1 = some [cxB] ∧
      freshHonoured (expireSweep s0 0 .fs).1 = some [cxB, cxA] ∧
      ¬ OptRel Equiv (honoured (expireSweep s0 0 .fs).1) (freshHonoured (expireSweep s0 0 .fs).1) := by
  refine ⟨run {} cxHist, reach_run _ _ Reach.init, by decide, by decide, by decide, ?_⟩
  have h1 : honoured (expireSweep (run {} cxHist) 0 .fs).1 = some [cxB] := by decide
  have h2 : freshHonoured (expireSweep (run {} cxHist) 0 .fs).1 = some [cxB, cxA] := by decide
  rw [h1, h2]
  intro h
  have := h "a"
  revert this
  decide

/-- C16 (durability, one direction; a corollary of `C16_refines` since the fix of `Expire`, and the
only direction that held for every history before it): whatever the live server honours is in the
file with the same contents — a restart never *adds* authority, and nothing is honoured that is not
durable.  (Both fail to load, or live ⊆ fresh.) -/
theorem C16_live_subset_file (s : St) (h : Reach s) : OptRel Sub (honoured s) (freshHonoured s) :=
  honoured_rel relOK_sub s (reach_inv_sub h)

/-! ### conditional updates -/

/-- the non-empty tag an operation presents -/
def presents : Op → Option Nat
  | .update _ (some v) _ => some v
  | .delete _ (some v) _ => some v
  | _ => none

/-- C16 (compare-and-swap), for every state whatsoever: an `Update` succeeds only if either the
token exists, the tag is non-empty and equals the tag of the file version that is being replaced —
or the token does not exist and the tag is empty (creation requires absence); a `Delete` succeeds
only if the token exists and the tag equals the tag of the file version being replaced.  In both
cases the file afterwards carries a version never used before (or is gone). -/
theorem C16_cas (s : St) :
    (∀ t e f, (update s t e f).2 = .ok →
      fileVer (update s t e f).1 = some s.next ∧
      ((∃ m old, honoured s = some m ∧ TMap.find m t.id = some old ∧ e = fileVer s ∧ e ≠ none) ∨
       (∃ m, honoured s = some m ∧ TMap.find m t.id = none ∧ e = none))) ∧
    (∀ id e f, (delete s id e f).2 = .ok →
      (fileVer (delete s id e f).1 = some s.next ∨ fileVer (delete s id e f).1 = none) ∧
      ∃ m old, honoured s = some m ∧ TMap.find m id = some old ∧ e = fileVer s ∧ e ≠ none) :=
  ⟨update_ok s, delete_ok s⟩

theorem presents_ok (s : St) (op : Op) (v : Nat) (hp : presents op = some v) (hok : (step s op).2 = .ok) :
    fileVer s = some v ∧
    (fileVer (step s op).1 = some s.next ∨ fileVer (step s op).1 = none) := by
  cases op with
  | update t e f =>
    cases e with
    | none => simp [presents] at hp
    | some v' =>
      simp only [presents, Option.some.injEq] at hp
      subst hp
      obtain ⟨hv, hcase⟩ := update_ok s t (some v') f hok
      rcases hcase with ⟨_, _, _, _, he, _⟩ | ⟨_, _, _, he⟩
      · exact ⟨he.symm, Or.inl hv⟩
      · cases he
  | delete id e f =>
    cases e with
    | none => simp [presents] at hp
    | some v' =>
      simp only [presents, Option.some.injEq] at hp
      subst hp
      obtain ⟨hv, _, _, _, _, he, _⟩ := delete_ok s id (some v') f hok
      exact ⟨he.symm, hv⟩
  | _ => simp [presents] at hp

/-- C16 (no lost update): in every history, of all the operations that present the same non-empty
tag at most one succeeds — once an update or delete conditioned on tag `v` has succeeded, no later
update or delete conditioned on `v` succeeds, whatever happens in between (other writers, external
edits, restarts). -/
theorem C16_cas_exclusive (s : St) (h : Reach s) (op1 : Op) (v : Nat) (hp1 : presents op1 = some v)
    (hok1 : (step s op1).2 = .ok) (between : List Op) (op2 : Op) (hp2 : presents op2 = some v) :
    (step (run (step s op1).1 between) op2).2 ≠ .ok := by
  obtain ⟨hv, hafter⟩ := presents_ok s op1 v hp1 hok1
  have hinv := reach_inv_sub h
  have hlt : v < s.next := by
    cases hf : s.file with
    | none => simp [fileVer, hf] at hv
    | some lv =>
      obtain ⟨ls, v0⟩ := lv
      simp only [fileVer, hf, Option.map_some, Option.some.injEq] at hv
      subst hv
      exact hinv.fileLt ls _ hf
  have hstale : Stale v (step s op1).1 := by
    refine ⟨Nat.lt_of_lt_of_le hlt (step_fileStep s op1).mono, ?_⟩
    rcases hafter with e | e
    · rw [e]; intro h'; cases h'; exact Nat.lt_irrefl _ hlt
    · rw [e]; simp
  have hstale2 := stale_run between hstale
  intro hok2
  exact hstale2.2 (presents_ok _ op2 v hp2 hok2).1

/-- No operation of any history panics (the rollback `state.tokens[id] = old` is never reached
with a nil map: the `load` inside `rewrite` is always served from the mirrored version). -/
theorem C16_no_panic (s : St) (op : Op) : (step s op).2 ≠ .panic := step_no_panic s op

/-! ### revocation -/

/-- the operation revokes token `id`: a successful delete, or a successful sweep at a time when the
server honoured a token with that id that had been expired for a week -/
def revokes (s : St) (id : String) : Op → Prop
  | .delete i e f => i = id ∧ (delete s i e f).2 = .ok
  | .expire now f => (expire s now f).2 = .ok ∧
      ∃ m t, honoured s = some m ∧ TMap.find m id = some t ∧ sweepable now t = true
  | _ => False

/-- a client presenting token `id` for `group` at time `now` is let in (`token.Parse` + `Check`) -/
def authorises (s : St) (id group : String) (now : Int) : Prop :=
  ∃ t e pad, (get s id).2 = .ok (t, e) ∧ check t group now = .ok pad

theorem honoured_nodup (s : St) (h : Reach s) (m : TMap) (hm : honoured s = some m) : (ids m).Nodup := by
  have hinv := load_inv relOK_sub s .none (reach_inv_sub h)
  unfold honoured at hm
  cases hl : load s .none with
  | mk s1 r =>
  rw [hl] at hm hinv
  cases r with
  | none => simp at hm
  | some e0 =>
    simp only [Option.some.injEq] at hm
    rw [← hm]
    cases hm1 : s1.mem with
    | none => exact List.nodup_nil
    | some m1 => exact hinv.nodup m1 hm1

/-- C16 (revocation is final): after a successful delete of token `id`, or a successful expiry
sweep that had to sweep it, and after any further operations whatsoever other than a new
`Update` of that id or an external edit of the file — failed writes, other tokens' updates and
deletes, sweeps, removal of the file, restarts — the token is honoured neither by the live server
nor by a freshly started one, and presenting it authorises nobody. -/
theorem C16_revocation (s : St) (h : Reach s) (id : String) (op : Op) (hrev : revokes s id op)
    (later : List Op) (hno : ∀ o ∈ later, ¬recreates id o) :
    let s' := run (step s op).1 later
    (∀ m, honoured s' = some m → TMap.find m id = none) ∧
    (∀ m, freshHonoured s' = some m → TMap.find m id = none) ∧
    (∀ group now, ¬authorises s' id group now) := by
  have habs : Absent id (step s op).1 := by
    cases op with
    | delete i e f =>
      obtain ⟨hi, hok⟩ := hrev
      subst hi
      exact delete_ok_absent s i e f hok
    | expire now f =>
      obtain ⟨hok, m, t, hm, ht, hsw⟩ := hrev
      exact expire_ok_absent s now f hok m hm (honoured_nodup s h m hm) id t ht hsw
    | update _ _ _ => exact absurd hrev (by simp [revokes])
    | get _ => exact absurd hrev (by simp [revokes])
    | list _ => exact absurd hrev (by simp [revokes])
    | extEdit _ => exact absurd hrev (by simp [revokes])
    | extRemove => exact absurd hrev (by simp [revokes])
    | restart => exact absurd hrev (by simp [revokes])
    | setFile => exact absurd hrev (by simp [revokes])
  have hrun := run_absent later _ hno habs
  refine ⟨absent_not_honoured _ hrun, absent_not_honoured _ (absent_restart _ hrun), ?_⟩
  intro group now ⟨t, e, pad, hget, _⟩
  rcases absent_get _ hrun with h' | h' <;> rw [h'] at hget <;> cases hget

/-! ### atomic replacement of the file -/

namespace Replace
open Galene.SafeReplace

theorem view_openAppend (fs : FS) (t : Path) : view (exec fs (.openAppend t) t) = view (fs t) := by
  simp only [exec]
  cases h : fs t <;> simp [FS.set, view, h]

theorem take_split (pre : List SafeReplace.Op) (o : SafeReplace.Op) (post : List SafeReplace.Op) (k : Nat) :
    k ≤ pre.length ∨ ∃ j, (pre ++ o :: post).take k = pre ++ o :: post.take j := by
  by_cases hk : k ≤ pre.length
  · exact Or.inl hk
  · right
    refine ⟨k - pre.length - 1, ?_⟩
    obtain ⟨j, rfl⟩ : ∃ j, k = pre.length + (j + 1) := ⟨k - pre.length - 1, by omega⟩
    rw [List.take_append, List.take_of_length_le (by omega)]
    have : pre.length + (j + 1) - pre.length = j + 1 := by omega
    rw [this, List.take_succ_cons]
    simp

/-- The generic theorem: for EVERY syscall list of the decidable shape `SafeReplace target ops`,
every initial file system and every crash point `k` (the process dies after `k` syscalls), a reader
of the target sees either exactly what was there before or exactly what is there after the complete
list (a missing file reads as the empty set). -/
theorem safeReplace_atomic (t : Path) (ops : List SafeReplace.Op) (h : SafeReplace t ops = true) (fs : FS) (k : Nat) :
    view (run fs (ops.take k) t) = view (fs t) ∨ view (run fs (ops.take k) t) = view (run fs ops t) := by
  unfold SafeReplace at h
  have hs := splitMut_spec t ops
  generalize splitMut t ops = r at h hs
  obtain ⟨pre, rest⟩ := r
  cases rest with
  | none =>
    left
    simp only at hs
    rw [hs.1, atomic_quiet t pre hs.2]
  | some r =>
    obtain ⟨o, post⟩ := r
    simp only at hs
    obtain ⟨hops, hpre, hmut⟩ := hs
    subst hops
    cases o with
    | rename tmp d =>
      simp only [Bool.and_eq_true] at h
      rcases atomic_single t pre post (.rename tmp d) hpre h.1.1.2 fs k with e | e
      · left; rw [e]
      · right; rw [e]
    | unlink p =>
      simp only at h
      rcases atomic_single t pre post (.unlink p) hpre h fs k with e | e
      · left; rw [e]
      · right; rw [e]
    | openAppend p =>
      have hp : p = t := by simpa [mutates] using hmut
      subst hp
      simp only at h
      have hs2 := splitMut_spec p post
      generalize splitMut p post = r2 at h hs2
      obtain ⟨mid, rest2⟩ := r2
      cases rest2 with
      | none =>
        simp only at hs2
        rcases atomic_single p pre post (.openAppend p) hpre (hs2.1 ▸ hs2.2) fs k with e | e
        · left; rw [e]
        · right; rw [e]
      | some r2 =>
        obtain ⟨o2, post'⟩ := r2
        simp only at hs2
        obtain ⟨hpost, hmid, _⟩ := hs2
        cases o2 with
        | write p' n =>
          simp only at h
          rcases take_split pre (.openAppend p) post k with hk | ⟨j, hj⟩
          · left
            rw [List.take_append_of_le_length hk, run_quiet p _ (quiet_take p pre hpre k)]
          · rw [hj, run_append, run_cons, run_append, run_cons]
            subst hpost
            rcases atomic_single p mid post' (.write p' n) hmid h (exec (run fs pre) (.openAppend p)) j with e | e
            · left
              rw [e, view_openAppend, run_quiet p pre hpre]
            · right
              rw [e]
        | _ => simp at h
    | _ => simp at h

end Replace

open Galene.SafeReplace Galene.Generated.SyscallsToken in
/-- C16 (atomic replace), side condition on today's code: the syscall sequences by which
`state.rewrite` (update of an existing token, delete, expiry sweep), `state.add` (creation, with and
without an existing file) and the removal of the last token touch the token file, as captured by
strace from the real code on this run, all have the safe shape.  Together with
`safeReplace_atomic`: at every interruption point the file holds the complete old or the complete
new set (`C16_atomic_replace_crash`). -/
theorem C16_atomic_replace :
    SafeReplace target rewriteOps = true ∧ SafeReplace target addOps = true ∧
    SafeReplace target addfreshOps = true ∧ SafeReplace target removeOps = true ∧
    SafeReplace target expireOps = true := by decide

open Galene.SafeReplace Galene.Generated.SyscallsToken in
/-- the instantiated statement: every crash prefix of every captured sequence, every file system -/
theorem C16_atomic_replace_crash (ops : List SafeReplace.Op)
    (hops : ops ∈ [rewriteOps, addOps, addfreshOps, removeOps, expireOps]) (fs : FS) (k : Nat) :
    view (run fs (ops.take k) target) = view (fs target) ∨
    view (run fs (ops.take k) target) = view (run fs ops target) := by
  have h := C16_atomic_replace
  simp only [List.mem_cons, List.not_mem_nil, or_false] at hops
  rcases hops with rfl | rfl | rfl | rfl | rfl
  · exact Replace.safeReplace_atomic _ _ h.1 fs k
  · exact Replace.safeReplace_atomic _ _ h.2.1 fs k
  · exact Replace.safeReplace_atomic _ _ h.2.2.1 fs k
  · exact Replace.safeReplace_atomic _ _ h.2.2.2.1 fs k
  · exact Replace.safeReplace_atomic _ _ h.2.2.2.2 fs k

open Galene.SafeReplace Galene.Generated.SyscallsToken in
/-- "The complete new set": in the captured rewrite sequences (update/delete and expiry sweep) every
byte written went to the temp file, and — for every file system in which the temp name is free, which
`O_EXCL` guarantees — the complete sequence leaves in the token file exactly those chunks, in order. -/
theorem C16_rewrite_complete (fs : FS) (hfresh : fs ⟨0, 1⟩ = none) :
    run fs rewriteOps target = some (chunks rewriteOps) ∧
    run fs expireOps target = some (chunks expireOps) := by
  have h := C16_atomic_replace
  exact ⟨rename_complete target rewriteOps h.1 ⟨0, 1⟩ _ (by decide) fs hfresh,
         rename_complete target expireOps h.2.2.2.2 ⟨0, 1⟩ _ (by decide) fs hfresh⟩

open Galene.SafeReplace Galene.Generated.SyscallsToken in
/-- Remark, not a finding: none of the captured sequences calls fsync/fdatasync; durability across a
power loss (as opposed to a process crash) is outside the model. -/
theorem C16_no_fsync :
    hasFsync rewriteOps = false ∧ hasFsync addOps = false ∧ hasFsync expireOps = false := by decide

/-! ### non-vacuity -/

def exA : Tok := { id := "a", group := "g", exp := some 3600, pad := 1 }
def exA2 : Tok := { id := "a", group := "g", exp := some 7200, pad := 2 }
def exB : Tok := { id := "b", group := "h", exp := some (-700000) }

/-- create a, create b, update a under the current tag (3rd version: 2) -/
def exOps : List Op := [.update exA none .none, .update exB none .none, .update exA2 (some 2) .none]

-- the live view of a reachable state is non-trivial
example : honoured (run {} exOps) = some [exA2, exB] := by decide
example : Reach (run {} exOps) := reach_run _ _ Reach.init
-- the history of the old counterexample, with today's `Expire`: the sweep fails, the state is reset,
-- live and fresh server agree again (and still honour the week-old token: nothing was swept)
example : (step (run {} cxHist) (.expire 0 .fs)).2 = .err := by decide
example : honoured (step (run {} cxHist) (.expire 0 .fs)).1 = some [cxB, cxA] := by decide
example : freshHonoured (step (run {} cxHist) (.expire 0 .fs)).1 = some [cxB, cxA] := by decide
-- and the retried sweep, without the fault, sweeps it for good
example : freshHonoured (run (run {} cxHist) [.expire 0 .fs, .expire 0 .none]) = some [cxB] := by decide
example : fileVer (run {} exOps) = some 3 := by decide
-- a second writer presenting the consumed tag 2 fails, the holder of tag 3 succeeds
example : (step (run {} exOps) (.update exA (some 2) .none)).2 = .mismatch := by decide
example : (step (run {} exOps) (.delete "a" (some 3) .none)).2 = .ok := by decide
-- creation of an existing token fails; a failed write is rolled back
example : (step (run {} exOps) (.update exA none .none)).2 = .mismatch := by decide
example : honoured (step (run {} exOps) (.update exA (some 3) .fs)).1 = some [exA2, exB] := by decide
-- a sweep revokes b (hypotheses of `C16_revocation` are satisfiable), and b stays away after a restart
example : revokes (run {} exOps) "b" (.expire 0 .none) := by
  refine ⟨by decide, [exA2, exB], exB, by decide, by decide, by decide⟩
example : freshHonoured (run (step (run {} exOps) (.expire 0 .none)).1 [.restart, .get "b"]) = some [exA2] := by decide
-- an external edit with a later duplicate line and a junk line
example : parse [.tok exA, .tok exA2] = some [exA2] := by decide
example : parse [.tok exA, .junk] = none := by decide
-- the unsafe shapes are rejected: writing the target in place, renaming from another directory
open Galene.SafeReplace in
example : SafeReplace ⟨0, 0⟩ [.openTrunc ⟨0, 0⟩, .write ⟨0, 0⟩ 10, .close ⟨0, 0⟩] = false := by decide
open Galene.SafeReplace in
example : SafeReplace ⟨0, 0⟩ [.createExcl ⟨1, 1⟩, .write ⟨1, 1⟩ 10, .close ⟨1, 1⟩, .rename ⟨1, 1⟩ ⟨0, 0⟩] = false := by decide
open Galene.SafeReplace in
example : SafeReplace ⟨0, 0⟩ [.createExcl ⟨0, 1⟩, .write ⟨0, 1⟩ 10, .rename ⟨0, 1⟩ ⟨0, 0⟩, .close ⟨0, 1⟩] = false := by decide
open Galene.SafeReplace in
example : SafeReplace ⟨0, 0⟩ [.openAppend ⟨0, 0⟩, .write ⟨0, 0⟩ 10, .write ⟨0, 0⟩ 10] = false := by decide

end Galene.Props.C16
