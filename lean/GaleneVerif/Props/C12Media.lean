import GaleneVerif.Lemmas.CodecsParsers
import GaleneVerif.Props.C02
/-
C12 (media part) — packet classification and rewriting never read or write out
of bounds and never change a packet's length, whatever bytes a client sends.

In the model every Go index expression is a checked access (`byteAt`, `d[i]?`)
whose failure is the explicit outcome `Fail.panic` / `Status.panic`, so the
theorems `… ≠ .error .panic` below say that no input can drive the Go code to an
index-out-of-range panic.  The slicing expressions of the Go code
(`buf[hlen:end]`, `payload[payloadIndex:]`) are covered by the bound theorems
`C12_rtp_bounds`, `C12_vp8_bounds`, `C12_vp9_bounds`.  All statements are for
every byte list (no `< 256` hypothesis is needed), every codec string and every
argument.
-/
namespace Galene.Props.C12Media
open Galene.Codecs

/-! ### the pion parsers -/

/-- `rtp.Packet.Unmarshal` never indexes out of range. -/
theorem C12_rtp_total (b : Bytes) : rtpUnmarshal b ≠ .error .panic := (rtp_post b).noPanic

/-- When `rtp.Packet.Unmarshal` succeeds, the payload slice `b[payloadStart:payloadEnd]` is a valid
slice: `12 ≤ payloadStart ≤ payloadEnd ≤ len b`. -/
theorem C12_rtp_bounds {b : Bytes} {pkt : Rtp} (h : rtpUnmarshal b = .ok pkt) :
    12 ≤ pkt.payloadStart ∧ pkt.payloadStart ≤ pkt.payloadEnd ∧ pkt.payloadEnd ≤ b.length :=
  (rtp_post b).of_ok h

/-- `VP8Packet.Unmarshal` never indexes out of range. -/
theorem C12_vp8_total (p : Bytes) : vp8Unmarshal p ≠ .error .panic := (vp8_post p).noPanic

/-- When `VP8Packet.Unmarshal` succeeds, the payload descriptor ends inside the (non-empty) payload, so
`payload[payloadStart:]` is a valid slice. -/
theorem C12_vp8_bounds {p : Bytes} {v : VP8} (h : vp8Unmarshal p = .ok v) :
    v.payloadStart ≤ p.length ∧ 0 < p.length :=
  (vp8_post p).of_ok h

/-- `VP9Packet.Unmarshal` (including the reference-index, scalability-structure and picture-group
loops) never indexes out of range. -/
theorem C12_vp9_total (p : Bytes) : vp9Unmarshal p ≠ .error .panic := (vp9_post p).noPanic

/-- When `VP9Packet.Unmarshal` succeeds, the payload descriptor ends inside the (non-empty) payload. -/
theorem C12_vp9_bounds {p : Bytes} {v : VP9} (h : vp9Unmarshal p = .ok v) :
    v.payloadStart ≤ p.length ∧ 0 < p.length :=
  (vp9_post p).of_ok h

/-! ### codecs.PacketFlags -/

theorem packetFlags_post (codec : String) (buf : Bytes) :
    Post (packetFlags codec buf) (fun _ => True) := by
  unfold packetFlags
  wp_simp
  refine ⟨fun _ => trivial, fun h4 => ⟨by omega, fun b1 _ => ⟨by omega, fun b2 _ => ⟨by omega, fun b3 _ => ?_⟩⟩⟩⟩
  refine ⟨fun _ => ?_, fun _ => ⟨fun _ => ?_, fun _ => trivial⟩⟩
  · apply (rtp_post buf).mono
    intro pkt _
    apply (vp8_post _).mono
    intro v _
    vc_split
    simp_all
  · apply (rtp_post buf).mono
    intro pkt _
    apply (vp9_post _).mono
    intro v hv
    vc_split
    all_goals first | omega | simp_all

/-- C12: `PacketFlags` never indexes out of range, for every codec string and every buffer. -/
theorem C12_flags_total (codec : String) (buf : Bytes) : packetFlags codec buf ≠ .error .panic :=
  (packetFlags_post codec buf).noPanic

/-! ### codecs.Keyframe -/

theorem getObuLen_post (data : Bytes) :
    ∀ fuel offset length, offset ≤ data.length →
      Post (getObuLen data fuel offset length) (fun r => r.2.1 ≤ data.length) := by
  intro fuel
  induction fuel with
  | zero => intro offset length h; simpa [getObuLen] using h
  | succ k ih =>
    intro offset length h
    unfold getObuLen
    wp_simp
    vc_split
    all_goals first | omega | (apply ih; omega)

/-- the AV1 `getObu` helper never panics and never reports more consumed bytes than it was given -/
theorem getObu_post (data : Bytes) (last : Bool) :
    Post (getObu data last) (fun r => r.2.1 ≤ data.length) := by
  unfold getObu
  wp_simp
  refine ⟨fun _ => Nat.le_refl _, fun _ => ?_⟩
  apply (getObuLen_post data 5 0 0 (Nat.zero_le _)).mono
  rintro ⟨o, consumed, trunc⟩ h
  cases o with
  | none => exact h
  | some sl => exact h

/-- the AV1 OBU walk: the slice `payload[offset:]` is always in range (invariant `offset ≤ len`) -/
theorem av1Loop_post (payload : Bytes) (w : Nat) :
    ∀ fuel offset i, offset ≤ payload.length → Post (av1Loop payload w fuel offset i) (fun _ => True) := by
  intro fuel
  induction fuel with
  | zero => intro offset i h; simp [av1Loop]
  | succ k ih =>
    intro offset i h
    unfold av1Loop
    wp_simp
    refine ⟨fun h' => by omega, fun _ => ?_⟩
    apply (getObu_post (payload.drop offset) _).mono
    rintro ⟨obu, length, truncated⟩ hlen
    simp only [List.length_drop] at hlen
    wp_simp
    vc_split
    all_goals first | omega | (apply ih; omega)

/-- the H.264 STAP/MTAP aggregation walk never panics -/
theorem h264Agg_post (p : Bytes) (nalu : Nat) :
    ∀ fuel i, Post (h264Agg p nalu fuel i) (fun _ => True) := by
  intro fuel
  induction fuel with
  | zero => intro i; simp [h264Agg]
  | succ k ih =>
    intro i
    unfold h264Agg
    wp_simp
    vc_split
    all_goals first | omega | (apply ih)

theorem keyframe_post (codec : String) (payload : Bytes) :
    Post (keyframe codec payload) (fun _ => True) := by
  unfold keyframe
  wp_simp
  refine ⟨fun _ => ?_, fun _ => ⟨fun _ => ?_, fun _ => ⟨fun _ => ?_, fun _ => ⟨fun _ => ?_, fun _ => trivial⟩⟩⟩⟩
  · split
    · trivial
    · wp_simp; vc_split; all_goals omega
  · split
    · trivial
    · wp_simp; vc_split; all_goals omega
  · vc_split
    · omega
    · apply av1Loop_post; omega
  · repeat' first | (intro _) | (apply And.intro) | trivial | (apply h264Agg_post)
    all_goals omega

/-- C12: `Keyframe` (VP8, VP9, the AV1 OBU walk, H.264 single/STAP/MTAP/FU) never indexes out of
range, for every codec string and every payload. -/
theorem C12_keyframe_total (codec : String) (payload : Bytes) :
    keyframe codec payload ≠ .error .panic :=
  (keyframe_post codec payload).noPanic

/-! ### codecs.KeyframeDimensions -/

theorem keyframeDimensions_post (codec : String) (payload : Bytes) :
    Post (keyframeDimensions codec payload) (fun _ => True) := by
  unfold keyframeDimensions
  wp_simp
  refine ⟨fun _ => ?_, fun _ => ⟨fun _ => ?_, fun _ => trivial⟩⟩
  · split
    · trivial
    · wp_simp; vc_split; all_goals omega
  · split
    · trivial
    · wp_simp; vc_split

/-- C12: `KeyframeDimensions` never indexes out of range. -/
theorem C12_dimensions_total (codec : String) (payload : Bytes) :
    keyframeDimensions codec payload ≠ .error .panic :=
  (keyframeDimensions_post codec payload).noPanic

/-! ### codecs.RewritePacket (proved in Props/C02) -/

/-- C12: `RewritePacket` never indexes out of range (reads or writes), for every buffer, codec
string, marker flag, sequence number and delta. -/
theorem C12_rewrite_total (c : String) (d : Bytes) (mk : Bool) (n δ : Nat) :
    (rewritePacket c d mk n δ).2 ≠ .panic := Galene.Props.C02.C02_rewrite_total c d mk n δ

/-- C12: `RewritePacket` never changes the length of the buffer. -/
theorem C12_rewrite_length (c : String) (d : Bytes) (mk : Bool) (n δ : Nat) :
    (rewritePacket c d mk n δ).1.length = d.length := Galene.Props.C02.C02_rewrite_length c d mk n δ

/-! ### non-vacuity -/

/-- the fixed bound check of RewritePacket: 13 bytes with the extension bit set gives `err` -/
example : (rewritePacket "video/VP8" [0x90, 96, 0, 1, 0, 0, 3, 232, 222, 173, 190, 239, 0] false 7 1).2 = .err := by
  unfold rewritePacket
  simp only [isCodec_VP8_vp8]
  decide

/-- a VP8 packet with a 15-bit picture id: only bytes 2, 3, 14, 15 change -/
example : rewritePacket "video/VP8" Galene.Props.C02.exPkt15 false 0x1234 5 =
    ([0x80, 96, 0x12, 0x34, 0, 0, 3, 232, 222, 173, 190, 239, 0x90, 0x80, 0x80, 0x03, 0x9d, 0x01], .ok) :=
  Galene.Props.C02.exPkt15_rewrite

/-- a VP9 flexible-mode packet (I=1, P=1, F=1, B=1; 7-bit picture id; two reference indices), start of
a non-key frame -/
def exVp9Flex : Bytes :=
  [0x80, 98, 0, 9, 0, 0, 3, 232, 222, 173, 190, 239, 0xD8, 0x05, 0x03, 0x04, 0x86, 0x00]

example : vp9Unmarshal ((exVp9Flex.take 18).drop 12) =
    .ok { i := true, p := true, l := false, f := true, b := true, e := false, v := false, z := false,
          payloadStart := 4 } := rfl

example : packetFlags "video/vp9" exVp9Flex =
    .ok { seqno := 9, start := true, sidNonReference := false } := by
  unfold packetFlags
  simp only [isCodec_vp9_vp8, isCodec_vp9_vp9]
  rfl

/-- a VP9 packet with a scalability structure (V=1, Y=1, one 640x360 layer, G=1 with one picture group
entry with one reference): `keyframeDimensions` walks `ssDims` -/
example : keyframeDimensions "video/vp9" [0x8A, 0x05, 0x18, 2, 128, 1, 104, 1, 0x04, 1, 0x82] =
    .ok (640, 360) := by
  unfold keyframeDimensions
  simp only [isCodec_vp9_vp8, isCodec_vp9_vp9]
  rfl

/-- a truncated VP9 scalability structure is an error return of the parser (mapped to "no dimensions"), never a panic -/
example : vp9Unmarshal [0x8A, 0x05, 0x18, 2, 128, 1] = .error .err := rfl

/-- H.264 STAP-A carrying an SPS is a keyframe; AV1: aggregation header W=2, a length-prefixed
sequence-header OBU, then a frame OBU of a key frame (the OBU walk runs two iterations) -/
example : keyframe "video/H264" [0x18, 0, 2, 0x67, 0x42] = .ok (true, true) := by
  unfold keyframe
  simp only [isCodec_h264_vp8, isCodec_h264_vp9, isCodec_h264_av1, isCodec_h264_h264]
  rfl

example : keyframe "video/AV1" [0x28, 0x02, 0x0A, 0x00, 0x32, 0x00] = .ok (true, true) := by
  unfold keyframe
  simp only [isCodec_av1_vp8, isCodec_av1_vp9, isCodec_av1_av1]
  rfl

end Galene.Props.C12Media
