import GaleneVerif.Lemmas.WriteCases
import GaleneVerif.Lemmas.PidStream
/-
C02 (Write-level part) — besides the sequence number the server changes only the marker bit (only
ever set, and only on the last packet of a frame of the highest forwarded spatial layer) and, for
VP8, the picture-id field; when whole VP8 frames are withheld from a receiver, the picture ids of
the frames it does receive remain consecutive (each forwarded frame's id is its source id minus the
number of withheld frames before it, modulo the 7- or 15-bit id space), and all packets of one frame
carry one id.

The statements are about `Down.write` (model of rtpDownTrack.Write, rtpconn/rtpconn.go) composed of
`packetFlags`, `layerStep`, the packet map (`dropOp`, `mapOp`) and `rewritePacket`; the byte-level
facts about `rewritePacket` are in Props/C02.lean, the packet-map invariants in Props/C01.lean.

Main theorems
1. `C02_write_shape`, `C02_write_shape_bytes`, `C02_write_marker_only_set`, `C02_write_passthrough`
   (+ `write_sent`, the anatomy of a `Write` that sends bytes; `C02_write_length_counterexample`).
2. `C02_write_never_panics`, `C02_writeRun_never_panics` (+ `C02_write_clean`, `C02_writeRun_clean`).
3. `C02_pidDelta_counts_frames`, `C02_pidDelta_counts_frames_init` (packet-map level).
4. `C02_pid_shift_core`, `C02_pid_shift_unwrapped`, `outPid_of_counter`, `C02_pid_consecutive`,
   `C02_pid_formula_init` (packet-map level), `C02_write_vp8_pid`, `C02_write_vp8_outPid` (one packet
   through `Write`, read back by the independent parsers), `C02_pid_consecutive_write` (end to end
   over `Write`).
5. `C02_pid_sign_regression`.  6. `ex_stream_outputs`, `ex_streamOK` and the examples after them.

Vocabulary
* `Down.pmStep P m drop seqno pid` (Lemmas/WriteCases.lean) — the packet-map part of `Write` for one
  packet: `Drop` if the layer rules ask for it, then `Map` unless the drop was accepted.
  `some (m', none)`: drop accepted; `some (m', some (ok, n, pd))`: `Map`'s answer; `none`: index panic.
* `SetMarker flags l` — Go's `setMarker`; `Unchanged flags l n pd` — nothing to rewrite.
* `PidStream.Ready P m u` (Lemmas/PidStream.lean) — the map satisfies `C01.WF`, is `Clean` (count 0 in the
  identity region; an invariant of every reachable map, `C02_write_clean`) and expects the packet with
  unwrapped number `u` (or has not started); `ready_init`: the zero value is `Ready` for any `u`.
* `PidStream.Frame` (`k` packets, `fwd`), `runFrame`, `runStream P Mw m u a fs` — an in-order loss-free
  stream of frames through `pmStep`: frame `i` has id `(a + i) % Mw`; `withheldBefore fs i`,
  `fwdBefore fs i` count the withheld / forwarded frames among the first `i`; `StartOK`.
* `outPid Mw src pd = (src + sub16 0 pd) % Mw` — the id `RewritePacket` writes when called with `-pd`.
* `vp8Of b` — the VP8 descriptor of a packet as read by rtp.Packet.Unmarshal + VP8Packet.Unmarshal.
* `PktOK`, `FrameOK`, `StreamOK`, `WFrame`, `writeRun`, `writeStream`, `SentWith`, `AllPairs` — streams
  of concrete VP8 packets through `Write` (section 4c).
-/
namespace Galene.Props.C02Write
open Galene Galene.Codecs Galene.Down
open Galene.PacketMap (sub16 add16 mapOp dropOp)
open Galene.Props.C01 (WF)
open Galene.PidStream

/-! ### 1. the shape of what `Write` sends -/

/-- `Write` sets the marker bit exactly on an End packet of the current spatial layer whose marker
bit is clear (Go: `setMarker := flags.Sid == layer.sid && flags.End && !flags.Marker`) -/
def SetMarker (flags : Flags) (layer : Layer) : Prop :=
  flags.sid = layer.sid ∧ flags.end_ = true ∧ flags.marker = false

instance (flags : Flags) (layer : Layer) : Decidable (SetMarker flags layer) := by
  unfold SetMarker; infer_instance

theorem setMarkerOf_iff (flags : Flags) (layer : Layer) :
    setMarkerOf flags layer = true ↔ SetMarker flags layer := by
  simp [setMarkerOf, SetMarker, and_assoc]

theorem setMarkerOf_false_iff (flags : Flags) (layer : Layer) :
    setMarkerOf flags layer = false ↔ ¬ SetMarker flags layer := by
  rw [← setMarkerOf_iff]; simp

/-- nothing to change: no marker to set, the number is the packet's own, no picture-id shift -/
def Unchanged (flags : Flags) (layer : Layer) (n pd : Nat) : Prop :=
  ¬ SetMarker flags layer ∧ n = flags.seqno ∧ pd = 0

instance (flags : Flags) (layer : Layer) (n pd : Nat) : Decidable (Unchanged flags layer n pd) := by
  unfold Unchanged; infer_instance

/-- Anatomy of a `Write` that hands bytes `d` to the local track: `PacketFlags` accepted the buffer,
the packet-map step (Drop if asked for, then Map) answered `(true, n, pd)`, the new state is the
layer-updated state with the new packet map, and `d` is either the caller's buffer itself (when there
is nothing to change) or the result of a successful `RewritePacket` on the first 1504 bytes with
marker flag `setMarkerOf`, number `n` and picture-id shift `-pd`. -/
theorem write_sent {C : Consts} {P : PacketMap.Params} {codec : String} {s : Down.State} {buf d : Bytes}
    (hw : (write C P codec s buf).out = .sent d) :
    ∃ flags pm2 n pd, packetFlags codec buf = .ok flags ∧
      pmStep P s.pm (wantDrop flags (layerStep C s flags).2.1) flags.seqno flags.pid
        = some (pm2, some (true, n, pd)) ∧
      (write C P codec s buf).st = { (layerStep C s flags).1 with pm := pm2 } ∧
      (((setMarkerOf flags (layerStep C s flags).2.1 = false ∧ n = flags.seqno ∧ pd = 0) ∧ d = buf) ∨
       (¬ (setMarkerOf flags (layerStep C s flags).2.1 = false ∧ n = flags.seqno ∧ pd = 0) ∧
         rewritePacket codec (buf.take 1504) (setMarkerOf flags (layerStep C s flags).2.1) n (sub16 0 pd)
           = (d, .ok))) := by
  rw [write_cases] at hw ⊢
  cases hf : packetFlags codec buf with
  | error e => rw [hf] at hw; cases e <;> cases hw
  | ok flags =>
    rw [hf] at hw
    simp only at hw ⊢
    unfold finish at hw ⊢
    rw [layerStep_pm] at hw ⊢
    generalize hr : pmStep P s.pm (wantDrop flags (layerStep C s flags).2.1) flags.seqno flags.pid = r at hw
    match r, hr, hw with
    | none, _, hw => cases hw
    | some (m', none), _, hw => cases hw
    | some (m', some (false, _, _)), _, hw => cases hw
    | some (m', some (true, n, pd)), hr, hw =>
      simp only at hw
      refine ⟨flags, m', n, pd, rfl, hr, ?_, emit_sent hw⟩
      exact emit_st ..

/-- the big-endian bytes 2, 3 of a buffer of bytes are the sequence number `PacketFlags` reports -/
theorem seqno_bytes {c : String} {buf : Bytes} {flags : Flags} (hf : packetFlags c buf = .ok flags)
    (hb : ∀ x ∈ buf, x < 256) :
    buf[2]? = some (flags.seqno / 256 % 256) ∧ buf[3]? = some (flags.seqno % 256) := by
  obtain ⟨hl, hs, _⟩ := packetFlags_hdr hf
  have h2 : buf[2]? = some (buf[2]'(by omega)) := List.getElem?_eq_getElem _
  have h3 : buf[3]? = some (buf[3]'(by omega)) := List.getElem?_eq_getElem _
  have b2 := hb _ (List.mem_of_getElem? h2)
  have b3 := hb _ (List.mem_of_getElem? h3)
  rw [getD_of_getElem? h2, getD_of_getElem? h3] at hs
  rw [h2, h3, hs]
  constructor <;> (congr 1; omega)

/-- **C02 (Write, shape).**  Whenever `Write` hands bytes `d` to the local track, `PacketFlags` accepted
the buffer with flags `flags`, and with `l'` the layer after the layer bookkeeping (`layerStep`), `n`
and `pd` the number and picture-id count returned by the packet map:
* the length is unchanged (`min buf.length 1504` when the packet goes through the 1504-byte pooled
  buffer, the caller's own buffer otherwise);
* every byte at an index other than 1, 2, 3 and the VP8 picture-id offsets of the (truncated) input
  is the publisher's;
* byte 1 is or-ed with 0x80 exactly when `SetMarker flags l'` (End packet of the current spatial layer
  whose marker is clear) and is otherwise untouched — the marker is never cleared;
* bytes 2, 3 are the big-endian number `n` returned by the packet map (when the caller's buffer is
  passed through untouched this needs bytes 2, 3 of the input to be bytes, i.e. `< 256`). -/
theorem C02_write_shape {C : Consts} {P : PacketMap.Params} {codec : String} {s : Down.State} {buf d : Bytes}
    (hw : (write C P codec s buf).out = .sent d) :
    ∃ flags pm2 n pd, packetFlags codec buf = .ok flags ∧
      pmStep P s.pm (wantDrop flags (layerStep C s flags).2.1) flags.seqno flags.pid
        = some (pm2, some (true, n, pd)) ∧
      (write C P codec s buf).st = { (layerStep C s flags).1 with pm := pm2 } ∧
      d.length = (if Unchanged flags (layerStep C s flags).2.1 n pd then buf.length else min buf.length 1504) ∧
      (∀ i, i < 1504 → i ≠ 1 → i ≠ 2 → i ≠ 3 →
        i ∉ pidOffsets codec (buf.take 1504) (sub16 0 pd) → d[i]? = buf[i]?) ∧
      d[1]? = (if SetMarker flags (layerStep C s flags).2.1 then buf[1]?.map (· ||| 0x80) else buf[1]?) ∧
      ((¬ Unchanged flags (layerStep C s flags).2.1 n pd ∨ ∀ x ∈ buf, x < 256) →
        d[2]? = some (n / 256 % 256) ∧ d[3]? = some (n % 256)) := by
  obtain ⟨flags, pm2, n, pd, hf, hpm, hst, hcase⟩ := write_sent hw
  refine ⟨flags, pm2, n, pd, hf, hpm, hst, ?_⟩
  simp only [setMarkerOf_false_iff] at hcase
  rcases hcase with ⟨hu, rfl⟩ | ⟨hu, hr⟩
  · have hu' : Unchanged flags (layerStep C s flags).2.1 n pd := hu
    refine ⟨by rw [if_pos hu'], fun _ _ _ _ _ _ => rfl, by rw [if_neg hu.1], ?_⟩
    intro h
    rcases h with h | h
    · exact absurd hu' h
    · rw [hu.2.1]; exact seqno_bytes hf h
  · have hu' : ¬ Unchanged flags (layerStep C s flags).2.1 n pd := hu
    obtain ⟨hfr, h1, h2, h3⟩ := C02.C02_rewrite_frame hr
    have hlen := C02.C02_rewrite_length codec (buf.take 1504) (setMarkerOf flags (layerStep C s flags).2.1) n
      (sub16 0 pd)
    rw [hr] at hlen
    refine ⟨?_, ?_, ?_, fun _ => ⟨h2, h3⟩⟩
    · rw [if_neg hu', hlen, List.length_take, Nat.min_comm]
    · intro i hi i1 i2 i3 hp
      rw [hfr i i1 i2 i3 hp, List.getElem?_take_of_lt hi]
    · rw [h1, List.getElem?_take_of_lt (by decide)]
      simp only [setMarkerOf_iff]

/-- **C02 (Write, marker).**  The marker bit is only ever set, and only on an End packet of the
current spatial layer: byte 1 of what is sent keeps the seven low bits (payload type) of the
publisher's byte 1, is never smaller, and differs from it only when `SetMarker`. -/
theorem C02_write_marker_only_set {C : Consts} {P : PacketMap.Params} {codec : String} {s : Down.State}
    {buf d : Bytes} (hw : (write C P codec s buf).out = .sent d) :
    ∃ flags x y, packetFlags codec buf = .ok flags ∧ buf[1]? = some x ∧ d[1]? = some y ∧
      y % 128 = x % 128 ∧ x ≤ y ∧
      (y = x ∨ (SetMarker flags (layerStep C s flags).2.1 ∧ y = x ||| 0x80)) := by
  obtain ⟨flags, pm2, n, pd, hf, _, _, _, _, h1, _⟩ := C02_write_shape hw
  have hl := (packetFlags_hdr hf).len
  have hx : buf[1]? = some (buf[1]'(by omega)) := List.getElem?_eq_getElem _
  by_cases hm : SetMarker flags (layerStep C s flags).2.1
  · rw [if_pos hm, hx] at h1
    exact ⟨flags, _, _, hf, hx, h1, or_128_mod _, Nat.left_le_or, Or.inr ⟨hm, rfl⟩⟩
  · rw [if_neg hm, hx] at h1
    exact ⟨flags, _, _, hf, hx, h1, rfl, Nat.le_refl _, Or.inl rfl⟩

/-- **C02 (Write, pass-through).**  When there is nothing to change — no marker to set, the packet
map returns the packet's own number and a picture-id count of 0 — `Write` hands the caller's buffer
to the track exactly as it is (even if it is longer than the 1504-byte pooled buffer). -/
theorem C02_write_passthrough {C : Consts} {P : PacketMap.Params} {codec : String} {s : Down.State}
    {buf : Bytes} {flags : Flags} {pm2 : PacketMap.State} {n pd : Nat}
    (hf : packetFlags codec buf = .ok flags)
    (hpm : pmStep P s.pm (wantDrop flags (layerStep C s flags).2.1) flags.seqno flags.pid
        = some (pm2, some (true, n, pd)))
    (hu : Unchanged flags (layerStep C s flags).2.1 n pd) :
    (write C P codec s buf).out = .sent buf := by
  rw [write_cases, hf]
  simp only
  unfold finish
  rw [layerStep_pm, hpm]
  simp only
  unfold emit
  have hm := (setMarkerOf_false_iff _ _).mpr hu.1
  simp only [hm, hu.2.1, hu.2.2, Bool.not_false, decide_true, Bool.and_self, if_true]

/-- **C02 (Write, shape; packets that fit the pooled buffer).**  For a buffer of at most 1504 bytes
(Go never reads more: the reader's buffers are `BufSize` long) whose elements are bytes, the statement
is uniform: same length, every byte other than 1, 2, 3 and the picture-id bytes unchanged, byte 1
or-ed with 0x80 exactly when `SetMarker`, bytes 2, 3 the number returned by the packet map. -/
theorem C02_write_shape_bytes {C : Consts} {P : PacketMap.Params} {codec : String} {s : Down.State}
    {buf d : Bytes} (hw : (write C P codec s buf).out = .sent d)
    (hlen : buf.length ≤ 1504) (hb : ∀ x ∈ buf, x < 256) :
    ∃ flags pm2 n pd, packetFlags codec buf = .ok flags ∧
      pmStep P s.pm (wantDrop flags (layerStep C s flags).2.1) flags.seqno flags.pid
        = some (pm2, some (true, n, pd)) ∧
      d.length = buf.length ∧
      (∀ i, i ≠ 1 → i ≠ 2 → i ≠ 3 → i ∉ pidOffsets codec buf (sub16 0 pd) → d[i]? = buf[i]?) ∧
      d[1]? = (if SetMarker flags (layerStep C s flags).2.1 then buf[1]?.map (· ||| 0x80) else buf[1]?) ∧
      d[2]? = some (n / 256 % 256) ∧ d[3]? = some (n % 256) := by
  obtain ⟨flags, pm2, n, pd, hf, hpm, _, hl, hfr, h1, h23⟩ := C02_write_shape hw
  have hd : d.length = buf.length := by
    rw [hl]; split
    · rfl
    · exact Nat.min_eq_left hlen
  rw [List.take_of_length_le hlen] at hfr
  refine ⟨flags, pm2, n, pd, hf, hpm, hd, ?_, h1, h23 (Or.inr hb)⟩
  intro i i1 i2 i3 hp
  by_cases hi : i < 1504
  · exact hfr i hi i1 i2 i3 hp
  · rw [List.getElem?_eq_none (by omega), List.getElem?_eq_none (by omega)]

/-! ### 2. `Write` never panics -/

/-- **C02/C12 (Write never panics).**  If the packet map satisfies the index invariant `C01.WF`, then
for every codec string and every buffer `Write` completes without an index-out-of-range panic (in
`PacketFlags`, in `Map`/`Drop`, or in `RewritePacket`), and the packet map of the new state satisfies
the invariant again. -/
theorem C02_write_never_panics (C : Consts) (P : PacketMap.Params) (hP : 0 < P.maxEntries) (codec : String)
    (s : Down.State) (buf : Bytes) (h : WF P s.pm) :
    (write C P codec s buf).panic = false ∧ WF P (write C P codec s buf).st.pm := by
  rw [write_cases]
  cases hf : packetFlags codec buf with
  | error e =>
    cases e with
    | err => exact ⟨rfl, h⟩
    | panic => exact absurd hf (C12Media.C12_flags_total codec buf)
  | ok flags =>
    simp only
    unfold finish
    rw [layerStep_pm]
    obtain ⟨m', o, e, hw⟩ :=
      pmStep_total P hP s.pm (wantDrop flags (layerStep C s flags).2.1) flags.seqno flags.pid h
    rw [e]
    match o with
    | none => exact ⟨rfl, hw⟩
    | some (false, _, _) => exact ⟨rfl, hw⟩
    | some (true, n, pd) =>
      simp only
      rw [emit_panic, emit_st]
      exact ⟨rfl, hw⟩

/-- a run of `Write` over a list of buffers: the final state and the result of every call -/
def writeRun (C : Consts) (P : PacketMap.Params) (codec : String) : Down.State → List Bytes → Down.State × List WriteRes
  | s, [] => (s, [])
  | s, b :: bs =>
    let r := write C P codec s b
    let rest := writeRun C P codec r.st bs
    (rest.1, r :: rest.2)

/-- **No call of `Write` in any history panics**: from a state whose packet map satisfies the index
invariant (in particular the zero value), whatever buffers arrive in whatever order. -/
theorem C02_writeRun_never_panics (C : Consts) (P : PacketMap.Params) (hP : 0 < P.maxEntries) (codec : String)
    (bufs : List Bytes) : ∀ (s : Down.State), WF P s.pm →
      (∀ r ∈ (writeRun C P codec s bufs).2, r.panic = false) ∧ WF P (writeRun C P codec s bufs).1.pm := by
  induction bufs with
  | nil => intro s h; exact ⟨fun r hr => (by cases hr), h⟩
  | cons b bs ih =>
    intro s h
    obtain ⟨hp, hw⟩ := C02_write_never_panics C P hP codec s b h
    obtain ⟨h1, h2⟩ := ih _ hw
    simp only [writeRun]
    refine ⟨fun r hr => ?_, h2⟩
    rcases List.mem_cons.mp hr with rfl | hr
    · exact hp
    · exact h1 r hr

/-- the packet-map part of `Write` keeps `Clean` -/
theorem pmStep_clean (P : PacketMap.Params) (hP : 0 < P.maxEntries) (m m' : PacketMap.State) (drop : Bool)
    (seqno pid : Nat) (o : Option PacketMap.Result) (hw : WF P m) (h : Clean m)
    (e : pmStep P m drop seqno pid = some (m', o)) : Clean m' := by
  rw [pmStep_eq] at e
  split at e
  · injection e with e; injection e with e1 _
    rw [← e1]; exact clean_drop P m seqno pid h
  · cases hm : mapOp P m seqno pid with
    | none => rw [hm] at e; cases e
    | some r =>
      obtain ⟨m1, r1⟩ := r
      rw [hm] at e
      injection e with e; injection e with e1 _
      rw [← e1]; exact clean_map P hP m m1 seqno pid r1 hw h hm

/-- **`Clean` is an invariant of `Write`**: in every state reached by `Write` from the zero value (or
any state with a well-formed, clean map) the picture-id count is 0 whenever the map is in the identity
region; so the `Clean` part of the hypothesis `Ready` of the stream theorems always holds. -/
theorem C02_write_clean (C : Consts) (P : PacketMap.Params) (hP : 0 < P.maxEntries) (codec : String)
    (s : Down.State) (buf : Bytes) (hw : WF P s.pm) (h : Clean s.pm) :
    Clean (write C P codec s buf).st.pm := by
  cases hf : packetFlags codec buf with
  | error e =>
    rw [write_cases, hf]
    cases e <;> exact h
  | ok flags =>
    obtain ⟨m', o, e, _⟩ :=
      pmStep_total P hP s.pm (wantDrop flags (layerStep C s flags).2.1) flags.seqno flags.pid hw
    rw [(write_pm hf e).1]
    exact pmStep_clean P hP s.pm m' _ _ _ o hw h e

theorem C02_writeRun_clean (C : Consts) (P : PacketMap.Params) (hP : 0 < P.maxEntries) (codec : String)
    (bufs : List Bytes) : ∀ (s : Down.State), WF P s.pm → Clean s.pm →
      Clean (writeRun C P codec s bufs).1.pm := by
  induction bufs with
  | nil => intro s _ h; exact h
  | cons b bs ih =>
    intro s hw h
    simp only [writeRun]
    exact ih _ (C02_write_never_panics C P hP codec s b hw).2 (C02_write_clean C P hP codec s b hw h)


/-! ### 3. picture-id accounting in the packet map -/

/-- **C02 (picture-id count = number of withheld frames).**  Take any in-order, loss-free stream of
frames `fs` (frame `i` has `k_i ≥ 1` packets with consecutive sequence numbers and source picture id
`(a + i) % Mw`, `Mw = 2^7` or `2^15`; each frame is wholly forwarded — every packet goes to `Map` — or
wholly withheld — every packet asks for `Drop`), fed from any map `m` that satisfies the index
invariant, has shift 0 in the identity region (`Clean`, true of all reachable maps) and expects the
stream's first packet (`InOrder`), and such that the first frame is forwarded or `m` holds the picture
id of the frame before the stream (`StartOK`).  Then nothing panics, every packet of a withheld frame is
accepted by `Drop` (nothing is forwarded), and every packet of a forwarded frame `i` is mapped with a
picture-id count `pd` that is, modulo the id space, the count before the stream plus the number of
withheld frames among frames `0..i-1`:  `pd % Mw = (m.pidDelta + withheldBefore fs i) % Mw`.
(Not modulo 2^16: a withheld frame whose id wrapped contributes `65537 - Mw`, see `pid_step_wrap15`.) -/
theorem C02_pidDelta_counts_frames (P : PacketMap.Params) (hP : 0 < P.maxEntries) (Mw : Nat)
    (hM : Mw = 128 ∨ Mw = 32768) (fs : List Frame) :
    ∀ (m : PacketMap.State) (u a : Nat), Ready P m u → (∀ f ∈ fs, 0 < f.k) → StartOK Mw m a fs →
      ∃ m' outs, runStream P Mw m u a fs = some (m', outs) ∧ outs.length = fs.length ∧
        ∀ i (hi : i < fs.length), ∃ rs, outs[i]? = some rs ∧ rs.length = fs[i].k ∧
          (fs[i].fwd = true → ∀ r ∈ rs, ∃ n pd, r = some (true, n, pd) ∧
            pd % Mw = (m.pidDelta + withheldBefore fs i) % Mw) ∧
          (fs[i].fwd = false → ∀ r ∈ rs, r = none) := by
  induction fs with
  | nil =>
    intro m u a _ _ _
    exact ⟨m, [], rfl, rfl, fun i hi => absurd hi (by simp)⟩
  | cons f fs ih =>
    intro m u a hr hk hst
    have hkf : 0 < f.k := hk f (List.mem_cons_self ..)
    have hk' : ∀ g ∈ fs, 0 < g.k := fun g hg => hk g (List.mem_cons_of_mem _ hg)
    cases hfw : f.fwd with
    | true =>
      obtain ⟨m1, rs1, e1, hl1, hall1, hr1, hp1, hlast1⟩ := runFrame_fwd P hP (a % Mw) f.k m u hr
      obtain ⟨hs1, hn1⟩ := hlast1 hkf
      obtain ⟨m2, outs, e2, hlo, hrest⟩ := ih m1 (u + f.k) (a + 1) hr1 hk' (Or.inr ⟨hs1, a, rfl, hn1⟩)
      refine ⟨m2, rs1 :: outs, ?_, by simp [hlo], ?_⟩
      · simp only [runStream, hfw, Bool.not_true, e1, e2]
      · intro i hi
        cases i with
        | zero =>
          refine ⟨rs1, rfl, hl1, fun _ r hr' => ?_, fun hc => ?_⟩
          · obtain ⟨n, hn⟩ := hall1 r hr'
            exact ⟨n, m.pidDelta, hn, by rw [withheldBefore_zero]; rfl⟩
          · simp only [List.getElem_cons_zero] at hc; rw [hfw] at hc; cases hc
        | succ i =>
          have hi' : i < fs.length := by simpa using hi
          obtain ⟨rs, hrs, hlen, hf1, hf2⟩ := hrest i hi'
          refine ⟨rs, by simpa using hrs, by simpa using hlen, fun hc r hr' => ?_, fun hc => ?_⟩
          · simp only [List.getElem_cons_succ] at hc
            obtain ⟨n, pd, e, hpd⟩ := hf1 hc r hr'
            refine ⟨n, pd, e, ?_⟩
            rw [hpd, hp1, withheldBefore_succ, hfw]
            simp
          · simp only [List.getElem_cons_succ] at hc
            exact hf2 hc
    | false =>
      have hst' : m.started = true ∧ ∃ q, a = q + 1 ∧ m.nextPid = q % Mw := by
        rcases hst with ⟨f', fs', e, hf'⟩ | h
        · injection e with e1 _
          rw [← e1, hfw] at hf'; cases hf'
        · exact h
      obtain ⟨hs, q, rfl, hn⟩ := hst'
      obtain ⟨m1, rs1, e1, hl1, hall1, hr1, hs1, hn1, hp1⟩ :=
        runFrame_drop_new P hP Mw q hM f.k hkf m u hr hs hn
      obtain ⟨m2, outs, e2, hlo, hrest⟩ := ih m1 (u + f.k) (q + 1 + 1) hr1 hk' (Or.inr ⟨hs1, q + 1, rfl, hn1⟩)
      refine ⟨m2, rs1 :: outs, ?_, by simp [hlo], ?_⟩
      · simp only [runStream, hfw, Bool.not_false, e1, e2]
      · intro i hi
        cases i with
        | zero =>
          refine ⟨rs1, rfl, hl1, fun hc => ?_, fun _ => hall1⟩
          simp only [List.getElem_cons_zero] at hc; rw [hfw] at hc; cases hc
        | succ i =>
          have hi' : i < fs.length := by simpa using hi
          obtain ⟨rs, hrs, hlen, hf1, hf2⟩ := hrest i hi'
          refine ⟨rs, by simpa using hrs, by simpa using hlen, fun hc r hr' => ?_, fun hc => ?_⟩
          · simp only [List.getElem_cons_succ] at hc
            obtain ⟨n, pd, e, hpd⟩ := hf1 hc r hr'
            refine ⟨n, pd, e, ?_⟩
            rw [hpd, withheldBefore_succ, hfw, add_mod_congr Mw _ _ _ hp1]
            simp only [Bool.false_eq_true, if_false]
            congr 1; omega
          · simp only [List.getElem_cons_succ] at hc
            exact hf2 hc


/-- C02 (picture-id count), from the start of a stream: if the map is in the identity region (in
particular the zero value `{}`) and the first frame is forwarded, the count returned for every packet
of a forwarded frame `i` is the number of withheld frames before it, modulo the id space. -/
theorem C02_pidDelta_counts_frames_init (P : PacketMap.Params) (hP : 0 < P.maxEntries) (Mw : Nat)
    (hM : Mw = 128 ∨ Mw = 32768) (f0 : Frame) (fs : List Frame) (m : PacketMap.State) (u a : Nat)
    (hr : Ready P m u) (hid : m.delta = 0 ∧ m.entries.length = 0) (h0 : f0.fwd = true)
    (hk : ∀ f ∈ f0 :: fs, 0 < f.k) :
    ∃ m' outs, runStream P Mw m u a (f0 :: fs) = some (m', outs) ∧ outs.length = (f0 :: fs).length ∧
      ∀ i (hi : i < (f0 :: fs).length), ∃ rs, outs[i]? = some rs ∧ rs.length = (f0 :: fs)[i].k ∧
        ((f0 :: fs)[i].fwd = true → ∀ r ∈ rs, ∃ n pd, r = some (true, n, pd) ∧
          pd % Mw = withheldBefore (f0 :: fs) i % Mw) ∧
        ((f0 :: fs)[i].fwd = false → ∀ r ∈ rs, r = none) := by
  have h := C02_pidDelta_counts_frames P hP Mw hM (f0 :: fs) m u a hr hk (Or.inl ⟨f0, fs, rfl, h0⟩)
  rw [hr.clean hid] at h
  simpa only [Nat.zero_add] using h

/-! ### 4. the picture ids a receiver sees stay consecutive -/

/-- the picture id `RewritePacket` writes when `Write` calls it with `-pd` on a packet whose source
id is `src` (see `C02.C02_rewrite_pid_parsed`: new id = `(old + δ) % Mw` with `δ = sub16 0 pd`) -/
def outPid (Mw src pd : Nat) : Nat := (src + sub16 0 pd) % Mw

/-- **C02 (arithmetic core).**  If the picture-id count `pd` is `K` modulo the id space, shifting the
source id by `-pd` in 16-bit arithmetic and reducing to the id space subtracts `K`:
`(src + (-pd mod 2^16)) % Mw = (src + Mw - K % Mw) % Mw`. -/
theorem C02_pid_shift_core (Mw src pd K : Nat) (hM : Mw = 128 ∨ Mw = 32768) (h : pd % Mw = K % Mw) :
    outPid Mw src pd = (src + Mw - K % Mw) % Mw := by
  unfold outPid sub16
  rcases hM with rfl | rfl <;> omega

/-- the same with the source id unwrapped: for the frame with unwrapped id `a`, before which `K ≤ a`
frames were withheld, the id written is `(a - K) % Mw` -/
theorem C02_pid_shift_unwrapped (Mw a pd K : Nat) (hM : Mw = 128 ∨ Mw = 32768) (h : pd % Mw = K % Mw)
    (hK : K ≤ a) : outPid Mw (a % Mw) pd = (a - K) % Mw := by
  unfold outPid sub16
  rcases hM with rfl | rfl <;> omega

/-- the outgoing-id invariant: if `c` is the id the next forwarded frame must carry
(`(c + pd) % Mw = src % Mw`), that is the id written -/
theorem outPid_of_counter (Mw a pd c : Nat) (hM : Mw = 128 ∨ Mw = 32768) (h : (c + pd) % Mw = a % Mw) :
    outPid Mw (a % Mw) pd = c % Mw := by
  unfold outPid sub16
  rcases hM with rfl | rfl <;> omega

/-- the forwarded-frame counter moves by exactly one per forwarded frame and not at all on a
withheld frame -/
theorem fwdBefore_step (fs : List Frame) (i : Nat) (hi : i < fs.length) :
    fwdBefore fs (i + 1) = fwdBefore fs i + (if fs[i].fwd then 1 else 0) := by
  unfold fwdBefore
  rw [List.take_add_one, List.filter_append, List.length_append, List.getElem?_eq_getElem hi]
  cases h : fs[i].fwd <;> simp [h]

/-- **C02 (picture ids stay consecutive, packet-map level).**  In the situation of
`C02_pidDelta_counts_frames`, let `c` be the id the next forwarded frame must carry for the receiver's
ids to continue (`(c + m.pidDelta) % Mw = a % Mw`; at the start of a stream `c = a`).  Then every packet
of a forwarded frame `i` is sent with picture id `(c + fwdBefore fs i) % Mw`, where `fwdBefore fs i`
is the number of forwarded frames before `i`: all packets of one frame carry one id, and the id grows
by exactly one from one forwarded frame to the next, however many frames were withheld in between
(`fwdBefore_step`) and whether or not the source id wrapped. -/
theorem C02_pid_consecutive (P : PacketMap.Params) (hP : 0 < P.maxEntries) (Mw : Nat)
    (hM : Mw = 128 ∨ Mw = 32768) (fs : List Frame) (m : PacketMap.State) (u a c : Nat)
    (hr : Ready P m u) (hk : ∀ f ∈ fs, 0 < f.k) (hst : StartOK Mw m a fs)
    (hc : (c + m.pidDelta) % Mw = a % Mw) :
    ∃ m' outs, runStream P Mw m u a fs = some (m', outs) ∧ outs.length = fs.length ∧
      ∀ i (hi : i < fs.length), ∃ rs, outs[i]? = some rs ∧ rs.length = fs[i].k ∧
        (fs[i].fwd = true → ∀ r ∈ rs, ∃ n pd, r = some (true, n, pd) ∧
          outPid Mw ((a + i) % Mw) pd = (c + fwdBefore fs i) % Mw) ∧
        (fs[i].fwd = false → ∀ r ∈ rs, r = none) := by
  obtain ⟨m', outs, e, hl, h⟩ := C02_pidDelta_counts_frames P hP Mw hM fs m u a hr hk hst
  refine ⟨m', outs, e, hl, fun i hi => ?_⟩
  obtain ⟨rs, hrs, hlen, hf1, hf2⟩ := h i hi
  refine ⟨rs, hrs, hlen, fun hfw r hr' => ?_, hf2⟩
  obtain ⟨n, pd, e', hpd⟩ := hf1 hfw r hr'
  refine ⟨n, pd, e', ?_⟩
  apply outPid_of_counter Mw (a + i) pd _ hM
  have hsum := fwd_add_withheld fs i (by omega)
  rcases hM with rfl | rfl <;> omega

/-- **C02 (the formula of the property).**  From the start of a stream (map in the identity region,
first frame forwarded): the id written for every packet of a forwarded frame `i` is its source id minus
the number `K_i` of withheld frames before it, in the id space:
`(srcPid_i + Mw - K_i % Mw) % Mw` with `srcPid_i = (a + i) % Mw`, `K_i = withheldBefore fs i`. -/
theorem C02_pid_formula_init (P : PacketMap.Params) (hP : 0 < P.maxEntries) (Mw : Nat)
    (hM : Mw = 128 ∨ Mw = 32768) (f0 : Frame) (fs : List Frame) (m : PacketMap.State) (u a : Nat)
    (hr : Ready P m u) (hid : m.delta = 0 ∧ m.entries.length = 0) (h0 : f0.fwd = true)
    (hk : ∀ f ∈ f0 :: fs, 0 < f.k) :
    ∃ m' outs, runStream P Mw m u a (f0 :: fs) = some (m', outs) ∧ outs.length = (f0 :: fs).length ∧
      ∀ i (hi : i < (f0 :: fs).length), ∃ rs, outs[i]? = some rs ∧ rs.length = (f0 :: fs)[i].k ∧
        ((f0 :: fs)[i].fwd = true → ∀ r ∈ rs, ∃ n pd, r = some (true, n, pd) ∧
          outPid Mw ((a + i) % Mw) pd =
            ((a + i) % Mw + Mw - withheldBefore (f0 :: fs) i % Mw) % Mw) ∧
        ((f0 :: fs)[i].fwd = false → ∀ r ∈ rs, r = none) := by
  obtain ⟨m', outs, e, hl, h⟩ := C02_pidDelta_counts_frames_init P hP Mw hM f0 fs m u a hr hid h0 hk
  refine ⟨m', outs, e, hl, fun i hi => ?_⟩
  obtain ⟨rs, hrs, hlen, hf1, hf2⟩ := h i hi
  refine ⟨rs, hrs, hlen, fun hfw r hr' => ?_, hf2⟩
  obtain ⟨n, pd, e', hpd⟩ := hf1 hfw r hr'
  exact ⟨n, pd, e', C02_pid_shift_core Mw _ pd _ hM hpd⟩

/-! ### 4b. the picture id written by `Write`, as read back by the independent parsers -/

/-- the VP8 payload descriptor of an RTP packet, as read by the independent (pion) parsers
`rtp.Packet.Unmarshal` and `VP8Packet.Unmarshal`; `none` if either rejects the packet -/
def vp8Of (b : Bytes) : Option VP8 :=
  match rtpUnmarshal b with
  | .ok pkt =>
    match vp8Unmarshal ((b.take pkt.payloadEnd).drop pkt.payloadStart) with
    | .ok v => some v
    | .error _ => none
  | .error _ => none

theorem vp8Of_eq {b : Bytes} {pkt : Rtp} {v : VP8} (h1 : rtpUnmarshal b = .ok pkt)
    (h2 : vp8Unmarshal ((b.take pkt.payloadEnd).drop pkt.payloadStart) = .ok v) : vp8Of b = some v := by
  unfold vp8Of; rw [h1]; simp only; rw [h2]

/-- on a VP8 track, `PacketFlags` reports the picture id the independent parsers read -/
theorem vp8Of_of_flags {c : String} {b : Bytes} {f : Flags} (hc : isCodec c "video/vp8" = true)
    (hf : packetFlags c b = .ok f) : ∃ v, vp8Of b = some v ∧ f.pid = v.pictureID := by
  obtain ⟨pkt, v, h1, h2, h3, _⟩ := C02.packetFlags_vp8_ok hc hf
  exact ⟨v, vp8Of_eq h1 h2, h3⟩

/-- the size of the picture-id space of a descriptor: 2^15 with the M bit, 2^7 without -/
def idSpace (v : VP8) : Nat := if v.m = true then 32768 else 128

/-- **C02 (Write, VP8 picture id, one packet).**  On a VP8 track, if `Write` sends bytes `d` for a
buffer `buf` of at most 1504 bytes, then with `pd` the picture-id count returned by the packet map and
`v` the VP8 descriptor of `buf` as read by the independent parsers: `d` parses again, to the same
descriptor except that a present picture id is shifted by `-pd` (16-bit) within its id space. -/
theorem C02_write_vp8_pid {C : Consts} {P : PacketMap.Params} {codec : String} {s : Down.State}
    {buf d : Bytes} (hc : isCodec codec "video/vp8" = true) (hlen : buf.length ≤ 1504)
    (hw : (write C P codec s buf).out = .sent d) :
    ∃ flags pm2 n pd v, packetFlags codec buf = .ok flags ∧
      pmStep P s.pm (wantDrop flags (layerStep C s flags).2.1) flags.seqno flags.pid
        = some (pm2, some (true, n, pd)) ∧
      vp8Of buf = some v ∧ flags.pid = v.pictureID ∧
      vp8Of d = some { v with pictureID :=
                        if v.i = true ∧ sub16 0 pd ≠ 0 then (v.pictureID + sub16 0 pd) % idSpace v
                        else v.pictureID } := by
  obtain ⟨flags, pm2, n, pd, hf, hpm, _, hcase⟩ := write_sent hw
  rcases hcase with ⟨hu, rfl⟩ | ⟨_, hr⟩
  · obtain ⟨v, hv, hp⟩ := vp8Of_of_flags hc hf
    refine ⟨flags, pm2, n, pd, v, hf, hpm, hv, hp, ?_⟩
    rw [hu.2.2]
    have : sub16 0 0 = 0 := by decide
    simp only [this, ne_eq, not_true_eq_false, and_false, if_false]
    exact hv
  · rw [List.take_of_length_le hlen] at hr
    obtain ⟨pkt, v, h1, h2, hp, h3, h4⟩ := C02.C02_forward_vp8 hc hf hr
    exact ⟨flags, pm2, n, pd, v, hf, hpm, vp8Of_eq h1 h2, hp, vp8Of_eq h3 h4⟩

/-- the same when the picture id is present and lies in its id space: the id sent is
`outPid (idSpace v) v.pictureID pd` -/
theorem C02_write_vp8_outPid {C : Consts} {P : PacketMap.Params} {codec : String} {s : Down.State}
    {buf d : Bytes} (hc : isCodec codec "video/vp8" = true) (hlen : buf.length ≤ 1504)
    (hw : (write C P codec s buf).out = .sent d) :
    ∃ flags pm2 n pd v, packetFlags codec buf = .ok flags ∧
      pmStep P s.pm (wantDrop flags (layerStep C s flags).2.1) flags.seqno flags.pid
        = some (pm2, some (true, n, pd)) ∧
      vp8Of buf = some v ∧ flags.pid = v.pictureID ∧
      (v.i = true → v.pictureID < idSpace v →
        vp8Of d = some { v with pictureID := outPid (idSpace v) v.pictureID pd }) := by
  obtain ⟨flags, pm2, n, pd, v, hf, hpm, hv, hp, hd⟩ := C02_write_vp8_pid hc hlen hw
  refine ⟨flags, pm2, n, pd, v, hf, hpm, hv, hp, fun hi hlt => ?_⟩
  rw [hd]
  unfold outPid
  by_cases h0 : sub16 0 pd = 0
  · simp only [h0, ne_eq, not_true_eq_false, and_false, if_false, Nat.add_zero, Nat.mod_eq_of_lt hlt]
  · simp only [hi, h0, ne_eq, not_false_eq_true, and_self, if_true]

/-! ### 4c. streams of VP8 frames through `Write` -/

/-- What is assumed of one packet `b` of a VP8 stream when it reaches `Write` in state `s`: it fits
the pooled buffer; `PacketFlags` accepts it and reports the in-order sequence number `u`; as read by
the independent parsers it carries a picture id, equal to `pid`, in the id space `Mw`; and the layer
rules of `Write` decide to forward it iff `fwd`. -/
def PktOK (C : Consts) (codec : String) (Mw : Nat) (s : Down.State) (b : Bytes) (u pid : Nat) (fwd : Bool) :
    Prop :=
  b.length ≤ 1504 ∧ ∃ flags v, packetFlags codec b = .ok flags ∧ flags.seqno = u % 65536 ∧
    vp8Of b = some v ∧ v.i = true ∧ v.pictureID = pid ∧ idSpace v = Mw ∧
    wantDrop flags (layerStep C s flags).2.1 = !fwd

/-- The result `r` of `Write` on a forwarded packet `b`: no panic, the packet is not silently
withheld (bytes are sent, or `RewritePacket` reported an error), and if bytes `d` are sent, they parse
to `b`'s VP8 descriptor with picture id `c` and everything else equal. -/
def SentWith (c : Nat) (b : Bytes) (r : WriteRes) : Prop :=
  r.panic = false ∧ r.out ≠ .none ∧
    ∀ d, r.out = .sent d → ∃ v, vp8Of b = some v ∧ vp8Of d = some { v with pictureID := c }

/-- one forwarded packet of a VP8 stream through `Write`: the map advances as in `PidStream.pmStep_fwd`
and what is sent carries the id `c` the receiver expects next -/
theorem write_pkt_fwd (C : Consts) (P : PacketMap.Params) (hP : 0 < P.maxEntries) (codec : String)
    (hc : isCodec codec "video/vp8" = true) (Mw : Nat) (hM : Mw = 128 ∨ Mw = 32768)
    (s : Down.State) (b : Bytes) (u a c : Nat) (hr : Ready P s.pm u)
    (hok : PktOK C codec Mw s b u (a % Mw) true) (hcnt : (c + s.pm.pidDelta) % Mw = a % Mw) :
    Ready P (write C P codec s b).st.pm (u + 1) ∧ (write C P codec s b).st.pm.started = true ∧
      (write C P codec s b).st.pm.nextPid = a % Mw ∧
      (write C P codec s b).st.pm.pidDelta = s.pm.pidDelta ∧
      SentWith (c % Mw) b (write C P codec s b) := by
  obtain ⟨hlen, flags, v, hf, hseq, hv, hi, hpid, hsp, hwd⟩ := hok
  obtain ⟨v', hv', hfp⟩ := vp8Of_of_flags hc hf
  have hvv : v' = v := by rw [hv] at hv'; injection hv' with h; exact h.symm
  subst hvv
  obtain ⟨m', e, hr', hs', hn', hp', _⟩ := pmStep_fwd P hP s.pm u (a % Mw) hr
  have hpm : pmStep P s.pm (wantDrop flags (layerStep C s flags).2.1) flags.seqno flags.pid
      = some (m', some (true, add16 (u % 65536) s.pm.delta, s.pm.pidDelta)) := by
    rw [hwd, hseq, hfp, hpid]; exact e
  obtain ⟨hst, hpanic, _, hne⟩ := write_pm hf hpm
  rw [hst]
  refine ⟨hr', hs', hn', hp', hpanic, hne _ _ rfl, fun d hd => ?_⟩
  obtain ⟨flags', pm2, n, pd, v'', hf', hpm', hv'', _, hout⟩ := C02_write_vp8_outPid (P := P) hc hlen hd
  have hff : flags' = flags := by rw [hf] at hf'; injection hf' with h; exact h.symm
  subst hff
  have hvv : v'' = v' := by rw [hv] at hv''; injection hv'' with h; exact h.symm
  subst hvv
  rw [hpm] at hpm'
  have hpd : pd = s.pm.pidDelta := by
    injection hpm' with h; injection h with _ h; injection h with h; injection h with _ h
    injection h with _ h; exact h.symm
  refine ⟨v'', hv, ?_⟩
  have hlt : v''.pictureID < idSpace v'' := by
    rw [hpid, hsp]; apply Nat.mod_lt; rcases hM with rfl | rfl <;> decide
  rw [hout hi hlt, hsp, hpid, hpd, outPid_of_counter Mw a _ c hM hcnt]

/-- one withheld packet of a VP8 stream through `Write`: nothing is sent and the map advances as in
`PidStream.pmStep_drop` -/
theorem write_pkt_drop (C : Consts) (P : PacketMap.Params) (hP : 0 < P.maxEntries) (codec : String)
    (hc : isCodec codec "video/vp8" = true) (Mw : Nat)
    (s : Down.State) (b : Bytes) (u pid : Nat) (hr : Ready P s.pm u) (hs : s.pm.started = true)
    (hok : PktOK C codec Mw s b u pid false) :
    (write C P codec s b).out = .none ∧ (write C P codec s b).panic = false ∧
      Ready P (write C P codec s b).st.pm (u + 1) ∧ (write C P codec s b).st.pm.started = true ∧
      (write C P codec s b).st.pm.nextPid = pid ∧
      (write C P codec s b).st.pm.pidDelta = add16 s.pm.pidDelta (sub16 pid s.pm.nextPid) := by
  obtain ⟨hlen, flags, v, hf, hseq, hv, hi, hpid, hsp, hwd⟩ := hok
  obtain ⟨v', hv', hfp⟩ := vp8Of_of_flags hc hf
  have hvv : v' = v := by rw [hv] at hv'; injection hv' with h; exact h.symm
  subst hvv
  obtain ⟨m', e, hr', hs', hn', hp', _⟩ := pmStep_drop P hP s.pm u pid hr hs
  have hpm : pmStep P s.pm (wantDrop flags (layerStep C s flags).2.1) flags.seqno flags.pid
      = some (m', none) := by
    rw [hwd, hseq, hfp, hpid]; exact e
  obtain ⟨hst, hpanic, hnone, _⟩ := write_pm hf hpm
  rw [hst]
  exact ⟨(hnone rfl).1, hpanic, hr', hs', hn', hp'⟩

/-- `R` holds between the elements of two lists of equal length, position by position -/
def AllPairs {α β : Type} (R : α → β → Prop) : List α → List β → Prop
  | [], [] => True
  | a :: as, b :: bs => R a b ∧ AllPairs R as bs
  | _, _ => False

theorem AllPairs.length_eq {α β : Type} {R : α → β → Prop} :
    ∀ {as : List α} {bs : List β}, AllPairs R as bs → as.length = bs.length
  | [], [], _ => rfl
  | _ :: _, _ :: _, h => by simp [AllPairs.length_eq h.2]
  | [], _ :: _, h => h.elim
  | _ :: _, [], h => h.elim

theorem AllPairs.get {α β : Type} {R : α → β → Prop} :
    ∀ {as : List α} {bs : List β}, AllPairs R as bs → ∀ (j : Nat) (h1 : j < as.length) (h2 : j < bs.length),
      R as[j] bs[j]
  | [], [], _, j, h1, _ => absurd h1 (by simp)
  | _ :: _, _ :: _, h, 0, _, _ => h.1
  | _ :: _, _ :: _, h, j + 1, h1, h2 => AllPairs.get h.2 j (by simpa using h1) (by simpa using h2)
  | [], _ :: _, h, _, _, _ => h.elim
  | _ :: _, [], h, _, _, _ => h.elim

/-- the hypotheses `PktOK` for the packets `bufs` of one frame (picture id `pid`, decision `fwd`),
each taken in the state in which it reaches `Write`; sequence numbers `u, u+1, …` -/
def FrameOK (C : Consts) (P : PacketMap.Params) (codec : String) (Mw pid : Nat) (fwd : Bool) :
    Down.State → Nat → List Bytes → Prop
  | _, _, [] => True
  | s, u, b :: bs =>
    PktOK C codec Mw s b u pid fwd ∧ FrameOK C P codec Mw pid fwd (write C P codec s b).st (u + 1) bs

/-- a forwarded frame through `Write` -/
theorem writeRun_fwd (C : Consts) (P : PacketMap.Params) (hP : 0 < P.maxEntries) (codec : String)
    (hc : isCodec codec "video/vp8" = true) (Mw : Nat) (hM : Mw = 128 ∨ Mw = 32768) (a c : Nat)
    (bufs : List Bytes) : ∀ (s : Down.State) (u : Nat), Ready P s.pm u →
      FrameOK C P codec Mw (a % Mw) true s u bufs → (c + s.pm.pidDelta) % Mw = a % Mw →
      Ready P (writeRun C P codec s bufs).1.pm (u + bufs.length) ∧
      (writeRun C P codec s bufs).1.pm.pidDelta = s.pm.pidDelta ∧
      (bufs ≠ [] → (writeRun C P codec s bufs).1.pm.started = true ∧
        (writeRun C P codec s bufs).1.pm.nextPid = a % Mw) ∧
      AllPairs (SentWith (c % Mw)) bufs (writeRun C P codec s bufs).2 := by
  induction bufs with
  | nil => intro s u hr _ _; exact ⟨hr, rfl, fun h => absurd rfl h, trivial⟩
  | cons b bs ih =>
    intro s u hr hok hcnt
    obtain ⟨hb, hrest⟩ := hok
    obtain ⟨hr1, hs1, hn1, hp1, hsent⟩ := write_pkt_fwd C P hP codec hc Mw hM s b u a c hr hb hcnt
    obtain ⟨hr2, hp2, hlast, hall⟩ := ih _ (u + 1) hr1 hrest (by rw [hp1]; exact hcnt)
    simp only [writeRun, List.length_cons]
    refine ⟨?_, hp2.trans hp1, fun _ => ?_, ⟨hsent, hall⟩⟩
    · have : u + 1 + bs.length = u + (bs.length + 1) := by omega
      rw [← this]; exact hr2
    · cases bs with
      | nil => exact ⟨hs1, hn1⟩
      | cons b' bs' => exact hlast (by simp)

/-- the remaining packets of a withheld frame through `Write` -/
theorem writeRun_drop_same (C : Consts) (P : PacketMap.Params) (hP : 0 < P.maxEntries) (codec : String)
    (hc : isCodec codec "video/vp8" = true) (Mw pid : Nat)
    (bufs : List Bytes) : ∀ (s : Down.State) (u : Nat), Ready P s.pm u → s.pm.started = true →
      s.pm.nextPid = pid → FrameOK C P codec Mw pid false s u bufs →
      Ready P (writeRun C P codec s bufs).1.pm (u + bufs.length) ∧
      (writeRun C P codec s bufs).1.pm.started = true ∧
      (writeRun C P codec s bufs).1.pm.nextPid = pid ∧
      (writeRun C P codec s bufs).1.pm.pidDelta % 65536 = s.pm.pidDelta % 65536 ∧
      (writeRun C P codec s bufs).2.length = bufs.length ∧
      ∀ r ∈ (writeRun C P codec s bufs).2, r.out = .none ∧ r.panic = false := by
  induction bufs with
  | nil => intro s u hr hs hn _; exact ⟨hr, hs, hn, rfl, rfl, fun r h => (by cases h)⟩
  | cons b bs ih =>
    intro s u hr hs hn hok
    obtain ⟨hb, hrest⟩ := hok
    obtain ⟨ho, hpa, hr1, hs1, hn1, hp1⟩ := write_pkt_drop C P hP codec hc Mw s b u pid hr hs hb
    obtain ⟨hr2, hs2, hn2, hp2, hl2, hall⟩ := ih _ (u + 1) hr1 hs1 hn1 hrest
    simp only [writeRun, List.length_cons]
    refine ⟨?_, hs2, hn2, ?_, by rw [hl2], fun r h => ?_⟩
    · have : u + 1 + bs.length = u + (bs.length + 1) := by omega
      rw [← this]; exact hr2
    · rw [hp2, hp1, hn, sub16_self]
      unfold add16; omega
    · rcases List.mem_cons.mp h with rfl | h
      · exact ⟨ho, hpa⟩
      · exact hall r h

/-- a withheld frame with a new picture id through `Write` -/
theorem writeRun_drop_new (C : Consts) (P : PacketMap.Params) (hP : 0 < P.maxEntries) (codec : String)
    (hc : isCodec codec "video/vp8" = true) (Mw q : Nat) (hM : Mw = 128 ∨ Mw = 32768)
    (bufs : List Bytes) (hne : bufs ≠ []) (s : Down.State) (u : Nat) (hr : Ready P s.pm u)
    (hs : s.pm.started = true) (hn : s.pm.nextPid = q % Mw)
    (hok : FrameOK C P codec Mw ((q + 1) % Mw) false s u bufs) :
    Ready P (writeRun C P codec s bufs).1.pm (u + bufs.length) ∧
    (writeRun C P codec s bufs).1.pm.started = true ∧
    (writeRun C P codec s bufs).1.pm.nextPid = (q + 1) % Mw ∧
    (writeRun C P codec s bufs).1.pm.pidDelta % Mw = (s.pm.pidDelta + 1) % Mw ∧
    (writeRun C P codec s bufs).2.length = bufs.length ∧
    ∀ r ∈ (writeRun C P codec s bufs).2, r.out = .none ∧ r.panic = false := by
  cases bufs with
  | nil => exact absurd rfl hne
  | cons b bs =>
    obtain ⟨hb, hrest⟩ := hok
    obtain ⟨ho, hpa, hr1, hs1, hn1, hp1⟩ := write_pkt_drop C P hP codec hc Mw s b u _ hr hs hb
    obtain ⟨hr2, hs2, hn2, hp2, hl2, hall⟩ :=
      writeRun_drop_same C P hP codec hc Mw _ bs _ (u + 1) hr1 hs1 hn1 hrest
    simp only [writeRun, List.length_cons]
    refine ⟨?_, hs2, hn2, ?_, by rw [hl2], fun r h => ?_⟩
    · have : u + 1 + bs.length = u + (bs.length + 1) := by omega
      rw [← this]; exact hr2
    · rw [mod_of_mod16 Mw _ _ hM hp2, hp1, hn]
      exact pid_step Mw q s.pm.pidDelta hM
    · rcases List.mem_cons.mp h with rfl | h
      · exact ⟨ho, hpa⟩
      · exact hall r h

/-- one frame of a stream reaching `Write`: its packets and whether the layer rules forward it -/
structure WFrame where
  fwd : Bool
  bufs : List Bytes

/-- the packet-count view of a frame -/
def WFrame.toFrame (f : WFrame) : Frame := ⟨f.bufs.length, f.fwd⟩

/-- the hypotheses on a whole stream: frame `i` of the list is non-empty, carries picture id
`(a + i) % Mw`, sequence numbers are consecutive from `u` over the whole stream, and every packet
satisfies `PktOK` in the state in which it reaches `Write` (in particular the layer rules forward all
packets of the frame or none) -/
def StreamOK (C : Consts) (P : PacketMap.Params) (codec : String) (Mw : Nat) :
    Down.State → Nat → Nat → List WFrame → Prop
  | _, _, _, [] => True
  | s, u, a, f :: fs =>
    f.bufs ≠ [] ∧ FrameOK C P codec Mw (a % Mw) f.fwd s u f.bufs ∧
      StreamOK C P codec Mw (writeRun C P codec s f.bufs).1 (u + f.bufs.length) (a + 1) fs

/-- `Write` over a stream of frames: the final state and, per frame, the result of every call -/
def writeStream (C : Consts) (P : PacketMap.Params) (codec : String) :
    Down.State → List WFrame → Down.State × List (List WriteRes)
  | s, [] => (s, [])
  | s, f :: fs =>
    let r := writeRun C P codec s f.bufs
    let rest := writeStream C P codec r.1 fs
    (rest.1, r.2 :: rest.2)

theorem counter_fwd (Mw c pd a : Nat) (h : (c + pd) % Mw = a % Mw) : (c + 1 + pd) % Mw = (a + 1) % Mw := by
  rw [Nat.add_right_comm]; exact add_mod_congr Mw _ _ 1 h

theorem counter_drop (Mw c pd pd' a : Nat) (h1 : pd' % Mw = (pd + 1) % Mw) (h2 : (c + pd) % Mw = a % Mw) :
    (c + pd') % Mw = (a + 1) % Mw := by
  rw [Nat.add_comm c pd', add_mod_congr Mw _ _ c h1, Nat.add_comm (pd + 1) c, ← Nat.add_assoc]
  exact add_mod_congr Mw _ _ 1 h2

/-- **C02 (picture ids stay consecutive, end to end over `Write`).**  Take any stream of VP8 frames
reaching `rtpDownTrack.Write` in order and without loss (`StreamOK`: frame `i` carries picture id
`(a + i) % Mw` in every packet, `Mw = 2^7` or `2^15`; the layer rules withhold whole frames), from a
state whose packet map satisfies the index invariant, is `Clean` and expects the first packet
(`Ready`), with the first frame forwarded or the map holding the previous frame's id (`StartOK`), and
let `c` be the id the next forwarded frame must carry (`(c + pidDelta) % Mw = a % Mw`; `c = a` at the
start of a stream).  Then:
* for a withheld frame, `Write` sends nothing for any of its packets (and does not panic);
* for a forwarded frame `i`, no call panics or silently withholds a packet, and every packet that is
  sent parses (with the independent RTP and VP8 parsers) to the publisher's VP8 descriptor with the
  picture id replaced by `(c + fwdBefore fs i) % Mw`, where `fwdBefore fs i` is the number of forwarded
  frames before `i`.
So all packets of one frame carry one id and the ids the receiver sees are consecutive
(`fwdBefore_step`), whatever was withheld and whether or not the publisher's id wrapped.
(`RewritePacket` can still return an error on some packets that both parsers accept, see the last
example of Props/C02.lean; such a packet is reported as `Out.err`, which `SentWith` allows.) -/
theorem C02_pid_consecutive_write (C : Consts) (P : PacketMap.Params) (hP : 0 < P.maxEntries)
    (codec : String) (hc : isCodec codec "video/vp8" = true) (Mw : Nat) (hM : Mw = 128 ∨ Mw = 32768)
    (fs : List WFrame) :
    ∀ (s : Down.State) (u a c : Nat), Ready P s.pm u → StreamOK C P codec Mw s u a fs →
      StartOK Mw s.pm a (fs.map WFrame.toFrame) → (c + s.pm.pidDelta) % Mw = a % Mw →
      (writeStream C P codec s fs).2.length = fs.length ∧
      ∀ i (hi : i < fs.length), ∃ rs, (writeStream C P codec s fs).2[i]? = some rs ∧
        (fs[i].fwd = true →
          AllPairs (SentWith ((c + fwdBefore (fs.map WFrame.toFrame) i) % Mw)) fs[i].bufs rs) ∧
        (fs[i].fwd = false →
          rs.length = fs[i].bufs.length ∧ ∀ r ∈ rs, r.out = .none ∧ r.panic = false) := by
  induction fs with
  | nil => intro s u a c _ _ _ _; exact ⟨rfl, fun i hi => absurd hi (by simp)⟩
  | cons f fs ih =>
    intro s u a c hr hok hst hcnt
    obtain ⟨hne, hfr, hrest⟩ := hok
    cases hfw : f.fwd with
    | true =>
      rw [hfw] at hfr
      obtain ⟨hr1, hp1, hlast, hall⟩ := writeRun_fwd C P hP codec hc Mw hM a c f.bufs s u hr hfr hcnt
      obtain ⟨hs1, hn1⟩ := hlast hne
      obtain ⟨hlen, hidx⟩ := ih _ (u + f.bufs.length) (a + 1) (c + 1) hr1 hrest
        (Or.inr ⟨hs1, a, rfl, hn1⟩) (by rw [hp1]; exact counter_fwd Mw c _ a hcnt)
      simp only [writeStream, List.length_cons, hlen, true_and]
      intro i hi
      cases i with
      | zero =>
        refine ⟨_, rfl, fun _ => ?_, fun h => ?_⟩
        · rw [fwdBefore_zero]; exact hall
        · simp only [List.getElem_cons_zero] at h; rw [hfw] at h; cases h
      | succ i =>
        have hi' : i < fs.length := by simpa using hi
        obtain ⟨rs, hrs, h1, h2⟩ := hidx i hi'
        refine ⟨rs, by simpa using hrs, fun h => ?_, fun h => ?_⟩
        · simp only [List.getElem_cons_succ] at h ⊢
          have := h1 h
          rw [List.map_cons, fwdBefore_succ]
          simp only [WFrame.toFrame, hfw, if_true]
          rw [← Nat.add_assoc]; exact this
        · simp only [List.getElem_cons_succ] at h ⊢
          exact h2 h
    | false =>
      rw [hfw] at hfr
      have hst' : s.pm.started = true ∧ ∃ q, a = q + 1 ∧ s.pm.nextPid = q % Mw := by
        rcases hst with ⟨f', fs', e, hf'⟩ | h
        · rw [List.map_cons] at e
          injection e with e1 _
          rw [← e1] at hf'
          simp only [WFrame.toFrame, hfw] at hf'
          cases hf'
        · exact h
      obtain ⟨hs, q, rfl, hn⟩ := hst'
      obtain ⟨hr1, hs1, hn1, hp1, hl1, hall⟩ :=
        writeRun_drop_new C P hP codec hc Mw q hM f.bufs hne s u hr hs hn hfr
      obtain ⟨hlen, hidx⟩ := ih _ (u + f.bufs.length) (q + 1 + 1) c hr1 hrest
        (Or.inr ⟨hs1, q + 1, rfl, hn1⟩) (counter_drop Mw c _ _ _ hp1 hcnt)
      simp only [writeStream, List.length_cons, hlen, true_and]
      intro i hi
      cases i with
      | zero =>
        refine ⟨_, rfl, fun h => ?_, fun _ => ⟨hl1, hall⟩⟩
        simp only [List.getElem_cons_zero] at h; rw [hfw] at h; cases h
      | succ i =>
        have hi' : i < fs.length := by simpa using hi
        obtain ⟨rs, hrs, h1, h2⟩ := hidx i hi'
        refine ⟨rs, by simpa using hrs, fun h => ?_, fun h => ?_⟩
        · simp only [List.getElem_cons_succ] at h ⊢
          have := h1 h
          rw [List.map_cons, fwdBefore_succ]
          simp only [WFrame.toFrame, hfw, Bool.false_eq_true, if_false, Nat.zero_add]
          exact this
        · simp only [List.getElem_cons_succ] at h ⊢
          exact h2 h

/-! ### 5, 6. non-vacuity: a concrete VP8 history through `Write`, and the sign regression -/

deriving instance DecidableEq for Galene.Down.State
deriving instance DecidableEq for Galene.Down.WriteRes

def exP1 : Bytes := [0x80, 96, 0, 100, 0, 0, 3, 232, 222, 173, 190, 239, 0x90, 0xA0, 10, 0x00, 0x10, 0x01]
def exP2 : Bytes := [0x80, 224, 0, 101, 0, 0, 3, 232, 222, 173, 190, 239, 0x80, 0xA0, 10, 0x00, 0x22, 0x33]
def exP3 : Bytes := [0x80, 224, 0, 102, 0, 0, 7, 208, 222, 173, 190, 239, 0x90, 0xA0, 11, 0x40, 0x11, 0x02]
def exP4 : Bytes := [0x80, 96, 0, 103, 0, 0, 11, 184, 222, 173, 190, 239, 0x90, 0xA0, 12, 0x00, 0x11, 0x03]
def exP5 : Bytes := [0x80, 224, 0, 104, 0, 0, 11, 184, 222, 173, 190, 239, 0x80, 0xA0, 12, 0x00, 0x44, 0x55]

def exS0 : Down.State := { word := 16777216 }

/-- evaluate one concrete call of `write` on a "video/VP8" track -/
macro "eval_write" : tactic =>
  `(tactic| (unfold write packetFlags rewritePacket; simp only [isCodec_VP8_vp8]; decide))

def exS1 : Down.State := { word := 16777216, pm := { started := true, next := 101, nextPid := 10 } }
def exS2 : Down.State := { word := 16777216, pm := { started := true, next := 102, nextPid := 10 } }
def exS3 : Down.State :=
  { word := 16777216,
    pm := { started := true, next := 103, nextPid := 11, delta := 65535, pidDelta := 1,
            entries := [{ first := 57446, count := 8192, delta := 0, pidDelta := 0 }] } }
def exS4 : Down.State :=
  { word := 16777216,
    pm := { started := true, next := 104, nextPid := 12, delta := 65535, pidDelta := 1, lastEntry := 1,
            entries := [{ first := 57446, count := 8192, delta := 0, pidDelta := 0 },
                        { first := 103, count := 1, delta := 65535, pidDelta := 1 }] } }
def exS5 : Down.State :=
  { word := 16777216,
    pm := { started := true, next := 105, nextPid := 12, delta := 65535, pidDelta := 1, lastEntry := 1,
            entries := [{ first := 57446, count := 8192, delta := 0, pidDelta := 0 },
                        { first := 103, count := 2, delta := 65535, pidDelta := 1 }] } }

/-- what the receiver gets for `exP4`, `exP5`: numbers 102, 103 (one less: one packet was withheld) and
picture id 11 (one less: one frame was withheld) -/
def exD4 : Bytes := [0x80, 96, 0, 102, 0, 0, 11, 184, 222, 173, 190, 239, 0x90, 0xA0, 11, 0x00, 0x11, 0x03]
def exD5 : Bytes := [0x80, 224, 0, 103, 0, 0, 11, 184, 222, 173, 190, 239, 0x80, 0xA0, 11, 0x00, 0x44, 0x55]

theorem ex_step1 : write {} {} "video/VP8" exS0 exP1 = { st := exS1, out := .sent exP1 } := by eval_write
theorem ex_step2 : write {} {} "video/VP8" exS1 exP2 = { st := exS2, out := .sent exP2 } := by eval_write
theorem ex_step3 : write {} {} "video/VP8" exS2 exP3 = { st := exS3, out := .none, dropped := true } := by
  eval_write
theorem ex_step4 : write {} {} "video/VP8" exS3 exP4 = { st := exS4, out := .sent exD4 } := by eval_write
theorem ex_step5 : write {} {} "video/VP8" exS4 exP5 = { st := exS5, out := .sent exD5 } := by eval_write

/-- the three-frame history: frame 10 (two packets) forwarded, frame 11 withheld (temporal layer 1 is
above the selected layer 0), frame 12 (two packets) forwarded -/
def exStream : List WFrame :=
  [{ fwd := true, bufs := [exP1, exP2] }, { fwd := false, bufs := [exP3] }, { fwd := true, bufs := [exP4, exP5] }]

/-- **non-vacuity (6): a concrete three-frame VP8 history through `write`.**  Frame 10 is passed
through untouched, frame 11 is withheld, and both packets of frame 12 are sent with picture id 11 and
the next two sequence numbers. -/
theorem ex_stream_outputs :
    (writeStream {} {} "video/VP8" exS0 exStream).2.map (·.map (·.out)) =
      [[.sent exP1, .sent exP2], [.none], [.sent exD4, .sent exD5]] := by
  simp only [writeStream, writeRun, exStream, ex_step1, ex_step2, ex_step3, ex_step4, ex_step5,
    List.map_cons, List.map_nil]

/-- the ids the receiver sees, read back by the independent parsers: 10, 10, 11, 11 -/
example : [exP1, exP2, exD4, exD5].map (fun b => (vp8Of b).map (·.pictureID)) =
    [some 10, some 10, some 11, some 11] := by decide

theorem ex_flags1 : packetFlags "video/VP8" exP1 =
    .ok { seqno := 100, start := true, keyframe := true, pid := 10, tidUpSync := true, sidUpSync := true } := by
  unfold packetFlags; simp only [isCodec_VP8_vp8]; rfl
theorem ex_flags2 : packetFlags "video/VP8" exP2 =
    .ok { seqno := 101, marker := true, end_ := true, pid := 10 } := by
  unfold packetFlags; simp only [isCodec_VP8_vp8]; rfl
theorem ex_flags3 : packetFlags "video/VP8" exP3 =
    .ok { seqno := 102, marker := true, start := true, end_ := true, pid := 11, tid := 1 } := by
  unfold packetFlags; simp only [isCodec_VP8_vp8]; rfl
theorem ex_flags4 : packetFlags "video/VP8" exP4 = .ok { seqno := 103, start := true, pid := 12 } := by
  unfold packetFlags; simp only [isCodec_VP8_vp8]; rfl
theorem ex_flags5 : packetFlags "video/VP8" exP5 =
    .ok { seqno := 104, marker := true, end_ := true, pid := 12 } := by
  unfold packetFlags; simp only [isCodec_VP8_vp8]; rfl

/-- the hypotheses of `C02_pid_consecutive_write` hold for the concrete history: every packet is
accepted by `PacketFlags`, in order, carries a 7-bit picture id 10 / 11 / 12, and the layer rules
forward frames 10 and 12 and withhold frame 11 -/
theorem ex_streamOK : StreamOK {} {} "video/VP8" 128 exS0 100 10 exStream := by
  simp only [StreamOK, FrameOK, exStream, writeRun, ex_step1, ex_step2, ex_step3, ex_step4,
    and_true]
  refine ⟨by decide, ⟨?_, ?_⟩, by decide, ?_, by decide, ?_, ?_⟩
  · exact ⟨by decide, _, _, ex_flags1, by decide, rfl, rfl, rfl, rfl, by decide⟩
  · exact ⟨by decide, _, _, ex_flags2, by decide, rfl, rfl, rfl, rfl, by decide⟩
  · exact ⟨by decide, _, _, ex_flags3, by decide, rfl, rfl, rfl, rfl, by decide⟩
  · exact ⟨by decide, _, _, ex_flags4, by decide, rfl, rfl, rfl, rfl, by decide⟩
  · exact ⟨by decide, _, _, ex_flags5, by decide, rfl, rfl, rfl, rfl, by decide⟩

/-- `C02_pid_consecutive_write` instantiated on the concrete history (all hypotheses hold; `c = a = 10`) -/
example := C02_pid_consecutive_write {} {} (by decide) "video/VP8" isCodec_VP8_vp8 128 (Or.inl rfl) exStream
  exS0 100 10 10 (ready_init {} 100) ex_streamOK (Or.inl ⟨_, _, rfl, rfl⟩) rfl

/-- **C02 (sign regression).**  Frames with ids 10, 11 (withheld), 12: when frame 12 arrives the packet
map reports `piddelta = 1` (one frame withheld).  `Write` passes `-piddelta` to `RewritePacket`, so the
receiver sees 10, 11.  Passing `piddelta` un-negated — the defect that was fixed — would make
`RewritePacket` write 13: the receiver would see 10, 13. -/
theorem C02_pid_sign_regression :
    pmStep {} exS3.pm false 103 12 = some (exS4.pm, some (true, 102, 1)) ∧
    (write {} {} "video/VP8" exS3 exP4).out = .sent exD4 ∧
    (vp8Of exD4).map (·.pictureID) = some 11 ∧
    (vp8Of (rewritePacket "video/VP8" exP4 false 102 (sub16 0 1)).1).map (·.pictureID) = some 11 ∧
    (vp8Of (rewritePacket "video/VP8" exP4 false 102 1).1).map (·.pictureID) = some 13 ∧
    outPid 128 12 1 = 11 ∧ (12 + 1) % 128 = 13 := by
  refine ⟨by decide, by rw [ex_step4], by decide, ?_, ?_, by decide, by decide⟩
  · unfold rewritePacket; simp only [isCodec_VP8_vp8]; decide
  · unfold rewritePacket; simp only [isCodec_VP8_vp8]; decide

/-! ### non-vacuity at the packet-map level -/

/-- 15-bit ids across the wrap of both the sequence number and the picture id: frames with ids
32766 (two packets, forwarded), 32767 (withheld), 0 (three packets, withheld — the id wraps and `Drop`
adds 32769, not 1), 1 (two packets, forwarded) -/
def exFrames15 : List Frame := [⟨2, true⟩, ⟨1, false⟩, ⟨3, false⟩, ⟨2, true⟩]

example : (runStream {} 32768 {} 65534 32766 exFrames15).map (·.2) =
    some [[some (true, 65534, 0), some (true, 65535, 0)], [none], [none, none, none],
          [some (true, 0, 32770), some (true, 1, 32770)]] := by decide

/-- the count is 2 modulo 2^15 (two frames withheld) although it is 32770 modulo 2^16, and the id
written for source id 1 is 32767: consecutive after 32766 -/
example : 32770 % 32768 = withheldBefore exFrames15 3 % 32768 ∧ outPid 32768 1 32770 = 32767 ∧
    (32766 + fwdBefore exFrames15 3) % 32768 = 32767 := by decide

/-- `C02_pidDelta_counts_frames_init` and `C02_pid_consecutive` instantiated: all hypotheses hold -/
example := C02_pidDelta_counts_frames_init {} (by decide) 32768 (Or.inr rfl) ⟨2, true⟩
  [⟨1, false⟩, ⟨3, false⟩, ⟨2, true⟩] {} 65534 32766 (ready_init {} 65534) ⟨rfl, rfl⟩ rfl (by decide)

example := C02_pid_consecutive {} (by decide) 32768 (Or.inr rfl) exFrames15 {} 65534 32766 32766
  (ready_init {} 65534) (by decide) (Or.inl ⟨_, _, rfl, rfl⟩) rfl

/-- a start in the middle of a stream (second disjunct of `StartOK`): the map `exS3.pm` has started,
holds picture id 11 and a count of 1; a withheld frame 12 and a forwarded frame 13 follow -/
example := C02_pidDelta_counts_frames {} (by decide) 128 (Or.inl rfl) [⟨1, false⟩, ⟨1, true⟩] exS3.pm 103 12
  ⟨by unfold Galene.Props.C01.WF; decide, by unfold Clean; decide, Or.inl (by decide)⟩ (by decide)
  (Or.inr ⟨rfl, 11, rfl, rfl⟩)

example : (runStream {} 128 exS3.pm 103 12 [⟨1, false⟩, ⟨1, true⟩]).map (·.2) =
    some [[none], [some (true, 102, 2)]] := by decide


/-! ### non-vacuity of the shape theorems, and the length clause -/

/-- a VP9 packet (B = 1, E = 1: a whole frame in one packet) whose RTP marker bit is clear -/
def exVp9End : Bytes := [0x80, 98, 0, 7, 0, 0, 3, 232, 222, 173, 190, 239, 0x0C, 0x00]

/-- `Write` sets the marker bit on it (End packet of the current spatial layer 0): byte 1 goes from
98 to 226, nothing else changes -/
theorem ex_marker_set : (write {} {} "video/vp9" {} exVp9End).out =
    .sent [0x80, 226, 0, 7, 0, 0, 3, 232, 222, 173, 190, 239, 0x0C, 0x00] := by
  unfold write packetFlags rewritePacket
  simp only [isCodec_vp9_vp8, isCodec_vp9_vp9]
  decide

/-- `C02_write_shape`, `C02_write_shape_bytes`, `C02_write_marker_only_set` instantiated with a marker that is set -/
example := C02_write_shape ex_marker_set
example := C02_write_shape_bytes ex_marker_set (by decide) (by decide)
example := C02_write_marker_only_set ex_marker_set

/-- a VP8 packet of 1505 bytes (12-byte header, 4-byte descriptor, 1489 payload bytes) -/
def exLong : Bytes :=
  [0x80, 96, 0, 100, 0, 0, 3, 232, 222, 173, 190, 239, 0x90, 0xA0, 10, 0x00] ++ List.replicate 1489 0x10

theorem exLong_length : exLong.length = 1505 := by
  unfold exLong; rw [List.length_append, List.length_replicate]; rfl

set_option maxRecDepth 20000 in
theorem exLong_flags : packetFlags "video/VP8" exLong =
    .ok { seqno := 100, start := true, keyframe := true, pid := 10, tidUpSync := true, sidUpSync := true } := by
  unfold packetFlags; simp only [isCodec_VP8_vp8]; rfl

/-- The clause "`d.length = min buf.length 1504`" cannot be stated unconditionally: a packet with
nothing to change is handed to the track in the caller's own buffer, without going through the
1504-byte pooled buffer, so a 1505-byte packet is sent with its 1505 bytes. -/
theorem C02_write_length_counterexample :
    (write {} {} "video/VP8" {} exLong).out = .sent exLong ∧ exLong.length ≠ min exLong.length 1504 := by
  refine ⟨?_, by rw [exLong_length]; decide⟩
  exact C02_write_passthrough (pm2 := { started := true, next := 101, nextPid := 10 }) (n := 100) (pd := 0)
    exLong_flags (by decide) (by decide)

end Galene.Props.C02Write
