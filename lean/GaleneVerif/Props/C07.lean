import GaleneVerif.Model.Streams
/-
C07 — subscribers are offered exactly what they requested; teardown reaches
everyone.  Theorems about `Model/Streams.lean` (the transcription of
pushConn / pushDownConn / requestedTracks / delUpConn / leaveGroup), for every
state and — where a history matters — for every sequence of model steps, i.e.
every interleaving of client messages, OnTrack callbacks, timer expiries and
single queued actions (`Op`, `run`).

Part A  the selection rule (`requestedTracks`)
Part B  what one delivery of a pushed connection does (`C07_offer_only_if`,
        `C07_offer_if`; further down `C07_offer_iff` for a first push, and
        `C07_label_true_partial` + the counterexample that shows why the label is
        only true when stream ids do not collide)
Part C  every close has one of the permitted causes (`C07_close_only_if`);
        abort / request / requestStream touch nobody else (`C07_own_only`)
Part D  isolation: an inductive invariant over all histories (`C07_isolation`)
Part E  teardown: every publisher-side removal queues a close for every other
        member, delivering it closes the down connection (`C07_teardown_notify`,
        `_deliver`, `_leave`, `_unpresent`); at the end of the file the second
        invariant `TInv` and `C07_teardown_quiescent` (repaired code, ALL
        histories, `replace` and renegotiations included: with no delayed push
        outstanding, a client whose queue is empty holds only open connections
        of its own group) and `C07_teardown_quiescent_general` (any switch
        values; without the repairs: histories without `replace`)
Part F  non-vacuity examples, and the defects of the real code as proved facts
        about the model: `lost_push` / `renegotiated_replace_keeps_dead_stream`
        (model of the code before the repairs f1 / f3, `noFixes`), their
        `_repaired` counterparts for `currentFixes`, and `collision_mislabels`
        (not repaired)

The model is parametrised by `Fixes` (Model/Streams.lean): `currentFixes` is the
code as it is now (f1: member list of a delayed push computed when the timer
fires; f3: `replace` in a renegotiation pushes the close at once).  Every theorem
of parts A–E(a) holds for every value of the switches.
-/
set_option linter.unusedSimpArgs false
set_option linter.unusedVariables false
namespace Galene.Props.C07
open Galene.Streams

/-! ## Part A — the selection rule -/

/-- the selection rule of the property, as a predicate on a track of the stream: the first audio
track if "audio" is requested; the first video track if "video" is; the last video track if
"video-low" is and "video" is not -/
def Selected (req : Req) (tracks : List Track) (t : Track) : Prop :=
  (RK.audio ∈ req ∧ findFirst tracks .audio = some t) ∨
  (RK.video ∈ req ∧ findFirst tracks .video = some t) ∨
  (RK.video ∉ req ∧ RK.videoLow ∈ req ∧ findLast tracks .video = some t)

theorem requestedTracks_nil (tracks : List Track) : requestedTracks [] tracks = ([], false) := rfl

/-- `requestedTracks` returns exactly the tracks the rule selects -/
theorem mem_requestedTracks (req : Req) (tracks : List Track) (t : Track) :
    t ∈ (requestedTracks req tracks).1 ↔ Selected req tracks t := by
  unfold requestedTracks Selected
  by_cases h : req = []
  · subst h; simp
  · have : req.isEmpty = false := by simpa using h
    simp only [this, Bool.false_eq_true, if_false, List.mem_append]
    by_cases ha : RK.audio ∈ req <;> by_cases hv : RK.video ∈ req <;> by_cases hl : RK.videoLow ∈ req <;>
      simp [ha, hv, hl, Option.mem_toList, eq_comm]

/-- `findFirst` is the first track of the kind: nothing of that kind precedes it -/
theorem findFirst_spec (tracks : List Track) (k : TK) (t : Track) (h : findFirst tracks k = some t) :
    t.kind = k ∧ ∃ l r, tracks = l ++ t :: r ∧ ∀ x ∈ l, x.kind ≠ k := by
  unfold findFirst at h
  rw [List.find?_eq_some_iff_append] at h
  obtain ⟨h1, l, r, h2, h3⟩ := h
  exact ⟨by simpa using h1, l, r, h2, fun x hx => by simpa using h3 x hx⟩

/-- `findLast` is the last track of the kind: nothing of that kind follows it -/
theorem findLast_spec (tracks : List Track) (k : TK) (t : Track) (h : findLast tracks k = some t) :
    t.kind = k ∧ ∃ l r, tracks = l ++ t :: r ∧ ∀ x ∈ r, x.kind ≠ k := by
  unfold findLast at h
  rw [List.getLast?_eq_some_iff] at h
  obtain ⟨ys, hys⟩ := h
  have hmem : t ∈ tracks.filter (fun t => t.kind = k) := by rw [hys]; simp
  have hk : t.kind = k := by simpa using (List.mem_filter.mp hmem).2
  refine ⟨hk, ?_⟩
  -- split `tracks` at the last occurrence
  induction tracks generalizing ys with
  | nil => simp at hmem
  | cons a rest ih =>
    by_cases hrest : ∃ zs, rest.filter (fun t => t.kind = k) = zs ++ [t]
    · obtain ⟨zs, hzs⟩ := hrest
      have hm : t ∈ rest.filter (fun t => t.kind = k) := by rw [hzs]; simp
      obtain ⟨l, r, h1, h2⟩ := ih zs hzs hm
      exact ⟨a :: l, r, by simp [h1], h2⟩
    · -- then `a = t` and nothing of the kind is in `rest`
      by_cases ha : a.kind = k
      · simp only [List.filter_cons, ha, decide_true, if_true] at hys
        cases ys with
        | nil =>
          simp only [List.nil_append, List.cons.injEq] at hys
          refine ⟨[], rest, by simp [hys.1], ?_⟩
          intro x hx hxk
          have : x ∈ rest.filter (fun t => t.kind = k) := List.mem_filter.mpr ⟨hx, by simpa using hxk⟩
          rw [hys.2] at this; simp at this
        | cons y ys' =>
          simp only [List.cons_append, List.cons.injEq] at hys
          exact absurd ⟨ys', hys.2⟩ hrest
      · simp only [List.filter_cons, ha, decide_false, Bool.false_eq_true, if_false] at hys
        exact absurd ⟨ys, hys⟩ hrest

/-- every selected track is a track of the stream -/
theorem selected_mem (req : Req) (tracks : List Track) (t : Track) (h : Selected req tracks t) : t ∈ tracks := by
  rcases h with ⟨_, h⟩ | ⟨_, h⟩ | ⟨_, _, h⟩
  · obtain ⟨_, l, r, e, _⟩ := findFirst_spec _ _ _ h; rw [e]; simp
  · obtain ⟨_, l, r, e, _⟩ := findFirst_spec _ _ _ h; rw [e]; simp
  · obtain ⟨_, l, r, e, _⟩ := findLast_spec _ _ _ h; rw [e]; simp

/-- at most one audio and one video track are selected, of the requested kinds only -/
theorem selected_kind (req : Req) (tracks : List Track) (t : Track) (h : Selected req tracks t) :
    (t.kind = .audio ∧ RK.audio ∈ req) ∨ (t.kind = .video ∧ (RK.video ∈ req ∨ RK.videoLow ∈ req)) := by
  rcases h with ⟨h0, h⟩ | ⟨h0, h⟩ | ⟨_, h0, h⟩
  · exact .inl ⟨(findFirst_spec _ _ _ h).1, h0⟩
  · exact .inr ⟨(findFirst_spec _ _ _ h).1, .inl h0⟩
  · exact .inr ⟨(findLast_spec _ _ _ h).1, .inr h0⟩

/-- a request for "audio" gets the stream's audio whenever the stream has an audio track (likewise video) -/
theorem selected_exists_audio (req : Req) (tracks : List Track) (ha : RK.audio ∈ req) (t : Track)
    (ht : t ∈ tracks) (hk : t.kind = .audio) : ∃ t', Selected req tracks t' ∧ t'.kind = .audio := by
  have : (findFirst tracks .audio).isSome := by
    unfold findFirst; rw [List.find?_isSome]; exact ⟨t, ht, by simpa using hk⟩
  obtain ⟨t', h'⟩ := Option.isSome_iff_exists.mp this
  exact ⟨t', .inl ⟨ha, h'⟩, (findFirst_spec _ _ _ h').1⟩

theorem selected_exists_video (req : Req) (tracks : List Track) (hv : RK.video ∈ req ∨ RK.videoLow ∈ req) (t : Track)
    (ht : t ∈ tracks) (hk : t.kind = .video) : ∃ t', Selected req tracks t' ∧ t'.kind = .video := by
  by_cases h1 : RK.video ∈ req
  · have : (findFirst tracks .video).isSome := by
      unfold findFirst; rw [List.find?_isSome]; exact ⟨t, ht, by simpa using hk⟩
    obtain ⟨t', h'⟩ := Option.isSome_iff_exists.mp this
    exact ⟨t', .inr (.inl ⟨h1, h'⟩), (findFirst_spec _ _ _ h').1⟩
  · have h2 : RK.videoLow ∈ req := by rcases hv with h | h; exact absurd h h1; exact h
    have hne : tracks.filter (fun t => t.kind = .video) ≠ [] := by
      intro h; have : t ∈ tracks.filter (fun t => t.kind = .video) := List.mem_filter.mpr ⟨ht, by simpa using hk⟩
      rw [h] at this; simp at this
    have : (findLast tracks .video).isSome := by
      unfold findLast; cases hf : (tracks.filter (fun t => t.kind = .video)).getLast? with
      | none => rw [List.getLast?_eq_none_iff] at hf; exact absurd hf hne
      | some x => rfl
    obtain ⟨t', h'⟩ := Option.isSome_iff_exists.mp this
    exact ⟨t', .inr (.inr ⟨h1, h2, h'⟩), (findLast_spec _ _ _ h').1⟩

/-! ## Part B — delivery of a pushed connection -/

/-- after `replaceTracks` the down connection carries exactly the requested tracks -/
theorem mem_replaceTracks (cur req : List Track) (t : Track) :
    t ∈ (replaceTracks cur req).1 ↔ t ∈ req := by
  unfold replaceTracks
  simp only []
  split
  · rename_i h
    simp only [Bool.and_eq_true, List.isEmpty_iff] at h
    obtain ⟨h1, h2⟩ := h
    simp only [List.filter_eq_nil_iff, Bool.not_eq_true', Bool.not_eq_eq_eq_not, Bool.not_false, Bool.not_true,
      List.contains_iff_mem, decide_eq_false_iff_not, Decidable.not_not] at h1 h2
    constructor
    · intro ht; have := h2 t ht; simpa using this
    · intro ht; have := h1 t ht; simpa using this
  · simp only [List.mem_append, List.mem_filter, List.contains_iff_mem, Bool.not_eq_true', decide_eq_true_eq,
      Bool.not_eq_eq_eq_not, Bool.not_true, decide_eq_false_iff_not]
    constructor
    · rintro (⟨_, h⟩ | ⟨h, _⟩) <;> simpa using h
    · intro h
      by_cases hc : t ∈ cur
      · left; exact ⟨hc, by simpa using h⟩
      · right; exact ⟨h, by simpa using hc⟩

@[simp] theorem afterReplace_ups (s : State) (c r : Nat) : (afterReplace s c r).ups = s.ups := by
  unfold afterReplace delDown setClient; split <;> rfl

theorem deferredClose_events (s : State) (c r : Nat) (e : Event) (he : e ∈ (deferredClose s c r).2) :
    e = .close c r ∧ r ≠ 0 := by
  unfold deferredClose closeDown at he
  split at he <;> simp_all

theorem closeBoth_events (s : State) (c id r : Nat) (e : Event) (he : e ∈ (closeBoth s c id r).2.1) :
    e = .close c id ∨ (e = .close c r ∧ r ≠ 0) := by
  unfold closeBoth at he
  simp only [List.mem_append] at he
  rcases he with h | h
  · left; simpa [closeDown] using h
  · right; exact deferredClose_events _ _ _ _ h

theorem renegotiate_events (s : State) (c : Nat) (d : Down) (req : List Track) (replace : Nat) (e : Event)
    (he : e ∈ (renegotiate s c d req replace).2) :
    (e = .close c replace ∧ replace ≠ 0) ∨
    ∃ ts, e = .offer c d.id (s.ups d.remote).label (s.ups d.remote).owner (s.ups d.remote).user replace ts ∧
      (∀ t, t ∈ ts ↔ t ∈ req) ∧ d.haveOffer = false := by
  unfold renegotiate at he
  simp only [] at he
  split at he
  · left; exact deferredClose_events _ _ _ _ he
  · split at he
    · simp at he
    · simp only [List.mem_singleton] at he
      right
      refine ⟨_, he, fun t => mem_replaceTracks _ _ t, by simp_all⟩

/-- the up connection whose owner an offer sent by `attach` names: the remote of the existing down
connection of that id if there is one, else the pushed connection itself -/
def downRemote (s : State) (c n : Nat) : Nat :=
  match findDown (s.clients c) (s.ups n).id with
  | some d => d.remote
  | none => n

theorem findDown_id (cl : Client) (id : Nat) (d : Down) (h : findDown cl id = some d) : d.id = id := by
  unfold findDown at h
  simpa using List.find?_some h

theorem findDown_mem (cl : Client) (id : Nat) (d : Down) (h : findDown cl id = some d) : d ∈ cl.down := by
  unfold findDown at h
  exact List.mem_of_find?_eq_some h

theorem attach_events (s : State) (c n : Nat) (req : List Track) (replace : Nat) (e : Event)
    (he : e ∈ (attach s c n req replace).2.1) :
    (e = .close c replace ∧ replace ≠ 0) ∨
    ∃ ts, e = .offer c (s.ups n).id (s.ups (downRemote s c n)).label (s.ups (downRemote s c n)).owner
        (s.ups (downRemote s c n)).user replace ts ∧ (∀ t, t ∈ ts ↔ t ∈ req) := by
  unfold attach at he
  simp only [] at he
  split at he
  · left; exact deferredClose_events _ _ _ _ he
  · split at he
    · rename_i d hd
      rcases renegotiate_events _ _ _ _ _ _ he with h | ⟨ts, h1, h2, _⟩
      · left; exact h
      · right
        have hid : d.id = (s.ups n).id := findDown_id _ _ _ hd
        have hr : downRemote s c n = d.remote := by simp [downRemote, hd]
        refine ⟨ts, ?_, h2⟩
        rw [hr, ← hid]; exact h1
    · rename_i hd
      split at he
      · left; exact deferredClose_events _ _ _ _ he
      · rcases renegotiate_events _ _ _ _ _ _ he with h | ⟨ts, h1, h2, _⟩
        · left; exact h
        · right
          have hr : downRemote s c n = n := by simp [downRemote, hd]
          refine ⟨ts, ?_, h2⟩
          rw [hr]; exact h1

/-- Everything `pushDownConn` can send: a close of the pushed id (only when nothing of it is selected:
the stream has ended, or the request selects none of its tracks), a close of the replaced id, or an
offer of the pushed connection whose tracks are exactly the selected ones. -/
theorem pushDownConn_events (s : State) (c id : Nat) (up : Option Nat) (tracks : List Track) (replace : Nat)
    (e : Event) (he : e ∈ (pushDownConn s c id up tracks replace).2.1) :
    (e = .close c id ∧ selection s c up tracks replace = []) ∨
    (e = .close c replace ∧ replace ≠ 0) ∨
    ∃ n ts, up = some n ∧ selection s c up tracks replace ≠ [] ∧
      e = .offer c (s.ups n).id (s.ups (downRemote (afterReplace s c replace) c n)).label
            (s.ups (downRemote (afterReplace s c replace) c n)).owner
            (s.ups (downRemote (afterReplace s c replace) c n)).user replace ts ∧
      (∀ t, t ∈ ts ↔ t ∈ selection s c up tracks replace) := by
  unfold pushDownConn at he
  simp only [] at he
  cases up with
  | none =>
    simp only [] at he
    rcases closeBoth_events _ _ _ _ _ he with h | h
    · left; exact ⟨h, rfl⟩
    · right; left; exact h
  | some n =>
    simp only [] at he
    split at he
    · rename_i hs
      rcases closeBoth_events _ _ _ _ _ he with h | h
      · left; exact ⟨h, by simpa using hs⟩
      · right; left; exact h
    · rename_i hs
      rcases attach_events _ _ _ _ _ _ he with h | ⟨ts, h1, h2⟩
      · right; left; exact h
      · right; right
        refine ⟨n, ts, rfl, by simpa using hs, ?_, h2⟩
        simpa using h1

theorem die_events (s : State) (c : Nat) : (die s c).2 = [.dead c] := rfl

/-- the state in which an action taken off the queue is handled -/
def dequeued (s : State) (c : Nat) (rest : List Action) : State := setClient s c (fun cl => { cl with queue := rest })

theorem deliver_eq (s : State) (c : Nat) (a : Action) (rest : List Action) (ha : (s.clients c).alive = true)
    (hq : (s.clients c).queue = a :: rest) : deliver s c = handleAction (dequeued s c rest) c a := by
  unfold deliver dequeued
  simp [ha, hq]

@[simp] theorem dequeued_group (s : State) (c : Nat) (rest : List Action) :
    ((dequeued s c rest).clients c).group = (s.clients c).group := by simp [dequeued, setClient]
@[simp] theorem dequeued_up (s : State) (c : Nat) (rest : List Action) :
    ((dequeued s c rest).clients c).up = (s.clients c).up := by simp [dequeued, setClient]
@[simp] theorem dequeued_down (s : State) (c : Nat) (rest : List Action) :
    ((dequeued s c rest).clients c).down = (s.clients c).down := by simp [dequeued, setClient]
@[simp] theorem dequeued_alive (s : State) (c : Nat) (rest : List Action) :
    ((dequeued s c rest).clients c).alive = (s.clients c).alive := by simp [dequeued, setClient]
@[simp] theorem dequeued_ups (s : State) (c : Nat) (rest : List Action) : (dequeued s c rest).ups = s.ups := rfl

/-- the events of handling a pushed connection -/
theorem handlePush_events (s : State) (c g id : Nat) (up : Option Nat) (tracks : List Track) (replace : Nat)
    (e : Event) (he : e ∈ (handlePush s c g id up tracks replace).2) :
    (s.clients c).group = some g ∧ (e = .dead c ∨ e ∈ (pushDownConn s c id up tracks replace).2.1) := by
  unfold handlePush at he
  split at he
  · simp at he
  · rename_i hg
    refine ⟨by simpa using hg, ?_⟩
    simp only [] at he
    split at he
    · simp only [List.mem_append, die_events, List.mem_singleton] at he
      rcases he with h | h
      · right; exact h
      · left; exact h
    · right; exact he

/-- the fields of a client that `setClient … queue := rest` leaves alone -/
theorem selection_dequeue (s : State) (c : Nat) (rest : List Action) (up : Option Nat) (tracks : List Track) (replace : Nat) :
    selection (dequeued s c rest) c up tracks replace = selection s c up tracks replace := by
  unfold selection dequeued setClient effReq findDown
  cases up <;> simp

/-- **C07_offer_only_if.**  Whenever a client loop handles a pushed connection and sends an offer, the
recipient is the handling client, it is a member of the group the push was made in, the offer carries
the `replace` of the push, and its tracks are exactly the tracks that `requestedTracks` selects from the
pushed track list under the client's request (per-stream request of the down connection if there is
one, else the entry for the stream's label, else the default entry) — in particular that selection is
not empty. -/
theorem C07_offer_only_if (s : State) (c g id : Nat) (up : Option Nat) (tracks : List Track) (replace : Nat)
    (rest : List Action) (ha : (s.clients c).alive = true)
    (hq : (s.clients c).queue = .pushConn g id up tracks replace :: rest)
    (to i l src u r : Nat) (ts : List Track)
    (he : Event.offer to i l src u r ts ∈ (deliver s c).2) :
    to = c ∧ (s.clients c).group = some g ∧ r = replace ∧
    ∃ n, up = some n ∧ i = (s.ups n).id ∧
      (∀ t, t ∈ ts ↔ Selected (effReq (s.clients c) (s.ups n) replace) tracks t) ∧ ts ≠ [] := by
  rw [deliver_eq s c _ rest ha hq] at he
  obtain ⟨hg, h⟩ := handlePush_events _ c g id up tracks replace _ he
  rw [dequeued_group] at hg
  rcases h with h | h
  · cases h
  · rcases pushDownConn_events _ _ _ _ _ _ _ h with ⟨h1, _⟩ | ⟨h1, _⟩ | ⟨n, ts', hup, hne, h1, h2⟩
    · cases h1
    · cases h1
    · rw [selection_dequeue] at h2 hne
      injection h1 with e1 e2 e3 e4 e5 e6 e7
      subst hup
      refine ⟨e1, hg, e6, n, rfl, ?_, ?_, ?_⟩
      · simpa using e2
      · intro t
        rw [e7, h2]
        simp only [selection]
        exact mem_requestedTracks _ _ _
      · rw [e7]
        intro hnil
        apply hne
        cases hsel : selection s c (some n) tracks replace with
        | nil => rfl
        | cons a b => have := (h2 a).mpr (by rw [hsel]; simp); rw [hnil] at this; simp at this


theorem findDown_storeDown (s : State) (c : Nat) (d : Down) :
    findDown ((storeDown s c d).clients c) d.id = some d := by
  unfold storeDown setClient findDown
  simp only [if_true]
  rw [List.find?_append]
  have : List.find? (fun x => decide (x.id = d.id)) (List.filter (fun x => decide (x.id ≠ d.id)) (s.clients c).down) = none := by
    rw [List.find?_eq_none]
    intro x hx
    have := (List.mem_filter.mp hx).2
    simpa using this
  rw [this]
  simp

theorem findCongrAux {α} (p q : α → Bool) (l : List α) (h : ∀ x ∈ l, p x = q x) : l.find? p = l.find? q := by
  induction l with
  | nil => rfl
  | cons a l ih =>
    have ha := h a (by simp)
    have := ih (fun x hx => h x (by simp [hx]))
    simp [List.find?_cons, ha, this]

theorem findDown_delDown_ne (s : State) (c r id : Nat) (h : id ≠ r) :
    findDown ((delDown s c r).clients c) id = findDown (s.clients c) id := by
  unfold delDown setClient findDown
  simp only [if_true]
  rw [List.find?_filter]
  apply findCongrAux
  intro x _
  by_cases hx : x.id = id
  · have : ¬ x.id = r := fun h' => h (hx ▸ h')
    simp [hx, this]
    exact fun h' => h h'
  · simp [hx]

theorem findDown_delDown_eq (s : State) (c r : Nat) :
    findDown ((delDown s c r).clients c) r = none := by
  unfold delDown setClient findDown
  simp only [if_true]
  rw [List.find?_eq_none]
  intro x hx
  have := (List.mem_filter.mp hx).2
  simpa using this

theorem findDown_deferredClose_ne (s : State) (c r id : Nat) (h : r ≠ 0 → id ≠ r) :
    findDown ((deferredClose s c r).1.clients c) id = findDown (s.clients c) id := by
  unfold deferredClose closeDown
  split
  · rename_i hr; exact findDown_delDown_ne _ _ _ _ (h hr)
  · rfl

/-- post-state of `renegotiate` for a down connection `d` (present in `s` or new): afterwards the client
holds a down connection of that id with exactly the requested tracks -/
theorem renegotiate_post (s : State) (c : Nat) (d : Down) (req : List Track) (replace : Nat)
    (hd : findDown (s.clients c) d.id = some d ∨ (d.tracks = [] ∧ req ≠ []))
    (hr : replace ≠ 0 → d.id ≠ replace) :
    ∃ d', findDown ((renegotiate s c d req replace).1.clients c) d.id = some d' ∧ d'.remote = d.remote ∧
      (∀ t, t ∈ d'.tracks ↔ t ∈ req) := by
  unfold renegotiate
  simp only []
  split
  · rename_i hdone
    rcases hd with hd | ⟨h1, h2⟩
    · refine ⟨d, ?_, rfl, ?_⟩
      · rw [findDown_deferredClose_ne _ _ _ _ hr]; exact hd
      · intro t
        have := mem_replaceTracks d.tracks req t
        have e : (replaceTracks d.tracks req).1 = d.tracks := by
          unfold replaceTracks at hdone ⊢
          simp only [] at hdone ⊢
          split
          · rfl
          · rename_i h; rw [if_neg h] at hdone; simp at hdone
        rw [e] at this; exact this
    · exfalso
      unfold replaceTracks at hdone
      rw [h1] at hdone
      cases req with
      | nil => exact h2 rfl
      | cons a b => simp at hdone
  · split
    · exact ⟨_, findDown_storeDown _ _ _, rfl, fun t => mem_replaceTracks _ _ t⟩
    · exact ⟨_, findDown_storeDown _ _ _, rfl, fun t => mem_replaceTracks _ _ t⟩


/-- `s'` differs from `s` at most in the down connections of client `c` -/
def OnlyDown (s s' : State) (c : Nat) : Prop :=
  s'.ups = s.ups ∧ s'.timers = s.timers ∧ s'.n = s.n ∧ s'.nUps = s.nUps ∧
  (∀ i, i ≠ c → s'.clients i = s.clients i) ∧ ∃ dn, s'.clients c = { s.clients c with down := dn }

theorem OnlyDown.refl (s : State) (c : Nat) : OnlyDown s s c :=
  ⟨rfl, rfl, rfl, rfl, fun _ _ => rfl, (s.clients c).down, rfl⟩

theorem OnlyDown.trans {s s' s'' : State} {c : Nat} (h1 : OnlyDown s s' c) (h2 : OnlyDown s' s'' c) : OnlyDown s s'' c := by
  obtain ⟨a1, a2, a3, a4, a5, d1, a6⟩ := h1
  obtain ⟨b1, b2, b3, b4, b5, d2, b6⟩ := h2
  refine ⟨b1.trans a1, b2.trans a2, b3.trans a3, b4.trans a4, fun i hi => (b5 i hi).trans (a5 i hi), d2, ?_⟩
  rw [b6, a6]

theorem onlyDown_setDown (s : State) (c : Nat) (f : List Down → List Down) :
    OnlyDown s (setClient s c (fun cl => { cl with down := f cl.down })) c := by
  refine ⟨rfl, rfl, rfl, rfl, fun i hi => by simp [setClient, hi], f (s.clients c).down, by simp [setClient]⟩

theorem onlyDown_delDown (s : State) (c r : Nat) : OnlyDown s (delDown s c r) c :=
  onlyDown_setDown s c (fun dn => dn.filter (fun d => d.id ≠ r))
theorem onlyDown_storeDown (s : State) (c : Nat) (d : Down) : OnlyDown s (storeDown s c d) c :=
  onlyDown_setDown s c (fun dn => dn.filter (fun x => x.id ≠ d.id) ++ [d])

theorem onlyDown_deferredClose (s : State) (c r : Nat) : OnlyDown s (deferredClose s c r).1 c := by
  unfold deferredClose closeDown; split
  · exact onlyDown_delDown _ _ _
  · exact OnlyDown.refl _ _

theorem onlyDown_afterReplace (s : State) (c r : Nat) : OnlyDown s (afterReplace s c r) c := by
  unfold afterReplace; split
  · exact onlyDown_delDown _ _ _
  · exact OnlyDown.refl _ _

theorem onlyDown_renegotiate (s : State) (c : Nat) (d : Down) (req : List Track) (r : Nat) :
    OnlyDown s (renegotiate s c d req r).1 c := by
  unfold renegotiate; simp only []
  split
  · exact onlyDown_deferredClose _ _ _
  · split <;> exact onlyDown_storeDown _ _ _

theorem onlyDown_attach (s : State) (c n : Nat) (req : List Track) (r : Nat) :
    OnlyDown s (attach s c n req r).1 c := by
  unfold attach; simp only []
  split
  · exact onlyDown_deferredClose _ _ _
  · split
    · exact onlyDown_renegotiate _ _ _ _ _
    · split
      · exact onlyDown_deferredClose _ _ _
      · exact onlyDown_renegotiate _ _ _ _ _

theorem onlyDown_closeBoth (s : State) (c id r : Nat) : OnlyDown s (closeBoth s c id r).1 c := by
  unfold closeBoth closeDown; simp only []
  exact (onlyDown_delDown _ _ _).trans (onlyDown_deferredClose _ _ _)

theorem onlyDown_pushDownConn (s : State) (c id : Nat) (up : Option Nat) (tracks : List Track) (r : Nat) :
    OnlyDown s (pushDownConn s c id up tracks r).1 c := by
  unfold pushDownConn; simp only []
  refine (onlyDown_afterReplace s c r).trans ?_
  cases up with
  | none => exact onlyDown_closeBoth _ _ _ _
  | some n =>
    simp only []
    split
    · exact onlyDown_closeBoth _ _ _ _
    · exact onlyDown_attach _ _ _ _ _

theorem OnlyDown.alive {s s' : State} {c : Nat} (h : OnlyDown s s' c) (i : Nat) : (s'.clients i).alive = (s.clients i).alive := by
  obtain ⟨_, _, _, _, a5, d, a6⟩ := h
  by_cases hi : i = c
  · subst hi; rw [a6]
  · rw [a5 i hi]

theorem attach_post (s : State) (c n : Nat) (req : List Track) (replace : Nat)
    (hdup : (s.clients c).up.lookup (s.ups n).id = none)
    (hlive : (findDown (s.clients c) (s.ups n).id).isSome ∨ (s.ups n).closed = false)
    (hreq : req ≠ []) (hr : replace ≠ 0 → (s.ups n).id ≠ replace) :
    (attach s c n req replace).2.2 = false ∧
    ∃ d', findDown ((attach s c n req replace).1.clients c) (s.ups n).id = some d' ∧
      d'.remote = downRemote s c n ∧ (∀ t, t ∈ d'.tracks ↔ t ∈ req) := by
  unfold attach
  simp only [hdup, Option.isSome_none, Bool.false_eq_true, if_false]
  cases hf : findDown (s.clients c) (s.ups n).id with
  | some d =>
    simp only []
    have hid := findDown_id _ _ _ hf
    obtain ⟨d', h1, h2, h3⟩ := renegotiate_post s c d req replace (.inl (by rw [hid]; exact hf)) (by rw [hid]; exact hr)
    refine ⟨trivial, d', by rw [← hid]; exact h1, ?_, h3⟩
    simp [downRemote, hf, h2]
  | none =>
    simp only []
    have hcl : (s.ups n).closed = false := by
      rcases hlive with h | h
      · rw [hf] at h; simp at h
      · exact h
    simp only [hcl, Bool.false_eq_true, if_false]
    obtain ⟨d', h1, h2, h3⟩ := renegotiate_post s c { id := (s.ups n).id, remote := n } req replace
      (.inr ⟨rfl, hreq⟩) hr
    refine ⟨trivial, d', h1, ?_, h3⟩
    simp [downRemote, hf, h2]

/-- **C07_offer_if.**  A member of the group in which a connection is pushed, whose request selects at
least one of the pushed tracks, holds — once its loop has handled the push — a down connection of that
id with exactly the selected tracks, and stays connected.  (Side conditions, each a branch of the code:
the client does not itself publish a stream of that id, the pushed connection has not been closed in the
meantime unless a down connection already exists, and the push does not replace its own id.) -/
theorem C07_offer_if (s : State) (c g id n : Nat) (tracks : List Track) (replace : Nat) (rest : List Action)
    (ha : (s.clients c).alive = true)
    (hq : (s.clients c).queue = .pushConn g id (some n) tracks replace :: rest)
    (hg : (s.clients c).group = some g)
    (hsel : selection s c (some n) tracks replace ≠ [])
    (hdup : (s.clients c).up.lookup (s.ups n).id = none)
    (hlive : (s.ups n).closed = false)
    (hr : replace ≠ 0 → (s.ups n).id ≠ replace) :
    ((deliver s c).1.clients c).alive = true ∧
    ∃ d', findDown ((deliver s c).1.clients c) (s.ups n).id = some d' ∧
      (∀ t, t ∈ d'.tracks ↔ Selected (effReq (s.clients c) (s.ups n) replace) tracks t) := by
  have hsel' : ∀ t, t ∈ selection s c (some n) tracks replace ↔ Selected (effReq (s.clients c) (s.ups n) replace) tracks t :=
    fun t => mem_requestedTracks _ _ _
  rw [deliver_eq s c _ rest ha hq]
  unfold handleAction handlePush
  simp only [dequeued_group, hg, ne_eq, not_true_eq_false, if_false]
  unfold pushDownConn
  simp only [selection_dequeue]
  have hne : (selection s c (some n) tracks replace).isEmpty = false := by simpa using hsel
  simp only [hne, Bool.false_eq_true, if_false]
  -- the state in which `attach` runs
  generalize hs1 : afterReplace (dequeued s c rest) c replace = s1
  have hups : s1.ups = s.ups := by rw [← hs1]; simp
  have hup1 : (s1.clients c).up = (s.clients c).up := by
    rw [← hs1]; unfold afterReplace delDown setClient; split <;> simp
  have hal1 : (s1.clients c).alive = true := by
    rw [← hs1]; unfold afterReplace delDown setClient; split <;> simp [ha]
  obtain ⟨herr, d', h1, _, h3⟩ := attach_post s1 c n (selection s c (some n) tracks replace) replace
    (by rw [hups, hup1]; exact hdup) (.inr (by rw [hups]; exact hlive)) hsel (by rw [hups]; exact hr)
  rw [hups] at h1
  simp only [herr, Bool.false_eq_true, if_false]
  refine ⟨?_, d', h1, fun t => (h3 t).trans (hsel' t)⟩
  rw [(onlyDown_attach s1 c n _ replace).alive c]; exact hal1



/-! ## Part C — closes have a permitted cause; own actions touch nobody else -/


theorem gotOffer_events (F : Fixes) (s : State) (c id label replace g : Nat) (e : Event)
    (he : e ∈ (gotOffer F s c id label replace g).2) : e = .abort c id := by
  unfold gotOffer at he
  simp only [] at he
  split at he <;> simp_all

theorem offerOp_events (F : Fixes) (s : State) (c id label replace : Nat) (e : Event)
    (he : e ∈ (offerOp F s c id label replace).2) : e = .abort c id ∨ e = .dead c := by
  unfold offerOp at he
  simp only [] at he
  split at he
  · right; simpa [die_events] using he
  · split at he
    · left; simpa using he
    · split at he
      · left; simpa using he
      · split at he
        · left; simpa using he
        · left; exact gotOffer_events F _ _ _ _ _ _ _ he

theorem close_not_dead (c id x : Nat) : Event.close c id ≠ Event.dead x := by intro h; cases h

/-- **C07_close_only_if.**  A `close id` is sent to client `c` in a step only if
* `c` itself aborted `id` in that step, or
* `c` sent an `answer` for `id` that the server could not apply (no such down connection, or none
  expected: the negotiation failed), or
* `c`'s loop handled a pushed connection of its own group and either the push was for `id` and
  selects nothing (the stream has ended — `up = none` — or `c`'s request selects none of its tracks),
  or the push replaces `id`. -/
theorem C07_close_only_if (F : Fixes) (s : State) (op : Op) (c id : Nat) (h : Event.close c id ∈ (step F s op).2) :
    op = .abort c id ∨
    (op = .answer c id ∧ ∀ d, findDown (s.clients c) id = some d → d.haveOffer = false) ∨
    (op = .deliver c ∧ ∃ g i up tracks replace rest,
        (s.clients c).queue = .pushConn g i up tracks replace :: rest ∧ (s.clients c).group = some g ∧
        ((id = i ∧ selection s c up tracks replace = []) ∨ (id = replace ∧ replace ≠ 0))) := by
  cases op with
  | join c' g user present op' =>
    simp only [step] at h
    split at h
    · simp at h
    · split at h
      · simp [die_events] at h
      · simp at h
  | leave c' =>
    simp only [step] at h
    split at h
    · simp at h
    · split at h
      · simp [die_events] at h
      · simp at h
  | disc c' =>
    simp only [step] at h
    split at h <;> simp at h
  | request c' m =>
    simp only [step] at h
    split at h
    · simp at h
    · split at h
      · simp [die_events] at h
      · simp at h
  | reqStream c' id' r =>
    simp only [step] at h
    split at h
    · simp at h
    · split at h
      · simp [die_events] at h
      · split at h <;> simp at h
  | abort c' id' =>
    simp only [step] at h
    split at h
    · simp at h
    · split at h
      · simp [die_events] at h
      · simp only [closeDown, List.mem_singleton] at h
        injection h with h1 h2
        left; rw [h1, h2]
  | close c' id' =>
    simp only [step] at h
    split at h
    · simp at h
    · split at h
      · simp [die_events] at h
      · simp at h
  | offer c' id' label replace =>
    simp only [step] at h
    split at h
    · simp at h
    · unfold offerOp at h
      simp only [] at h
      split at h
      · simp [die_events] at h
      · split at h
        · simp at h
        · split at h
          · simp at h
          · split at h
            · simp at h
            · have := gotOffer_events F _ _ _ _ _ _ _ h
              cases this
  | track c' id' k kind =>
    simp only [step] at h
    split at h <;> simp at h
  | answer c' id' =>
    simp only [step] at h
    split at h
    · simp at h
    · split at h
      · simp [die_events] at h
      · unfold answerOp at h
        split at h
        · rename_i hf
          simp only [closeDown, List.mem_singleton] at h
          injection h with h1 h2
          right; left
          subst h1 h2
          exact ⟨rfl, fun d hd => by rw [hf] at hd; cases hd⟩
        · rename_i d hf
          split at h
          · rename_i hh
            simp only [closeDown, List.mem_singleton] at h
            injection h with h1 h2
            right; left
            subst h1 h2
            refine ⟨rfl, fun d' hd => ?_⟩
            rw [hf] at hd; injection hd with hd; subst hd; simpa using hh
          · split at h <;> simp at h
  | kick o c' =>
    simp only [step] at h
    split at h
    · simp at h
    · split at h
      · simp at h
      · split at h <;> simp at h
  | setPresent o c' b =>
    simp only [step] at h
    split at h
    · simp at h
    · split at h
      · simp at h
      · split at h <;> simp at h
  | fire =>
    simp only [step] at h
    split at h
    · simp at h
    · split at h <;> simp at h
  | deliver c' =>
    simp only [step] at h
    right; right
    unfold deliver at h
    split at h
    · simp at h
    · rename_i hal
      split at h
      · simp at h
      · rename_i a rest hq
        cases a with
        | pushConn g i up tracks replace =>
          simp only [handleAction] at h
          obtain ⟨hg, h'⟩ := handlePush_events _ _ _ _ _ _ _ _ h
          rcases h' with h' | h'
          · cases h'
          · rcases pushDownConn_events _ _ _ _ _ _ _ h' with ⟨h1, h2⟩ | ⟨h1, h2⟩ | ⟨n, ts, _, _, h1, _⟩
            · injection h1 with e1 e2
              subst e1 e2
              refine ⟨rfl, g, _, up, tracks, replace, rest, hq, by simpa [setClient] using hg, .inl ⟨rfl, ?_⟩⟩
              have := selection_dequeue s c rest up tracks replace
              unfold dequeued at this
              rw [← this]; exact h2
            · injection h1 with e1 e2
              subst e1 e2
              exact ⟨rfl, g, i, up, tracks, _, rest, hq, by simpa [setClient] using hg, .inr ⟨rfl, h2⟩⟩
            · cases h1
        | requestConns g target i =>
          simp only [handleAction, handleRequestConns] at h
          split at h <;> simp at h
        | kick => simp [handleAction, die_events] at h
        | changePerm b => simp [handleAction] at h
        | permsChanged =>
          simp only [handleAction, handlePermsChanged] at h
          split at h
          · simp [die_events] at h
          · split at h <;> simp at h



/-- two client records that differ at most in their action queue -/
def SameButQueue (a b : Client) : Prop := a = { b with queue := a.queue }

theorem SameButQueue.refl (a : Client) : SameButQueue a a := rfl
theorem SameButQueue.trans {a b c : Client} (h1 : SameButQueue a b) (h2 : SameButQueue b c) : SameButQueue a c := by
  unfold SameButQueue at *; rw [h1, h2]

/-- `s'` differs from `s` at most in action queues -/
def OnlyQueues (s s' : State) : Prop :=
  s'.ups = s.ups ∧ s'.timers = s.timers ∧ s'.n = s.n ∧ s'.nUps = s.nUps ∧ ∀ i, SameButQueue (s'.clients i) (s.clients i)

theorem OnlyQueues.refl (s : State) : OnlyQueues s s := ⟨rfl, rfl, rfl, rfl, fun _ => rfl⟩
theorem OnlyQueues.trans {s s' s'' : State} (h1 : OnlyQueues s s') (h2 : OnlyQueues s' s'') : OnlyQueues s s'' :=
  ⟨h2.1.trans h1.1, h2.2.1.trans h1.2.1, h2.2.2.1.trans h1.2.2.1, h2.2.2.2.1.trans h1.2.2.2.1,
   fun i => (h2.2.2.2.2 i).trans (h1.2.2.2.2 i)⟩

theorem onlyQueues_put (s : State) (c : Nat) (a : Action) : OnlyQueues s (put s c a) := by
  unfold put
  split
  · refine ⟨rfl, rfl, rfl, rfl, fun i => ?_⟩
    unfold setClient SameButQueue
    by_cases h : i = c <;> simp [h]
  · exact OnlyQueues.refl s

theorem onlyQueues_putAll (s : State) (cs : List Nat) (a : Action) : OnlyQueues s (putAll s cs a) := by
  unfold putAll
  induction cs generalizing s with
  | nil => exact OnlyQueues.refl s
  | cons c cs ih => exact (onlyQueues_put s c a).trans (ih _)

/-- the queue of a client other than the addressee is unchanged by `put` -/
theorem put_queue_ne (s : State) (c i : Nat) (a : Action) (h : i ≠ c) : ((put s c a).clients i) = s.clients i := by
  unfold put; split
  · simp [setClient, h]
  · rfl

theorem put_queue_self (s : State) (c : Nat) (a : Action) (h : (s.clients c).alive = true) :
    ((put s c a).clients c).queue = (s.clients c).queue ++ [a] := by
  unfold put; simp [h, setClient]



/-! ## Part D — isolation -/

/-- what the invariant says of a queued action: a pushed connection belongs to the group the push
names, and the pushed tracks are its tracks -/
def ActOK (s : State) : Action → Prop
  | .pushConn g _ (some n) tracks _ => n < s.nUps ∧ (s.ups n).group = g ∧ ∀ t ∈ tracks, t.up = n
  | _ => True

/-- a down connection held by a member of group `g` was published in `g`, with all its tracks -/
def DownOK (s : State) (g : Nat) (d : Down) : Prop :=
  d.remote < s.nUps ∧ (s.ups d.remote).group = g ∧ ∀ t ∈ d.tracks, t.up < s.nUps ∧ (s.ups t.up).group = g

structure Inv (s : State) : Prop where
  up_ok : ∀ c id n, (id, n) ∈ (s.clients c).up → n < s.nUps ∧ (s.clients c).group = some (s.ups n).group
  tracks_ok : ∀ n t, t ∈ (s.ups n).tracks → t.up = n
  queue_ok : ∀ c a, a ∈ (s.clients c).queue → ActOK s a
  down_ok : ∀ c d, d ∈ (s.clients c).down → ∃ g, (s.clients c).group = some g ∧ DownOK s g d
  timer_ok : ∀ t, t ∈ s.timers → t.up < s.nUps ∧ (s.ups t.up).group = t.group

/-- connection objects keep their group, and no serial number is reused -/
def UpsStable (s s' : State) : Prop := s.nUps ≤ s'.nUps ∧ ∀ n, n < s.nUps → (s'.ups n).group = (s.ups n).group

theorem UpsStable.refl (s : State) : UpsStable s s := ⟨Nat.le_refl _, fun _ _ => rfl⟩

theorem UpsStable.of_eq {s s' : State} (h1 : s'.nUps = s.nUps) (h2 : s'.ups = s.ups) : UpsStable s s' :=
  ⟨by rw [h1]; exact Nat.le_refl _, fun n _ => by rw [h2]⟩

theorem upsStable_setClient (s : State) (c : Nat) (f : Client → Client) : UpsStable s (setClient s c f) :=
  UpsStable.of_eq rfl rfl

theorem ActOK.mono {s s' : State} (h : UpsStable s s') {a : Action} (ha : ActOK s a) : ActOK s' a := by
  cases a with
  | pushConn g id up tracks r =>
    cases up with
    | none => trivial
    | some n =>
      obtain ⟨h1, h2, h3⟩ := ha
      exact ⟨Nat.lt_of_lt_of_le h1 h.1, by rw [h.2 n h1]; exact h2, h3⟩
  | _ => trivial

theorem DownOK.mono {s s' : State} (h : UpsStable s s') {g : Nat} {d : Down} (hd : DownOK s g d) : DownOK s' g d := by
  obtain ⟨h1, h2, h3⟩ := hd
  refine ⟨Nat.lt_of_lt_of_le h1 h.1, by rw [h.2 _ h1]; exact h2, fun t ht => ?_⟩
  obtain ⟨a, b⟩ := h3 t ht
  exact ⟨Nat.lt_of_lt_of_le a h.1, by rw [h.2 _ a]; exact b⟩

/-- the generic preservation lemma: everything in `s'` is either inherited from `s` or justified afresh -/
theorem Inv.of {s s' : State} (hi : Inv s) (h1 : UpsStable s s')
    (h2 : ∀ c id n, (id, n) ∈ (s'.clients c).up →
      ((id, n) ∈ (s.clients c).up ∧ (s'.clients c).group = (s.clients c).group) ∨
      (n < s'.nUps ∧ (s'.clients c).group = some (s'.ups n).group))
    (h3 : ∀ n t, t ∈ (s'.ups n).tracks → t ∈ (s.ups n).tracks ∨ t.up = n)
    (h4 : ∀ c a, a ∈ (s'.clients c).queue → a ∈ (s.clients c).queue ∨ ActOK s' a)
    (h5 : ∀ c d, d ∈ (s'.clients c).down →
      (d ∈ (s.clients c).down ∧ (s'.clients c).group = (s.clients c).group) ∨
      ∃ g, (s'.clients c).group = some g ∧ DownOK s' g d)
    (h6 : ∀ t, t ∈ s'.timers → t ∈ s.timers ∨ (t.up < s'.nUps ∧ (s'.ups t.up).group = t.group)) :
    Inv s' := by
  refine ⟨?_, ?_, ?_, ?_, ?_⟩
  · intro c id n h
    rcases h2 c id n h with ⟨h, hg⟩ | h
    · obtain ⟨a, b⟩ := hi.up_ok c id n h
      exact ⟨Nat.lt_of_lt_of_le a h1.1, by rw [hg, h1.2 n a]; exact b⟩
    · exact h
  · intro n t h
    rcases h3 n t h with h | h
    · exact hi.tracks_ok n t h
    · exact h
  · intro c a h
    rcases h4 c a h with h | h
    · exact (hi.queue_ok c a h).mono h1
    · exact h
  · intro c d h
    rcases h5 c d h with ⟨h, hg⟩ | h
    · obtain ⟨g, a, b⟩ := hi.down_ok c d h
      exact ⟨g, by rw [hg]; exact a, b.mono h1⟩
    · exact h
  · intro t h
    rcases h6 t h with h | h
    · obtain ⟨a, b⟩ := hi.timer_ok t h
      exact ⟨Nat.lt_of_lt_of_le a h1.1, by rw [h1.2 _ a]; exact b⟩
    · exact h

theorem inv_init (n : Nat) : Inv (init n) := by
  refine ⟨?_, ?_, ?_, ?_, ?_⟩
  · intro c id n h; simp [init] at h
  · intro n t h; simp [init] at h
  · intro c a h; simp [init] at h
  · intro c d h; simp [init] at h
  · intro t h; simp [init] at h

/-- changing one client record in a way that keeps its group and only shrinks its lists -/
theorem inv_setClient_sub {s : State} (hi : Inv s) (c : Nat) (f : Client → Client)
    (hg : (f (s.clients c)).group = (s.clients c).group)
    (hu : ∀ x, x ∈ (f (s.clients c)).up → x ∈ (s.clients c).up)
    (hd : ∀ x, x ∈ (f (s.clients c)).down → x ∈ (s.clients c).down)
    (hq : ∀ x, x ∈ (f (s.clients c)).queue → x ∈ (s.clients c).queue) :
    Inv (setClient s c f) := by
  apply hi.of (upsStable_setClient s c f)
  · intro i id n h
    left
    by_cases hic : i = c
    · subst hic; simp only [setClient, if_true] at h ⊢; exact ⟨hu _ h, hg⟩
    · simp only [setClient, hic, if_false] at h ⊢; exact ⟨h, trivial⟩
  · intro n t h; left; exact h
  · intro i a h
    left
    by_cases hic : i = c
    · subst hic; simp only [setClient, if_true] at h; exact hq _ h
    · simp only [setClient, hic, if_false] at h; exact h
  · intro i d h
    left
    by_cases hic : i = c
    · subst hic; simp only [setClient, if_true] at h ⊢; exact ⟨hd _ h, hg⟩
    · simp only [setClient, hic, if_false] at h ⊢; exact ⟨h, trivial⟩
  · intro t h; left; exact h

theorem inv_put {s : State} (hi : Inv s) (c : Nat) (a : Action) (ha : ActOK s a) : Inv (put s c a) := by
  unfold put
  split
  · apply hi.of (upsStable_setClient s c _)
    · intro i id n h
      left
      by_cases hic : i = c
      · subst hic; simp only [setClient, if_true] at h ⊢; exact ⟨h, trivial⟩
      · simp only [setClient, hic, if_false] at h ⊢; exact ⟨h, trivial⟩
    · intro n t h; left; exact h
    · intro i x h
      by_cases hic : i = c
      · subst hic
        simp only [setClient, if_true, List.mem_append, List.mem_singleton] at h
        rcases h with h | h
        · left; exact h
        · right; rw [h]; exact ha
      · simp only [setClient, hic, if_false] at h; left; exact h
    · intro i d h
      left
      by_cases hic : i = c
      · subst hic; simp only [setClient, if_true] at h ⊢; exact ⟨h, trivial⟩
      · simp only [setClient, hic, if_false] at h ⊢; exact ⟨h, trivial⟩
    · intro t h; left; exact h
  · exact hi

theorem ActOK_onlyQueues {s s' : State} (h : OnlyQueues s s') {a : Action} (ha : ActOK s a) : ActOK s' a :=
  ha.mono ⟨by rw [h.2.2.2.1]; exact Nat.le_refl _, fun n _ => by rw [h.1]⟩

theorem inv_putAll {s : State} (hi : Inv s) (cs : List Nat) (a : Action) (ha : ActOK s a) : Inv (putAll s cs a) := by
  unfold putAll
  induction cs generalizing s with
  | nil => exact hi
  | cons c cs ih =>
    exact ih (inv_put hi c a ha) (ActOK_onlyQueues (onlyQueues_put s c a) ha)


theorem inv_setUp {s : State} (hi : Inv s) (n : Nat) (f : UpObj → UpObj)
    (hg : (f (s.ups n)).group = (s.ups n).group)
    (ht : ∀ t, t ∈ (f (s.ups n)).tracks → t ∈ (s.ups n).tracks ∨ t.up = n) : Inv (setUp s n f) := by
  have hgs : ∀ m, ((setUp s n f).ups m).group = (s.ups m).group := by
    intro m; unfold setUp; by_cases h : m = n
    · subst h; simpa using hg
    · simp [h]
  have hst : UpsStable s (setUp s n f) := ⟨Nat.le_refl _, fun m _ => hgs m⟩
  apply hi.of hst
  · intro i id m h; left; exact ⟨h, rfl⟩
  · intro m t h
    by_cases hm : m = n
    · subst hm
      simp only [setUp, if_true] at h
      exact ht t h
    · simp only [setUp, hm, if_false] at h; left; exact h
  · intro i a h; left; exact h
  · intro i d h; left; exact ⟨h, rfl⟩
  · intro t h; left; exact h

theorem inv_storeDown {s : State} (hi : Inv s) (c : Nat) (d : Down) (g : Nat)
    (hg : (s.clients c).group = some g) (hd : DownOK s g d) : Inv (storeDown s c d) := by
  unfold storeDown
  apply hi.of (upsStable_setClient s c _)
  · intro i id n h
    left
    by_cases hic : i = c
    · subst hic; simp only [setClient, if_true] at h ⊢; exact ⟨h, trivial⟩
    · simp only [setClient, hic, if_false] at h ⊢; exact ⟨h, trivial⟩
  · intro n t h; left; exact h
  · intro i a h
    left
    by_cases hic : i = c
    · subst hic; simp only [setClient, if_true] at h; exact h
    · simp only [setClient, hic, if_false] at h; exact h
  · intro i x h
    by_cases hic : i = c
    · subst hic
      simp only [setClient, if_true, List.mem_append, List.mem_filter, List.mem_singleton] at h ⊢
      rcases h with ⟨h, _⟩ | h
      · left; exact ⟨h, trivial⟩
      · right; subst h; exact ⟨g, hg, hd⟩
    · simp only [setClient, hic, if_false] at h ⊢; left; exact ⟨h, trivial⟩
  · intro t h; left; exact h

theorem inv_delDown {s : State} (hi : Inv s) (c r : Nat) : Inv (delDown s c r) := by
  unfold delDown
  apply inv_setClient_sub hi c _ rfl (fun _ h => h) (fun x h => (List.mem_filter.mp h).1) (fun _ h => h)

theorem inv_deferredClose {s : State} (hi : Inv s) (c r : Nat) : Inv (deferredClose s c r).1 := by
  unfold deferredClose closeDown
  split
  · exact inv_delDown hi c r
  · exact hi

theorem inv_afterReplace {s : State} (hi : Inv s) (c r : Nat) : Inv (afterReplace s c r) := by
  unfold afterReplace
  split
  · exact inv_delDown hi c r
  · exact hi

theorem inv_closeBoth {s : State} (hi : Inv s) (c id r : Nat) : Inv (closeBoth s c id r).1 := by
  unfold closeBoth closeDown
  exact inv_deferredClose (inv_delDown hi c id) c r

theorem inv_renegotiate {s : State} (hi : Inv s) (c : Nat) (d : Down) (req : List Track) (r g : Nat)
    (hg : (s.clients c).group = some g)
    (hd : d.remote < s.nUps ∧ (s.ups d.remote).group = g)
    (hreq : ∀ t ∈ req, t.up < s.nUps ∧ (s.ups t.up).group = g) :
    Inv (renegotiate s c d req r).1 := by
  unfold renegotiate
  simp only []
  split
  · exact inv_deferredClose hi c r
  · have hok : ∀ t ∈ (replaceTracks d.tracks req).1, t.up < s.nUps ∧ (s.ups t.up).group = g :=
      fun t ht => hreq t ((mem_replaceTracks _ _ t).mp ht)
    split
    · exact inv_storeDown hi c _ g hg ⟨hd.1, hd.2, hok⟩
    · exact inv_storeDown hi c _ g hg ⟨hd.1, hd.2, hok⟩

theorem inv_attach {s : State} (hi : Inv s) (c n : Nat) (req : List Track) (r g : Nat)
    (hg : (s.clients c).group = some g) (hn : n < s.nUps ∧ (s.ups n).group = g)
    (hreq : ∀ t ∈ req, t.up < s.nUps ∧ (s.ups t.up).group = g) :
    Inv (attach s c n req r).1 := by
  unfold attach
  simp only []
  split
  · exact inv_deferredClose hi c r
  · split
    · rename_i d hd
      obtain ⟨g', h1, h2⟩ := hi.down_ok c d (findDown_mem _ _ _ hd)
      have : g' = g := by rw [hg] at h1; injection h1 with h1; exact h1.symm
      subst this
      exact inv_renegotiate hi c d req r g' hg ⟨h2.1, h2.2.1⟩ hreq
    · split
      · exact inv_deferredClose hi c r
      · exact inv_renegotiate hi c _ req r g hg hn hreq

theorem selection_sub (s : State) (c : Nat) (up : Option Nat) (tracks : List Track) (r : Nat) (t : Track)
    (h : t ∈ selection s c up tracks r) : t ∈ tracks := by
  unfold selection at h
  cases up with
  | none => simp at h
  | some n => exact selected_mem _ _ _ ((mem_requestedTracks _ _ _).mp h)

theorem inv_pushDownConn {s : State} (hi : Inv s) (c g id : Nat) (up : Option Nat) (tracks : List Track) (r : Nat)
    (hg : (s.clients c).group = some g) (ha : ActOK s (.pushConn g id up tracks r)) :
    Inv (pushDownConn s c id up tracks r).1 := by
  unfold pushDownConn
  simp only []
  cases up with
  | none => exact inv_closeBoth (inv_afterReplace hi c r) c id r
  | some n =>
    simp only []
    split
    · exact inv_closeBoth (inv_afterReplace hi c r) c id r
    · obtain ⟨h1, h2, h3⟩ := ha
      have hOD := onlyDown_afterReplace s c r
      have hg' : ((afterReplace s c r).clients c).group = some g := by
        obtain ⟨_, _, _, _, _, dn, e⟩ := hOD; rw [e]; exact hg
      apply inv_attach (inv_afterReplace hi c r) c n _ r g hg'
      · rw [hOD.2.2.2.1, hOD.1]; exact ⟨h1, h2⟩
      · intro t ht
        have := h3 t (selection_sub _ _ _ _ _ _ ht)
        rw [hOD.2.2.2.1, hOD.1, this]; exact ⟨h1, h2⟩


theorem inv_delUpConn {s : State} (hi : Inv s) (c id : Nat) (push : Bool) : Inv (delUpConn s c id push) := by
  unfold delUpConn
  split
  · exact hi
  · rename_i n hn
    simp only []
    have h1 : Inv (setClient s c (fun cl => { cl with up := cl.up.filter (fun p => p.1 ≠ id) })) :=
      inv_setClient_sub hi c _ rfl (fun x h => (List.mem_filter.mp h).1) (fun _ h => h) (fun _ h => h)
    have h2 := inv_setUp h1 n (fun u => { u with closed := true }) rfl (fun t h => .inl h)
    split
    · split
      · exact inv_putAll h2 _ _ trivial
      · exact h2
    · exact h2

theorem inv_foldl_delUpConn {s : State} (hi : Inv s) (c : Nat) (l : List (Nat × Nat)) :
    Inv (l.foldl (fun s p => delUpConn s c p.1 true) s) := by
  induction l generalizing s with
  | nil => exact hi
  | cons a l ih => exact ih (inv_delUpConn hi c a.1 true)

/-- a client record that has left every group holds nothing -/
theorem inv_setClient_left {s : State} (hi : Inv s) (c : Nat) (f : Client → Client)
    (hu : (f (s.clients c)).up = []) (hd : (f (s.clients c)).down = [])
    (hq : ∀ x, x ∈ (f (s.clients c)).queue → x ∈ (s.clients c).queue) : Inv (setClient s c f) := by
  apply hi.of (upsStable_setClient s c f)
  · intro i id n h
    by_cases hic : i = c
    · subst hic; simp only [setClient, if_true, hu] at h; cases h
    · simp only [setClient, hic, if_false] at h ⊢; left; exact ⟨h, trivial⟩
  · intro n t h; left; exact h
  · intro i a h
    left
    by_cases hic : i = c
    · subst hic; simp only [setClient, if_true] at h; exact hq _ h
    · simp only [setClient, hic, if_false] at h; exact h
  · intro i d h
    by_cases hic : i = c
    · subst hic; simp only [setClient, if_true, hd] at h; cases h
    · simp only [setClient, hic, if_false] at h ⊢; left; exact ⟨h, trivial⟩
  · intro t h; left; exact h

theorem inv_leaveGroup {s : State} (hi : Inv s) (c : Nat) : Inv (leaveGroup s c) := by
  unfold leaveGroup
  split
  · exact hi
  · exact inv_setClient_left (inv_foldl_delUpConn hi c _) c _ rfl rfl (fun _ h => h)

theorem inv_die {s : State} (hi : Inv s) (c : Nat) : Inv (die s c).1 := by
  unfold die
  exact inv_setClient_sub (inv_leaveGroup hi c) c (fun cl => { cl with alive := false, queue := [] }) rfl
    (fun _ h => h) (fun _ h => h) (fun x h => by cases h)

/-- a client that is in no group holds nothing, so it can be given a group -/
theorem inv_join {s : State} (hi : Inv s) (c : Nat) (f : Client → Client) (hnone : (s.clients c).group = none)
    (hu : (f (s.clients c)).up = (s.clients c).up) (hd : (f (s.clients c)).down = (s.clients c).down)
    (hq : (f (s.clients c)).queue = (s.clients c).queue) : Inv (setClient s c f) := by
  have hup : (s.clients c).up = [] := by
    cases h : (s.clients c).up with
    | nil => rfl
    | cons a l =>
      have := (hi.up_ok c a.1 a.2 (by rw [h]; simp)).2
      rw [hnone] at this; cases this
  have hdn : (s.clients c).down = [] := by
    cases h : (s.clients c).down with
    | nil => rfl
    | cons a l =>
      obtain ⟨g, h1, _⟩ := hi.down_ok c a (by rw [h]; simp)
      rw [hnone] at h1; cases h1
  exact inv_setClient_left hi c f (by rw [hu, hup]) (by rw [hd, hdn]) (fun x h => by rw [hq] at h; exact h)

theorem inv_timers {s : State} (hi : Inv s) (ts : List Timer)
    (h : ∀ t, t ∈ ts → t ∈ s.timers ∨ (t.up < s.nUps ∧ (s.ups t.up).group = t.group)) :
    Inv { s with timers := ts } := by
  apply hi.of (s' := { s with timers := ts }) (UpsStable.of_eq rfl rfl)
  · intro i id n h; left; exact ⟨h, rfl⟩
  · intro n t h; left; exact h
  · intro i a h; left; exact h
  · intro i d h; left; exact ⟨h, rfl⟩
  · intro t ht; exact h t ht

theorem inv_newUp {s : State} (hi : Inv s) (c id label g : Nat) (hg : (s.clients c).group = some g) :
    Inv (newUp s c id label g).1 := by
  unfold newUp
  simp only []
  refine hi.of ⟨Nat.le_succ _, ?_⟩ ?_ ?_ ?_ ?_ ?_
  · intro m hm
    have : m ≠ s.nUps := Nat.ne_of_lt hm
    simp [setClient, setUp, this]
  · intro i id' m h
    by_cases hic : i = c
    · subst hic
      simp only [setClient, setUp, if_true, List.mem_append, List.mem_singleton] at h ⊢
      rcases h with h | h
      · left; exact ⟨h, trivial⟩
      · right
        injection h with h1 h2
        subst h2
        simp [hg]
    · simp only [setClient, setUp, hic, if_false] at h ⊢; left; exact ⟨h, trivial⟩
  · intro m t h
    by_cases hm : m = s.nUps
    · subst hm; simp [setClient, setUp] at h
    · simp only [setClient, setUp, hm, if_false] at h; left; exact h
  · intro i a h
    left
    by_cases hic : i = c
    · subst hic; simp only [setClient, setUp, if_true] at h; exact h
    · simp only [setClient, setUp, hic, if_false] at h; exact h
  · intro i d h
    left
    by_cases hic : i = c
    · subst hic; simp only [setClient, setUp, if_true] at h ⊢; exact ⟨h, trivial⟩
    · simp only [setClient, setUp, hic, if_false] at h ⊢; exact ⟨h, trivial⟩
  · intro t h
    simp only [setClient, setUp, List.mem_append, List.mem_singleton] at h ⊢
    rcases h with h | h
    · left; exact h
    · right; subst h; simp

theorem inv_getUp {s : State} (hi : Inv s) (c id label g : Nat) (hg : (s.clients c).group = some g) :
    Inv (getUp s c id label g).1 := by
  unfold getUp
  split
  · exact hi
  · exact inv_newUp hi c id label g hg

theorem inv_offerUp (F : Fixes) {s : State} (hi : Inv s) (c id label r g : Nat) (hg : (s.clients c).group = some g) :
    Inv (offerUp F s c id label r g) := by
  unfold offerUp
  simp only []
  have h0 := inv_getUp hi c id label g hg
  split
  · split
    · exact inv_delUpConn h0 c r true
    · exact inv_delUpConn (inv_setUp h0 _ _ rfl (fun t h => .inl h)) c r false
  · exact h0

theorem inv_gotOffer (F : Fixes) {s : State} (hi : Inv s) (c id label r g : Nat) (hg : (s.clients c).group = some g) :
    Inv (gotOffer F s c id label r g).1 := by
  unfold gotOffer
  simp only []
  split <;> exact inv_offerUp F hi c id label r g hg

theorem inv_offerOp (F : Fixes) {s : State} (hi : Inv s) (c id label r : Nat) : Inv (offerOp F s c id label r).1 := by
  unfold offerOp
  simp only []
  split
  · exact inv_die hi c
  · split
    · simp only []
      split
      · exact inv_delUpConn hi c r true
      · exact hi
    · split
      · exact hi
      · rename_i g hg
        split
        · exact hi
        · exact inv_gotOffer F hi c id label r g hg

theorem inv_answerOp {s : State} (hi : Inv s) (c id : Nat) : Inv (answerOp s c id).1 := by
  unfold answerOp
  split
  · exact inv_delDown hi c id
  · rename_i d hd
    obtain ⟨g, h1, h2⟩ := hi.down_ok c d (findDown_mem _ _ _ hd)
    split
    · exact inv_delDown hi c id
    · split
      · exact inv_storeDown hi c _ g h1 h2
      · exact inv_storeDown hi c _ g h1 h2

theorem inv_foldl_put {α : Type} {s : State} (hi : Inv s) (l : List α) (tgt : Nat) (mk : State → α → Action)
    (h : ∀ s', OnlyQueues s s' → ∀ x ∈ l, ActOK s' (mk s' x)) :
    Inv (l.foldl (fun s x => put s tgt (mk s x)) s) := by
  induction l generalizing s with
  | nil => exact hi
  | cons a l ih =>
    simp only [List.foldl_cons]
    apply ih (inv_put hi tgt _ (h s (OnlyQueues.refl s) a (by simp)))
    intro s' hs' x hx
    exact h s' ((onlyQueues_put s tgt _).trans hs') x (by simp [hx])

theorem inv_dequeued {s : State} (hi : Inv s) (c : Nat) (a : Action) (rest : List Action)
    (hq : (s.clients c).queue = a :: rest) : Inv (dequeued s c rest) := by
  unfold dequeued
  exact inv_setClient_sub hi c _ rfl (fun _ h => h) (fun _ h => h) (fun x h => by rw [hq]; simp at h ⊢; exact .inr h)

theorem inv_handleAction {s : State} (hi : Inv s) (c : Nat) (a : Action) (ha : ActOK s a) :
    Inv (handleAction s c a).1 := by
  cases a with
  | pushConn g id up tracks r =>
    simp only [handleAction, handlePush]
    split
    · exact hi
    · rename_i hg
      have hg' : (s.clients c).group = some g := by simpa using hg
      have := inv_pushDownConn hi c g id up tracks r hg' ha
      split
      · exact inv_die this c
      · exact this
  | requestConns g target id =>
    simp only [handleAction, handleRequestConns]
    split
    · exact hi
    · rename_i hg
      have hg' : (s.clients c).group = some g := by simpa using hg
      simp only []
      apply inv_foldl_put (α := Nat × Nat) hi _ target
        (fun s (p : Nat × Nat) => .pushConn g p.1 (some p.2) (s.ups p.2).tracks (s.ups p.2).replace)
      intro s' hs' p hp
      have hp' := (List.mem_filter.mp hp).1
      obtain ⟨h1, h2⟩ := hi.up_ok c p.1 p.2 hp'
      rw [hg'] at h2
      injection h2 with h2
      refine ⟨by rw [hs'.2.2.2.1]; exact h1, by rw [hs'.1]; exact h2.symm, fun t ht => ?_⟩
      rw [hs'.1] at ht
      exact hi.tracks_ok _ t ht
  | kick => exact inv_die hi c
  | changePerm b =>
    simp only [handleAction]
    exact inv_put (inv_setClient_sub hi c _ rfl (fun _ h => h) (fun _ h => h) (fun _ h => h)) c _ trivial
  | permsChanged =>
    simp only [handleAction, handlePermsChanged]
    split
    · exact inv_die hi c
    · split
      · exact hi
      · exact inv_foldl_delUpConn hi c _

theorem inv_deliver {s : State} (hi : Inv s) (c : Nat) : Inv (deliver s c).1 := by
  unfold deliver
  split
  · exact hi
  · split
    · exact hi
    · rename_i a rest hq
      have hd := inv_dequeued hi c a rest hq
      apply inv_handleAction hd c a
      have := hi.queue_ok c a (by rw [hq]; simp)
      exact this.mono (UpsStable.of_eq rfl rfl)


theorem lookup_mem (l : List (Nat × Nat)) (id n : Nat) (h : l.lookup id = some n) : (id, n) ∈ l := by
  induction l with
  | nil => simp at h
  | cons a l ih =>
    obtain ⟨k, v⟩ := a
    simp only [List.lookup_cons] at h
    split at h
    · rename_i hk
      have hk' : id = k := by simpa using hk
      injection h with h; subst h; subst hk'; simp
    · exact List.mem_cons_of_mem _ (ih h)

/-- every model step preserves the invariant -/
theorem inv_step (F : Fixes) {s : State} (hi : Inv s) (op : Op) : Inv (step F s op).1 := by
  cases op with
  | join c g user present op' =>
    simp only [step]
    split
    · exact hi
    · split
      · exact inv_die hi c
      · rename_i hg
        exact inv_join hi c (fun cl => { cl with group := some g, user := user, present := present, op := op' })
          (by simpa using hg) rfl rfl rfl
  | leave c =>
    simp only [step]
    split
    · exact hi
    · split
      · exact inv_die hi c
      · exact inv_leaveGroup hi c
  | disc c =>
    simp only [step]
    split
    · exact hi
    · exact inv_die hi c
  | request c m =>
    simp only [step]
    split
    · exact hi
    · split
      · exact inv_die hi c
      · exact inv_putAll (inv_setClient_sub hi c _ rfl (fun _ h => h) (fun _ h => h) (fun _ h => h)) _ _ trivial
  | reqStream c id r =>
    simp only [step]
    split
    · exact hi
    · split
      · exact inv_die hi c
      · rename_i d hd
        obtain ⟨g, h1, h2⟩ := hi.down_ok c d (findDown_mem _ _ _ hd)
        have := inv_storeDown hi c { d with requested := r } g h1 h2
        split
        · exact this
        · exact inv_put this _ _ trivial
  | abort c id =>
    simp only [step]
    split
    · exact hi
    · split
      · exact inv_die hi c
      · exact inv_delDown hi c id
  | close c id =>
    simp only [step]
    split
    · exact hi
    · split
      · exact inv_die hi c
      · exact inv_delUpConn hi c id true
  | offer c id label r =>
    simp only [step]
    split
    · exact hi
    · exact inv_offerOp F hi c id label r
  | track c id k kind =>
    simp only [step]
    split
    · rename_i n g hn hg
      obtain ⟨h1, h2⟩ := hi.up_ok c id n (lookup_mem _ _ _ hn)
      rw [hg] at h2; injection h2 with h2
      have h3 := inv_setUp hi n (fun u => { u with tracks := u.tracks ++ [{ up := n, k := k, kind := kind }], pushed := false })
        rfl (fun t h => by
          simp only [List.mem_append, List.mem_singleton] at h
          rcases h with h | h
          · left; exact h
          · right; rw [h])
      apply inv_timers h3
      intro t ht
      simp only [List.mem_append, List.mem_singleton] at ht
      rcases ht with ht | ht
      · left; exact ht
      · right; subst ht
        refine ⟨h1, ?_⟩
        simp only [setUp]
        split <;> simp [h2]
    · exact hi
  | answer c id =>
    simp only [step]
    split
    · exact hi
    · split
      · exact inv_die hi c
      · exact inv_answerOp hi c id
  | kick o c =>
    simp only [step]
    split
    · exact hi
    · split
      · exact hi
      · split
        · exact inv_put hi c _ trivial
        · exact hi
  | setPresent o c b =>
    simp only [step]
    split
    · exact hi
    · split
      · exact hi
      · split
        · exact inv_put hi c _ trivial
        · exact hi
  | fire =>
    simp only [step]
    split
    · exact hi
    · rename_i t rest ht
      obtain ⟨h1, h2⟩ := hi.timer_ok t (by rw [ht]; simp)
      have h3 : Inv { s with timers := rest } := inv_timers hi rest (fun x hx => .inl (by rw [ht]; simp [hx]))
      split
      · exact h3
      · have h4 := inv_setUp h3 t.up (fun u => { u with pushed := true, replace := 0 }) rfl (fun t h => .inl h)
        apply inv_putAll h4
        refine ⟨h1, ?_, fun x hx => hi.tracks_ok _ x hx⟩
        simp only [setUp]
        split <;> simp [h2]
  | deliver c => exact inv_deliver hi c

/-- the states reachable from the initial state by any sequence of model steps -/
def Reachable (F : Fixes) (s : State) : Prop := ∃ n ops, s = (run F (init n) ops).1

theorem inv_run (F : Fixes) {s : State} (hi : Inv s) (ops : List Op) : Inv (run F s ops).1 := by
  induction ops generalizing s with
  | nil => exact hi
  | cons op ops ih =>
    simp only [run]
    exact ih (inv_step F hi op)

theorem inv_reachable {F : Fixes} {s : State} (h : Reachable F s) : Inv s := by
  obtain ⟨n, ops, rfl⟩ := h
  exact inv_run F (inv_init n) ops


/-- offers are sent only by the `answer` handler (a postponed offer) and by the handling of a pushed connection -/
theorem offer_in_step (F : Fixes) (s : State) (op : Op) (to id label src user r : Nat) (ts : List Track)
    (he : Event.offer to id label src user r ts ∈ (step F s op).2) :
    ((s.clients to).alive = true ∧ op = .answer to id ∧ ∃ d, findDown (s.clients to) id = some d ∧ d.id = id ∧
        label = (s.ups d.remote).label ∧ src = (s.ups d.remote).owner ∧ user = (s.ups d.remote).user ∧ ts = d.tracks) ∨
    ((s.clients to).alive = true ∧ op = .deliver to ∧ ∃ g i up tracks rest,
        (s.clients to).queue = .pushConn g i up tracks r :: rest ∧
        Event.offer to id label src user r ts ∈ (handlePush (dequeued s to rest) to g i up tracks r).2) := by
  cases op with
  | join c' g user present op' =>
    simp only [step] at he
    split at he
    · simp at he
    · split at he
      · simp [die_events] at he
      · simp at he
  | leave c' =>
    simp only [step] at he
    split at he
    · simp at he
    · split at he
      · simp [die_events] at he
      · simp at he
  | disc c' =>
    simp only [step] at he
    split at he <;> simp at he
  | request c' m =>
    simp only [step] at he
    split at he
    · simp at he
    · split at he
      · simp [die_events] at he
      · simp at he
  | reqStream c' id' r =>
    simp only [step] at he
    split at he
    · simp at he
    · split at he
      · simp [die_events] at he
      · split at he <;> simp at he
  | abort c' id' =>
    simp only [step] at he
    split at he
    · simp at he
    · split at he
      · simp [die_events] at he
      · simp [closeDown] at he
  | close c' id' =>
    simp only [step] at he
    split at he
    · simp at he
    · split at he
      · simp [die_events] at he
      · simp at he
  | offer c' id' label' replace =>
    simp only [step] at he
    split at he
    · simp at he
    · rcases offerOp_events F _ _ _ _ _ _ he with h | h <;> cases h
  | track c' id' k kind =>
    simp only [step] at he
    split at he <;> simp at he
  | answer c' id' =>
    simp only [step] at he
    split at he
    · simp at he
    · rename_i hal
      split at he
      · simp [die_events] at he
      · unfold answerOp at he
        split at he
        · simp [closeDown] at he
        · rename_i d hf
          split at he
          · simp [closeDown] at he
          · split at he
            · simp only [List.mem_singleton] at he
              injection he with e1 e2 e3 e4 e5 e6 e7
              subst e1
              have hid := findDown_id _ _ _ hf
              left
              refine ⟨by simpa using hal, by rw [e2, hid], d, ?_, ?_, e3, e4, e5, e7⟩
              · rw [e2, hid]; exact hf
              · exact e2.symm
            · simp at he
  | kick o c' =>
    simp only [step] at he
    split at he
    · simp at he
    · split at he
      · simp at he
      · split at he <;> simp at he
  | setPresent o c' b =>
    simp only [step] at he
    split at he
    · simp at he
    · split at he
      · simp at he
      · split at he <;> simp at he
  | fire =>
    simp only [step] at he
    split at he
    · simp at he
    · split at he <;> simp at he
  | deliver c' =>
    simp only [step] at he
    right
    unfold deliver at he
    split at he
    · simp at he
    · rename_i hal
      split at he
      · simp at he
      · rename_i a rest hq
        cases a with
        | pushConn g i up tracks replace =>
          simp only [handleAction] at he
          have he' := he
          obtain ⟨_, h'⟩ := handlePush_events _ _ _ _ _ _ _ _ he
          rcases h' with h' | h'
          · cases h'
          · rcases pushDownConn_events _ _ _ _ _ _ _ h' with ⟨h1, _⟩ | ⟨h1, _⟩ | ⟨n, ts', _, _, h1, _⟩
            · cases h1
            · cases h1
            · injection h1 with e1 e2 e3 e4 e5 e6 e7
              subst e1 e6
              exact ⟨by simpa using hal, rfl, g, i, up, tracks, rest, hq, he'⟩
        | requestConns g target i =>
          simp only [handleAction, handleRequestConns] at he
          split at he <;> simp at he
        | kick => simp [handleAction, die_events] at he
        | changePerm b => simp [handleAction] at he
        | permsChanged =>
          simp only [handleAction, handlePermsChanged] at he
          split at he
          · simp [die_events] at he
          · split at he <;> simp at he

theorem mem_down_afterReplace (s : State) (c r : Nat) (d : Down)
    (h : d ∈ ((afterReplace s c r).clients c).down) : d ∈ (s.clients c).down := by
  unfold afterReplace delDown setClient at h
  split at h
  · simp only [if_true] at h; exact (List.mem_filter.mp h).1
  · exact h

/-- **C07_isolation.**  In every reachable state, whatever step is taken next: an offer that is sent
goes to a client that is, at that moment, a member of the group `g` in which the connection named as
its source was published (and whose label and owner's username the offer carries), and every track of
the offer was published in `g` too.  No stream or track is ever offered to a member of another group or
to a client that has joined none. -/
theorem C07_isolation {F : Fixes} {s : State} (hr : Reachable F s) (op : Op) (to id label src user r : Nat) (ts : List Track)
    (he : Event.offer to id label src user r ts ∈ (step F s op).2) :
    ∃ g m, (s.clients to).group = some g ∧ m < s.nUps ∧ (s.ups m).group = g ∧
      src = (s.ups m).owner ∧ label = (s.ups m).label ∧ user = (s.ups m).user ∧
      ∀ t ∈ ts, t.up < s.nUps ∧ (s.ups t.up).group = g := by
  have hi := inv_reachable hr
  rcases offer_in_step F s op to id label src user r ts he with
    ⟨_, _, d, hf, _, h1, h2, h3, h4⟩ | ⟨hal, _, g, i, up, tracks, rest, hq, h⟩
  · obtain ⟨g, hg, hd⟩ := hi.down_ok to d (findDown_mem _ _ _ hf)
    exact ⟨g, d.remote, hg, hd.1, hd.2.1, h2, h1, h3, by rw [h4]; exact hd.2.2⟩
  · have hact : ActOK s (.pushConn g i up tracks r) := hi.queue_ok to _ (by rw [hq]; simp)
    obtain ⟨hg, h'⟩ := handlePush_events _ _ _ _ _ _ _ _ h
    rw [dequeued_group] at hg
    rcases h' with h' | h'
    · cases h'
    · rcases pushDownConn_events _ _ _ _ _ _ _ h' with ⟨h1, _⟩ | ⟨h1, _⟩ | ⟨n, ts', hup, _, h1, h2⟩
      · cases h1
      · cases h1
      · subst hup
        obtain ⟨a1, a2, a3⟩ := hact
        injection h1 with e1 e2 e3 e4 e5 e6 e7
        simp only [dequeued_ups] at e3 e4 e5
        refine ⟨g, downRemote (afterReplace (dequeued s to rest) to r) to n, hg, ?_, ?_, e4, e3, e5, ?_⟩
        · unfold downRemote
          split
          · rename_i d hd
            have := mem_down_afterReplace _ _ _ _ (findDown_mem _ _ _ hd)
            rw [dequeued_down] at this
            exact (hi.down_ok to d this).choose_spec.2.1
          · exact a1
        · unfold downRemote
          split
          · rename_i d hd
            have := mem_down_afterReplace _ _ _ _ (findDown_mem _ _ _ hd)
            rw [dequeued_down] at this
            obtain ⟨g', hg', hd'⟩ := hi.down_ok to d this
            rw [hg] at hg'; injection hg' with hg'
            rw [hg']; exact hd'.2.1
          · exact a2
        · intro t ht
          rw [e7] at ht
          have := a3 t (selection_sub _ _ _ _ _ _ ((h2 t).mp ht))
          rw [this]; exact ⟨a1, a2⟩



/-! ## Part E — teardown -/

theorem OnlyQueues.alive {s s' : State} (h : OnlyQueues s s') (i : Nat) : (s'.clients i).alive = (s.clients i).alive := by
  have := h.2.2.2.2 i; unfold SameButQueue at this; rw [this]
theorem OnlyQueues.group {s s' : State} (h : OnlyQueues s s') (i : Nat) : (s'.clients i).group = (s.clients i).group := by
  have := h.2.2.2.2 i; unfold SameButQueue at this; rw [this]
theorem OnlyQueues.up {s s' : State} (h : OnlyQueues s s') (i : Nat) : (s'.clients i).up = (s.clients i).up := by
  have := h.2.2.2.2 i; unfold SameButQueue at this; rw [this]
theorem OnlyQueues.down {s s' : State} (h : OnlyQueues s s') (i : Nat) : (s'.clients i).down = (s.clients i).down := by
  have := h.2.2.2.2 i; unfold SameButQueue at this; rw [this]

theorem put_queue_mono (s : State) (c i : Nat) (a x : Action) (h : x ∈ (s.clients i).queue) :
    x ∈ ((put s c a).clients i).queue := by
  unfold put; split
  · by_cases hic : i = c
    · subst hic; simp [setClient, h]
    · simp [setClient, hic, h]
  · exact h

theorem putAll_queue_mono (s : State) (cs : List Nat) (i : Nat) (a x : Action) (h : x ∈ (s.clients i).queue) :
    x ∈ ((putAll s cs a).clients i).queue := by
  unfold putAll
  induction cs generalizing s with
  | nil => exact h
  | cons c cs ih => exact ih _ (put_queue_mono s c i a x h)

/-- `putAll` reaches every live addressee -/
theorem putAll_queue_mem (s : State) (cs : List Nat) (m : Nat) (a : Action) (hm : m ∈ cs)
    (hal : (s.clients m).alive = true) : a ∈ ((putAll s cs a).clients m).queue := by
  unfold putAll
  induction cs generalizing s with
  | nil => cases hm
  | cons c cs ih =>
    simp only [List.foldl_cons]
    rcases List.mem_cons.mp hm with h | h
    · subst h
      have : a ∈ ((put s m a).clients m).queue := by rw [put_queue_self s m a hal]; simp
      exact putAll_queue_mono _ cs m a a this
    · exact ih _ h (by rw [(onlyQueues_put s c a).alive]; exact hal)

theorem members_congr (s s' : State) (g c : Nat) (hn : s'.n = s.n) (hg : ∀ i, (s'.clients i).group = (s.clients i).group) :
    members s' g c = members s g c := by
  unfold members; rw [hn]; congr 1; funext i; rw [hg]

theorem mem_members_of (s s' : State) (g c m : Nat) (hn : s'.n = s.n)
    (hg : ∀ i, (s'.clients i).group = (s.clients i).group) (h : m ∈ members s g c) : m ∈ members s' g c := by
  rw [members_congr s s' g c hn hg]; exact h

/-- **C07_teardown_notify.**  Closing an up connection (`delUpConn … push = true`: the `close` message, and
each connection of a client that leaves, is disconnected, is kicked or loses `present`) marks the
connection closed and queues a close — a push of that id with no connection — for every other live
member of the publisher's group. -/
theorem C07_teardown_notify (s : State) (c id n g : Nat) (hl : (s.clients c).up.lookup id = some n)
    (hg : (s.clients c).group = some g) :
    ((delUpConn s c id true).ups n).closed = true ∧
    ∀ m, m ∈ members s g c → (s.clients m).alive = true →
      Action.pushConn g id none [] (s.ups n).replace ∈ ((delUpConn s c id true).clients m).queue := by
  unfold delUpConn
  simp only [hl, if_true]
  have hg' : ((setUp (setClient s c fun cl => { cl with up := cl.up.filter (fun p => p.1 ≠ id) }) n
      fun u => { u with closed := true }).clients c).group = some g := by simp [setUp, setClient, hg]
  simp only [hg']
  constructor
  · rw [(onlyQueues_putAll _ _ _).1]; simp [setUp]
  · intro m hm hal
    apply putAll_queue_mem
    · refine mem_members_of s _ g c m ?_ ?_ hm
      · rfl
      · intro i; simp only [setUp, setClient]; split <;> simp_all
    · simp only [setUp, setClient]; split <;> simp_all

theorem delUpConn_queue_mono (s : State) (c id i : Nat) (push : Bool) (x : Action) (h : x ∈ (s.clients i).queue) :
    x ∈ ((delUpConn s c id push).clients i).queue := by
  unfold delUpConn
  split
  · exact h
  · rename_i n hn
    simp only []
    have h' : x ∈ ((setUp (setClient s c fun cl => { cl with up := cl.up.filter (fun p => p.1 ≠ id) }) n
        fun u => { u with closed := true }).clients i).queue := by
      simp only [setUp, setClient]; split <;> simp_all
    split
    · split
      · exact putAll_queue_mono _ _ _ _ _ h'
      · exact h'
    · exact h'

/-- **C07_teardown_deliver.**  When a member's loop handles such a close, the client is sent `close id`
(and `close replace` if the closed connection was itself replacing one) and no longer holds a down
connection of that id. -/
theorem C07_teardown_deliver (s : State) (c g id r : Nat) (tracks : List Track) (rest : List Action)
    (ha : (s.clients c).alive = true) (hq : (s.clients c).queue = .pushConn g id none tracks r :: rest)
    (hg : (s.clients c).group = some g) :
    (deliver s c).2 = Event.close c id :: (if r ≠ 0 then [Event.close c r] else []) ∧
    findDown ((deliver s c).1.clients c) id = none := by
  rw [deliver_eq s c _ rest ha hq]
  unfold handleAction handlePush
  simp only [dequeued_group, hg, ne_eq, not_true_eq_false, if_false]
  unfold pushDownConn closeBoth closeDown deferredClose closeDown
  simp only []
  by_cases hr : r = 0
  · simp only [hr, ne_eq, not_true_eq_false, if_false, Bool.false_eq_true]
    exact ⟨rfl, findDown_delDown_eq _ _ _⟩
  · simp only [hr, ne_eq, not_false_eq_true, if_true, Bool.false_eq_true, if_false]
    refine ⟨rfl, ?_⟩
    by_cases hir : id = r
    · subst hir; exact findDown_delDown_eq _ _ _
    · rw [findDown_delDown_ne _ _ _ _ hir]; exact findDown_delDown_eq _ _ _


theorem delUpConn_frame (s : State) (c id : Nat) (push : Bool) :
    (delUpConn s c id push).n = s.n ∧ ∀ i, ((delUpConn s c id push).clients i).group = (s.clients i).group ∧
      ((delUpConn s c id push).clients i).alive = (s.clients i).alive := by
  unfold delUpConn
  split
  · exact ⟨rfl, fun _ => ⟨rfl, rfl⟩⟩
  · rename_i n hn
    simp only []
    have h0 : ∀ i, ((setUp (setClient s c fun cl => { cl with up := cl.up.filter (fun p => p.1 ≠ id) }) n
        fun u => { u with closed := true }).clients i).group = (s.clients i).group ∧
        ((setUp (setClient s c fun cl => { cl with up := cl.up.filter (fun p => p.1 ≠ id) }) n
        fun u => { u with closed := true }).clients i).alive = (s.clients i).alive := by
      intro i; simp only [setUp, setClient]; split <;> simp_all
    split
    · split
      · rename_i g hg
        have hq := onlyQueues_putAll (setUp (setClient s c fun cl => { cl with up := cl.up.filter (fun p => p.1 ≠ id) }) n
          fun u => { u with closed := true }) (members (setUp (setClient s c fun cl => { cl with up := cl.up.filter (fun p => p.1 ≠ id) }) n
          fun u => { u with closed := true }) g c) (.pushConn g id none [] (s.ups n).replace)
        exact ⟨hq.2.2.1, fun i => ⟨by rw [hq.group]; exact (h0 i).1, by rw [hq.alive]; exact (h0 i).2⟩⟩
      · exact ⟨rfl, h0⟩
    · exact ⟨rfl, h0⟩

theorem lookup_filter_ne (l : List (Nat × Nat)) (id k : Nat) (h : k ≠ id) :
    (l.filter (fun p => p.1 ≠ id)).lookup k = l.lookup k := by
  induction l with
  | nil => rfl
  | cons a l ih =>
    obtain ⟨x, y⟩ := a
    simp only [ne_eq, decide_not] at ih ⊢
    by_cases hx : x = id
    · subst hx
      have : (k == x) = false := by simpa using h
      simp [List.filter_cons, List.lookup_cons, this, ih]
    · by_cases hk : k = x
      · subst hk; simp [List.filter_cons, List.lookup_cons, hx]
      · have : (k == x) = false := by simpa using hk
        simp [List.filter_cons, List.lookup_cons, hx, this, ih]

theorem delUpConn_up_ne (s : State) (c id k : Nat) (push : Bool) (h : k ≠ id) :
    ((delUpConn s c id push).clients c).up.lookup k = (s.clients c).up.lookup k := by
  unfold delUpConn
  split
  · rfl
  · rename_i n hn
    simp only []
    have h0 : ((setUp (setClient s c fun cl => { cl with up := cl.up.filter (fun p => p.1 ≠ id) }) n
        fun u => { u with closed := true }).clients c).up.lookup k = (s.clients c).up.lookup k := by
      simp only [setUp, setClient, if_true]; exact lookup_filter_ne _ _ _ h
    split
    · split
      · rw [(onlyQueues_putAll _ _ _).up]; exact h0
      · exact h0
    · exact h0

theorem foldl_delUpConn_queue_mono (c i : Nat) (x : Action) (l : List (Nat × Nat)) (s : State)
    (h : x ∈ (s.clients i).queue) : x ∈ ((l.foldl (fun s p => delUpConn s c p.1 true) s).clients i).queue := by
  induction l generalizing s with
  | nil => exact h
  | cons a l ih => exact ih _ (delUpConn_queue_mono s c a.1 i true x h)

theorem foldl_delUpConn_notifies (c g m : Nat) (l : List (Nat × Nat)) (s : State)
    (hg : (s.clients c).group = some g) (hm : m ∈ members s g c) (hal : (s.clients m).alive = true)
    (hl : ∀ p ∈ l, (∃ n, (s.clients c).up.lookup p.1 = some n) ∨
        ∃ r, Action.pushConn g p.1 none [] r ∈ (s.clients m).queue) :
    ∀ p ∈ l, ∃ r, Action.pushConn g p.1 none [] r ∈
      ((l.foldl (fun s p => delUpConn s c p.1 true) s).clients m).queue := by
  induction l generalizing s with
  | nil => intro p hp; cases hp
  | cons a l ih =>
    have hfr := delUpConn_frame s c a.1 true
    -- after the first deletion the close of `a` is queued
    have ha : ∃ r, Action.pushConn g a.1 none [] r ∈ ((delUpConn s c a.1 true).clients m).queue := by
      rcases hl a (by simp) with ⟨n, hn⟩ | ⟨r, hr⟩
      · exact ⟨_, (C07_teardown_notify s c a.1 n g hn hg).2 m hm hal⟩
      · exact ⟨r, delUpConn_queue_mono s c a.1 m true _ hr⟩
    have hrest := ih (delUpConn s c a.1 true) (by rw [(hfr.2 c).1]; exact hg)
      (mem_members_of s _ g c m hfr.1 (fun i => (hfr.2 i).1) hm) (by rw [(hfr.2 m).2]; exact hal)
      (by
        intro p hp
        by_cases hpa : p.1 = a.1
        · right; rw [hpa]; exact ha
        · rcases hl p (by simp [hp]) with ⟨n, hn⟩ | ⟨r, hr⟩
          · left; exact ⟨n, by rw [delUpConn_up_ne s c a.1 p.1 true hpa]; exact hn⟩
          · right; exact ⟨r, delUpConn_queue_mono s c a.1 m true _ hr⟩)
    intro p hp
    simp only [List.foldl_cons]
    rcases List.mem_cons.mp hp with h | h
    · subst h
      obtain ⟨r, hr⟩ := ha
      exact ⟨r, foldl_delUpConn_queue_mono c m _ l _ hr⟩
    · exact hrest p h

theorem lookup_isSome_of_mem (l : List (Nat × Nat)) (p : Nat × Nat) (h : p ∈ l) : ∃ n, l.lookup p.1 = some n := by
  induction l with
  | nil => cases h
  | cons a l ih =>
    obtain ⟨x, y⟩ := a
    by_cases hx : p.1 = x
    · exact ⟨y, by simp [List.lookup_cons, hx]⟩
    · have hne : ¬ (p.1 == x) = true := by simpa using hx
      rcases List.mem_cons.mp h with h | h
      · subst h; exact absurd rfl hx
      · obtain ⟨n, hn⟩ := ih h
        exact ⟨n, by simp [List.lookup_cons, hne, hn]⟩

theorem members_ne (s : State) (g c m : Nat) (h : m ∈ members s g c) : m ≠ c := by
  unfold members at h
  have := (List.mem_filter.mp h).2
  simp only [Bool.and_eq_true, bne_iff_ne, ne_eq, decide_eq_true_eq] at this
  simpa using this.1

/-- **C07_teardown_leave.**  When a client leaves its group — by a `leave`, by disconnecting, by being
kicked, or because its loop ended on an error (`leaveGroup`) — a close is queued, for every one of its up
connections, at every other live member of the group. -/
theorem C07_teardown_leave (s : State) (c g : Nat) (hg : (s.clients c).group = some g)
    (m : Nat) (hm : m ∈ members s g c) (hal : (s.clients m).alive = true)
    (p : Nat × Nat) (hp : p ∈ (s.clients c).up) :
    ∃ r, Action.pushConn g p.1 none [] r ∈ ((leaveGroup s c).clients m).queue := by
  unfold leaveGroup
  simp only [hg]
  have := foldl_delUpConn_notifies c g m (s.clients c).up s hg hm hal
    (fun q hq => .inl (lookup_isSome_of_mem _ q hq)) p hp
  obtain ⟨r, hr⟩ := this
  refine ⟨r, ?_⟩
  have hne := members_ne s g c m hm
  simp only [setClient, hne, if_false]
  exact hr

/-- … and likewise when a client loses the right to present (`unpresent` handled by its loop):
its up connections are closed, it is sent an `abort` for each, every other member gets the closes. -/
theorem C07_teardown_unpresent (s : State) (c g : Nat) (hg : (s.clients c).group = some g)
    (hpres : (s.clients c).present = false)
    (m : Nat) (hm : m ∈ members s g c) (hal : (s.clients m).alive = true)
    (p : Nat × Nat) (hp : p ∈ (s.clients c).up) :
    (∃ r, Action.pushConn g p.1 none [] r ∈ ((handlePermsChanged s c).1.clients m).queue) ∧
    Event.abort c p.1 ∈ (handlePermsChanged s c).2 := by
  unfold handlePermsChanged
  simp only [hg, hpres, Bool.false_eq_true, if_false]
  exact ⟨foldl_delUpConn_notifies c g m (s.clients c).up s hg hm hal
    (fun q hq => .inl (lookup_isSome_of_mem _ q hq)) p hp, List.mem_map.mpr ⟨p, hp, rfl⟩⟩



/-- **C07_label_true_partial.**  An offer sent while handling a pushed connection `n` names `n`'s owner,
the owner's username and `n`'s label — PROVIDED the client holds no down connection of that stream id
that belongs to another up connection (hypothesis `hno`).  The full statement (without `hno`) is false:
`collision_mislabels` below is a reachable counterexample (two publishers using one stream id), and it
is reproduced on the real server by the `streams` engine. -/
theorem C07_label_true_partial (s : State) (c g id n : Nat) (tracks : List Track) (replace : Nat) (rest : List Action)
    (ha : (s.clients c).alive = true)
    (hq : (s.clients c).queue = .pushConn g id (some n) tracks replace :: rest)
    (hno : ∀ d, d ∈ (s.clients c).down → d.id = (s.ups n).id → d.remote = n)
    (to i l src u r : Nat) (ts : List Track)
    (he : Event.offer to i l src u r ts ∈ (deliver s c).2) :
    src = (s.ups n).owner ∧ u = (s.ups n).user ∧ l = (s.ups n).label := by
  rw [deliver_eq s c _ rest ha hq] at he
  obtain ⟨_, h⟩ := handlePush_events _ c g id (some n) tracks replace _ he
  rcases h with h | h
  · cases h
  · rcases pushDownConn_events _ _ _ _ _ _ _ h with ⟨h1, _⟩ | ⟨h1, _⟩ | ⟨n', ts', hup, _, h1, _⟩
    · cases h1
    · cases h1
    · injection hup with hup; subst hup
      injection h1 with e1 e2 e3 e4 e5 e6 e7
      have hr : downRemote (afterReplace (dequeued s c rest) c replace) c n = n := by
        unfold downRemote
        split
        · rename_i d hd
          have hmem := mem_down_afterReplace _ _ _ _ (findDown_mem _ _ _ hd)
          rw [dequeued_down] at hmem
          have hid := findDown_id _ _ _ hd
          simp only [afterReplace_ups, dequeued_ups] at hid
          exact hno d hmem hid
        · rfl
      rw [hr] at e3 e4 e5
      exact ⟨e4, e5, e3⟩

theorem putAll_queue_sub (s : State) (cs : List Nat) (a x : Action) (i : Nat)
    (h : x ∈ ((putAll s cs a).clients i).queue) : x ∈ (s.clients i).queue ∨ x = a := by
  unfold putAll at h
  induction cs generalizing s with
  | nil => left; exact h
  | cons c cs ih =>
    simp only [List.foldl_cons] at h
    rcases ih _ h with h' | h'
    · unfold put at h'
      split at h'
      · by_cases hic : i = c
        · subst hic
          simp only [setClient, if_true, List.mem_append, List.mem_singleton] at h'
          exact h'
        · simp only [setClient, hic, if_false] at h'; left; exact h'
      · left; exact h'
    · right; exact h'

/-- **C07_own_only (abort).**  An `abort` changes nothing but the aborting client's own down
connections, and the only message is the `close` echoed to that client. -/
theorem C07_own_only_abort (F : Fixes) (s : State) (c id : Nat) (hal : (s.clients c).alive = true) (hid : id ≠ 0) :
    OnlyDown s (step F s (.abort c id)).1 c ∧ (step F s (.abort c id)).2 = [.close c id] := by
  simp only [step, hal, Bool.not_true, Bool.false_eq_true, if_false, hid, closeDown]
  exact ⟨onlyDown_delDown s c id, trivial⟩

/-- **C07_own_only (request).**  A `request` by a member sends nothing, changes only the client's own
request map, and otherwise only appends `requestConns` actions (naming the requester as the target) to
the queues of other members. -/
theorem C07_own_only_request (F : Fixes) (s : State) (c g : Nat) (m : List (Nat × Req)) (hal : (s.clients c).alive = true)
    (hg : (s.clients c).group = some g) :
    (step F s (.request c m)).2 = [] ∧
    (step F s (.request c m)).1.ups = s.ups ∧ (step F s (.request c m)).1.timers = s.timers ∧
    (∀ i, i ≠ c → SameButQueue ((step F s (.request c m)).1.clients i) (s.clients i)) ∧
    SameButQueue ((step F s (.request c m)).1.clients c) { s.clients c with requested := m } ∧
    ∀ i x, x ∈ ((step F s (.request c m)).1.clients i).queue → x ∈ (s.clients i).queue ∨ x = .requestConns g c 0 := by
  have hstep : step F s (.request c m) =
      (putAll (setClient s c (fun cl => { cl with requested := m }))
        (members (setClient s c (fun cl => { cl with requested := m })) g c) (.requestConns g c 0), []) := by
    simp only [step, hal, Bool.not_true, Bool.false_eq_true, if_false, hg]
  rw [hstep]
  generalize hs1 : setClient s c (fun cl => { cl with requested := m }) = s1
  have hq := onlyQueues_putAll s1 (members s1 g c) (.requestConns g c 0)
  refine ⟨rfl, by show (putAll s1 _ _).ups = s.ups; rw [hq.1, ← hs1]; rfl, by show (putAll s1 _ _).timers = s.timers; rw [hq.2.1, ← hs1]; rfl, ?_, ?_, ?_⟩
  · intro i hi
    have e : s1.clients i = s.clients i := by rw [← hs1]; simp [setClient, hi]
    have := hq.2.2.2.2 i
    rw [e] at this; exact this
  · have e : s1.clients c = { s.clients c with requested := m } := by rw [← hs1]; simp [setClient]
    have := hq.2.2.2.2 c
    rw [e] at this; exact this
  · intro i x hx
    rcases putAll_queue_sub _ _ _ _ _ hx with h | h
    · left; rw [← hs1] at h; simp only [setClient] at h; split at h <;> simp_all
    · right; exact h

theorem foldl_put_onlyQueues {α : Type} (l : List α) (tgt : Nat) (mk : State → α → Action) (s : State) :
    OnlyQueues s (l.foldl (fun s x => put s tgt (mk s x)) s) := by
  induction l generalizing s with
  | nil => exact OnlyQueues.refl s
  | cons a l ih => exact (onlyQueues_put s tgt _).trans (ih _)

theorem foldl_put_ne {α : Type} (l : List α) (tgt j : Nat) (hj : j ≠ tgt) (mk : State → α → Action) (s : State) :
    (l.foldl (fun s x => put s tgt (mk s x)) s).clients j = s.clients j := by
  induction l generalizing s with
  | nil => rfl
  | cons a l ih => simp only [List.foldl_cons]; rw [ih]; exact put_queue_ne s tgt j _ hj

/-- handling a `requestConns` action sends nothing and changes nothing but the target's queue -/
theorem handleRequestConns_frame (s : State) (c g target id : Nat) :
    (handleRequestConns s c g target id).2 = [] ∧ OnlyQueues s (handleRequestConns s c g target id).1 ∧
    ∀ j, j ≠ target → (handleRequestConns s c g target id).1.clients j = s.clients j := by
  unfold handleRequestConns
  split
  · exact ⟨rfl, OnlyQueues.refl s, fun _ _ => rfl⟩
  · exact ⟨rfl, foldl_put_onlyQueues (α := Nat × Nat) _ target
        (fun s p => .pushConn g p.1 (some p.2) (s.ups p.2).tracks (s.ups p.2).replace) s,
      fun j hj => foldl_put_ne (α := Nat × Nat) _ target j hj
        (fun s p => .pushConn g p.1 (some p.2) (s.ups p.2).tracks (s.ups p.2).replace) s⟩

/-- handling a pushed connection changes nothing but the handling client's own down connections,
unless it fails (the client is then disconnected) -/
theorem handlePush_frame (s : State) (c g id : Nat) (up : Option Nat) (tracks : List Track) (r : Nat)
    (hok : (pushDownConn s c id up tracks r).2.2 = false) :
    OnlyDown s (handlePush s c g id up tracks r).1 c := by
  unfold handlePush
  split
  · exact OnlyDown.refl s c
  · simp only [hok, Bool.false_eq_true, if_false]
    exact onlyDown_pushDownConn s c id up tracks r




theorem findDown_afterReplace_none (s : State) (c r id : Nat) (h : findDown (s.clients c) id = none) :
    findDown ((afterReplace s c r).clients c) id = none := by
  unfold findDown at h ⊢
  rw [List.find?_eq_none] at h ⊢
  intro x hx
  exact h x (mem_down_afterReplace s c r x hx)

/-- **C07_offer_iff.**  For a client that does not yet hold a down connection of the pushed id: when its
loop handles the push of an open connection `n` (that it does not publish itself under the same id), it is
sent an offer for it — naming `n`'s id, label, owner and owner's username, carrying exactly the tracks
`requestedTracks` selects — IF AND ONLY IF it is a member of the group the push was made in and the
selection is not empty. -/
theorem C07_offer_iff (s : State) (c g id n : Nat) (tracks : List Track) (replace : Nat) (rest : List Action)
    (ha : (s.clients c).alive = true)
    (hq : (s.clients c).queue = .pushConn g id (some n) tracks replace :: rest)
    (hdup : (s.clients c).up.lookup (s.ups n).id = none)
    (hlive : (s.ups n).closed = false)
    (hfresh : findDown (s.clients c) (s.ups n).id = none) :
    (∃ ts, Event.offer c (s.ups n).id (s.ups n).label (s.ups n).owner (s.ups n).user replace ts ∈ (deliver s c).2 ∧
        ∀ t, t ∈ ts ↔ Selected (effReq (s.clients c) (s.ups n) replace) tracks t) ↔
    ((s.clients c).group = some g ∧ selection s c (some n) tracks replace ≠ []) := by
  constructor
  · rintro ⟨ts, he, hts⟩
    obtain ⟨_, hg, _, n', hn', _, hsel, hne⟩ := C07_offer_only_if s c g id (some n) tracks replace rest ha hq _ _ _ _ _ _ _ he
    refine ⟨hg, ?_⟩
    intro hnil
    apply hne
    cases hts' : ts with
    | nil => rfl
    | cons a b =>
      have : a ∈ selection s c (some n) tracks replace := by
        simp only [selection]
        exact (mem_requestedTracks _ _ _).mpr ((hts a).mp (by rw [hts']; simp))
      rw [hnil] at this; cases this
  · rintro ⟨hg, hsel⟩
    rw [deliver_eq s c _ rest ha hq]
    unfold handleAction handlePush
    simp only [dequeued_group, hg, ne_eq, not_true_eq_false, if_false]
    unfold pushDownConn
    simp only [selection_dequeue]
    have hne : (selection s c (some n) tracks replace).isEmpty = false := by simpa using hsel
    simp only [hne, Bool.false_eq_true, if_false]
    generalize hs1 : afterReplace (dequeued s c rest) c replace = s1
    have hups : s1.ups = s.ups := by rw [← hs1]; simp
    have hup1 : (s1.clients c).up = (s.clients c).up := by
      rw [← hs1]; unfold afterReplace delDown setClient; split <;> simp
    have hf1 : findDown (s1.clients c) (s.ups n).id = none := by
      rw [← hs1]
      apply findDown_afterReplace_none
      unfold findDown at hfresh ⊢
      rw [dequeued_down]; exact hfresh
    unfold attach
    simp only [hups, hup1, hdup, Option.isSome_none, Bool.false_eq_true, if_false, hf1, hlive]
    unfold renegotiate
    have hdone : (replaceTracks [] (selection s c (some n) tracks replace)).2 = true := by
      unfold replaceTracks
      cases hsel' : selection s c (some n) tracks replace with
      | nil => exact absurd hsel' hsel
      | cons a b => simp
    simp only [hdone, Bool.not_true, Bool.false_eq_true, if_false, hups]
    refine ⟨(replaceTracks [] (selection s c (some n) tracks replace)).1, ?_,
      fun t => (mem_replaceTracks [] _ t).trans (mem_requestedTracks _ _ _)⟩
    simp


/-! ## Part F — non-vacuity, and the defects of the real code as facts about the model -/

def av : Req := [.audio, .video]

/-- the model of the code before the repairs f1 and f3 -/
def noFixes : Fixes := {}

/-- all queues of live clients are empty and no delayed push is outstanding -/
def Quiescent (s : State) : Prop := s.timers = [] ∧ busy s = none

instance (s : State) : Decidable (Quiescent s) := by unfold Quiescent; exact inferInstance

/-- publisher 0 offers stream 1 (label 1) with an audio and a video track; subscriber 1 asked for
audio+video by default; the delayed push fires; the subscriber's loop handles it -/
def scenarioOK : List Op :=
  [.join 0 7 100 true false, .join 1 7 101 false false, .request 1 [(0, av)], .deliver 0,
   .offer 0 1 1 0, .track 0 1 0 .audio, .track 0 1 1 .video, .fire, .fire, .fire, .deliver 1]

example : (run currentFixes (init 2) scenarioOK).2 =
    [.offer 1 1 1 0 100 0 [{ up := 0, k := 0, kind := .audio }, { up := 0, k := 1, kind := .video }]] := by decide
example : (run noFixes (init 2) scenarioOK).2 =
    [.offer 1 1 1 0 100 0 [{ up := 0, k := 0, kind := .audio }, { up := 0, k := 1, kind := .video }]] := by decide

/-- … then the publisher closes the stream and the subscriber's loop handles the close -/
example : (run currentFixes (init 2) (scenarioOK ++ [.close 0 1, .deliver 1])).2 =
    [.offer 1 1 1 0 100 0 [{ up := 0, k := 0, kind := .audio }, { up := 0, k := 1, kind := .video }], .close 1 1] := by
  decide

/-- "video-low" selects the last video track, "video" the first -/
example : (requestedTracks [.audio, .videoLow]
    [{ up := 0, k := 0, kind := .video }, { up := 0, k := 1, kind := .audio }, { up := 0, k := 2, kind := .video }]).1 =
    [{ up := 0, k := 1, kind := .audio }, { up := 0, k := 2, kind := .video }] := by decide
example : (requestedTracks [.video, .videoLow]
    [{ up := 0, k := 0, kind := .video }, { up := 0, k := 1, kind := .audio }, { up := 0, k := 2, kind := .video }]).1 =
    [{ up := 0, k := 0, kind := .video }] := by decide

/-- the hypotheses of `C07_isolation` are satisfiable with two groups: the member of group 8 gets nothing -/
example : (run currentFixes (init 3) [.join 0 7 100 true false, .join 1 7 101 false false, .join 2 8 102 false false,
    .request 1 [(0, av)], .request 2 [(0, av)], .deliver 0, .offer 0 1 1 0, .track 0 1 0 .audio, .fire, .fire,
    .deliver 1, .deliver 2]).2 = [.offer 1 1 1 0 100 0 [{ up := 0, k := 0, kind := .audio }]] := by decide

/-- **Defect 1 (lost push), repaired by f1.**  A member that joins and sends its request between a
publisher's offer and the arrival of the publisher's tracks: -/
def scenarioLost : List Op :=
  [.join 0 7 100 true false, .offer 0 1 1 0, .join 1 7 101 false false, .request 1 [(0, av)], .deliver 0, .deliver 1,
   .track 0 1 0 .audio, .track 0 1 1 .video, .fire, .fire, .fire]

/-- Before the repair (`f1 = false`) it is never offered the stream: the timer started by the offer carries
the member list of that moment, fires first and suppresses the timers started by `OnTrack`.  In the final
state nothing is pending, the stream is live in the member's group, its request selects both tracks, and
it holds no down connection; all it was ever sent is a `close`. -/
theorem lost_push :
    let r := run noFixes (init 2) scenarioLost
    Quiescent r.1 ∧ (r.1.ups 0).closed = false ∧ (r.1.ups 0).group = 7 ∧ (r.1.clients 1).group = some 7 ∧
    (requestedTracks (effReq (r.1.clients 1) (r.1.ups 0) 0) (r.1.ups 0).tracks).1.length = 2 ∧
    (r.1.clients 1).down.length = 0 ∧ r.2 = [.close 1 1] := by decide

/-- With `f1` the push goes to the members of the moment it happens: the same history ends with the
member holding the stream, offered with both tracks. -/
theorem lost_push_repaired :
    (run currentFixes (init 2) (scenarioLost ++ [.deliver 1])).2 =
      [.close 1 1, .offer 1 1 1 0 100 0 [{ up := 0, k := 0, kind := .audio }, { up := 0, k := 1, kind := .video }]] ∧
    ((run currentFixes (init 2) (scenarioLost ++ [.deliver 1])).1.clients 1).down.length = 1 := by decide

/-- **Defect 2 (stream id collision), NOT repaired.**  Publishers 0 and 1 both use stream id 1.  Subscriber 2,
which holds publisher 0's stream, is sent an offer that names publisher 0 (and its username 100) as the
source but carries the track of connection 1, which belongs to publisher 1: `C07_label_true` cannot hold
without a hypothesis on stream ids. -/
def scenarioCollision : List Op :=
  [.join 0 7 100 true false, .join 1 7 101 true false, .join 2 7 102 false false, .request 2 [(0, av)],
   .deliver 0, .deliver 1,
   .offer 0 1 1 0, .track 0 1 0 .audio, .fire, .fire, .deliver 1, .deliver 2, .answer 2 1,
   .offer 1 1 1 0, .track 1 1 0 .audio, .fire, .fire, .deliver 0, .deliver 2]

theorem collision_mislabels :
    let r := run currentFixes (init 3) scenarioCollision
    (r.1.ups 1).owner = 1 ∧
    Event.offer 2 1 1 0 100 0 [{ up := 1, k := 0, kind := .audio }] ∈ r.2 := by decide

/-- **Defect 3 (replace in a renegotiation), repaired by f3.**  An offer that renegotiates the existing
stream 2 and names stream 1 as `replace`: -/
def scenarioReneg : List Op :=
  [.join 0 7 100 true false, .join 1 7 101 false false, .request 1 [(0, av)], .deliver 0,
   .offer 0 1 1 0, .track 0 1 0 .audio, .offer 0 2 1 0, .track 0 2 0 .audio, .fire, .fire, .fire, .fire,
   .deliver 1, .deliver 1, .answer 1 1, .answer 1 2,
   .offer 0 2 1 1]

/-- Before the repair (`f3 = false`) stream 1 is deleted without any push: the state is quiescent, yet
subscriber 1 still holds a down connection whose up connection is closed — the quiescent-teardown
statement is false of the unrepaired model (and code). -/
theorem renegotiated_replace_keeps_dead_stream :
    let r := run noFixes (init 2) scenarioReneg
    Quiescent r.1 ∧ (r.1.clients 1).alive = true ∧
    ((r.1.clients 1).down.map (fun d => (d.id, (r.1.ups d.remote).closed))) = [(1, true), (2, false)] := by decide

/-- With `f3` the close is pushed at once: it waits in the subscriber's queue, and handling it removes the
dead stream. -/
theorem renegotiated_replace_repaired :
    ((run currentFixes (init 2) scenarioReneg).1.clients 1).queue.length = 1 ∧
    (run currentFixes (init 2) (scenarioReneg ++ [.deliver 1])).2.getLast? = some (.close 1 1) ∧
    (((run currentFixes (init 2) (scenarioReneg ++ [.deliver 1])).1.clients 1).down.map (fun d => d.id)) = [2] := by
  decide


/-! ### Part E, continued — teardown at quiescence -/

/-- a queued action that, when handled by a member of group `g`, deletes its down connection `x`: a close
of `x`, or any push that replaces `x` -/
def Deletes (g x : Nat) : Action → Prop
  | .pushConn g' id up _ r => g' = g ∧ ((id = x ∧ up = none) ∨ (r = x ∧ x ≠ 0))
  | _ => False

/-- such an action is waiting in the client's queue -/
def Queued (cl : Client) (x : Nat) : Prop := ∃ g a, cl.group = some g ∧ a ∈ cl.queue ∧ Deletes g x a

/-- stream `x` has been replaced by a connection `n2` of the client's group whose delayed push (which
carries `replace = x`) is still to come -/
def ReplPending (s : State) (c : Nat) (cl : Client) (x : Nat) : Prop :=
  x ≠ 0 ∧ ∃ n2, (s.ups n2).replace = x ∧ (s.ups n2).pushed = false ∧ (∃ t, t ∈ s.timers ∧ t.up = n2) ∧
    cl.group = some (s.ups n2).group ∧ (s.ups n2).owner ≠ c

/-- the promise made to the holder of a down connection whose up connection has been closed -/
def Promise (s : State) (c : Nat) (cl : Client) (x : Nat) : Prop := Queued cl x ∨ ReplPending s c cl x

/-- the second invariant: ownership of connections, and the promise that every down connection whose up
connection has been closed is about to be deleted and closed -/
structure TInv (F : Fixes) (s : State) : Prop where
  range : ∀ i g, (s.clients i).group = some g → i < s.n
  dead : ∀ i, (s.clients i).alive = false → (s.clients i).group = none
  up_own : ∀ c id n, (id, n) ∈ (s.clients c).up → (s.ups n).owner = c ∧ (s.ups n).id = id ∧ (s.ups n).closed = false
  down_id : ∀ c d, d ∈ (s.clients c).down → d.id = (s.ups d.remote).id ∧ (s.ups d.remote).owner ≠ c
  push_own : ∀ c g id n tr r, Action.pushConn g id (some n) tr r ∈ (s.clients c).queue →
    (s.ups n).owner ≠ c ∧ (s.ups n).id = id
  req_tgt : ∀ c g t id, Action.requestConns g t id ∈ (s.clients c).queue → t ≠ c
  timer_own : ∀ t, t ∈ s.timers → (s.ups t.up).owner ∉ t.cs
  norepl : (F.f1 && F.f3) = false → ∀ n, (s.ups n).replace = 0
  stale : ∀ c d, d ∈ (s.clients c).down → (s.ups d.remote).closed = true → Promise s c (s.clients c) d.id

theorem tinv_init (F : Fixes) (n : Nat) : TInv F (init n) := by
  refine ⟨?_, ?_, ?_, ?_, ?_, ?_, ?_, ?_, ?_⟩
  · intro i g h; simp [init] at h
  · intro i h; simp [init] at h
  · intro c id n h; simp [init] at h
  · intro c d h; simp [init] at h
  · intro c g id n tr r h; simp [init] at h
  · intro c g t id h; simp [init] at h
  · intro t h; simp [init] at h
  · intro _ n; simp [init]
  · intro c d h; simp [init] at h

/-- a promise survives any change that keeps the client's group, only adds to its queue, keeps the
relevant fields of the connections that have a timer, and keeps the timers -/
theorem Promise.mono {s s' : State} {c : Nat} {cl cl' : Client} {x : Nat}
    (hg : cl'.group = cl.group) (hq : ∀ a, a ∈ cl.queue → a ∈ cl'.queue)
    (hups : ∀ n, (∃ t, t ∈ s.timers ∧ t.up = n) → (s'.ups n).replace = (s.ups n).replace ∧
      ((s.ups n).pushed = false → (s'.ups n).pushed = false) ∧ (s'.ups n).group = (s.ups n).group ∧
      (s'.ups n).owner = (s.ups n).owner)
    (htim : ∀ t, t ∈ s.timers → t ∈ s'.timers) (h : Promise s c cl x) : Promise s' c cl' x := by
  rcases h with ⟨g, a, h1, h2, h3⟩ | ⟨hx, n2, h1, h2, ⟨t, ht, htu⟩, h4, h5⟩
  · exact .inl ⟨g, a, by rw [hg]; exact h1, hq a h2, h3⟩
  · obtain ⟨e1, e2, e3, e4⟩ := hups n2 ⟨t, ht, htu⟩
    exact .inr ⟨hx, n2, by rw [e1]; exact h1, e2 h2, ⟨t, htim t ht, htu⟩, by rw [hg, e3]; exact h4, by rw [e4]; exact h5⟩

/-- … in particular any change to the one client record that keeps the group and only adds to the queue -/
theorem Promise.mono_cl {s : State} {c : Nat} {cl cl' : Client} {x : Nat}
    (hg : cl'.group = cl.group) (hq : ∀ a, a ∈ cl.queue → a ∈ cl'.queue) (h : Promise s c cl x) :
    Promise s c cl' x :=
  h.mono hg hq (fun _ _ => ⟨rfl, fun h => h, rfl, rfl⟩) (fun _ h => h)

/-- what `put` needs to know about the action and its addressee -/
def PutOK (s : State) (c : Nat) : Action → Prop
  | .pushConn _ id (some n) _ _ => (s.ups n).owner ≠ c ∧ (s.ups n).id = id
  | .requestConns _ t _ => t ≠ c
  | _ => True

/-- changing the down connections and the queue of one client -/
theorem tinv_setClient {F : Fixes} {s : State} (ht : TInv F s) (c : Nat) (f : Client → Client)
    (hg : (f (s.clients c)).group = (s.clients c).group) (hal : (f (s.clients c)).alive = (s.clients c).alive)
    (hu : (f (s.clients c)).up = (s.clients c).up)
    (hq : ∀ a, a ∈ (f (s.clients c)).queue → a ∈ (s.clients c).queue ∨ PutOK s c a)
    (hd : ∀ d, d ∈ (f (s.clients c)).down →
      (d ∈ (s.clients c).down ∨ (d.id = (s.ups d.remote).id ∧ (s.ups d.remote).owner ≠ c)) ∧
      ((s.ups d.remote).closed = true → Promise s c (f (s.clients c)) d.id)) :
    TInv F (setClient s c f) := by
  refine ⟨?_, ?_, ?_, ?_, ?_, ?_, ?_, ?_, ?_⟩
  · intro i g h; apply ht.range i g; simp only [setClient] at h; split at h <;> simp_all
  · intro i h
    by_cases hic : i = c
    · subst hic; simp only [setClient, if_true] at h ⊢; rw [hg]; exact ht.dead _ (by rw [← hal]; exact h)
    · simp only [setClient, hic, if_false] at h ⊢; exact ht.dead _ h
  · intro i id n h; apply ht.up_own i id n; simp only [setClient] at h; split at h <;> simp_all
  · intro i d h
    simp only [setClient] at h
    split at h
    · rename_i hic; subst hic
      rcases (hd d h).1 with h' | h'
      · exact ht.down_id i d h'
      · exact h'
    · exact ht.down_id i d h
  · intro i g id n tr r h
    simp only [setClient] at h
    split at h
    · rename_i hic; subst hic
      rcases hq _ h with h' | h'
      · exact ht.push_own i g id n tr r h'
      · exact h'
    · exact ht.push_own i g id n tr r h
  · intro i g t id h
    simp only [setClient] at h
    split at h
    · rename_i hic; subst hic
      rcases hq _ h with h' | h'
      · exact ht.req_tgt i g t id h'
      · exact h'
    · exact ht.req_tgt i g t id h
  · exact ht.timer_own
  · exact ht.norepl
  · intro i d h hc
    by_cases hic : i = c
    · subst hic
      simp only [setClient, if_true] at h ⊢
      exact ((hd d h).2 hc).mono (by rfl) (fun _ h => h) (fun _ _ => ⟨rfl, fun h => h, rfl, rfl⟩) (fun _ h => h)
    · simp only [setClient, hic, if_false] at h ⊢
      exact (ht.stale i d h hc).mono (by rfl) (fun _ h => h) (fun _ _ => ⟨rfl, fun h => h, rfl, rfl⟩) (fun _ h => h)

theorem tinv_put {F : Fixes} {s : State} (ht : TInv F s) (c : Nat) (a : Action) (ha : PutOK s c a) :
    TInv F (put s c a) := by
  unfold put
  split
  · apply tinv_setClient ht c _ rfl rfl rfl
    · intro x hx
      simp only [List.mem_append, List.mem_singleton] at hx
      rcases hx with hx | hx
      · exact .inl hx
      · subst hx; exact .inr ha
    · intro d hd
      have hd0 : d ∈ (s.clients c).down := hd
      exact ⟨.inl hd, fun hc => (ht.stale c d hd0 hc).mono_cl (by rfl) (fun x hx => List.mem_append.mpr (.inl hx))⟩
  · exact ht

theorem tinv_delDown {F : Fixes} {s : State} (ht : TInv F s) (c r : Nat) : TInv F (delDown s c r) := by
  unfold delDown
  apply tinv_setClient ht c _ rfl rfl rfl (fun a h => .inl h)
  intro d hd
  have hd' := (List.mem_filter.mp hd).1
  exact ⟨.inl hd', fun hc => (ht.stale c d hd' hc).mono_cl (by rfl) (fun _ h => h)⟩

/-- storing a down connection that keeps the id and the remote of one already held, or a new one on a
connection that is not closed -/
theorem tinv_storeDown {F : Fixes} {s : State} (ht : TInv F s) (c : Nat) (d : Down)
    (hd : (∃ d0, d0 ∈ (s.clients c).down ∧ d0.id = d.id ∧ d0.remote = d.remote) ∨
          (d.id = (s.ups d.remote).id ∧ (s.ups d.remote).owner ≠ c ∧ (s.ups d.remote).closed = false)) :
    TInv F (storeDown s c d) := by
  unfold storeDown
  apply tinv_setClient ht c _ rfl rfl rfl (fun a h => .inl h)
  intro x hx
  simp only [List.mem_append, List.mem_filter, List.mem_singleton] at hx
  rcases hx with ⟨hx, _⟩ | hx
  · exact ⟨.inl hx, fun hc => (ht.stale c x hx hc).mono_cl (by rfl) (fun _ h => h)⟩
  · subst hx
    rcases hd with ⟨d0, h0, h1, h2⟩ | ⟨h1, h2, h3⟩
    · have := ht.down_id c d0 h0
      refine ⟨.inr ?_, fun hc => ?_⟩
      · rw [← h1, ← h2]; exact this
      · rw [← h2] at hc; rw [← h1]; exact (ht.stale c d0 h0 hc).mono_cl (by rfl) (fun _ h => h)
    · exact ⟨.inr ⟨h1, h2⟩, fun hc => by rw [h3] at hc; cases hc⟩

theorem tinv_deferredClose {F : Fixes} {s : State} (ht : TInv F s) (c r : Nat) : TInv F (deferredClose s c r).1 := by
  unfold deferredClose closeDown; split
  · exact tinv_delDown ht c r
  · exact ht

theorem tinv_afterReplace {F : Fixes} {s : State} (ht : TInv F s) (c r : Nat) : TInv F (afterReplace s c r) := by
  unfold afterReplace; split
  · exact tinv_delDown ht c r
  · exact ht

theorem tinv_closeBoth {F : Fixes} {s : State} (ht : TInv F s) (c id r : Nat) : TInv F (closeBoth s c id r).1 := by
  unfold closeBoth closeDown
  exact tinv_deferredClose (tinv_delDown ht c id) c r

theorem tinv_renegotiate {F : Fixes} {s : State} (ht : TInv F s) (c : Nat) (d : Down) (req : List Track) (r : Nat)
    (hd : d ∈ (s.clients c).down ∨
          (d.id = (s.ups d.remote).id ∧ (s.ups d.remote).owner ≠ c ∧ (s.ups d.remote).closed = false)) :
    TInv F (renegotiate s c d req r).1 := by
  unfold renegotiate
  simp only []
  have hd' : ∀ d' : Down, d'.id = d.id → d'.remote = d.remote →
      ((∃ d0, d0 ∈ (s.clients c).down ∧ d0.id = d'.id ∧ d0.remote = d'.remote) ∨
          (d'.id = (s.ups d'.remote).id ∧ (s.ups d'.remote).owner ≠ c ∧ (s.ups d'.remote).closed = false)) := by
    intro d' h1 h2
    rcases hd with h | h
    · left; exact ⟨d, h, h1.symm, h2.symm⟩
    · right; rw [h1, h2]; exact h
  split
  · exact tinv_deferredClose ht c r
  · split
    · exact tinv_storeDown ht c _ (hd' _ rfl rfl)
    · exact tinv_storeDown ht c _ (hd' _ rfl rfl)

theorem tinv_attach {F : Fixes} {s : State} (ht : TInv F s) (c n : Nat) (req : List Track) (r : Nat)
    (hn : (s.ups n).owner ≠ c) : TInv F (attach s c n req r).1 := by
  unfold attach
  simp only []
  split
  · exact tinv_deferredClose ht c r
  · split
    · rename_i d hd
      exact tinv_renegotiate ht c d req r (.inl (findDown_mem _ _ _ hd))
    · split
      · exact tinv_deferredClose ht c r
      · rename_i hcl
        exact tinv_renegotiate ht c _ req r (.inr ⟨rfl, hn, by simpa using hcl⟩)

theorem PutOK_onlyQueues {s s' : State} (h : OnlyQueues s s') {c : Nat} {a : Action} (ha : PutOK s c a) : PutOK s' c a := by
  cases a with
  | pushConn g id up tr r =>
    cases up with
    | none => trivial
    | some n => simp only [PutOK] at ha ⊢; rw [h.1]; exact ha
  | _ => exact ha

theorem tinv_putAll {F : Fixes} {s : State} (ht : TInv F s) (cs : List Nat) (a : Action) (ha : ∀ c ∈ cs, PutOK s c a) :
    TInv F (putAll s cs a) := by
  unfold putAll
  induction cs generalizing s with
  | nil => exact ht
  | cons c cs ih =>
    simp only [List.foldl_cons]
    apply ih (tinv_put ht c a (ha c (by simp)))
    intro c' hc'
    exact PutOK_onlyQueues (onlyQueues_put s c a) (ha c' (by simp [hc']))

theorem tinv_foldl_put {F : Fixes} {α : Type} {s : State} (ht : TInv F s) (l : List α) (tgt : Nat) (mk : State → α → Action)
    (h : ∀ s', OnlyQueues s s' → ∀ x ∈ l, PutOK s' tgt (mk s' x)) :
    TInv F (l.foldl (fun s x => put s tgt (mk s x)) s) := by
  induction l generalizing s with
  | nil => exact ht
  | cons a l ih =>
    simp only [List.foldl_cons]
    apply ih (tinv_put ht tgt _ (h s (OnlyQueues.refl s) a (by simp)))
    intro s' hs' x hx
    exact h s' ((onlyQueues_put s tgt _).trans hs') x (by simp [hx])


/-! #### `delUpConn`, characterised -/

theorem delUpConn_some (s : State) (c id n : Nat) (push : Bool) (hl : (s.clients c).up.lookup id = some n) :
    delUpConn s c id push =
      (let s2 := setUp (setClient s c fun cl => { cl with up := cl.up.filter (fun p => p.1 ≠ id) }) n
          (fun u => { u with closed := true })
       if push then
         match (s2.clients c).group with
         | some g => putAll s2 (members s2 g c) (.pushConn g id none [] (s.ups n).replace)
         | none => s2
       else s2) := by
  unfold delUpConn
  simp only [hl]
  rfl

theorem delUpConn_ups (s : State) (c id n : Nat) (push : Bool) (hl : (s.clients c).up.lookup id = some n) (m : Nat) :
    (delUpConn s c id push).ups m = { s.ups m with closed := (s.ups m).closed || decide (m = n) } := by
  rw [delUpConn_some s c id n push hl]
  simp only []
  have h2 : ∀ s2 : State, s2.ups = (setUp (setClient s c fun cl => { cl with up := cl.up.filter (fun p => p.1 ≠ id) }) n
      (fun u => { u with closed := true })).ups →
      s2.ups m = { s.ups m with closed := (s.ups m).closed || decide (m = n) } := by
    intro s2 h
    rw [h]
    simp only [setUp, setClient]
    split
    · rename_i h; subst h; simp
    · rename_i h; simp [h]
  split
  · split
    · exact h2 _ (onlyQueues_putAll _ _ _).1
    · exact h2 _ rfl
  · exact h2 _ rfl

theorem delUpConn_uplist (s : State) (c id n : Nat) (push : Bool) (hl : (s.clients c).up.lookup id = some n)
    (i : Nat) (x : Nat × Nat) (hx : x ∈ ((delUpConn s c id push).clients i).up) :
    x ∈ (s.clients i).up ∧ (i = c → x.1 ≠ id) := by
  rw [delUpConn_some s c id n push hl] at hx
  simp only [] at hx
  have h2 : ∀ s2 : State, (s2.clients i).up = ((setUp (setClient s c fun cl => { cl with up := cl.up.filter (fun p => p.1 ≠ id) }) n
      (fun u => { u with closed := true })).clients i).up → x ∈ (s2.clients i).up →
      x ∈ (s.clients i).up ∧ (i = c → x.1 ≠ id) := by
    intro s2 h hx
    rw [h] at hx
    simp only [setUp, setClient] at hx
    split at hx
    · rename_i h; subst h
      have := List.mem_filter.mp hx
      exact ⟨this.1, fun _ => by simpa using this.2⟩
    · rename_i h; exact ⟨hx, fun h' => absurd h' h⟩
  split at hx
  · split at hx
    · exact h2 _ ((onlyQueues_putAll _ _ _).up i) hx
    · exact h2 _ rfl hx
  · exact h2 _ rfl hx

theorem delUpConn_down (s : State) (c id : Nat) (push : Bool) (i : Nat) :
    ((delUpConn s c id push).clients i).down = (s.clients i).down := by
  cases hl : (s.clients c).up.lookup id with
  | none => unfold delUpConn; simp only [hl]
  | some n =>
    rw [delUpConn_some s c id n push hl]
    simp only []
    have h0 : ((setUp (setClient s c fun cl => { cl with up := cl.up.filter (fun p => p.1 ≠ id) }) n
        (fun u => { u with closed := true })).clients i).down = (s.clients i).down := by
      simp only [setUp, setClient]; split <;> simp_all
    split
    · split
      · rw [(onlyQueues_putAll _ _ _).down]; exact h0
      · exact h0
    · exact h0

theorem delUpConn_timers (s : State) (c id : Nat) (push : Bool) : (delUpConn s c id push).timers = s.timers := by
  cases hl : (s.clients c).up.lookup id with
  | none => unfold delUpConn; simp only [hl]
  | some n =>
    rw [delUpConn_some s c id n push hl]
    simp only []
    split
    · split
      · rw [(onlyQueues_putAll _ _ _).2.1]; rfl
      · rfl
    · rfl

theorem delUpConn_queue_sub (s : State) (c id n : Nat) (push : Bool) (hl : (s.clients c).up.lookup id = some n)
    (i : Nat) (a : Action) (ha : a ∈ ((delUpConn s c id push).clients i).queue) :
    a ∈ (s.clients i).queue ∨ ∃ g, a = .pushConn g id none [] (s.ups n).replace := by
  rw [delUpConn_some s c id n push hl] at ha
  simp only [] at ha
  have h0 : ∀ a, a ∈ ((setUp (setClient s c fun cl => { cl with up := cl.up.filter (fun p => p.1 ≠ id) }) n
      (fun u => { u with closed := true })).clients i).queue → a ∈ (s.clients i).queue := by
    intro a h; simp only [setUp, setClient] at h; split at h <;> simp_all
  split at ha
  · split at ha
    · rename_i g _
      rcases putAll_queue_sub _ _ _ _ _ ha with h | h
      · exact .inl (h0 _ h)
      · exact .inr ⟨g, h⟩
    · exact .inl (h0 _ ha)
  · exact .inl (h0 _ ha)

/-- the clauses of the invariant that do not depend on promises survive any `delUpConn` -/
theorem tinv_delUpConn_core {F : Fixes} {s : State} (ht : TInv F s) (c id n : Nat) (push : Bool)
    (hl : (s.clients c).up.lookup id = some n)
    (hst : ∀ i d, d ∈ (s.clients i).down → ((s.ups d.remote).closed = true ∨ d.remote = n) →
      Promise (delUpConn s c id push) i ((delUpConn s c id push).clients i) d.id) :
    TInv F (delUpConn s c id push) := by
  have hmem := lookup_mem _ _ _ hl
  obtain ⟨hown, hidn, _⟩ := ht.up_own c id n hmem
  have hfr := delUpConn_frame s c id push
  have hups := delUpConn_ups s c id n push hl
  refine ⟨?_, ?_, ?_, ?_, ?_, ?_, ?_, ?_, ?_⟩
  · intro i g h; rw [hfr.1]; rw [(hfr.2 i).1] at h; exact ht.range i g h
  · intro i h; rw [(hfr.2 i).1]; rw [(hfr.2 i).2] at h; exact ht.dead i h
  · intro i id' n' h
    obtain ⟨h1, h2⟩ := delUpConn_uplist s c id n push hl i _ h
    obtain ⟨a1, a2, a3⟩ := ht.up_own i id' n' h1
    rw [hups n']
    refine ⟨a1, a2, ?_⟩
    simp only [a3, Bool.false_or, decide_eq_false_iff_not]
    intro hnn
    subst hnn
    have hic : i = c := by rw [← a1, hown]
    exact h2 hic (by rw [← a2, hidn])
  · intro i d h
    rw [delUpConn_down] at h
    rw [hups d.remote]; exact ht.down_id i d h
  · intro i g id' n' tr r h
    rcases delUpConn_queue_sub s c id n push hl i _ h with h' | ⟨g', h'⟩
    · rw [hups n']; exact ht.push_own i g id' n' tr r h'
    · cases h'
  · intro i g t id' h
    rcases delUpConn_queue_sub s c id n push hl i _ h with h' | ⟨g', h'⟩
    · exact ht.req_tgt i g t id' h'
    · cases h'
  · intro t h
    rw [delUpConn_timers] at h
    rw [hups t.up]; exact ht.timer_own t h
  · intro hF m; rw [hups m]; exact ht.norepl hF m
  · intro i d h hc
    rw [delUpConn_down] at h
    rw [hups d.remote] at hc
    simp only [Bool.or_eq_true, decide_eq_true_eq] at hc
    exact hst i d h hc

/-- promises made earlier survive a `delUpConn` -/
theorem promise_delUpConn {s : State} (c id : Nat) (push : Bool) (i x : Nat)
    (h : Promise s i (s.clients i) x) :
    Promise (delUpConn s c id push) i ((delUpConn s c id push).clients i) x := by
  have hfr := delUpConn_frame s c id push
  apply h.mono (by rw [(hfr.2 i).1]) (fun a ha => delUpConn_queue_mono s c id i push a ha)
  · intro m _
    cases hl : (s.clients c).up.lookup id with
    | none => unfold delUpConn; simp only [hl]; exact ⟨trivial, fun h => h, trivial, trivial⟩
    | some n => rw [delUpConn_ups s c id n push hl m]; exact ⟨rfl, fun h => h, rfl, rfl⟩
  · intro t ht; rw [delUpConn_timers]; exact ht

/-- closing an up connection and telling the other members keeps the promise: exactly the members that
hold a down connection of the closed connection get the close -/
theorem tinv_delUpConn {F : Fixes} {s : State} (hi : Inv s) (ht : TInv F s) (c id : Nat) :
    TInv F (delUpConn s c id true) := by
  cases hl : (s.clients c).up.lookup id with
  | none => unfold delUpConn; simp only [hl]; exact ht
  | some n =>
    have hmem := lookup_mem _ _ _ hl
    obtain ⟨hown, hidn, _⟩ := ht.up_own c id n hmem
    obtain ⟨_, hgc⟩ := hi.up_ok c id n hmem
    have hfr := delUpConn_frame s c id true
    have hnot := C07_teardown_notify s c id n _ hl hgc
    apply tinv_delUpConn_core ht c id n true hl
    intro i d h hc
    by_cases hdn : d.remote = n
    · -- the connection that has just been closed
      obtain ⟨g, hg, hd⟩ := hi.down_ok i d h
      obtain ⟨hdid, hdown'⟩ := ht.down_id i d h
      rw [hdn] at hdid hdown'
      have hgg : g = (s.ups n).group := by rw [← hdn]; exact hd.2.1.symm
      have hic : i ≠ c := by rw [hown] at hdown'; exact fun h' => hdown' h'.symm
      have hali : (s.clients i).alive = true := by
        cases hal : (s.clients i).alive with
        | true => rfl
        | false => have := ht.dead i hal; rw [hg] at this; cases this
      have hmemb : i ∈ members s (s.ups n).group c := by
        unfold members
        apply List.mem_filter.mpr
        refine ⟨List.mem_range.mpr (ht.range i g hg), ?_⟩
        simp [hic, hg, hgg]
      refine .inl ⟨(s.ups n).group, _, by rw [(hfr.2 i).1, hg, hgg], hnot.2 i hmemb hali, ?_⟩
      exact ⟨rfl, .inl ⟨by rw [hdid, hidn], rfl⟩⟩
    · rcases hc with hc | hc
      · exact promise_delUpConn c id true i d.id (ht.stale i d h hc)
      · exact absurd hc hdn


/-- both invariants together -/
def Inv2 (F : Fixes) (s : State) : Prop := Inv s ∧ TInv F s

theorem inv2_foldl_delUpConn {F : Fixes} {s : State} (h : Inv2 F s) (c : Nat) (l : List (Nat × Nat)) :
    Inv2 F (l.foldl (fun s p => delUpConn s c p.1 true) s) := by
  induction l generalizing s with
  | nil => exact h
  | cons a l ih => exact ih ⟨inv_delUpConn h.1 c a.1 true, tinv_delUpConn h.1 h.2 c a.1⟩

/-- a client record that has left every group: it holds nothing, whatever is in its queue is harmless -/
theorem tinv_setClient_left {F : Fixes} {s : State} (ht : TInv F s) (c : Nat) (f : Client → Client)
    (hg : (f (s.clients c)).group = none)
    (hu : (f (s.clients c)).up = []) (hd : (f (s.clients c)).down = [])
    (hq : ∀ x, x ∈ (f (s.clients c)).queue → x ∈ (s.clients c).queue) : TInv F (setClient s c f) := by
  refine ⟨?_, ?_, ?_, ?_, ?_, ?_, ?_, ?_, ?_⟩
  · intro i g h
    by_cases hic : i = c
    · subst hic; simp only [setClient, if_true, hg] at h; cases h
    · simp only [setClient, hic, if_false] at h; exact ht.range i g h
  · intro i h
    by_cases hic : i = c
    · subst hic; simp only [setClient, if_true]; exact hg
    · simp only [setClient, hic, if_false] at h ⊢; exact ht.dead i h
  · intro i id n h
    by_cases hic : i = c
    · subst hic; simp only [setClient, if_true, hu] at h; cases h
    · simp only [setClient, hic, if_false] at h; exact ht.up_own i id n h
  · intro i d h
    by_cases hic : i = c
    · subst hic; simp only [setClient, if_true, hd] at h; cases h
    · simp only [setClient, hic, if_false] at h; exact ht.down_id i d h
  · intro i g id n tr r h
    by_cases hic : i = c
    · subst hic; simp only [setClient, if_true] at h; exact ht.push_own i g id n tr r (hq _ h)
    · simp only [setClient, hic, if_false] at h; exact ht.push_own i g id n tr r h
  · intro i g t id h
    by_cases hic : i = c
    · subst hic; simp only [setClient, if_true] at h; exact ht.req_tgt i g t id (hq _ h)
    · simp only [setClient, hic, if_false] at h; exact ht.req_tgt i g t id h
  · exact ht.timer_own
  · exact ht.norepl
  · intro i d h hc
    by_cases hic : i = c
    · subst hic; simp only [setClient, if_true, hd] at h; cases h
    · simp only [setClient, hic, if_false] at h ⊢
      exact (ht.stale i d h hc).mono (by rfl) (fun _ h => h) (fun _ _ => ⟨rfl, fun h => h, rfl, rfl⟩) (fun _ h => h)

theorem inv2_leaveGroup {F : Fixes} {s : State} (h : Inv2 F s) (c : Nat) : Inv2 F (leaveGroup s c) := by
  refine ⟨inv_leaveGroup h.1 c, ?_⟩
  unfold leaveGroup
  split
  · exact h.2
  · exact tinv_setClient_left (inv2_foldl_delUpConn h c _).2 c _ rfl rfl rfl (fun _ hx => hx)

theorem leaveGroup_group (s : State) (c : Nat) : ((leaveGroup s c).clients c).group = none := by
  unfold leaveGroup
  split
  · rename_i h; exact h
  · simp [setClient]

/-- a client in no group holds nothing -/
theorem empty_of_no_group {s : State} (hi : Inv s) (c : Nat) (hg : (s.clients c).group = none) :
    (s.clients c).up = [] ∧ (s.clients c).down = [] := by
  constructor
  · cases hh : (s.clients c).up with
    | nil => rfl
    | cons a l =>
      have := (hi.up_ok c a.1 a.2 (by rw [hh]; simp)).2
      rw [hg] at this; cases this
  · cases hh : (s.clients c).down with
    | nil => rfl
    | cons a l =>
      obtain ⟨g, h1, _⟩ := hi.down_ok c a (by rw [hh]; simp)
      rw [hg] at h1; cases h1

theorem inv2_die {F : Fixes} {s : State} (h : Inv2 F s) (c : Nat) : Inv2 F (die s c).1 := by
  refine ⟨inv_die h.1 c, ?_⟩
  unfold die
  have h2 := inv2_leaveGroup h c
  have hg := leaveGroup_group s c
  obtain ⟨hup, hdn⟩ := empty_of_no_group h2.1 c hg
  exact tinv_setClient_left h2.2 c (fun cl => { cl with alive := false, queue := [] }) hg hup hdn (fun x hx => by cases hx)

theorem inv2_join {F : Fixes} {s : State} (h : Inv2 F s) (c g user : Nat) (present op' : Bool)
    (hnone : (s.clients c).group = none) (hal : (s.clients c).alive = true) (hc : c < s.n) :
    Inv2 F (setClient s c (fun cl => { cl with group := some g, user := user, present := present, op := op' })) := by
  refine ⟨inv_join h.1 c _ hnone rfl rfl rfl, ?_⟩
  obtain ⟨hup, hdn⟩ := empty_of_no_group h.1 c hnone
  have ht := h.2
  refine ⟨?_, ?_, ?_, ?_, ?_, ?_, ?_, ?_, ?_⟩
  · intro i g' hh
    by_cases hic : i = c
    · subst hic; exact hc
    · simp only [setClient, hic, if_false] at hh; exact ht.range i g' hh
  · intro i hh
    by_cases hic : i = c
    · subst hic; simp only [setClient, if_true] at hh; rw [hal] at hh; cases hh
    · simp only [setClient, hic, if_false] at hh ⊢; exact ht.dead i hh
  · intro i id n hh
    by_cases hic : i = c
    · subst hic; simp only [setClient, if_true, hup] at hh; cases hh
    · simp only [setClient, hic, if_false] at hh; exact ht.up_own i id n hh
  · intro i d hh
    by_cases hic : i = c
    · subst hic; simp only [setClient, if_true, hdn] at hh; cases hh
    · simp only [setClient, hic, if_false] at hh; exact ht.down_id i d hh
  · intro i g' id n tr r hh
    by_cases hic : i = c
    · subst hic; simp only [setClient, if_true] at hh; exact ht.push_own i g' id n tr r hh
    · simp only [setClient, hic, if_false] at hh; exact ht.push_own i g' id n tr r hh
  · intro i g' t id hh
    by_cases hic : i = c
    · subst hic; simp only [setClient, if_true] at hh; exact ht.req_tgt i g' t id hh
    · simp only [setClient, hic, if_false] at hh; exact ht.req_tgt i g' t id hh
  · exact ht.timer_own
  · exact ht.norepl
  · intro i d hh hcl
    by_cases hic : i = c
    · subst hic; simp only [setClient, if_true, hdn] at hh; cases hh
    · simp only [setClient, hic, if_false] at hh ⊢
      exact (ht.stale i d hh hcl).mono (by rfl) (fun _ h => h) (fun _ _ => ⟨rfl, fun h => h, rfl, rfl⟩) (fun _ h => h)

/-- more timers -/
theorem tinv_timers_add {F : Fixes} {s : State} (ht : TInv F s) (t : Timer) (h : (s.ups t.up).owner ∉ t.cs) :
    TInv F { s with timers := s.timers ++ [t] } := by
  refine ⟨ht.range, ht.dead, ht.up_own, ht.down_id, ht.push_own, ht.req_tgt, ?_, ht.norepl, ?_⟩
  · intro t' hh
    simp only [List.mem_append, List.mem_singleton] at hh
    rcases hh with h' | h'
    · exact ht.timer_own t' h'
    · subst h'; exact h
  · intro c d hd hc
    exact Promise.mono (s := s) (by rfl) (fun _ h => h) (fun _ _ => ⟨rfl, fun h => h, rfl, rfl⟩)
      (fun _ h => List.mem_append.mpr (.inl h)) (ht.stale c d hd hc)

/-- changing fields of a connection object that no clause of the invariant reads (a `pushed` flag may be
cleared) -/
theorem tinv_setUp {F : Fixes} {s : State} (ht : TInv F s) (n : Nat) (f : UpObj → UpObj)
    (h1 : (f (s.ups n)).owner = (s.ups n).owner) (h2 : (f (s.ups n)).id = (s.ups n).id)
    (h3 : (f (s.ups n)).closed = (s.ups n).closed) (h4 : (f (s.ups n)).replace = (s.ups n).replace)
    (h5 : (f (s.ups n)).group = (s.ups n).group) (h6 : (s.ups n).pushed = false → (f (s.ups n)).pushed = false) :
    TInv F (setUp s n f) := by
  have hups : ∀ m, ((setUp s n f).ups m).owner = (s.ups m).owner ∧ ((setUp s n f).ups m).id = (s.ups m).id ∧
      ((setUp s n f).ups m).closed = (s.ups m).closed ∧ ((setUp s n f).ups m).replace = (s.ups m).replace ∧
      ((setUp s n f).ups m).group = (s.ups m).group ∧ ((s.ups m).pushed = false → ((setUp s n f).ups m).pushed = false) := by
    intro m; simp only [setUp]; split
    · rename_i h; subst h; exact ⟨h1, h2, h3, h4, h5, h6⟩
    · exact ⟨rfl, rfl, rfl, rfl, rfl, fun h => h⟩
  refine ⟨ht.range, ht.dead, ?_, ?_, ?_, ht.req_tgt, ?_, ?_, ?_⟩
  · intro c id m h; rw [(hups m).1, (hups m).2.1, (hups m).2.2.1]; exact ht.up_own c id m h
  · intro c d h; rw [(hups _).1, (hups _).2.1]; exact ht.down_id c d h
  · intro c g id m tr r h; rw [(hups m).1, (hups m).2.1]; exact ht.push_own c g id m tr r h
  · intro t h; rw [(hups _).1]; exact ht.timer_own t h
  · intro hF m; rw [(hups m).2.2.2.1]; exact ht.norepl hF m
  · intro c d h hc
    rw [(hups _).2.2.1] at hc
    exact (ht.stale c d h hc).mono (by rfl) (fun _ h => h)
      (fun m _ => ⟨(hups m).2.2.2.1, (hups m).2.2.2.2.2, (hups m).2.2.2.2.1, (hups m).1⟩) (fun _ h => h)

theorem inv2_newUp {F : Fixes} {s : State} (h : Inv2 F s) (c id label g : Nat) (hg : (s.clients c).group = some g) :
    Inv2 F (newUp s c id label g).1 := by
  refine ⟨inv_newUp h.1 c id label g hg, ?_⟩
  obtain ⟨hi, ht⟩ := h
  unfold newUp
  simp only []
  refine ⟨?_, ?_, ?_, ?_, ?_, ?_, ?_, ?_, ?_⟩
  · intro i g' hh
    apply ht.range i g'
    simp only [setClient, setUp] at hh; split at hh <;> simp_all
  · intro i hh
    simp only [setClient, setUp] at hh ⊢
    split at hh
    · rename_i hic; subst hic; simp only [if_true]; exact ht.dead _ hh
    · rename_i hic; simp only [hic, if_false]; exact ht.dead _ hh
  · intro i id' n' hh
    simp only [setClient, setUp] at hh
    split at hh
    · rename_i hic; subst hic
      simp only [List.mem_append, List.mem_singleton] at hh
      rcases hh with hh | hh
      · have hlt := (hi.up_ok i id' n' hh).1
        simp only [setClient, setUp, Nat.ne_of_lt hlt, if_false]
        exact ht.up_own i id' n' hh
      · injection hh with e1 e2; subst e1 e2
        simp [setClient, setUp]
    · have hlt := (hi.up_ok i id' n' hh).1
      simp only [setClient, setUp, Nat.ne_of_lt hlt, if_false]
      exact ht.up_own i id' n' hh
  · intro i d hh
    have hd : d ∈ (s.clients i).down := by simp only [setClient, setUp] at hh; split at hh <;> simp_all
    obtain ⟨g', _, hdo⟩ := hi.down_ok i d hd
    simp only [setClient, setUp, Nat.ne_of_lt hdo.1, if_false]
    exact ht.down_id i d hd
  · intro i g' id' n' tr r hh
    have hq : Action.pushConn g' id' (some n') tr r ∈ (s.clients i).queue := by
      simp only [setClient, setUp] at hh; split at hh <;> simp_all
    have hlt := (hi.queue_ok i _ hq).1
    simp only [setClient, setUp, Nat.ne_of_lt hlt, if_false]
    exact ht.push_own i g' id' n' tr r hq
  · intro i g' t id' hh
    apply ht.req_tgt i g' t id'
    simp only [setClient, setUp] at hh; split at hh <;> simp_all
  · intro t hh
    simp only [setClient, setUp, List.mem_append, List.mem_singleton] at hh
    rcases hh with hh | hh
    · have hlt := (hi.timer_ok t hh).1
      simp only [setClient, setUp, Nat.ne_of_lt hlt, if_false]
      exact ht.timer_own t hh
    · subst hh
      simp only [setClient, setUp, if_true]
      intro hmem
      exact members_ne _ _ _ _ hmem rfl
  · intro hF m
    simp only [setClient, setUp]
    split
    · rfl
    · exact ht.norepl hF m
  · intro i d hh hc
    have hd : d ∈ (s.clients i).down := by simp only [setClient, setUp] at hh; split at hh <;> simp_all
    obtain ⟨g', _, hdo⟩ := hi.down_ok i d hd
    simp only [setClient, setUp, Nat.ne_of_lt hdo.1, if_false] at hc
    apply (ht.stale i d hd hc).mono
    · simp only [setClient, setUp]; split <;> simp_all
    · intro a ha; simp only [setClient, setUp]; split <;> simp_all
    · intro m ⟨t, htm, htu⟩
      have hlt := (hi.timer_ok t htm).1
      rw [htu] at hlt
      simp only [setClient, setUp, Nat.ne_of_lt hlt, if_false]
      exact ⟨trivial, fun h => h, trivial, trivial⟩
    · intro t htm
      simp only [setClient, setUp, List.mem_append]
      exact .inl htm


/-- setting `replace` on a connection that replaces nothing yet (both repairs in force) -/
theorem tinv_setUp_replace {F : Fixes} {s : State} (ht : TInv F s) (n r : Nat) (hF : (F.f1 && F.f3) = true)
    (h0 : (s.ups n).replace = 0) : TInv F (setUp s n (fun u => { u with replace := r })) := by
  have hups : ∀ m, ((setUp s n (fun u => { u with replace := r })).ups m).owner = (s.ups m).owner ∧
      ((setUp s n (fun u => { u with replace := r })).ups m).id = (s.ups m).id ∧
      ((setUp s n (fun u => { u with replace := r })).ups m).closed = (s.ups m).closed ∧
      ((setUp s n (fun u => { u with replace := r })).ups m).group = (s.ups m).group ∧
      ((setUp s n (fun u => { u with replace := r })).ups m).pushed = (s.ups m).pushed ∧
      (m ≠ n → ((setUp s n (fun u => { u with replace := r })).ups m).replace = (s.ups m).replace) := by
    intro m; simp only [setUp]; split
    · rename_i h; subst h; exact ⟨rfl, rfl, rfl, rfl, rfl, fun h => absurd rfl h⟩
    · exact ⟨rfl, rfl, rfl, rfl, rfl, fun _ => rfl⟩
  refine ⟨ht.range, ht.dead, ?_, ?_, ?_, ht.req_tgt, ?_, ?_, ?_⟩
  · intro c id m h; rw [(hups m).1, (hups m).2.1, (hups m).2.2.1]; exact ht.up_own c id m h
  · intro c d h; rw [(hups _).1, (hups _).2.1]; exact ht.down_id c d h
  · intro c g id m tr r' h; rw [(hups m).1, (hups m).2.1]; exact ht.push_own c g id m tr r' h
  · intro t h; rw [(hups _).1]; exact ht.timer_own t h
  · intro hF'; rw [hF] at hF'; cases hF'
  · intro c d h hc
    rw [(hups _).2.2.1] at hc
    rcases ht.stale c d h hc with hq | ⟨hx, n2, a1, a2, a3, a4, a5⟩
    · exact .inl hq
    · have hne : n2 ≠ n := by intro e; rw [e, h0] at a1; exact hx a1.symm
      exact .inr ⟨hx, n2, by rw [(hups n2).2.2.2.2.2 hne]; exact a1, by rw [(hups n2).2.2.2.2.1]; exact a2, a3,
        by rw [(hups n2).2.2.2.1]; exact a4, by rw [(hups n2).1]; exact a5⟩

/-- the stream named by `replace` in the offer of a NEW connection `m` is closed without a push: its close
travels with the delayed push of `m`, which is pending -/
theorem tinv_delUpConn_false {F : Fixes} {s : State} (hi : Inv s) (ht : TInv F s) (c r m : Nat)
    (hr : r ≠ 0) (h1 : (s.ups m).replace = r) (h2 : (s.ups m).pushed = false)
    (h3 : ∃ t, t ∈ s.timers ∧ t.up = m) (h4 : (s.ups m).owner = c)
    (h5 : (s.clients c).group = some (s.ups m).group) : TInv F (delUpConn s c r false) := by
  cases hl : (s.clients c).up.lookup r with
  | none => unfold delUpConn; simp only [hl]; exact ht
  | some n =>
    have hmem := lookup_mem _ _ _ hl
    obtain ⟨hown, hidn, _⟩ := ht.up_own c r n hmem
    obtain ⟨_, hgc⟩ := hi.up_ok c r n hmem
    have hfr := delUpConn_frame s c r false
    apply tinv_delUpConn_core ht c r n false hl
    intro i d h hc
    by_cases hdn : d.remote = n
    · obtain ⟨g, hg, hd⟩ := hi.down_ok i d h
      obtain ⟨hdid, hdown'⟩ := ht.down_id i d h
      rw [hdn] at hdid hdown'
      have hgg : g = (s.ups n).group := by rw [← hdn]; exact hd.2.1.symm
      have hgm : (s.ups n).group = (s.ups m).group := by
        rw [hgc] at h5; injection h5
      refine .inr ⟨by rw [hdid, hidn]; exact hr, m, ?_, ?_, ?_, ?_, ?_⟩
      · rw [delUpConn_ups s c r n false hl m]; simp only []; rw [h1, hdid, hidn]
      · rw [delUpConn_ups s c r n false hl m]; exact h2
      · rw [delUpConn_timers]; exact h3
      · rw [(hfr.2 i).1, delUpConn_ups s c r n false hl m, hg, hgg, hgm]
      · rw [delUpConn_ups s c r n false hl m]; simp only []; rw [h4, ← hown]; exact hdown'
    · rcases hc with hc | hc
      · exact promise_delUpConn c r false i d.id (ht.stale i d h hc)
      · exact absurd hc hdn

theorem newUp_facts (s : State) (c id label g : Nat) :
    (newUp s c id label g).2 = s.nUps ∧
    ((newUp s c id label g).1.ups s.nUps).replace = 0 ∧ ((newUp s c id label g).1.ups s.nUps).pushed = false ∧
    ((newUp s c id label g).1.ups s.nUps).owner = c ∧ ((newUp s c id label g).1.ups s.nUps).group = g ∧
    (∃ t, t ∈ (newUp s c id label g).1.timers ∧ t.up = s.nUps) ∧
    ((newUp s c id label g).1.clients c).group = (s.clients c).group := by
  unfold newUp
  simp only [setUp, setClient, if_true]
  exact ⟨trivial, trivial, trivial, trivial, trivial, ⟨_, List.mem_append.mpr (.inr (List.mem_singleton.mpr rfl)), rfl⟩, trivial⟩

theorem inv2_offerUp {F : Fixes} {s : State} (h : Inv2 F s) (c id label r g : Nat) (hg : (s.clients c).group = some g)
    (hr : r = 0 ∨ (F.f1 = true ∧ F.f3 = true)) : Inv2 F (offerUp F s c id label r g) := by
  refine ⟨inv_offerUp F h.1 c id label r g hg, ?_⟩
  unfold offerUp
  simp only []
  have hget : Inv2 F (getUp s c id label g).1 := by
    unfold getUp
    split
    · exact h
    · exact inv2_newUp h c id label g hg
  split
  · rename_i hr0
    have hF : F.f1 = true ∧ F.f3 = true := by
      rcases hr with hr | hr
      · exact absurd hr hr0
      · exact hr
    split
    · exact tinv_delUpConn hget.1 hget.2 c r
    · rename_i hex
      -- not a renegotiation: the connection is new
      have hnone : (s.clients c).up.lookup id = none := by
        simp only [hF.2, Bool.true_and, Bool.not_eq_true, Option.isSome_eq_false_iff, Option.isNone_iff_eq_none] at hex
        exact hex
      have hgu : getUp s c id label g = newUp s c id label g := by unfold getUp; simp only [hnone]
      rw [hgu]
      obtain ⟨e1, e2, e3, e4, e5, e6, e7⟩ := newUp_facts s c id label g
      rw [e1]
      have hn2 := inv2_newUp h c id label g hg
      have hs2i : Inv (setUp (newUp s c id label g).1 s.nUps (fun u => { u with replace := r })) :=
        inv_setUp hn2.1 _ _ rfl (fun t h => .inl h)
      have hs2 := tinv_setUp_replace hn2.2 s.nUps r (by simp [hF.1, hF.2]) e2
      apply tinv_delUpConn_false hs2i hs2 c r s.nUps hr0
      · simp [setUp]
      · simp only [setUp, if_true]; exact e3
      · exact e6
      · simp only [setUp, if_true]; exact e4
      · simp only [setUp, if_true]
        show ((newUp s c id label g).1.clients c).group = _
        rw [e7, hg, e5]
  · exact hget.2

theorem inv2_offerOp {F : Fixes} {s : State} (h : Inv2 F s) (c id label r : Nat)
    (hr : r = 0 ∨ (F.f1 = true ∧ F.f3 = true)) : Inv2 F (offerOp F s c id label r).1 := by
  refine ⟨inv_offerOp F h.1 c id label r, ?_⟩
  unfold offerOp
  simp only []
  split
  · exact (inv2_die h c).2
  · split
    · simp only []
      split
      · exact tinv_delUpConn h.1 h.2 c r
      · exact h.2
    · split
      · exact h.2
      · rename_i g hg
        split
        · exact h.2
        · unfold gotOffer
          simp only []
          split <;> exact (inv2_offerUp h c id label r g hg hr).2

theorem inv2_answerOp {F : Fixes} {s : State} (h : Inv2 F s) (c id : Nat) : Inv2 F (answerOp s c id).1 := by
  refine ⟨inv_answerOp h.1 c id, ?_⟩
  unfold answerOp
  split
  · exact tinv_delDown h.2 c id
  · rename_i d hd
    have hm := findDown_mem _ _ _ hd
    split
    · exact tinv_delDown h.2 c id
    · split
      · exact tinv_storeDown h.2 c _ (.inl ⟨d, hm, rfl, rfl⟩)
      · exact tinv_storeDown h.2 c _ (.inl ⟨d, hm, rfl, rfl⟩)


/-- taking the head action off the queue keeps the invariant if no promise rests on it -/
theorem tinv_dequeued {F : Fixes} {s : State} (ht : TInv F s) (c : Nat) (a : Action) (rest : List Action)
    (hq : (s.clients c).queue = a :: rest)
    (hw : ∀ d, d ∈ (s.clients c).down → (s.ups d.remote).closed = true →
      ∀ g, (s.clients c).group = some g → ¬ Deletes g d.id a) :
    TInv F (dequeued s c rest) := by
  unfold dequeued
  apply tinv_setClient ht c _ rfl rfl rfl (fun x hx => .inl (by rw [hq]; exact List.mem_cons_of_mem _ hx))
  intro d hd
  refine ⟨.inl hd, fun hc => ?_⟩
  have hd0 : d ∈ (s.clients c).down := hd
  rcases ht.stale c d hd0 hc with ⟨g, a', h1, h2, h3⟩ | hp
  · refine .inl ⟨g, a', h1, ?_, h3⟩
    rw [hq] at h2
    rcases List.mem_cons.mp h2 with h | h
    · subst h; exact absurd h3 (hw d hd0 hc g h1)
    · exact h
  · exact .inr hp

theorem delDown_dequeued (s : State) (c id : Nat) (rest : List Action) :
    delDown (dequeued s c rest) c id = dequeued (delDown s c id) c rest := by
  unfold delDown dequeued setClient
  congr 1
  funext i
  split <;> simp_all

theorem afterReplace_dequeued (s : State) (c r : Nat) (rest : List Action) :
    afterReplace (dequeued s c rest) c r = dequeued (afterReplace s c r) c rest := by
  unfold afterReplace
  split
  · exact delDown_dequeued s c r rest
  · rfl

theorem not_mem_delDown (s : State) (c id : Nat) (d : Down) (hd : d ∈ ((delDown s c id).clients c).down) : d.id ≠ id := by
  simp only [delDown, setClient, if_true] at hd
  simpa using (List.mem_filter.mp hd).2

theorem inv2_handlePush {F : Fixes} {s : State} (h : Inv2 F s) (c g id : Nat) (up : Option Nat) (tracks : List Track) (r : Nat)
    (rest : List Action) (hq : (s.clients c).queue = .pushConn g id up tracks r :: rest) :
    Inv2 F (handlePush (dequeued s c rest) c g id up tracks r).1 := by
  have hact : ActOK s (.pushConn g id up tracks r) := h.1.queue_ok c _ (by rw [hq]; simp)
  have hi' := inv_dequeued h.1 c _ rest hq
  refine ⟨by
    have := inv_handleAction hi' c (.pushConn g id up tracks r) (hact.mono (UpsStable.of_eq rfl rfl))
    simpa [handleAction] using this, ?_⟩
  unfold handlePush
  split
  · -- wrong group: the action is dropped; no promise rested on it
    rename_i hg
    apply tinv_dequeued h.2 c _ rest hq
    intro d hd hc g' hg' hdel
    exact hg (by rw [dequeued_group, hg', hdel.1])
  · rename_i hg
    have hg' : (s.clients c).group = some g := by simpa using hg
    -- the state after the deletion of the replaced connection, with the action still queued
    have har : TInv F (afterReplace s c r) := tinv_afterReplace h.2 c r
    have hqr : ((afterReplace s c r).clients c).queue = .pushConn g id up tracks r :: rest := by
      unfold afterReplace delDown setClient; split <;> simp [hq]
    have hnor : ∀ d, d ∈ ((afterReplace s c r).clients c).down → r ≠ 0 → d.id ≠ r := by
      intro d hd hr
      unfold afterReplace at hd
      simp only [hr, ne_eq, not_false_eq_true, if_true] at hd
      exact not_mem_delDown s c r d hd
    have hpd : TInv F (pushDownConn (dequeued s c rest) c id up tracks r).1 := by
      unfold pushDownConn
      simp only []
      rw [afterReplace_dequeued]
      cases up with
      | some n =>
        have hdq : TInv F (dequeued (afterReplace s c r) c rest) := by
          apply tinv_dequeued har c _ rest hqr
          intro d hd hc g' _ hdel
          rcases hdel.2 with ⟨_, h2⟩ | ⟨h1, h2⟩
          · cases h2
          · exact hnor d hd (by rw [h1]; exact h2) h1.symm
        have hown : ((dequeued (afterReplace s c r) c rest).ups n).owner ≠ c := by
          simp only [dequeued_ups, afterReplace_ups]
          exact (h.2.push_own c g id n tracks r (by rw [hq]; simp)).1
        simp only []
        split
        · exact tinv_closeBoth hdq c id r
        · exact tinv_attach hdq c n _ r hown
      | none =>
        -- a close: the down connection it promises to delete is deleted
        simp only []
        unfold closeBoth closeDown
        simp only []
        apply tinv_deferredClose
        rw [delDown_dequeued]
        have hq' : ((delDown (afterReplace s c r) c id).clients c).queue = .pushConn g id none tracks r :: rest := by
          simp [delDown, setClient, hqr]
        apply tinv_dequeued (tinv_delDown har c id) c _ rest hq'
        intro d hd hc g' _ hdel
        rcases hdel.2 with ⟨h1, _⟩ | ⟨h1, h2⟩
        · exact not_mem_delDown _ c id d hd h1.symm
        · have hd' : d ∈ ((afterReplace s c r).clients c).down := by
            simp only [delDown, setClient, if_true] at hd
            exact (List.mem_filter.mp hd).1
          exact hnor d hd' (by rw [h1]; exact h2) h1.symm
    simp only []
    split
    · exact (inv2_die ⟨by
        have := inv_pushDownConn hi' c g id up tracks r (by rw [dequeued_group]; exact hg')
          (hact.mono (UpsStable.of_eq rfl rfl))
        exact this, hpd⟩ c).2
    · exact hpd

theorem inv2_deliver {F : Fixes} {s : State} (h : Inv2 F s) (c : Nat) : Inv2 F (deliver s c).1 := by
  refine ⟨inv_deliver h.1 c, ?_⟩
  unfold deliver
  split
  · exact h.2
  · split
    · exact h.2
    · rename_i a rest hq
      have hi' := inv_dequeued h.1 c a rest hq
      cases a with
      | pushConn g id up tracks r => exact (inv2_handlePush h c g id up tracks r rest hq).2
      | requestConns g target id =>
        have hdq : TInv F (dequeued s c rest) := by
          apply tinv_dequeued h.2 c _ rest hq
          intro d hd hc g' _ hdel; exact hdel
        simp only [handleAction, handleRequestConns]
        split
        · exact hdq
        · apply tinv_foldl_put (α := Nat × Nat) hdq _ target
            (fun s p => .pushConn g p.1 (some p.2) (s.ups p.2).tracks (s.ups p.2).replace)
          intro s' hs' p hp
          have hp' : p ∈ (s.clients c).up := by simpa [setClient] using (List.mem_filter.mp hp).1
          obtain ⟨a1, a2, _⟩ := h.2.up_own c p.1 p.2 hp'
          have ht := h.2.req_tgt c g target id (by rw [hq]; simp)
          simp only [PutOK]
          rw [hs'.1, dequeued_ups, a1, a2]
          exact ⟨fun e => ht e.symm, rfl⟩
      | kick =>
        have hdq : TInv F (dequeued s c rest) := by
          apply tinv_dequeued h.2 c _ rest hq
          intro d hd hc g' _ hdel; exact hdel
        exact (inv2_die ⟨hi', hdq⟩ c).2
      | changePerm b =>
        have hdq : TInv F (dequeued s c rest) := by
          apply tinv_dequeued h.2 c _ rest hq
          intro d hd hc g' _ hdel; exact hdel
        simp only [handleAction]
        have h1 : TInv F (setClient (dequeued s c rest) c (fun cl => { cl with present := b })) :=
          tinv_setClient hdq c _ rfl rfl rfl (fun x hx => .inl hx)
            (fun d hd => ⟨.inl hd, fun hc => (hdq.stale c d hd hc).mono_cl (by rfl) (fun _ h => h)⟩)
        exact tinv_put h1 c .permsChanged trivial
      | permsChanged =>
        have hdq : TInv F (dequeued s c rest) := by
          apply tinv_dequeued h.2 c _ rest hq
          intro d hd hc g' _ hdel; exact hdel
        simp only [handleAction, handlePermsChanged]
        split
        · exact (inv2_die ⟨hi', hdq⟩ c).2
        · split
          · exact hdq
          · exact (inv2_foldl_delUpConn ⟨hi', hdq⟩ c _).2


/-- the end of a timer: it leaves the list, and the fields `pushed`/`replace` of its connection may change,
provided every promise that rested on that connection's delayed push has been kept -/
theorem tinv_fire_tail {F : Fixes} {s s' : State} (ht : TInv F s) (t : Timer) (rest : List Timer)
    (htm : s.timers = t :: rest) (hc : s'.clients = s.clients) (hn : s'.n = s.n) (htm' : s'.timers = rest)
    (hups : ∀ m, (s'.ups m).owner = (s.ups m).owner ∧ (s'.ups m).id = (s.ups m).id ∧
      (s'.ups m).closed = (s.ups m).closed ∧ (s'.ups m).group = (s.ups m).group ∧
      (m ≠ t.up → (s'.ups m).replace = (s.ups m).replace ∧ (s'.ups m).pushed = (s.ups m).pushed))
    (hnr : (F.f1 && F.f3) = false → (s'.ups t.up).replace = 0)
    (hpr : ∀ c x, x ≠ 0 → (s.ups t.up).replace = x → (s.ups t.up).pushed = false →
      (s.clients c).group = some (s.ups t.up).group → (s.ups t.up).owner ≠ c → Queued (s.clients c) x) :
    TInv F s' := by
  refine ⟨?_, ?_, ?_, ?_, ?_, ?_, ?_, ?_, ?_⟩
  · intro i g h; rw [hn]; rw [hc] at h; exact ht.range i g h
  · intro i h; rw [hc] at h ⊢; exact ht.dead i h
  · intro c id m h; rw [hc] at h; rw [(hups m).1, (hups m).2.1, (hups m).2.2.1]; exact ht.up_own c id m h
  · intro c d h; rw [hc] at h; rw [(hups _).1, (hups _).2.1]; exact ht.down_id c d h
  · intro c g id m tr r h; rw [hc] at h; rw [(hups m).1, (hups m).2.1]; exact ht.push_own c g id m tr r h
  · intro c g t' id h; rw [hc] at h; exact ht.req_tgt c g t' id h
  · intro t' h
    rw [htm'] at h
    rw [(hups _).1]; exact ht.timer_own t' (by rw [htm]; exact List.mem_cons_of_mem _ h)
  · intro hF m
    by_cases hm : m = t.up
    · rw [hm]; exact hnr hF
    · rw [((hups m).2.2.2.2 hm).1]; exact ht.norepl hF m
  · intro c d h hcl
    rw [hc] at h ⊢
    rw [(hups _).2.2.1] at hcl
    rcases ht.stale c d h hcl with hq | hp
    · exact .inl hq
    · obtain ⟨hx, n2, a1, a2, ⟨t', ht', htu⟩, a4, a5⟩ := hp
      by_cases hn2 : n2 = t.up
      · rw [hn2] at a1 a2 a4 a5
        exact .inl (hpr c d.id hx a1 a2 a4 a5)
      · have hne : t' ≠ t := fun e => hn2 (by rw [← htu, e])
        have hrest : t' ∈ rest := by
          rw [htm] at ht'
          rcases List.mem_cons.mp ht' with e | e
          · exact absurd e hne
          · exact e
        obtain ⟨e1, e2⟩ := (hups n2).2.2.2.2 hn2
        exact .inr ⟨hx, n2, by rw [e1]; exact a1, by rw [e2]; exact a2, ⟨t', by rw [htm']; exact hrest, htu⟩,
          by rw [(hups n2).2.2.2.1]; exact a4, by rw [(hups n2).1]; exact a5⟩

theorem put_clients_congr (s1 s2 : State) (c : Nat) (a : Action) (h : s1.clients = s2.clients) :
    (put s1 c a).clients = (put s2 c a).clients := by
  unfold put setClient
  rw [h]
  split <;> simp [h]

theorem putAll_clients_congr (s1 s2 : State) (cs : List Nat) (a : Action) (h : s1.clients = s2.clients) :
    (putAll s1 cs a).clients = (putAll s2 cs a).clients := by
  unfold putAll
  induction cs generalizing s1 s2 with
  | nil => exact h
  | cons c cs ih => exact ih _ _ (put_clients_congr s1 s2 c a h)

theorem inv2_fire {F : Fixes} {s : State} (h : Inv2 F s) : Inv2 F (step F s .fire).1 := by
  refine ⟨inv_step F h.1 .fire, ?_⟩
  simp only [step]
  split
  · exact h.2
  · rename_i t rest htm
    have htmem : t ∈ s.timers := by rw [htm]; simp
    obtain ⟨htlt, htg⟩ := h.1.timer_ok t htmem
    split
    · -- already pushed: the timer just goes away; no promise rested on it
      rename_i hpushed
      apply tinv_fire_tail (s' := { s with timers := rest }) h.2 t rest htm (by rfl) (by rfl) (by rfl)
        (fun m => ⟨rfl, rfl, rfl, rfl, fun _ => ⟨rfl, rfl⟩⟩) (fun hF => h.2.norepl hF t.up)
      intro c x _ _ hp
      rw [hp] at hpushed; cases hpushed
    · rename_i hnp
      have hnp' : (s.ups t.up).pushed = false := by simpa using hnp
      -- the state in which the push has been queued but the timer is still there
      generalize hcs : (if F.f1 = true then
          members (setUp { s with timers := rest } t.up (fun u => { u with pushed := true, replace := 0 })) t.group (s.ups t.up).owner
        else t.cs) = cs
      have hcsok : ∀ c', c' ∈ cs → (s.ups t.up).owner ≠ c' := by
        intro c' hc'
        rw [← hcs] at hc'
        split at hc'
        · exact fun e => members_ne _ _ _ _ hc' e.symm
        · exact fun e => h.2.timer_own t htmem (e ▸ hc')
      have ha : TInv F (putAll s cs (.pushConn t.group (s.ups t.up).id (some t.up) (s.ups t.up).tracks (s.ups t.up).replace)) :=
        tinv_putAll h.2 cs _ (fun c' hc' => ⟨hcsok c' hc', rfl⟩)
      have hoq := onlyQueues_putAll s cs (.pushConn t.group (s.ups t.up).id (some t.up) (s.ups t.up).tracks (s.ups t.up).replace)
      have hoq' := onlyQueues_putAll (setUp { s with timers := rest } t.up (fun u => { u with pushed := true, replace := 0 })) cs
        (.pushConn t.group (s.ups t.up).id (some t.up) (s.ups t.up).tracks (s.ups t.up).replace)
      apply tinv_fire_tail ha t rest (by rw [hoq.2.1]; exact htm)
      · exact putAll_clients_congr _ _ _ _ rfl
      · rw [hoq'.2.2.1, hoq.2.2.1]; rfl
      · rw [hoq'.2.1]; rfl
      · intro m
        rw [hoq'.1, hoq.1]
        simp only [setUp]
        split
        · rename_i e; subst e; exact ⟨rfl, rfl, rfl, rfl, fun e => absurd rfl e⟩
        · exact ⟨rfl, rfl, rfl, rfl, fun _ => ⟨rfl, rfl⟩⟩
      · intro _; rw [hoq'.1]; simp [setUp]
      · -- the promises that rested on this push are kept: the push is in the holder's queue
        intro c x hx hrep _ hgrp hown
        rw [hoq.1] at hrep hgrp hown
        rw [hoq.group] at hgrp
        -- both repairs must be in force, otherwise nothing is ever replaced
        have hF : F.f1 = true := by
          cases hf : (F.f1 && F.f3) with
          | true => simp only [Bool.and_eq_true] at hf; exact hf.1
          | false => have := h.2.norepl hf t.up; rw [hrep] at this; exact absurd this hx
        have hali : (s.clients c).alive = true := by
          cases hal : (s.clients c).alive with
          | true => rfl
          | false => have := h.2.dead c hal; rw [hgrp] at this; cases this
        have hmemb : c ∈ cs := by
          rw [← hcs]
          simp only [hF, if_true]
          apply mem_members_of s _ t.group (s.ups t.up).owner c (by rfl) (fun i => by rfl)
          unfold members
          apply List.mem_filter.mpr
          refine ⟨List.mem_range.mpr (h.2.range c _ hgrp), ?_⟩
          have hne : ¬ c = (s.ups t.up).owner := fun e => hown e.symm
          simp [hgrp, htg, hne]
        refine ⟨t.group, _, by rw [hoq.group, hgrp, htg], putAll_queue_mem s cs c _ hmemb hali, ?_⟩
        exact ⟨rfl, .inr ⟨hrep, hx⟩⟩


/-- the only restriction on histories: before the repairs f1 and f3, offers carry no `replace` -/
def OpOK (F : Fixes) : Op → Prop
  | .offer _ _ _ r => r = 0 ∨ (F.f1 = true ∧ F.f3 = true)
  | _ => True

/-- with both repairs no step is excluded -/
theorem opOK_current (op : Op) : OpOK currentFixes op := by
  cases op <;> simp [OpOK, currentFixes]

theorem inv2_step {F : Fixes} {s : State} (h : Inv2 F s) (op : Op) (hop : OpOK F op) : Inv2 F (step F s op).1 := by
  cases op with
  | fire => exact inv2_fire h
  | join c g user present op' =>
    refine ⟨inv_step F h.1 _, ?_⟩
    simp only [step]
    split
    · exact h.2
    · rename_i hal
      simp only [Bool.or_eq_true, Bool.not_eq_true', decide_eq_true_eq, not_or, Bool.not_eq_false, Nat.not_le] at hal
      split
      · exact (inv2_die h c).2
      · rename_i hg
        exact (inv2_join h c g user present op' (by simpa using hg) hal.1 hal.2).2
  | leave c =>
    refine ⟨inv_step F h.1 _, ?_⟩
    simp only [step]
    split
    · exact h.2
    · split
      · exact (inv2_die h c).2
      · exact (inv2_leaveGroup h c).2
  | disc c =>
    refine ⟨inv_step F h.1 _, ?_⟩
    simp only [step]
    split
    · exact h.2
    · exact (inv2_die h c).2
  | request c m =>
    refine ⟨inv_step F h.1 _, ?_⟩
    simp only [step]
    split
    · exact h.2
    · split
      · exact (inv2_die h c).2
      · rename_i g hg
        have h1 : TInv F (setClient s c (fun cl => { cl with requested := m })) :=
          tinv_setClient h.2 c _ rfl rfl rfl (fun x hx => .inl hx)
            (fun d hd => ⟨.inl hd, fun hc => (h.2.stale c d hd hc).mono_cl (by rfl) (fun _ h => h)⟩)
        apply tinv_putAll h1
        intro m' hm'
        exact fun e => members_ne _ _ _ _ hm' e.symm
  | reqStream c id r =>
    refine ⟨inv_step F h.1 _, ?_⟩
    simp only [step]
    split
    · exact h.2
    · split
      · exact (inv2_die h c).2
      · rename_i d hd
        have hm := findDown_mem _ _ _ hd
        have h1 : TInv F (storeDown s c { d with requested := r }) := tinv_storeDown h.2 c _ (.inl ⟨d, hm, rfl, rfl⟩)
        split
        · exact h1
        · apply tinv_put h1
          simp only [PutOK]
          have := (h.2.down_id c d hm).2
          exact fun e' => this e'.symm
  | abort c id =>
    refine ⟨inv_step F h.1 _, ?_⟩
    simp only [step]
    split
    · exact h.2
    · split
      · exact (inv2_die h c).2
      · exact tinv_delDown h.2 c id
  | close c id =>
    refine ⟨inv_step F h.1 _, ?_⟩
    simp only [step]
    split
    · exact h.2
    · split
      · exact (inv2_die h c).2
      · exact tinv_delUpConn h.1 h.2 c id
  | offer c id label r =>
    refine ⟨inv_step F h.1 _, ?_⟩
    simp only [step]
    split
    · exact h.2
    · exact (inv2_offerOp h c id label r hop).2
  | track c id k kind =>
    refine ⟨inv_step F h.1 _, ?_⟩
    simp only [step]
    split
    · rename_i n g hn hg
      have hmem := lookup_mem _ _ _ hn
      obtain ⟨a1, _, _⟩ := h.2.up_own c id n hmem
      have h3 : TInv F (setUp s n (fun u => { u with tracks := u.tracks ++ [{ up := n, k := k, kind := kind }], pushed := false })) :=
        tinv_setUp h.2 n _ rfl rfl rfl rfl rfl (fun _ => rfl)
      apply tinv_timers_add h3
      simp only [setUp, if_true]
      intro hmemb
      exact members_ne _ _ _ _ hmemb a1
    · exact h.2
  | answer c id =>
    refine ⟨inv_step F h.1 _, ?_⟩
    simp only [step]
    split
    · exact h.2
    · split
      · exact (inv2_die h c).2
      · exact (inv2_answerOp h c id).2
  | kick o c =>
    refine ⟨inv_step F h.1 _, ?_⟩
    simp only [step]
    split
    · exact h.2
    · split
      · exact h.2
      · split
        · exact tinv_put h.2 c .kick trivial
        · exact h.2
  | setPresent o c b =>
    refine ⟨inv_step F h.1 _, ?_⟩
    simp only [step]
    split
    · exact h.2
    · split
      · exact h.2
      · split
        · exact tinv_put h.2 c (.changePerm b) trivial
        · exact h.2
  | deliver c => exact inv2_deliver h c

theorem inv2_run {F : Fixes} {s : State} (h : Inv2 F s) (ops : List Op) (hok : ∀ op ∈ ops, OpOK F op) :
    Inv2 F (run F s ops).1 := by
  induction ops generalizing s with
  | nil => exact h
  | cons op ops ih =>
    simp only [run]
    exact ih (inv2_step h op (hok op (by simp))) (fun o ho => hok o (by simp [ho]))

/-- **C07_teardown_quiescent_general.**  For every setting of the repair switches and every history of
model steps that satisfies `OpOK` (no restriction when both repairs are in force; no `replace` otherwise):
when no delayed push is outstanding and a client's action queue is empty, every down connection the client
holds belongs to an up connection that is still open and was published in the client's own group. -/
theorem C07_teardown_quiescent_general (F : Fixes) (n : Nat) (ops : List Op) (hok : ∀ op ∈ ops, OpOK F op) (c : Nat)
    (htm : (run F (init n) ops).1.timers = [])
    (hq : ((run F (init n) ops).1.clients c).queue = []) (d : Down)
    (hd : d ∈ ((run F (init n) ops).1.clients c).down) :
    ((run F (init n) ops).1.ups d.remote).closed = false ∧
    ((run F (init n) ops).1.clients c).group = some ((run F (init n) ops).1.ups d.remote).group := by
  have h := inv2_run ⟨inv_init n, tinv_init F n⟩ ops hok
  constructor
  · cases hc : ((run F (init n) ops).1.ups d.remote).closed with
    | false => rfl
    | true =>
      rcases h.2.stale c d hd hc with ⟨g, a, _, h2, _⟩ | ⟨_, n2, _, _, ⟨t, ht, _⟩, _, _⟩
      · rw [hq] at h2; cases h2
      · rw [htm] at ht; cases ht
  · obtain ⟨g, h1, h2⟩ := h.1.down_ok c d hd
    rw [h1, h2.2.1]

/-- **C07_teardown_quiescent.**  For the repaired code (`currentFixes`: f1 and f3), after ANY history of
model steps — any interleaving of client messages (with or without `replace`, renegotiations included),
`OnTrack` callbacks, timer expiries and single queued actions — whenever no delayed push is outstanding
and the action queue of a client is empty, every down connection it holds belongs to an up connection
that is still open and that was published in the client's own group.  Whatever a publisher closed,
replaced, or lost by leaving, disconnecting, being kicked or losing `present`, is gone from every
subscriber as soon as the pending pushes have fired and that subscriber's queue has drained. -/
theorem C07_teardown_quiescent (n : Nat) (ops : List Op) (c : Nat)
    (htm : (run currentFixes (init n) ops).1.timers = [])
    (hq : ((run currentFixes (init n) ops).1.clients c).queue = []) (d : Down)
    (hd : d ∈ ((run currentFixes (init n) ops).1.clients c).down) :
    ((run currentFixes (init n) ops).1.ups d.remote).closed = false ∧
    ((run currentFixes (init n) ops).1.clients c).group =
      some ((run currentFixes (init n) ops).1.ups d.remote).group :=
  C07_teardown_quiescent_general currentFixes n ops (fun op _ => opOK_current op) c htm hq d hd

/-- the hypotheses of `C07_teardown_quiescent` are satisfiable by a history in which a stream is offered to
a subscriber (who then holds it, with nothing pending) … -/
example : (run currentFixes (init 2) scenarioOK).1.timers = [] ∧
    ((run currentFixes (init 2) scenarioOK).1.clients 1).queue = [] ∧
    ((run currentFixes (init 2) scenarioOK).1.clients 1).down.length = 1 := by decide

/-- … after the publisher's `close` the subscriber's queue is not empty (the promised close is in it), and
once it is drained the down connection is gone -/
example : ((run currentFixes (init 2) (scenarioOK ++ [.close 0 1])).1.clients 1).queue.length = 1 ∧
    ((run currentFixes (init 2) (scenarioOK ++ [.close 0 1, .deliver 1])).1.clients 1).down.length = 0 := by decide

/-- … and a stream replaced by a new one stays with the subscriber while the replacement's delayed push is
pending (a timer is outstanding), and is gone once the push has fired and been handled -/
example :
    let ops := scenarioOK ++ [.answer 1 1, .offer 0 2 1 1, .track 0 2 0 .audio]
    (run currentFixes (init 2) ops).1.timers.length = 2 ∧
    (((run currentFixes (init 2) ops).1.clients 1).down.map (fun d => d.id)) = [1] ∧
    (run currentFixes (init 2) (ops ++ [.fire, .fire])).1.timers = [] ∧
    (((run currentFixes (init 2) (ops ++ [.fire, .fire, .deliver 1])).1.clients 1).down.map (fun d => d.id)) = [2] := by
  decide


end Galene.Props.C07
