import GaleneVerif.Model.Unbounded
/-!
# C13 (a) — the unbounded channel: no lost wakeup, exactly once, in order

Model: `GaleneVerif/Model/Unbounded.lean`.  All theorems quantify over every list of
steps (`run?`), i.e. over ALL interleavings of any number of producers — each `Put` split
into its locked append and its signal — with the one consumer that alternates
`<-ch.Ch` / `ch.Get()`.

* `C13_no_lost_wakeup`: in every reachable state, a non-empty queue implies that the
  wakeup slot is full, or some producer is between its two steps having seen the queue
  empty, or the consumer is between `recv` and `Get`.  Hence (`C13_no_stuck_state`) there
  is no reachable state with data queued, the slot empty, every producer idle and the
  consumer waiting.
* `C13_exactly_once_in_order`: in every reachable state, everything `Get` has returned so
  far followed by the current queue is exactly the sequence of appends in lock order
  (nothing lost, nothing duplicated, nothing reordered); per producer, the values
  appended so far followed by the values still to put are that producer's work list.
* `C13_quiescent_all_delivered`: a reachable state in which no step is enabled has an empty
  queue, every producer has finished, and the consumer has received, per producer, exactly
  that producer's work list in order.
-/
namespace Galene.Unbounded

abbrev WakeInv (s : St) : Prop :=
  s.queue ≠ [] →
    s.slot = true ∨ (∃ i : Nat, ∃ p : Prod, s.prods[i]? = some p ∧ p.pending = some true) ∨ s.cons = .woken

def OrderInv (s : St) : Prop := s.got ++ s.queue = s.appended

/-- the values of producer `i` in a tagged list -/
def of (i : Nat) (l : List (Nat × Nat)) : List Nat := (l.filter (fun x => x.1 == i)).map (·.2)

def ProdInv (work : List (List Nat)) (s : St) : Prop :=
  s.prods.length = work.length ∧
  ∀ i p t, s.prods[i]? = some p → work[i]? = some t → of i s.appended ++ p.todo = t

theorem of_append (i : Nat) (l m : List (Nat × Nat)) : of i (l ++ m) = of i l ++ of i m := by
  simp [of]

theorem of_single_self (i v : Nat) : of i [(i, v)] = [v] := by simp [of]
theorem of_single_ne (i j v : Nat) (h : j ≠ i) : of i [(j, v)] = [] := by
  have : (j == i) = false := by simpa using h
  simp [of, this]

/-- what an enabled `append i` does -/
theorem step_append {s s' : St} {i : Nat} (h : step? s (.append i) = some s') :
    ∃ v rest, s.prods[i]? = some { todo := v :: rest, pending := none } ∧
      s' = { s with queue := s.queue ++ [(i, v)], appended := s.appended ++ [(i, v)],
                    prods := s.prods.set i { todo := rest, pending := some s.queue.isEmpty } } := by
  simp only [step?] at h
  split at h
  · rename_i v rest hp
    simp only [lockedAppend, Option.some.injEq] at h
    exact ⟨v, rest, hp, h.symm⟩
  · cases h

/-- what an enabled `signal i` does -/
theorem step_signal {s s' : St} {i : Nat} (h : step? s (.signal i) = some s') :
    ∃ todo empty, s.prods[i]? = some { todo := todo, pending := some empty } ∧
      s' = { s with slot := trySignal s.slot empty,
                    prods := s.prods.set i { todo := todo, pending := none } } := by
  simp only [step?] at h
  split at h
  · rename_i todo empty hp
    simp only [Option.some.injEq] at h
    exact ⟨todo, empty, hp, h.symm⟩
  · cases h

theorem step_recv {s s' : St} (h : step? s .recv = some s') :
    s.cons = .waiting ∧ s.slot = true ∧ s' = { s with slot := false, cons := .woken } := by
  simp only [step?] at h
  split at h
  · rename_i hc
    simp only [Option.some.injEq] at h
    exact ⟨hc.1, hc.2, h.symm⟩
  · cases h

theorem step_get {s s' : St} (h : step? s .get = some s') :
    s.cons = .woken ∧ s' = { s with got := s.got ++ s.queue, queue := [], cons := .waiting } := by
  simp only [step?] at h
  split at h
  · rename_i hc
    simp only [Option.some.injEq] at h
    exact ⟨hc, h.symm⟩
  · cases h

theorem lt_of_getElem?_some {α} {l : List α} {i : Nat} {a : α} (h : l[i]? = some a) : i < l.length := by
  rcases Nat.lt_or_ge i l.length with h' | h'
  · exact h'
  · rw [List.getElem?_eq_none h'] at h; cases h

theorem wake_step {s s' : St} {x : Step} (h : step? s x = some s') (hi : WakeInv s) : WakeInv s' := by
  cases x with
  | append i =>
    obtain ⟨v, rest, hp, rfl⟩ := step_append h
    intro _
    have hlt := lt_of_getElem?_some hp
    by_cases he : s.queue = []
    · -- the queue was empty: this producer is now pending with empty = true
      right; left
      refine ⟨i, { todo := rest, pending := some true }, ?_, rfl⟩
      simp [List.getElem?_set_self hlt, he]
    · rcases hi he with h1 | ⟨j, p, hj, hpj⟩ | h1
      · exact Or.inl h1
      · right; left
        have hne : i ≠ j := by
          intro hij; subst hij
          rw [hp] at hj; cases hj; cases hpj
        exact ⟨j, p, by simp [List.getElem?_set_ne hne, hj], hpj⟩
      · exact Or.inr (Or.inr h1)
  | signal i =>
    obtain ⟨todo, empty, hp, rfl⟩ := step_signal h
    intro hq
    cases empty with
    | true => left; simp [trySignal]
    | false =>
      rcases hi hq with h1 | ⟨j, p, hj, hpj⟩ | h1
      · left; simp [trySignal, h1]
      · right; left
        have hne : i ≠ j := by
          intro hij; subst hij
          rw [hp] at hj; cases hj; cases hpj
        exact ⟨j, p, by simp [List.getElem?_set_ne hne, hj], hpj⟩
      · exact Or.inr (Or.inr h1)
  | recv =>
    obtain ⟨_, _, rfl⟩ := step_recv h
    intro _; exact Or.inr (Or.inr rfl)
  | get =>
    obtain ⟨_, rfl⟩ := step_get h
    intro hq; exact absurd rfl hq

theorem order_step {s s' : St} {x : Step} (h : step? s x = some s') (hi : OrderInv s) : OrderInv s' := by
  unfold OrderInv at *
  cases x with
  | append i =>
    obtain ⟨v, rest, _, rfl⟩ := step_append h
    simp only [← List.append_assoc, hi]
  | signal i =>
    obtain ⟨_, _, _, rfl⟩ := step_signal h
    exact hi
  | recv =>
    obtain ⟨_, _, rfl⟩ := step_recv h
    exact hi
  | get =>
    obtain ⟨_, rfl⟩ := step_get h
    simpa using hi

theorem prod_step {work} {s s' : St} {x : Step} (h : step? s x = some s') (hi : ProdInv work s) :
    ProdInv work s' := by
  obtain ⟨hlen, hall⟩ := hi
  cases x with
  | append i =>
    obtain ⟨v, rest, hp, rfl⟩ := step_append h
    have hlt := lt_of_getElem?_some hp
    refine ⟨by simpa using hlen, ?_⟩
    intro j p t hj ht
    by_cases hij : i = j
    · subst hij
      simp only [List.getElem?_set_self hlt, Option.some.injEq] at hj
      subst hj
      have := hall i _ t hp ht
      simp only [of_append, of_single_self, List.append_assoc, List.singleton_append]
      exact this
    · simp only [List.getElem?_set_ne hij] at hj
      have := hall j p t hj ht
      simp only [of_append, of_single_ne j i v hij, List.append_nil]
      exact this
  | signal i =>
    obtain ⟨todo, empty, hp, rfl⟩ := step_signal h
    have hlt := lt_of_getElem?_some hp
    refine ⟨by simpa using hlen, ?_⟩
    intro j p t hj ht
    by_cases hij : i = j
    · subst hij
      simp only [List.getElem?_set_self hlt, Option.some.injEq] at hj
      subst hj
      exact hall i { todo := todo, pending := some empty } t hp ht
    · simp only [List.getElem?_set_ne hij] at hj
      exact hall j p t hj ht
  | recv =>
    obtain ⟨_, _, rfl⟩ := step_recv h
    exact ⟨hlen, hall⟩
  | get =>
    obtain ⟨_, rfl⟩ := step_get h
    exact ⟨hlen, hall⟩

theorem run_induction {P : St → Prop} (hstep : ∀ s s' x, step? s x = some s' → P s → P s')
    (s : St) (steps : List Step) (s' : St) (h : run? s steps = some s') (h0 : P s) : P s' := by
  induction steps generalizing s with
  | nil => simp only [run?, Option.some.injEq] at h; exact h ▸ h0
  | cons x xs ih =>
    simp only [run?] at h
    cases hx : step? s x with
    | none => simp [hx] at h
    | some s1 =>
      simp only [hx] at h
      exact ih s1 h (hstep s s1 x hx h0)

theorem init_wake (work) : WakeInv (init work) := by intro h; exact absurd rfl h
theorem init_order (work) : OrderInv (init work) := rfl
theorem init_prod (work) : ProdInv work (init work) := by
  refine ⟨by simp [init], ?_⟩
  intro i p t hp ht
  simp only [init, List.getElem?_map, ht, Option.map_some, Option.some.injEq] at hp
  subst hp
  simp [of, init]

/-- **C13, no lost wakeup.**  For every number of producers with arbitrary work lists and
EVERY interleaving of their half-`Put`s with the consumer's `recv`/`Get`: whenever the
queue is non-empty, the wakeup slot `Ch` is full, or a producer that saw the queue empty
has not yet executed its signal, or the consumer has been woken and is about to `Get`. -/
theorem C13_no_lost_wakeup (work : List (List Nat)) (steps : List Step) (s : St)
    (h : run? (init work) steps = some s) :
    s.queue ≠ [] →
      s.slot = true ∨ (∃ i : Nat, ∃ p : Prod, s.prods[i]? = some p ∧ p.pending = some true) ∨ s.cons = .woken :=
  run_induction (P := WakeInv) (fun _ _ _ hx hi => wake_step hx hi) _ steps s h (init_wake work)

/-- Consequence: the state "data queued, slot empty, all producers idle, consumer waiting"
(a consumer sleeping for ever on a non-empty queue) is unreachable. -/
theorem C13_no_stuck_state (work : List (List Nat)) (steps : List Step) (s : St)
    (h : run? (init work) steps = some s)
    (hq : s.queue ≠ []) (hslot : s.slot = false) (hidle : ∀ (i : Nat) (p : Prod), s.prods[i]? = some p → p.pending = none)
    (hc : s.cons = .waiting) : False := by
  rcases C13_no_lost_wakeup work steps s h hq with h1 | ⟨i, p, hp, hpp⟩ | h1
  · rw [hslot] at h1; cases h1
  · rw [hidle i p hp] at hpp; cases hpp
  · rw [hc] at h1; cases h1

/-- **C13, exactly once and in order.**  Under every interleaving: the concatenation of
all `Get` results so far, followed by what is still queued, IS the sequence of appends in
lock order — each appended element exactly once, in that order; and for each producer the
values it has appended so far followed by those it still has to put are its work list, so
per producer the lock order is the program order. -/
theorem C13_exactly_once_in_order (work : List (List Nat)) (steps : List Step) (s : St)
    (h : run? (init work) steps = some s) :
    s.got ++ s.queue = s.appended ∧
    ∀ i p t, s.prods[i]? = some p → work[i]? = some t → of i s.appended ++ p.todo = t :=
  ⟨run_induction (P := OrderInv) (fun _ _ _ hx hi => order_step hx hi) _ steps s h (init_order work),
   (run_induction (P := ProdInv work) (fun _ _ _ hx hi => prod_step hx hi) _ steps s h (init_prod work)).2⟩

/-- **C13, everything is delivered at quiescence.**  A reachable state in which no step
at all is enabled (no producer can append or signal, the consumer can neither receive
nor `Get`) has an empty queue, and the consumer has received from each producer exactly
that producer's work list, in order. -/
theorem C13_quiescent_all_delivered (work : List (List Nat)) (steps : List Step) (s : St)
    (h : run? (init work) steps = some s) (hq : ∀ x, step? s x = none) :
    s.queue = [] ∧ ∀ i t, work[i]? = some t → of i s.got = t := by
  have hprod := run_induction (P := ProdInv work) (fun _ _ _ hx hi => prod_step hx hi) _ steps s h (init_prod work)
  have hord := (C13_exactly_once_in_order work steps s h).1
  -- every producer is idle and done
  have hidle : ∀ (i : Nat) (p : Prod), s.prods[i]? = some p → p.pending = none ∧ p.todo = [] := by
    intro i p hp
    obtain ⟨todo, pending⟩ := p
    cases pending with
    | some e => have := hq (.signal i); simp [step?, hp] at this
    | none =>
      cases todo with
      | nil => exact ⟨rfl, rfl⟩
      | cons v rest => have := hq (.append i); simp [step?, hp] at this
  have hcons : s.cons = .waiting := by
    cases hc : s.cons with
    | waiting => rfl
    | woken => have := hq .get; simp [step?, hc] at this
  have hslot : s.slot = false := by
    cases hs : s.slot with
    | false => rfl
    | true => have := hq .recv; simp [step?, hcons, hs] at this
  have hqueue : s.queue = [] := by
    cases hqq : s.queue with
    | nil => rfl
    | cons a as =>
      exact (C13_no_stuck_state work steps s h (by simp [hqq]) hslot (fun i p hp => (hidle i p hp).1) hcons).elim
  refine ⟨hqueue, ?_⟩
  intro i t ht
  have hlt : i < s.prods.length := by
    rw [hprod.1]; exact lt_of_getElem?_some ht
  have hp : s.prods[i]? = some s.prods[i] := List.getElem?_eq_getElem hlt
  have := hprod.2 i _ t hp ht
  rw [(hidle i _ hp).2, List.append_nil] at this
  rw [hqueue, List.append_nil] at hord
  rw [hord]; exact this

/-! ### non-vacuity -/

/-- a schedule in which producer 1 is pre-empted between its append and its signal while
producer 0 completes a `Put` and the consumer drains: every step is enabled, in the end
state none of the steps of the two producers and the consumer is enabled, and everything
has been delivered, in order per producer -/
example :
    let steps := [Step.append 1, .append 0, .signal 0, .signal 1, .recv, .get, .append 0, .signal 0,
                  .recv, .get]
    (run? (init [[10, 11], [20]]) steps).isSome = true ∧
    (run? (init [[10, 11], [20]]) steps).all (fun s =>
      [Step.append 0, .append 1, .signal 0, .signal 1, .recv, .get].all (fun x => (step? s x).isNone) &&
      decide (s.got = [(1, 20), (0, 10), (0, 11)]) && decide (s.queue = [])) = true := by
  decide

/-- the third disjunct of `C13_no_lost_wakeup` is needed: data queued, slot empty, every
producer idle — but the consumer is between `recv` and `Get` -/
example : (run? (init [[1, 2]]) [.append 0, .signal 0, .recv, .append 0, .signal 0]).any (fun s =>
    decide (s.queue ≠ []) && !s.slot && decide (s.cons = .woken) &&
    s.prods.all (fun p => decide (p.pending = none))) = true := by decide

/-- and so is the second: data queued, slot empty, consumer waiting, producer 0 pending -/
example : (run? (init [[1]]) [.append 0]).any (fun s =>
    decide (s.queue ≠ []) && !s.slot && decide (s.cons = .waiting)) = true := by decide

end Galene.Unbounded
