import GaleneVerif.Lemmas.SigWorldPermsRevoke
import GaleneVerif.Props.C14World
/-
C11 on the concrete signalling model — "non-members hold none" as an invariant of every reachable world.

Props/C11.lean proves the handler-level statements (guards, token delegation, a connection with
`group = nil` gets only harmless effects).  This file proves the world-level statement of C11's
title on the executable world model (Model/Signalling.lean), for **every** schedule of

* client messages handled by `handleMsg` — **any** message whatever (including `offer`, `record`,
  `maketoken`, `edittoken`, the moderation actions op/unop/present/unpresent/shutup/unshutup, `setdata`,
  malformed and spoofed messages);
* iterations of any client's action loop (`stepAction`: announcements, the permission-change action
  with its in-place edit of the permission array, kick, …);
* connection drops (`dropConn`);

i.e. the step language `WStep`/`wrun` of Props/C14World.lean **without** the restriction `WStep.ok`.

Main results
* `C11_world_inv`                    the invariant `PInv` holds along every run (needs the repairs P10, P18, P19 only);
* `C11_world_nonmember_holds_none`   hence in every reachable world a connection whose `group` field is nil holds no
                                     permission and is in no group's member list;
* `C11_world_nonmember_refused`      and every message it sends yields only harmless effects;
* `C11_world_heap_inv`, `C11_world_perms_unshared`   every permission slice lies in the heap and no two owners
                                     (connections, tokens) share a backing array (needs `tokClone` only);
* `C11_world_perms_frame`            a step of connection `i` does not change the permissions of any other connection;
* `C11_world_perms_stable`, `C11_world_join_grants`   the permissions of a connection change only when it joins (to what
                                     Description.GetPermission grants), when its own action loop handles a permission
                                     change, or to nothing;
* `C11_world_change_applied`, `C11_world_revocation` (`_run`), `C11_world_revocation_closes_streams`
                                     the permission-change action does what the moderator asked, on the connection's
                                     own list only; with the repair `removeAll` a removed permission is gone however
                                     often it occurred (`C11_world_revocation_partial`: what holds without that repair);
                                     after the loss of `present` the streams are closed;
* `PInv_init`, `PInv_addCfg`, `PInv_addClient`, `PInv_addToken` (and the same for `HInv`)   the invariants hold
                                     initially and are kept by the creation of group descriptions, connections, tokens;
                                     `pk_flags`, `pk_hist`, `pk_addup`, `mockJoin_pk`, `releaseParked_pk`: and by the other
                                     operations of the test engine.
False without the repairs, as runs of the world model checked by `decide`:
* `C11_world_false_refused` (P10), `C11_world_false_redirect` (P18), `C11_world_false_stale_change` (P19),
  `C11_world_unshared_false_token` (tokClone);
* `C11_world_revocation_false_duplicate` (removeAll, 391656f)   before that repair a permission that occurred twice in a
  client's list survived its removal (`C11_world_revocation_duplicate_fixed`: the same run on today's code).
-/
namespace Galene.Sig

/-! ### the invariants, in terms of the world -/

/-- **The invariant of "non-members hold none".**  (Defined on the permission skeleton `World.pk`;
`PInv_iff` spells it out on the world.) -/
def PInv (w : World) : Prop := w.pk.Core

/-- **The heap invariant**: slices lie in the heap, owners do not share arrays (`HInv_iff`). -/
def HInv (w : World) : Prop := w.pk.HeapOK

/-- `PInv` spelled out: the repairs P10, P18, P19 are in; a connection whose `group` field is nil holds the
nil slice; a web client in the member list of `g` is a connection whose `group` field is `g`. -/
theorem PInv_iff (w : World) :
    PInv w ↔ (w.fix.p10 = true ∧ w.fix.p18 = true ∧ w.fix.p19 = true ∧
      (∀ (i : Nat) (c : Client), w.clients[i]? = some c → c.group = none → c.perms = nilSlice) ∧
      (∀ (g : String) (i : Nat), Ref.web i ∈ mem w g → ∃ c : Client, w.clients[i]? = some c ∧ c.group = some g)) := by
  constructor
  · intro h
    refine ⟨h.p10, h.p18, h.p19, ?_, ?_⟩
    · intro i c hc hg
      apply h.nm i c.perms
      rw [pk_cl_some hc, hg]
    · intro g i hm
      obtain ⟨s, hs⟩ := h.memb g i (mem_webs.mpr hm)
      obtain ⟨c, hc, hg, _⟩ := pk_cl_inv hs
      exact ⟨c, hc, hg⟩
  · rintro ⟨h1, h2, h3, h4, h5⟩
    refine ⟨h1, h2, h3, ?_, ?_⟩
    · intro i s hs
      obtain ⟨c, hc, hg, hp⟩ := pk_cl_inv hs
      rw [← hp]; exact h4 i c hc hg
    · intro g i hm
      obtain ⟨c, hc, hg⟩ := h5 g i (mem_webs.mp hm)
      exact ⟨c.perms, by rw [pk_cl_some hc, hg]⟩

/-- `HInv` spelled out: `Stateful.Check` returns a copy; array 0 of the heap is the empty array;
every connection's and every token's permission slice lies within the heap; two connections, or a
connection and a token, hold slices of the same backing array only if it is array 0. -/
theorem HInv_iff (w : World) :
    HInv w ↔ (w.fix.tokClone = true ∧ w.heap[0]? = some [] ∧
      (∀ (i : Nat) (c : Client), w.clients[i]? = some c → w.heap.WF c.perms) ∧
      (∀ t ∈ w.tokens, w.heap.WF t.perms) ∧
      (∀ (i j : Nat) (ci cj : Client), w.clients[i]? = some ci → w.clients[j]? = some cj → i ≠ j →
        ci.perms.arr = cj.perms.arr → ci.perms.arr = 0) ∧
      (∀ (i : Nat) (c : Client) (t : Token), w.clients[i]? = some c → t ∈ w.tokens → c.perms.arr = t.perms.arr → c.perms.arr = 0)) := by
  constructor
  · intro h
    refine ⟨h.tokClone, h.h0, ?_, h.twf, ?_, ?_⟩
    · intro i c hc; exact h.wf i c.group c.perms (pk_cl_some hc)
    · intro i j ci cj hi hj hij he
      exact h.unsh i j ci.group ci.perms cj.group cj.perms (pk_cl_some hi) (pk_cl_some hj) hij he
    · intro i c t hc ht he
      exact h.tunsh i c.group c.perms t (pk_cl_some hc) ht he
  · rintro ⟨h1, h2, h3, h4, h5, h6⟩
    refine ⟨h1, h2, ?_, h4, ?_, ?_⟩
    · intro i g s hs
      obtain ⟨c, hc, _, hp⟩ := pk_cl_inv hs
      rw [← hp]; exact h3 i c hc
    · intro i j gi si gj sj hi hj hij he
      obtain ⟨ci, hci, _, hpi⟩ := pk_cl_inv hi
      obtain ⟨cj, hcj, _, hpj⟩ := pk_cl_inv hj
      rw [← hpi] at he ⊢; rw [← hpj] at he
      exact h5 i j ci cj hci hcj hij he
    · intro i g s t hs ht he
      obtain ⟨c, hc, _, hp⟩ := pk_cl_inv hs
      rw [← hp] at he ⊢
      exact h6 i c t hc ht he

theorem permsOf_pk (w : World) (i : Nat) :
    w.permsOf i = match w.pk.cl i with | some x => w.pk.heap.get x.2 | none => [] := by
  unfold World.permsOf World.client?
  rw [pk_cl]
  cases w.clients[i]? <;> rfl

theorem conn_perms_eq (w : World) (i : Nat) : (w.conn i).perms = w.permsOf i := by
  unfold World.conn World.permsOf
  cases w.client? i <;> rfl

/-! ### every step of the step language is a transition of the skeleton -/

/-- the connection that takes the step -/
def WStep.who : WStep → Nat
  | .msg i _ => i
  | .act i => i
  | .drop i => i

/-- **every step — any message, any iteration of an action loop, any drop — is a transition of the
permission skeleton**, with the repairs P10, P18, P19 -/
theorem wstep_step (w : World) (s : WStep) (h10 : w.fix.p10 = true) (h18 : w.fix.p18 = true)
    (h19 : w.fix.p19 = true) : PK.Step s.who w.pk (wstep w s).pk := by
  cases s with
  | msg i m => exact handleMsg_step w i m h10 h18
  | act i => exact stepAction_step w i h19
  | drop i =>
    show PK.Step i w.pk (finish w i .ws).flush.pk
    rw [flush_pk]; exact finish_step w i .ws

theorem PInv_wstep (w : World) (s : WStep) (hi : PInv w) : PInv (wstep w s) :=
  (wstep_step w s hi.p10 hi.p18 hi.p19).core hi

/-- **C11_world_inv.**  The invariant `PInv` holds along every run of the step language: all client
messages (no restriction on the message), all iterations of action loops, all connection drops. -/
theorem C11_world_inv (steps : List WStep) (w0 : World) (h0 : PInv w0) : PInv (wrun w0 steps) := by
  induction steps generalizing w0 with
  | nil => exact h0
  | cons s r ih =>
    simp only [wrun, List.foldl_cons]
    exact ih _ (PInv_wstep w0 s h0)

/-- the statement of C11's title on one world: a connection whose `group` field is nil holds no
permission and is in no group's member list -/
def NonMembersHoldNone (w : World) : Prop :=
  ∀ (i : Nat) (c : Client), w.clients[i]? = some c → c.group = none →
    w.permsOf i = [] ∧ ∀ g gr, w.group? g = some gr → Ref.web i ∉ gr.members

theorem PInv.holds_none {w : World} (hi : PInv w) : NonMembersHoldNone w := by
  obtain ⟨_, _, _, hnm, hmemb⟩ := (PInv_iff w).mp hi
  intro i c hc hg
  refine ⟨?_, ?_⟩
  · unfold World.permsOf World.client?
    rw [hc]
    simp only []
    rw [hnm i c hc hg]
    rfl
  · intro g gr hgr hm
    obtain ⟨c', hc', hg'⟩ := hmemb g i (by rw [mem_of_group? hgr]; exact hm)
    rw [hc] at hc'
    cases hc'
    rw [hg] at hg'
    cases hg'

/-- **C11_world_nonmember_holds_none.**  Let `w0` be any world satisfying the invariant `PInv` (for
instance the empty world, or any world reached from it by creating group descriptions, connections
and tokens: `PInv_init`, `PInv_addCfg`, `PInv_addClient`, `PInv_addToken`; the invariant contains the
repairs P10, P18 and P19, which today's code `currentFixes` has), and let `steps` be **any** schedule of
client messages (any message at all), action-loop iterations and connection drops.  Then in the
final world every connection whose `group` field is nil — it never joined, its join was refused or
redirected, it left, was kicked or has been closed — holds no permission (`permsOf = []`) and is in no
group's member list.  (No hypothesis that the world has not crashed is needed.) -/
theorem C11_world_nonmember_holds_none (w0 : World) (h0 : PInv w0) (steps : List WStep) (i : Nat) (c : Client)
    (hc : (wrun w0 steps).clients[i]? = some c) (hg : c.group = none) :
    (wrun w0 steps).permsOf i = [] ∧ ∀ g gr, (wrun w0 steps).group? g = some gr → Ref.web i ∉ gr.members :=
  (C11_world_inv steps w0 h0).holds_none i c hc hg

/-- the other direction, also part of the invariant: in every reachable world a web client in the
member list of `g` is a connection whose `group` field is `g` -/
theorem C11_world_member_has_group (w0 : World) (h0 : PInv w0) (steps : List WStep) (g : String) (gr : Group) (i : Nat)
    (hgr : (wrun w0 steps).group? g = some gr) (hm : Ref.web i ∈ gr.members) :
    ∃ c, (wrun w0 steps).clients[i]? = some c ∧ c.group = some g := by
  obtain ⟨_, _, _, _, hmemb⟩ := (PInv_iff _).mp (C11_world_inv steps w0 h0)
  exact hmemb g i (by rw [mem_of_group? hgr]; exact hm)

/-- **C11_world_nonmember_refused.**  In every reachable world (as in
`C11_world_nonmember_holds_none`), for every connection slot `i` that is in no group (its `group`
field is nil, or there is no such connection) and every message `m`: the handler produces only
harmless effects (replies to the sender, a closing error, a `join`, closing its own — non-existent —
streams: `Effect.harmless`), the connection holds no permission, and it is in no member list. -/
theorem C11_world_nonmember_refused (w0 : World) (h0 : PInv w0) (steps : List WStep) (i : Nat) (m : Msg)
    (hg : ((wrun w0 steps).conn i).group = none) :
    (∀ e ∈ handle ((wrun w0 steps).conn i) ((wrun w0 steps).env i) m, e.harmless = true) ∧
    (wrun w0 steps).permsOf i = [] ∧
    ∀ g gr, (wrun w0 steps).group? g = some gr → Ref.web i ∉ gr.members := by
  have hi := C11_world_inv steps w0 h0
  have hp : (wrun w0 steps).permsOf i = [] ∧ ∀ g gr, (wrun w0 steps).group? g = some gr → Ref.web i ∉ gr.members := by
    cases hc : (wrun w0 steps).clients[i]? with
    | none =>
      refine ⟨by unfold World.permsOf World.client?; rw [hc], ?_⟩
      intro g gr hgr hm
      obtain ⟨_, _, _, _, hmemb⟩ := (PInv_iff _).mp hi
      obtain ⟨c', hc', _⟩ := hmemb g i (by rw [mem_of_group? hgr]; exact hm)
      rw [hc] at hc'; cases hc'
    | some c =>
      rw [conn_group_bind, hc] at hg
      exact hi.holds_none i c hc hg
  refine ⟨?_, hp⟩
  exact C11_nonmember_refused _ _ m hg (by rw [conn_perms_eq]; exact hp.1)

/-! ### the heap invariant -/

theorem HInv_wstep (w : World) (s : WStep) (hi : PInv w) (hh : HInv w) : HInv (wstep w s) :=
  (wstep_step w s hi.p10 hi.p18 hi.p19).heapOK hh

/-- **C11_world_heap_inv.**  Both invariants hold along every run. -/
theorem C11_world_heap_inv (steps : List WStep) (w0 : World) (h0 : PInv w0) (hh0 : HInv w0) :
    PInv (wrun w0 steps) ∧ HInv (wrun w0 steps) := by
  induction steps generalizing w0 with
  | nil => exact ⟨h0, hh0⟩
  | cons s r ih =>
    simp only [wrun, List.foldl_cons]
    exact ih _ (PInv_wstep w0 s h0) (HInv_wstep w0 s h0 hh0)

/-- **C11_world_perms_unshared.**  In every world reached from one satisfying `PInv` and `HInv` (which
contains the repair `tokClone`: `Stateful.Check` returns a copy, as `Permissions.Permissions` has
done since dd17351) by any schedule of messages, action-loop iterations and drops: two different
connections hold permission slices of the same backing array only if it is array 0 (the empty
array, which is never written: both hold no permission), the same for a connection and a token, and
every such slice lies within the heap.  So the in-place edits of the permission-change action
(`remove`/`addnew` of webclient.go) never reach another owner's list. -/
theorem C11_world_perms_unshared (w0 : World) (h0 : PInv w0) (hh0 : HInv w0) (steps : List WStep) :
    (∀ (i j : Nat) (ci cj : Client), (wrun w0 steps).clients[i]? = some ci → (wrun w0 steps).clients[j]? = some cj → i ≠ j →
      ci.perms.arr = cj.perms.arr → ci.perms.arr = 0 ∧ (wrun w0 steps).permsOf i = [] ∧ (wrun w0 steps).permsOf j = []) ∧
    (∀ (i : Nat) (c : Client) (t : Token), (wrun w0 steps).clients[i]? = some c → t ∈ (wrun w0 steps).tokens →
      c.perms.arr = t.perms.arr → c.perms.arr = 0) ∧
    (∀ (i : Nat) (c : Client), (wrun w0 steps).clients[i]? = some c → (wrun w0 steps).heap.WF c.perms) := by
  obtain ⟨_, hh⟩ := C11_world_heap_inv steps w0 h0 hh0
  obtain ⟨_, hz, hwf, _, hun, htun⟩ := (HInv_iff _).mp hh
  refine ⟨?_, htun, hwf⟩
  intro i j ci cj hi hj hij he
  have h0' := hun i j ci cj hi hj hij he
  have key : ∀ (k : Nat) (ck : Client), (wrun w0 steps).clients[k]? = some ck → ck.perms.arr = 0 →
      (wrun w0 steps).permsOf k = [] := by
    intro k ck hk hz'
    unfold World.permsOf World.client?
    rw [hk]
    simp only []
    unfold Heap.get Heap.arrOf
    rw [hz', List.getD_eq_getElem?_getD, hz]
    simp
  exact ⟨h0', key i ci hi h0', key j cj hj (he ▸ h0')⟩

/-- **C11_world_perms_frame.**  A step of connection `i` — any message it sends, any iteration of its
action loop (including the permission-change action, which edits a backing array in place), its
close — leaves the permissions of every other connection `j` exactly as they were. -/
theorem C11_world_perms_frame (w : World) (hi : PInv w) (hh : HInv w) (s : WStep) (j : Nat) (hj : j ≠ s.who) :
    (wstep w s).permsOf j = w.permsOf j := by
  have st := wstep_step w s hi.p10 hi.p18 hi.p19
  rw [permsOf_pk, permsOf_pk]
  cases hc : w.pk.cl j with
  | none => rw [st.cl_none j hc]
  | some x =>
    obtain ⟨g, sl⟩ := x
    obtain ⟨h1, h2⟩ := st.frame hh j hj g sl hc
    rw [h1]
    exact h2

/-! ### where the permissions of a connection come from -/

theorem permsOf_step0 {w w' : World} {i : Nat} (st : PK.Step0 i w.pk w'.pk) (hh : HInv w) :
    w'.permsOf i = w.permsOf i ∨ w'.permsOf i = [] := by
  rw [permsOf_pk, permsOf_pk]
  cases hc : w.pk.cl i with
  | none => rw [st.toStep.cl_none i hc]; exact Or.inl rfl
  | some x =>
    obtain ⟨g, sl⟩ := x
    rcases st.self hh g sl hc with ⟨h1, h2⟩ | h
    · rw [h1]; exact Or.inl h2
    · rw [h]; exact Or.inr (by simp [Heap.get, nilSlice])

/-- **C11_world_perms_stable.**  In a world satisfying the invariants, a step changes the permissions
of connection `j` only if (1) they become empty, or (2) the step is a message of `j` itself whose
handler produces a `join` (what it is then granted: `C11_world_join_grants`), or (3) the step is an
iteration of `j`'s own action loop whose oldest action is a permission change (what it then holds:
`C11_world_change_applied`).  So the permissions a member holds are those granted when it joined, as
modified by the moderation actions its own action loop has handled. -/
theorem C11_world_perms_stable (w : World) (hi : PInv w) (hh : HInv w) (s : WStep) (j : Nat) :
    (wstep w s).permsOf j = w.permsOf j ∨ (wstep w s).permsOf j = [] ∨
    (∃ m g cr d, s = .msg j m ∧ handle (w.conn j) (w.env j) m = [.join g cr d]) ∨
    (∃ c k rest, s = .act j ∧ w.clients[j]? = some c ∧ c.queue = .changePerm k :: rest) := by
  by_cases hj : j = s.who
  · cases s with
    | msg i m =>
      have : j = i := hj
      subst this
      rcases handle_join_cases (w.conn j) (w.env j) m with h | ⟨_, g, cr, d, heq⟩
      · rcases permsOf_step0 (handleMsg_step0 w j m h) hh with h' | h'
        · exact Or.inl h'
        · exact Or.inr (Or.inl h')
      · exact Or.inr (Or.inr (Or.inl ⟨m, g, cr, d, rfl, heq⟩))
    | act i =>
      have : j = i := hj
      subst this
      by_cases hq : ∃ c k rest, w.clients[j]? = some c ∧ c.queue = .changePerm k :: rest
      · obtain ⟨c, k, rest, hc, hq⟩ := hq
        exact Or.inr (Or.inr (Or.inr ⟨c, k, rest, rfl, hc, hq⟩))
      · have h0 : ∀ c k rest, w.clients[j]? = some c → c.queue ≠ .changePerm k :: rest :=
          fun c k rest hc hq' => hq ⟨c, k, rest, hc, hq'⟩
        rcases permsOf_step0 (stepAction_step0 w j h0) hh with h' | h'
        · exact Or.inl h'
        · exact Or.inr (Or.inl h')
    | drop i =>
      have : j = i := hj
      subst this
      have st : PK.Step0 j w.pk (wstep w (.drop j)).pk := by
        show PK.Step0 j w.pk (finish w j .ws).flush.pk
        rw [flush_pk]; exact finish_step0 w j .ws
      rcases permsOf_step0 st hh with h' | h'
      · exact Or.inl h'
      · exact Or.inr (Or.inl h')
  · exact Or.inl (C11_world_perms_frame w hi hh s j hj)

/-- **C11_world_join_grants.**  When the handler of a message of connection `i` produces a `join` (so
`i` is in no group), afterwards `i` either holds nothing (the join was refused or redirected) or it is
a connection whose `group` field is the group joined and it holds exactly the list that
Description.GetPermission grants to its credentials in that group (`Granted`). -/
theorem C11_world_join_grants (w : World) (hi : PInv w) (i : Nat) (m : Msg) (g : String) (cr : Creds) (d : Dict)
    (hm : handle (w.conn i) (w.env i) m = [.join g cr d]) :
    (handleMsg w i m).permsOf i = [] ∨
    ∃ ext s, Granted w i g cr d ext s ∧ (handleMsg w i m).permsOf i = (w.heap ++ ext).get s ∧
      ((handleMsg w i m).clients[i]?).map (·.group) = some (some g) := by
  have hg : (w.conn i).group = none := by
    rcases handle_join_cases (w.conn i) (w.env i) m with h | ⟨hg, _⟩
    · have := h (.join g cr d) (by rw [hm]; exact List.mem_singleton.mpr rfl)
      cases this
    · exact hg
  have hold : w.permsOf i = [] := by
    cases hc : w.clients[i]? with
    | none => unfold World.permsOf World.client?; rw [hc]
    | some c =>
      rw [conn_group_bind, hc] at hg
      exact (hi.holds_none i c hc hg).1
  have hnil : ∀ ext, (match (w.pk.withHeap (w.heap ++ ext)).cl i with
      | some x => (w.pk.withHeap (w.heap ++ ext)).heap.get x.2 | none => []) = [] := by
    intro ext
    cases hc : w.clients[i]? with
    | none => rw [PK.withHeap_cl, pk_cl_none hc]
    | some c =>
      rw [conn_group_bind, hc] at hg
      have hp : c.perms = nilSlice := ((PInv_iff w).mp hi).2.2.2.1 i c hc hg
      rw [PK.withHeap_cl, pk_cl_some hc, hp]
      simp [Heap.get, nilSlice]
  unfold handleMsg
  rw [hm]
  simp only [List.foldl_cons, List.foldl_nil]
  split_ifs
  · left
    rw [permsOf_pk, flush_pk, ← permsOf_pk]; exact hold
  · have hae : applyEffect w i (.join g cr d) = joinGroup w i g cr d := rfl
    rw [hae]
    obtain ⟨ext, h | ⟨s, hc, _, hgr, h | h⟩⟩ := joinGroup_pk w i g cr d hi.p10 hi.p18
    · left
      rw [permsOf_pk, flush_pk, h]; exact hnil ext
    · right
      obtain ⟨_, _, _, _, hself, _⟩ := PK.accept_spec (w.pk.withHeap (w.heap ++ ext)) i g s
      obtain ⟨x, hx⟩ := Option.isSome_iff_exists.mp hc
      have hcl : (joinGroup w i g cr d).flush.pk.cl i = some (some g, s) := by
        rw [flush_pk, h, hself, PK.withHeap_cl, hx]; rfl
      refine ⟨ext, s, hgr, ?_, ?_⟩
      · rw [permsOf_pk, hcl, flush_pk, h]
        rfl
      · obtain ⟨c', hc', hg', _⟩ := pk_cl_inv hcl
        rw [hc']; simp [hg']
    · left
      have hcl : ∃ x, ((w.pk.withHeap (w.heap ++ ext)).accept i g s).cl i = some (some g, x) := by
        obtain ⟨_, _, _, _, hself, _⟩ := PK.accept_spec (w.pk.withHeap (w.heap ++ ext)) i g s
        obtain ⟨x, hx⟩ := Option.isSome_iff_exists.mp hc
        exact ⟨s, by rw [hself, PK.withHeap_cl, hx]; rfl⟩
      obtain ⟨x, hx⟩ := hcl
      obtain ⟨_, _, _, _, hself, _⟩ := PK.leave_spec ((w.pk.withHeap (w.heap ++ ext)).accept i g s) i
      rw [permsOf_pk, flush_pk, h, (hself g x hx).1]
      simp [Heap.get, nilSlice]

/-! ### the invariants hold initially -/

/-- the state of the server after start-up: group descriptions on disk, connections accepted but in no
group, no token; the repairs P10, P18, P19 -/
theorem PInv_init (cfgs : List GroupCfg) (clients : List Client) (fx : Fixes) (h10 : fx.p10 = true)
    (h18 : fx.p18 = true) (h19 : fx.p19 = true) (hcl : ∀ c ∈ clients, c.group = none ∧ c.perms = nilSlice) :
    PInv { cfgs := cfgs, clients := clients, fix := fx } := by
  rw [PInv_iff]
  refine ⟨h10, h18, h19, ?_, ?_⟩
  · intro i c hc _; exact (hcl c (List.mem_of_getElem? hc)).2
  · intro g i hm; cases hm

theorem HInv_init (cfgs : List GroupCfg) (clients : List Client) (fx : Fixes) (htc : fx.tokClone = true)
    (hcl : ∀ c ∈ clients, c.group = none ∧ c.perms = nilSlice) :
    HInv { cfgs := cfgs, clients := clients, fix := fx } := by
  rw [HInv_iff]
  refine ⟨htc, rfl, ?_, ?_, ?_, ?_⟩
  · intro i c hc
    rw [(hcl c (List.mem_of_getElem? hc)).2]
    exact ⟨by show 0 < initHeap.length; decide, Nat.zero_le _⟩
  · intro t ht; cases ht
  · intro i j ci cj hi _ _ _
    rw [(hcl ci (List.mem_of_getElem? hi)).2]; rfl
  · intro i c t _ ht; cases ht

/-- today's code (`currentFixes`) starts in both invariants -/
theorem PInv_empty : PInv {} := PInv_init [] [] currentFixes rfl rfl rfl (by intro c hc; cases hc)
theorem HInv_empty : HInv {} := HInv_init [] [] currentFixes rfl (by intro c hc; cases hc)

/-- a new group description (the engine's op `group`) -/
theorem pk_addCfg (w : World) (cfg : GroupCfg) : World.pk { w with cfgs := w.cfgs ++ [cfg] } = w.pk := rfl
theorem PInv_addCfg (w : World) (hi : PInv w) (cfg : GroupCfg) : PInv { w with cfgs := w.cfgs ++ [cfg] } := hi
theorem HInv_addCfg (w : World) (hh : HInv w) (cfg : GroupCfg) : HInv { w with cfgs := w.cfgs ++ [cfg] } := hh

theorem get_append_client {w : World} {c : Client} {j : Nat} {cj : Client}
    (h : (w.clients ++ [c])[j]? = some cj) : w.clients[j]? = some cj ∨ (w.clients[j]? = none ∧ cj = c) := by
  by_cases hlt : j < w.clients.length
  · rw [List.getElem?_append_left hlt] at h; exact Or.inl h
  · rw [List.getElem?_append_right (by omega)] at h
    right
    refine ⟨List.getElem?_eq_none (by omega), ?_⟩
    cases hk : j - w.clients.length with
    | zero => rw [hk] at h; simpa using h.symm
    | succ k => rw [hk] at h; simp at h

/-- a new connection (the engine's op `client`, which creates it in no group): holding the nil slice -/
theorem PInv_addClient (w : World) (hi : PInv w) (c : Client) (hp : c.perms = nilSlice) :
    PInv { w with clients := w.clients ++ [c] } := by
  rw [PInv_iff] at hi ⊢
  obtain ⟨h1, h2, h3, hnm, hmemb⟩ := hi
  refine ⟨h1, h2, h3, ?_, ?_⟩
  · intro j cj hj hgj
    rcases get_append_client hj with h | ⟨_, h⟩
    · exact hnm j cj h hgj
    · rw [h]; exact hp
  · intro g j hm
    obtain ⟨cj, hcj, hgj⟩ := hmemb g j hm
    refine ⟨cj, ?_, hgj⟩
    show (w.clients ++ [c])[j]? = some cj
    rw [List.getElem?_append_left (List.getElem?_eq_some_iff.mp hcj).1]
    exact hcj

theorem HInv_addClient (w : World) (hh : HInv w) (c : Client) (hp : c.perms = nilSlice) :
    HInv { w with clients := w.clients ++ [c] } := by
  have hnil := hh.nilWF
  rw [HInv_iff] at hh ⊢
  obtain ⟨h1, h2, hwf, htwf, hun, htun⟩ := hh
  refine ⟨h1, h2, ?_, htwf, ?_, ?_⟩
  · intro j cj hj
    rcases get_append_client hj with h | ⟨_, h⟩
    · exact hwf j cj h
    · rw [h, hp]; exact hnil
  · intro j k cj ck hj hk hjk he
    rcases get_append_client hj with h | ⟨_, h⟩
    · rcases get_append_client hk with h' | ⟨_, h'⟩
      · exact hun j k cj ck h h' hjk he
      · rw [h', hp] at he; exact he
    · rw [h, hp]; rfl
  · intro j cj t hj ht he
    rcases get_append_client hj with h | ⟨_, h⟩
    · exact htun j cj t h ht he
    · rw [h, hp]; rfl

/-- a new stateful token (a **copy** of the engine's op `tok`): its permission list is allocated -/
def addToken (w : World) (t : Token) (pl : List String) : World :=
  let (h, s) := w.heap.alloc pl
  { w with heap := h, tokens := w.tokens ++ [{ t with perms := s }] }

theorem addToken_step (w : World) (t : Token) (pl : List String) : PK.Step 0 w.pk (addToken w t pl).pk := by
  obtain ⟨ext, hx, hf, _⟩ := alloc_fresh w.heap pl
  have : (addToken w t pl).pk =
      (w.pk.withHeap (w.heap ++ ext)).withTokens (w.tokens ++ [{ t with perms := (w.heap.alloc pl).2 }]) :=
    PK.ext' rfl hx rfl (fun _ => rfl) (fun _ => rfl)
  rw [this]
  refine PK.Step.tokens _ ext _ ?_
  intro t' ht'
  rcases List.mem_append.mp ht' with h | h
  · exact Or.inl ⟨t', h, rfl⟩
  · simp only [List.mem_singleton] at h
    subst h
    exact Or.inr hf

theorem PInv_addToken (w : World) (hi : PInv w) (t : Token) (pl : List String) : PInv (addToken w t pl) :=
  (addToken_step w t pl).core hi
theorem HInv_addToken (w : World) (hh : HInv w) (t : Token) (pl : List String) : HInv (addToken w t pl) :=
  (addToken_step w t pl).heapOK hh

/-! ### the other operations of the test engine leave the skeleton alone

Engine/Sig.lean has a few operations besides client messages, action-loop iterations and drops: the
reset of the crash flag at the start of every op, the schedule choice, the injected store fault,
`hist` (an old chat entry), `addup` (a stream), `mock`/`release` (a test client whose PushClient
blocks; copies `mockJoin`, `releaseParked` in Props/C14World.lean).  None of them touches the
permission skeleton, so both invariants — which are functions of the skeleton — survive them. -/

theorem PInv_of_pk {w w' : World} (h : w'.pk = w.pk) (hi : PInv w) : PInv w' := by
  unfold PInv; rw [h]; exact hi
theorem HInv_of_pk {w w' : World} (h : w'.pk = w.pk) (hh : HInv w) : HInv w' := by
  unfold HInv; rw [h]; exact hh

theorem pk_flags (w : World) (cr sf : Bool) (ch : Nat → Bool) :
    World.pk { w with crashed := cr, storeFault := sf, choice := ch } = w.pk := rfl

theorem pk_hist (w : World) (g : String) (e : History.Entry) :
    (w.modGroup g fun gr => { gr with history := History.add gr.history e }).pk = w.pk :=
  modGroup_pk_same w g _ (fun _ => ⟨rfl, rfl⟩)

theorem pk_addup (w : World) (i : Nat) (u : List (String × String)) :
    (w.modClient i fun c => { c with up := u }).pk = w.pk :=
  modClient_pk_same w i (fun c => { c with up := u }) (fun _ => rfl)

theorem mockJoin_pk (w : World) (gn id : String) : (mockJoin w gn id).pk = w.pk := by
  unfold mockJoin
  split
  · next w1 e h1 =>
    have := addGroup_pk w gn
    rw [h1] at this
    rw [flush_pk]; exact this
  · next w1 h1 =>
    have h1' := addGroup_pk w gn
    rw [h1] at h1'
    split
    · rw [flush_pk]; exact h1'
    · simp only []
      rw [flush_pk, foldl_pk _ _ _ (fun w cc => pushClientTo_pk w cc _),
        modGroup_pk_same _ gn (fun x => { x with members := x.members ++ [Ref.mock id] })
          (fun g => ⟨rfl, by simp [List.filterMap_append]⟩)]
      exact h1'

theorem releaseParked_pk (w : World) (id : String) (k : Nat) : (releaseParked w id k).pk = w.pk := by
  unfold releaseParked
  split
  · rfl
  · split
    · rfl
    · simp only []
      rw [foldl_pk _ _ _ (fun w j => enq_pk w j _)]
      rfl

/-! ### revocation -/

/-- the repair flags do not change along a run -/
theorem C11_world_fix (steps : List WStep) (w0 : World) (h0 : PInv w0) : (wrun w0 steps).fix = w0.fix := by
  induction steps generalizing w0 with
  | nil => rfl
  | cons s r ih =>
    simp only [wrun, List.foldl_cons]
    have := ih _ (PInv_wstep w0 s h0)
    simp only [wrun] at this
    rw [this]
    exact (wstep_step w0 s h0.p10 h0.p18 h0.p19).fix

/-- **C11_world_change_applied.**  Let `w` satisfy the invariants, and let the oldest action queued for
connection `i`, a member of group `g`, be the permission change `kind` (what an operator's
`useraction` op/unop/present/unpresent/shutup/unshutup queues for its target).  After the iteration of
`i`'s action loop that handles it, the permissions `i` holds are exactly the old list with the edit
of `kind` applied (`permEditL`: `addnew`/`remove` of webclient.go on a plain list; `remove` deletes
every occurrence if the repair `removeAll` is in, else the first one) — although the code edits a
shared-capable backing array in place — and the permissions of every other connection are what they
were. -/
theorem C11_world_change_applied (w : World) (hi : PInv w) (hh : HInv w) (i : Nat) (c : Client) (kind : String)
    (rest : List Action) (g : String) (hc : w.clients[i]? = some c) (hq : c.queue = .changePerm kind :: rest)
    (hg : c.group = some g) (l' : List String)
    (hl : permEditL w.fix.removeAll (w.permsOf i) ((w.group? g).any (fun g => g.cfg.allowRecording)) kind = some l') :
    (stepAction w i).1.permsOf i = l' ∧ ∀ j, j ≠ i → (stepAction w i).1.permsOf j = w.permsOf j := by
  refine ⟨?_, fun j hj => C11_world_perms_frame w hi hh (.act i) j hj⟩
  have hpo : w.permsOf i = w.heap.get c.perms := by
    unfold World.permsOf World.client?; rw [hc]
  rw [hpo] at hl
  have hw : w.heap.WF c.perms := hh.wf i c.group c.perms (pk_cl_some hc)
  have hsome : (permEdit w.fix w.heap c.perms ((w.group? g).any (fun g => g.cfg.allowRecording)) kind).isSome = true := by
    rw [permEdit_isSome, hl]; rfl
  obtain ⟨r, hr⟩ := Option.isSome_iff_exists.mp hsome
  have hget := permEdit_get _ _ _ _ _ r hw hr
  rw [hl] at hget
  rw [permsOf_pk, stepAction_changePerm_pk w i c kind rest g hc hq hg r hr]
  have hcl : (w.pk.setPerms i r.1 r.2).cl i = some (some g, r.2) := by
    unfold PK.setPerms
    rw [PK.modCl_cl, if_pos rfl, PK.withHeap_cl, pk_cl_some hc, hg]
    rfl
  rw [hcl]
  exact (Option.some.inj hget).symm

/-- **C11_world_revocation.**  (The full statement; true of today's code since the repair `removeAll`,
391656f.)  Let `w` satisfy the invariants and have the repair `removeAll` (webclient.go's `remove` deletes
every occurrence), and let the oldest action queued for connection `i`, a member of group `g`, be a
permission change that removes permission `p` (`unop` removes `op` and `record`, `unpresent` removes
`present`, `shutup` removes `message`).  After the iteration of `i`'s action loop that handles it, the
connection does not hold `p` — however often `p` occurred in its list — and its permissions are a
sublist of the old ones; so (`conn_perms_eq`, `C11_guard`) every later message of the connection is
judged without `p`.  Without the repair the statement is false:
`C11_world_revocation_false_duplicate`. -/
theorem C11_world_revocation (w : World) (hi : PInv w) (hh : HInv w) (hra : w.fix.removeAll = true) (i : Nat)
    (c : Client) (kind : String) (rest : List Action) (g : String) (hc : w.clients[i]? = some c)
    (hq : c.queue = .changePerm kind :: rest) (hg : c.group = some g) (p : String)
    (hk : (kind = "unop" ∧ (p = "op" ∨ p = "record")) ∨ (kind = "unpresent" ∧ p = "present") ∨
      (kind = "shutup" ∧ p = "message")) :
    p ∉ (stepAction w i).1.permsOf i ∧ ((stepAction w i).1.permsOf i).Sublist (w.permsOf i) := by
  have key : ∀ l', permEditL true (w.permsOf i) ((w.group? g).any (fun g => g.cfg.allowRecording)) kind = some l' →
      (stepAction w i).1.permsOf i = l' :=
    fun l' hl => (C11_world_change_applied w hi hh i c kind rest g hc hq hg l' (by rw [hra]; exact hl)).1
  have hrm : ∀ (v : String) (l : List String), removeL true v l = l.filter (· ≠ v) := fun v l => rfl
  rcases hk with ⟨rfl, hp⟩ | ⟨rfl, rfl⟩ | ⟨rfl, rfl⟩
  · rw [key _ rfl, hrm, hrm]
    refine ⟨?_, (List.filter_sublist).trans List.filter_sublist⟩
    intro hm
    rcases hp with rfl | rfl
    · have := (List.mem_filter.mp (List.mem_filter.mp hm).1).2
      simp at this
    · have := (List.mem_filter.mp hm).2
      simp at this
  · rw [key _ rfl, hrm]
    exact ⟨fun hm => by simpa using (List.mem_filter.mp hm).2, List.filter_sublist⟩
  · rw [key _ rfl, hrm]
    exact ⟨fun hm => by simpa using (List.mem_filter.mp hm).2, List.filter_sublist⟩

/-- **C11_world_revocation in every reachable world**: the same for any world reached from one that
satisfies the invariants and has the repair `removeAll` (`currentFixes` has it), by any schedule of
messages, action-loop iterations and drops. -/
theorem C11_world_revocation_run (w0 : World) (h0 : PInv w0) (hh0 : HInv w0) (hra : w0.fix.removeAll = true)
    (steps : List WStep) (i : Nat) (c : Client) (kind : String) (rest : List Action) (g : String)
    (hc : (wrun w0 steps).clients[i]? = some c) (hq : c.queue = .changePerm kind :: rest) (hg : c.group = some g)
    (p : String)
    (hk : (kind = "unop" ∧ (p = "op" ∨ p = "record")) ∨ (kind = "unpresent" ∧ p = "present") ∨
      (kind = "shutup" ∧ p = "message")) :
    p ∉ (stepAction (wrun w0 steps) i).1.permsOf i :=
  (C11_world_revocation _ (C11_world_heap_inv steps w0 h0 hh0).1 (C11_world_heap_inv steps w0 h0 hh0).2
    (by rw [C11_world_fix steps w0 h0]; exact hra) i c kind rest g hc hq hg p hk).1

/-- **C11_world_revocation_partial** (what holds **whether or not** the repair `removeAll` is in, in
particular of the code before 391656f, where the full statement is false:
`C11_world_revocation_false_duplicate`).  Added hypothesis: `p` occurs at most once in the connection's
current list.  In the situation of `C11_world_change_applied`, if the action removes `p`, then after the
iteration of the action loop the connection's permissions are a sublist of the old ones, and if `p`
occurred at most once the connection no longer holds `p`.  (Before the repair exactly one occurrence
is erased: `C11_world_change_applied` with `removeL false = List.erase`.) -/
theorem C11_world_revocation_partial (w : World) (hi : PInv w) (hh : HInv w) (i : Nat) (c : Client) (kind : String)
    (rest : List Action) (g : String) (hc : w.clients[i]? = some c) (hq : c.queue = .changePerm kind :: rest)
    (hg : c.group = some g) (p : String)
    (hk : (kind = "unop" ∧ (p = "op" ∨ p = "record")) ∨ (kind = "unpresent" ∧ p = "present") ∨
      (kind = "shutup" ∧ p = "message")) :
    ((stepAction w i).1.permsOf i).Sublist (w.permsOf i) ∧
    ((w.permsOf i).count p ≤ 1 → p ∉ (stepAction w i).1.permsOf i) := by
  cases hra : w.fix.removeAll with
  | true =>
    obtain ⟨h1, h2⟩ := C11_world_revocation w hi hh hra i c kind rest g hc hq hg p hk
    exact ⟨h2, fun _ => h1⟩
  | false =>
    have key : ∀ l', permEditL false (w.permsOf i) ((w.group? g).any (fun g => g.cfg.allowRecording)) kind = some l' →
        (stepAction w i).1.permsOf i = l' :=
      fun l' hl => (C11_world_change_applied w hi hh i c kind rest g hc hq hg l' (by rw [hra]; exact hl)).1
    have hrm : ∀ (v : String) (l : List String), removeL false v l = l.erase v := fun v l => rfl
    have hnot : ∀ (l : List String) (q : String), l.count q = 0 → q ∉ l := fun l q h => List.count_eq_zero.mp h
    rcases hk with ⟨rfl, hp⟩ | ⟨rfl, rfl⟩ | ⟨rfl, rfl⟩
    · rw [key _ rfl, hrm, hrm]
      refine ⟨(List.erase_sublist.trans List.erase_sublist), fun hcnt => hnot _ _ ?_⟩
      rcases hp with rfl | rfl
      · rw [List.count_erase_of_ne (by decide), List.count_erase_self]; omega
      · rw [List.count_erase_self, List.count_erase_of_ne (by decide)]; omega
    · rw [key _ rfl, hrm]
      exact ⟨List.erase_sublist, fun hcnt => hnot _ _ (by rw [List.count_erase_self]; omega)⟩
    · rw [key _ rfl, hrm]
      exact ⟨List.erase_sublist, fun hcnt => hnot _ _ (by rw [List.count_erase_self]; omega)⟩

/-- **C11_world_revocation_closes_streams.**  When the action loop of a member that does not hold
`present` handles the `permChanged` action (which every permission change queues behind itself), all
its up connections are closed: afterwards its list of streams is empty.  (No invariant is needed.) -/
theorem C11_world_revocation_closes_streams (w : World) (i : Nat) (c : Client) (rest : List Action) (gr : Group)
    (hc : w.clients[i]? = some c) (hq : c.queue = .permChanged :: rest) (hgr : c.group.bind w.group? = some gr)
    (hp : "present" ∉ w.permsOf i) : ((stepAction w i).1.clients[i]?).map (·.up) = some [] := by
  have hc1 : (w.modClient i (fun c => { c with queue := rest })).clients[i]? = some { c with queue := rest } := by
    rw [modClient_get, if_pos rfl, hc]; rfl
  have hp1 : "present" ∉ (w.modClient i (fun c => { c with queue := rest })).heap.get ({ c with queue := rest } : Client).perms := by
    have : w.permsOf i = w.heap.get c.perms := by unfold World.permsOf World.client?; rw [hc]
    rw [this] at hp; exact hp
  obtain ⟨hup, herr⟩ := handleAction_permChanged_up _ i _ gr hc1 hgr hp1
  show upOf (stepAction w i).1 i = some []
  rw [stepAction_cons w i c _ rest hc hq]
  split_ifs
  · exact hup
  · rw [herr]
    simp only []
    rw [upOf_flush]; exact hup

/-! ### the repairs are needed: counterexamples on the world model

Each run starts from a world that satisfies every other part of the invariants (`cx_init`: the same
world with `currentFixes` satisfies `PInv` and `HInv`), and uses only steps of the step language. -/

/-- group g1 (operator alice, presenter bob, both with password "pw"), three connections -/
def cxW (fx : Fixes) : World := { cfgs := [cfgG1], clients := [{ id := "c0" }, { id := "c1" }, { id := "c2" }], fix := fx }

theorem cx_init : PInv (cxW currentFixes) ∧ HInv (cxW currentFixes) :=
  ⟨PInv_init _ _ _ rfl rfl rfl (by decide), HInv_init _ _ _ rfl (by decide)⟩

def lockMsg : Msg := { type := "groupaction", kind := "lock" }
def leaveMsg : Msg := { type := "join", kind := "leave", group := "g1" }
/-- a moderation action -/
def modMsg (kind dest : String) : Msg := { type := "useraction", kind := kind, dest := dest }
/-- `maketoken` for g1 with the permission list `pl` -/
def mkTokMsg (pl : List String) : Msg := { type := "groupaction", kind := "maketoken", value := .map [("expires", .str futureLit), ("group", .str "g1"), ("permissions", .list pl)] }
/-- `join` with a token -/
def joinWith (u tok : String) : Msg := { type := "join", kind := "join", group := "g1", username := some u, token := tok }

/-- **P10** (without the repair): alice joins and locks the group; bob's join is answered `fail`, and his
connection is left with `present`, `message` while its `group` field is nil. -/
theorem C11_world_false_refused :
    let w := wrun (cxW { currentFixes with p10 := false }) [.msg 0 (joinAs "alice"), .msg 0 lockMsg, .msg 1 (joinAs "bob")]
    (w.clients[1]?).map (·.group) = some none ∧ w.permsOf 1 = ["present", "message"] := by decide

/-- the same run with the repair -/
example :
    let w := wrun (cxW currentFixes) [.msg 0 (joinAs "alice"), .msg 0 lockMsg, .msg 1 (joinAs "bob")]
    (w.clients[1]?).map (·.group) = some none ∧ w.permsOf 1 = [] := by decide

/-- **P18** (without the repair): the join to a group that redirects is answered `redirect`, and the
connection is a member — holding the operator's permissions — whose `group` field is nil. -/
theorem C11_world_false_redirect :
    let w := wrun (wRedirect { currentFixes with p18 := false }) [.msg 0 (joinAs "alice")]
    (w.clients[0]?).map (·.group) = some none ∧ "op" ∈ w.permsOf 0 ∧
      (w.group? "g1").map (·.members) = some [Ref.web 0] := by decide

/-- **P19** (without the repair): alice makes bob an operator, bob leaves before his action loop has
run; when it runs, the stale permission change is applied to the connection that is in no group:
it holds `op`. -/
theorem C11_world_false_stale_change :
    let w := wrun (cxW { currentFixes with p19 := false })
      [.msg 0 (joinAs "alice"), .msg 1 (joinAs "bob"), .msg 0 (modMsg "op" "c1"), .msg 1 leaveMsg,
       .act 1, .act 1, .act 1, .act 1]
    (w.clients[1]?).map (·.group) = some none ∧ w.permsOf 1 = ["op"] ∧ w.crashed = false := by decide

/-- the same run with the repair -/
example :
    let w := wrun (cxW currentFixes)
      [.msg 0 (joinAs "alice"), .msg 1 (joinAs "bob"), .msg 0 (modMsg "op" "c1"), .msg 1 leaveMsg,
       .act 1, .act 1, .act 1, .act 1]
    (w.clients[1]?).map (·.group) = some none ∧ w.permsOf 1 = [] := by decide

/-- alice mints a token for `present`, `message`; tim and tom join with it; alice silences tim and
then makes him an operator; tim's action loop runs -/
def cxTokenRun (fx : Fixes) : World :=
  wrun (cxW fx)
    [.msg 0 (joinAs "alice"), .msg 0 (mkTokMsg ["present", "message"]), .msg 1 (joinWith "tim" "R1"),
     .msg 2 (joinWith "tom" "R1"), .msg 0 (modMsg "shutup" "c1"), .msg 0 (modMsg "op" "c1"),
     .act 1, .act 1, .act 1, .act 1, .act 1, .act 1]

/-- **tokClone** (without the repair): tim and tom share the token's backing array, and the moderation
of tim makes tom — whom nobody touched — an operator. -/
theorem C11_world_unshared_false_token :
    let w := cxTokenRun { currentFixes with tokClone := false }
    (w.clients[1]?).map (·.perms.arr) = (w.clients[2]?).map (·.perms.arr) ∧
      (w.clients[1]?).map (·.perms.arr) ≠ some 0 ∧
      w.permsOf 1 = ["present", "op"] ∧ w.permsOf 2 = ["present", "op"] := by decide

/-- the same run with the repair -/
example :
    let w := cxTokenRun currentFixes
    (w.clients[1]?).map (·.perms.arr) ≠ (w.clients[2]?).map (·.perms.arr) ∧
      w.permsOf 1 = ["present", "op"] ∧ w.permsOf 2 = ["present", "message"] := by decide

/-- the run of the duplicate-permission defect: alice (who holds `present` and `token`) mints a token
whose list is `present, present`; tim joins with it; alice revokes `present` (`unpresent`); tim's action
loop handles the change, the notification and the announcement -/
def dupRun : List WStep :=
  [.msg 0 (joinAs "alice"), .msg 0 (mkTokMsg ["present", "present"]), .msg 1 (joinWith "tim" "R1"),
   .msg 0 (modMsg "unpresent" "c1"), .act 1, .act 1, .act 1, .act 1, .act 1, .act 1]

/-- **C11_world_revocation_false_duplicate** (the code before 391656f: every repair in except
`removeAll`; within the step language).  Without `removeAll`, "a revoked permission is enforced from the
moment the affected client has been notified" is false: webclient.go's `remove` deleted the **first**
occurrence only, and nothing removes duplicates from a permission list.  After `dupRun` tim still holds
`present`, and that is what he and the others are told. -/
theorem C11_world_revocation_false_duplicate :
    let w := wrun (cxW { currentFixes with removeAll := false }) dupRun
    (w.clients[1]?).map (·.group) = some (some "g1") ∧ (w.clients[1]?).map (·.queue) = some [] ∧
      w.permsOf 1 = ["present"] ∧
      (written w 1).map (fun m => (m.type, m.kind, m.perms)) =
        [("joined", "join", ["present", "present"]), ("user", "add", ["present", "present"]),
         ("user", "add", ["op", "present", "message", "caption", "token"]),
         ("joined", "change", ["present"]), ("user", "change", ["present"])] := by
  decide

/-- the same run on today's code (`remove` deletes every occurrence): tim holds nothing -/
theorem C11_world_revocation_duplicate_fixed :
    let w := wrun (cxW currentFixes) dupRun
    (w.clients[1]?).map (·.group) = some (some "g1") ∧ (w.clients[1]?).map (·.queue) = some [] ∧
      w.permsOf 1 = [] ∧
      (written w 1).map (fun m => (m.type, m.kind, m.perms)) =
        [("joined", "join", ["present", "present"]), ("user", "add", ["present", "present"]),
         ("user", "add", ["op", "present", "message", "caption", "token"]),
         ("joined", "change", []), ("user", "change", [])] := by
  decide

/-! ### non-vacuity

One group, three connections, today's code.  alice (operator) joins and locks the group; bob's join is
refused; alice unlocks; bob joins; alice mints a token, tim joins with it; alice silences bob and makes
him an operator, bob's action loop runs (the in-place edits happen); bob sends an `offer`, a chat message
and leaves; alice kicks tim, whose action loop runs the close sequence; alice drops. -/

def exRun : List WStep :=
  [.msg 0 (joinAs "alice"), .msg 0 lockMsg, .msg 1 (joinAs "bob"), .msg 0 { type := "groupaction", kind := "unlock" },
   .msg 1 (joinAs "bob"), .msg 0 (mkTokMsg ["present", "message"]), .msg 2 (joinWith "tim" "R1"),
   .msg 0 (modMsg "shutup" "c1"), .msg 0 (modMsg "op" "c1"),
   .act 1, .act 1, .act 1, .act 1, .act 1, .act 1, .act 1,
   .msg 1 { type := "offer", id := "s1" }, .msg 1 { type := "chat", value := .sc (.str "hello") }]

def exRun2 : List WStep :=
  exRun ++ [.msg 1 leaveMsg, .msg 0 { type := "useraction", kind := "kick", dest := "c2" },
   .act 2, .act 2, .act 2, .act 2, .act 2, .act 2, .act 2, .drop 0]

set_option maxRecDepth 20000 in
/-- the hypotheses of the main theorems hold of `cxW currentFixes` (`cx_init`), and in the middle of the
run the world is not trivial: three members, bob's list has been edited in place … -/
example :
    let w := wrun (cxW currentFixes) exRun
    (w.group? "g1").map (·.members) = some [.web 0, .web 1, .web 2] ∧
    w.permsOf 0 = ["op", "present", "message", "caption", "token"] ∧ w.permsOf 1 = ["present", "op"] ∧
    w.permsOf 2 = ["present", "message"] ∧ w.tokens.length = 1 ∧ w.crashed = false := by decide

set_option maxRecDepth 20000 in
/-- … and at the end all three connections are in no group: one left, one was kicked, one dropped -/
example :
    let w := wrun (cxW currentFixes) exRun2
    w.clients.map (·.group) = [none, none, none] ∧ w.clients.map (·.alive) = [false, true, false] ∧
    (w.group? "g1").map (·.members) = some [] := by decide

set_option maxRecDepth 20000 in
/-- `C11_world_nonmember_holds_none` applied to the run: bob, who was an operator, holds nothing -/
example : (wrun (cxW currentFixes) exRun2).permsOf 1 = [] := by
  have h : ((wrun (cxW currentFixes) exRun2).clients[1]?).map (·.group) = some none := by decide
  cases hc : (wrun (cxW currentFixes) exRun2).clients[1]? with
  | none => rw [hc] at h; cases h
  | some c =>
    rw [hc] at h
    exact (C11_world_nonmember_holds_none _ cx_init.1 exRun2 1 c hc (by simpa using h)).1

set_option maxRecDepth 20000 in
/-- `C11_world_nonmember_refused` applied to the run: whatever bob sends now is harmless -/
example (m : Msg) :
    ∀ e ∈ handle ((wrun (cxW currentFixes) exRun2).conn 1) ((wrun (cxW currentFixes) exRun2).env 1) m, e.harmless = true :=
  (C11_world_nonmember_refused _ cx_init.1 exRun2 1 m (by decide)).1

set_option maxRecDepth 20000 in
/-- `C11_world_perms_unshared` applied in the middle of the run: bob's and tim's slices lie in different
arrays (and are not in array 0) -/
example :
    ((wrun (cxW currentFixes) exRun).clients[1]?).map (·.perms.arr) ≠ ((wrun (cxW currentFixes) exRun).clients[2]?).map (·.perms.arr) ∧
    ((wrun (cxW currentFixes) exRun).clients[1]?).map (·.perms.arr) ≠ some 0 := by decide

/-- the hypothesis of `C11_world_join_grants` holds of the first step of the run, and it is the second
alternative of its conclusion that holds -/
example :
    handle ((cxW currentFixes).conn 0) ((cxW currentFixes).env 0) (joinAs "alice") =
      [.join "g1" { username := some "alice", password := "pw" } []] ∧
    (handleMsg (cxW currentFixes) 0 (joinAs "alice")).permsOf 0 = ["op", "present", "message", "caption", "token"] := by
  decide

/-- the hypotheses of `C11_world_change_applied`/`C11_world_revocation_partial` are satisfiable: alice and bob in
g1, alice has revoked bob's `present`, bob's action loop has reached the change -/
def exW2 : World :=
  wrun (cxW currentFixes) [.msg 0 (joinAs "alice"), .msg 1 (joinAs "bob"), .msg 0 (modMsg "unpresent" "c1"), .act 1, .act 1, .act 1]

theorem exW2_inv : PInv exW2 ∧ HInv exW2 := C11_world_heap_inv _ _ cx_init.1 cx_init.2

example :
    (exW2.clients[1]?).map (fun c => (c.group, c.queue)) = some (some "g1", [.changePerm "unpresent"]) ∧
    exW2.permsOf 1 = ["present", "message"] := by decide

/-- `C11_world_revocation_partial` applied: after the next iteration bob does not hold `present` -/
example : "present" ∉ (stepAction exW2 1).1.permsOf 1 := by
  have h : (exW2.clients[1]?).map (fun c => (c.group, c.queue)) = some (some "g1", [.changePerm "unpresent"]) := by decide
  cases hc : exW2.clients[1]? with
  | none => rw [hc] at h; cases h
  | some c =>
    rw [hc] at h
    simp only [Option.map_some, Option.some.injEq, Prod.mk.injEq] at h
    exact (C11_world_revocation_partial exW2 exW2_inv.1 exW2_inv.2 1 c "unpresent" [] "g1" hc h.2 h.1 "present"
      (Or.inr (Or.inl ⟨rfl, rfl⟩))).2 (by decide)

/-- `C11_world_revocation_run` applied to a list **with duplicates**: in the run of the former defect, at
the point where tim's action loop has reached the change, tim holds `present` twice; after the next
iteration he does not hold it -/
example :
    ((wrun (cxW currentFixes) (dupRun.take 7)).clients[1]?).map (fun c => (c.group, c.queue)) =
      some (some "g1", [.changePerm "unpresent"]) ∧
    (wrun (cxW currentFixes) (dupRun.take 7)).permsOf 1 = ["present", "present"] := by decide

example : "present" ∉ (stepAction (wrun (cxW currentFixes) (dupRun.take 7)) 1).1.permsOf 1 := by
  have h : ((wrun (cxW currentFixes) (dupRun.take 7)).clients[1]?).map (fun c => (c.group, c.queue)) =
      some (some "g1", [.changePerm "unpresent"]) := by decide
  cases hc : (wrun (cxW currentFixes) (dupRun.take 7)).clients[1]? with
  | none => rw [hc] at h; cases h
  | some c =>
    rw [hc] at h
    simp only [Option.map_some, Option.some.injEq, Prod.mk.injEq] at h
    exact C11_world_revocation_run (cxW currentFixes) cx_init.1 cx_init.2 rfl (dupRun.take 7) 1 c "unpresent" [] "g1"
      hc h.2 h.1 "present" (Or.inr (Or.inl ⟨rfl, rfl⟩))

/-- the hypotheses of `C11_world_revocation_closes_streams` are satisfiable (the stream is put there by a
**copy** of the engine's op `addup`; the model does not carry out SDP negotiations), and its conclusion
holds of the run -/
example :
    let w := ((stepAction exW2 1).1).modClient 1 (fun c => { c with up := [("s1", "")] })
    (w.clients[1]?).map (fun c => (c.group, c.queue, c.up)) = some (some "g1", [.permChanged], [("s1", "")]) ∧
    "present" ∉ w.permsOf 1 ∧ ((stepAction w 1).1.clients[1]?).map (·.up) = some [] := by decide

end Galene.Sig
