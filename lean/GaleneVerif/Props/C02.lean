import GaleneVerif.Lemmas.CodecsRewrite
import GaleneVerif.Lemmas.CodecsClosed
import GaleneVerif.Lemmas.CodecsRel
/-
C02 (codec-level part) — a forwarded media packet has the same length, timestamp
and payload bytes as the packet the publisher sent; the server changes only the
sequence number, the marker bit (only ever set) and, for VP8, the picture-id
field (new id = old id + delta modulo the 7- or 15-bit id space).

The statements are about `rewritePacket` (model of codecs.RewritePacket, the only
function of the forwarding path that writes into a packet buffer), for ALL byte
lists, codec strings, marker flags, sequence numbers and deltas.  No `< 256`
hypothesis on the bytes is needed (it appears only in `C02_rewrite_pid`, to say that
the old id is below 128 / 32768).

Main theorems: `C02_rewrite_length`, `C02_rewrite_total`, `C02_rewrite_frame`
(+ `_any_status`, `_timestamp_ssrc`, `_marker_only_set`, `_non_vp8`),
`C02_rewrite_idempotent_seq`, `C02_rewrite_pid15` / `_pid7` / `_pid` / `_pid15_decoded`,
and, against the independent parsers rtp.Packet.Unmarshal / VP8Packet.Unmarshal,
`C02_rewrite_rtp`, `C02_rewrite_payload_same`, `C02_rewrite_pid_parsed`,
`C02_rewrite_nopid_parsed` (all header shapes: CSRCs, extension, padding), and the
summary for the forwarding path `C02_forward_vp8`.

Vocabulary (defined in Lemmas/CodecsRewrite.lean):
`payloadOffset d` = 12 + 4*CC (+ 4 + 4*extlen when the X bit is set), the offset
at which RewritePacket looks for the VP8 payload descriptor;
`pidOffsets c d δ` = the offsets of the picture-id bytes: `[]` when δ = 0, when the
codec is not VP8, or when the descriptor has X = 0 or I = 0; `[o+2]` when M = 0 and
`[o+2, o+3]` when M = 1, where `o = payloadOffset d`.
-/
namespace Galene.Props.C02
open Galene.Codecs

theorem rewrite_short {c : String} {d : Bytes} {mk : Bool} {n δ : Nat} (h : d.length < 12) :
    rewritePacket c d mk n δ = (d, .err) := by
  unfold rewritePacket; simp [h]

/-- C02.1: RewritePacket never changes the length of the packet, whatever status it returns. -/
theorem C02_rewrite_length (c : String) (d : Bytes) (mk : Bool) (n δ : Nat) :
    (rewritePacket c d mk n δ).1.length = d.length := by
  by_cases hl : d.length < 12
  · rw [rewrite_short hl]
  · have := rewrite_cases c d mk n δ (by omega)
    generalize rewritePacket c d mk n δ = r at this
    cases this <;> simp [setByte, hdr_length]

/-- C02.2: RewritePacket never indexes out of range: for every byte list (of any length and with any
contents), codec string and arguments the status is `ok` or `err`, never `panic`. -/
theorem C02_rewrite_total (c : String) (d : Bytes) (mk : Bool) (n δ : Nat) :
    (rewritePacket c d mk n δ).2 ≠ .panic := by
  by_cases hl : d.length < 12
  · rw [rewrite_short hl]; simp
  · have := rewrite_cases c d mk n δ (by omega)
    generalize rewritePacket c d mk n δ = r at this
    cases this with
    | same s hs _ => exact hs
    | pid15 => simp
    | pid7 => simp

/-- a successful rewrite implies the packet had at least the 12-byte fixed header -/
theorem rewrite_ok_length {c : String} {d d' : Bytes} {mk : Bool} {n δ : Nat}
    (hr : rewritePacket c d mk n δ = (d', .ok)) : 12 ≤ d.length := by
  apply Classical.byContradiction
  intro hl
  rw [rewrite_short (by omega)] at hr
  cases hr

/-- outside the picture-id offsets the result (for every status) is the header-edited packet -/
theorem rewrite_frame_core {c : String} {d d' : Bytes} {mk : Bool} {n δ : Nat} {s : Status}
    (hr : rewritePacket c d mk n δ = (d', s)) (hl : 12 ≤ d.length) {i : Nat}
    (hi : i ∉ pidOffsets c d δ) : d'[i]? = (hdr d mk n)[i]? := by
  have := rewrite_cases c d mk n δ hl
  rw [hr] at this
  generalize hds : (d', s) = r at this
  cases this with
  | same s' _ _ => cases hds; rfl
  | pid15 x2 x3 hp _ _ =>
    cases hds
    rw [pidOffsets_hdr, payloadOffset_hdr] at hp
    rw [hp] at hi
    simp only [List.mem_cons, List.not_mem_nil, or_false, not_or] at hi
    simp only [setByte, payloadOffset_hdr]
    rw [List.getElem?_set_ne (Ne.symm hi.2), List.getElem?_set_ne (Ne.symm hi.1)]
  | pid7 x2 hp _ =>
    cases hds
    rw [pidOffsets_hdr, payloadOffset_hdr] at hp
    rw [hp] at hi
    simp only [List.mem_cons, List.not_mem_nil, or_false] at hi
    simp only [setByte, payloadOffset_hdr]
    rw [List.getElem?_set_ne (Ne.symm hi)]

/-- C02.3 (frame, for every status): whatever RewritePacket returns, every byte other than bytes
1, 2, 3 and the VP8 picture-id bytes is left exactly as the publisher sent it. -/
theorem C02_rewrite_frame_any_status {c : String} {d d' : Bytes} {mk : Bool} {n δ : Nat} {s : Status}
    (hr : rewritePacket c d mk n δ = (d', s)) {i : Nat}
    (h1 : i ≠ 1) (h2 : i ≠ 2) (h3 : i ≠ 3) (hi : i ∉ pidOffsets c d δ) : d'[i]? = d[i]? := by
  by_cases hl : d.length < 12
  · rw [rewrite_short hl] at hr; cases hr; rfl
  · rw [rewrite_frame_core hr (by omega) hi, hdr_getElem?_other d mk n h1 h2 h3]

/-- C02.3: if RewritePacket succeeds with buffer `d'`, then
* every byte whose index is not 1, 2, 3 or one of the picture-id offsets `pidOffsets c d δ` is
  unchanged (in particular bytes 4..11 = timestamp and SSRC, the CSRCs, the header extension and
  all payload bytes other than the picture id);
* byte 1 is `d[1] ||| 0x80` if `setMarker` and `d[1]` otherwise (only bit 7 can change, only 0 → 1);
* bytes 2, 3 are the big-endian 16-bit sequence number `n`. -/
theorem C02_rewrite_frame {c : String} {d d' : Bytes} {mk : Bool} {n δ : Nat}
    (hr : rewritePacket c d mk n δ = (d', .ok)) :
    (∀ i, i ≠ 1 → i ≠ 2 → i ≠ 3 → i ∉ pidOffsets c d δ → d'[i]? = d[i]?) ∧
    d'[1]? = (if mk then d[1]?.map (· ||| 0x80) else d[1]?) ∧
    d'[2]? = some (n / 256 % 256) ∧
    d'[3]? = some (n % 256) := by
  have hl := rewrite_ok_length hr
  have hno : ∀ k, k < 14 → k ∉ pidOffsets c d δ := fun k hk hm => by
    have := pidOffsets_ge hm; omega
  refine ⟨fun i h1 h2 h3 hi => C02_rewrite_frame_any_status hr h1 h2 h3 hi, ?_, ?_, ?_⟩
  · rw [rewrite_frame_core hr hl (hno 1 (by decide)), hdr_getElem?_1]
  · rw [rewrite_frame_core hr hl (hno 2 (by decide)), hdr_getElem?_2 d mk n hl]
  · rw [rewrite_frame_core hr hl (hno 3 (by decide)), hdr_getElem?_3 d mk n hl]

/-- C02.3, header fields: byte 0 (V, P, X, CC) and bytes 4..11 (timestamp, SSRC) are never changed -/
theorem C02_rewrite_timestamp_ssrc {c : String} {d d' : Bytes} {mk : Bool} {n δ : Nat} {s : Status}
    (hr : rewritePacket c d mk n δ = (d', s)) {i : Nat} (hi : i = 0 ∨ (4 ≤ i ∧ i < 12)) :
    d'[i]? = d[i]? := by
  apply C02_rewrite_frame_any_status hr (by omega) (by omega) (by omega)
  intro hm
  have := pidOffsets_ge hm; omega

/-- C02.3, marker bit: byte 1 keeps its low seven bits (payload type) and never decreases: the marker
bit can only go from 0 to 1, and only when `setMarker` is true. -/
theorem C02_rewrite_marker_only_set {c : String} {d d' : Bytes} {mk : Bool} {n δ : Nat}
    (hr : rewritePacket c d mk n δ = (d', .ok)) :
    ∃ x y, d[1]? = some x ∧ d'[1]? = some y ∧ y % 128 = x % 128 ∧ x ≤ y ∧
      (y = x ∨ (mk = true ∧ y = x ||| 0x80)) := by
  have hl := rewrite_ok_length hr
  have h1 := (C02_rewrite_frame hr).2.1
  have hx : d[1]? = some (d[1]'(by omega)) := List.getElem?_eq_getElem _
  cases mk with
  | false =>
    simp only [Bool.false_eq_true, if_false] at h1
    rw [hx] at h1
    exact ⟨_, _, hx, h1, rfl, Nat.le_refl _, Or.inl rfl⟩
  | true =>
    simp only [if_true] at h1
    rw [hx] at h1
    exact ⟨_, _, hx, h1, or_128_mod _, Nat.left_le_or, Or.inr ⟨rfl, rfl⟩⟩

/-- C02.3, other codecs: for any codec other than VP8 nothing after byte 3 is changed. -/
theorem C02_rewrite_non_vp8 {c : String} {d d' : Bytes} {mk : Bool} {n δ : Nat} {s : Status}
    (hc : isCodec c "video/vp8" = false)
    (hr : rewritePacket c d mk n δ = (d', s)) {i : Nat} (hi : 4 ≤ i) : d'[i]? = d[i]? := by
  apply C02_rewrite_frame_any_status hr (by omega) (by omega) (by omega)
  simp [pidOffsets, hc]

/-- C02.5: with delta = 0 and setMarker = false only the sequence-number bytes 2 and 3 may differ. -/
theorem C02_rewrite_idempotent_seq {c : String} {d d' : Bytes} {n : Nat} {s : Status}
    (hr : rewritePacket c d false n 0 = (d', s)) {i : Nat} (h2 : i ≠ 2) (h3 : i ≠ 3) :
    d'[i]? = d[i]? := by
  by_cases h1 : i = 1
  · subst h1
    by_cases hl : d.length < 12
    · rw [rewrite_short hl] at hr; cases hr; rfl
    · rw [rewrite_frame_core hr (by omega) (by simp [pidOffsets]), hdr_getElem?_1]
      simp
  · exact C02_rewrite_frame_any_status hr h1 h2 h3 (by simp [pidOffsets])

/-! ### the VP8 picture id -/

theorem lt_length_of_getElem? {l : List Nat} {i x : Nat} (h : l[i]? = some x) : i < l.length := by
  apply Classical.byContradiction
  intro hn
  rw [List.getElem?_eq_none (by omega)] at h
  cases h

/-- the result of a successful rewrite when a 15-bit picture id is present, in terms of `hdr` -/
theorem rewrite_pid15_core {c : String} {d d' : Bytes} {mk : Bool} {n δ : Nat}
    (hr : rewritePacket c d mk n δ = (d', .ok))
    (hp : pidOffsets c d δ = [payloadOffset d + 2, payloadOffset d + 3]) :
    ∃ x2 x3, d[payloadOffset d + 2]? = some x2 ∧ d[payloadOffset d + 3]? = some x3 ∧
      d' = ((hdr d mk n).set (payloadOffset d + 2)
              (0x80 ||| (((x2 % 128) * 256 + x3 + δ) % 32768 / 256 % 128))).set
            (payloadOffset d + 3) (((x2 % 128) * 256 + x3 + δ) % 32768 % 256) := by
  have hl := rewrite_ok_length hr
  have hge := payloadOffset_ge d
  have := rewrite_cases c d mk n δ hl
  rw [hr] at this
  generalize hds : (d', Status.ok) = r at this
  cases this with
  | same s' _ hp' =>
    cases hds
    rw [pidOffsets_hdr, hp] at hp'
    exact absurd (hp' rfl) (by simp)
  | pid7 x2 hp' _ =>
    rw [pidOffsets_hdr, payloadOffset_hdr, hp] at hp'
    simp at hp'
  | pid15 x2 x3 _ h2 h3 =>
    cases hds
    rw [payloadOffset_hdr] at h2 h3
    rw [hdr_getElem?_other d mk n (by omega) (by omega) (by omega)] at h2 h3
    exact ⟨x2, x3, h2, h3, by simp only [setByte, bor, payloadOffset_hdr]⟩

/-- the result of a successful rewrite when a 7-bit picture id is present, in terms of `hdr` -/
theorem rewrite_pid7_core {c : String} {d d' : Bytes} {mk : Bool} {n δ : Nat}
    (hr : rewritePacket c d mk n δ = (d', .ok))
    (hp : pidOffsets c d δ = [payloadOffset d + 2]) :
    ∃ x2, d[payloadOffset d + 2]? = some x2 ∧
      d' = (hdr d mk n).set (payloadOffset d + 2) ((x2 + δ) % 128) := by
  have hl := rewrite_ok_length hr
  have hge := payloadOffset_ge d
  have := rewrite_cases c d mk n δ hl
  rw [hr] at this
  generalize hds : (d', Status.ok) = r at this
  cases this with
  | same s' _ hp' =>
    cases hds
    rw [pidOffsets_hdr, hp] at hp'
    exact absurd (hp' rfl) (by simp)
  | pid15 x2 x3 hp' _ _ =>
    rw [pidOffsets_hdr, payloadOffset_hdr, hp] at hp'
    simp at hp'
  | pid7 x2 _ h2 =>
    cases hds
    rw [payloadOffset_hdr] at h2
    rw [hdr_getElem?_other d mk n (by omega) (by omega) (by omega)] at h2
    refine ⟨x2, h2, ?_⟩
    simp only [setByte, payloadOffset_hdr]
    congr 1
    omega

/-- C02.4 (M = 1): for VP8 with a picture id present (X = 1, I = 1) and the M bit set, a successful
rewrite with δ ≠ 0 replaces the two id bytes by the big-endian encoding, with the M bit still set, of
`pid = (old15 + δ) % 32768` where `old15 = (d[o+2] % 128) * 256 + d[o+3]`. -/
theorem C02_rewrite_pid15 {c : String} {d d' : Bytes} {mk : Bool} {n δ : Nat}
    (hr : rewritePacket c d mk n δ = (d', .ok)) (hδ : δ ≠ 0) (hc : isCodec c "video/vp8" = true)
    (hX : bit (d.getD (payloadOffset d) 0) 0x80 = true)
    (hI : bit (d.getD (payloadOffset d + 1) 0) 0x80 = true)
    (hM : bit (d.getD (payloadOffset d + 2) 0) 0x80 = true) :
    ∃ x2 x3, d[payloadOffset d + 2]? = some x2 ∧ d[payloadOffset d + 3]? = some x3 ∧
      d'[payloadOffset d + 2]? = some (0x80 ||| (((x2 % 128) * 256 + x3 + δ) % 32768 / 256 % 128)) ∧
      d'[payloadOffset d + 3]? = some (((x2 % 128) * 256 + x3 + δ) % 32768 % 256) := by
  have hp : pidOffsets c d δ = [payloadOffset d + 2, payloadOffset d + 3] := by
    simp only [pidOffsets, hδ, hc, hX, hI, hM, Bool.not_true, Bool.false_eq_true, if_false, if_true]
  obtain ⟨x2, x3, h2, h3, rfl⟩ := rewrite_pid15_core hr hp
  have hge := payloadOffset_ge d
  have l2 := lt_length_of_getElem? h2
  have l3 := lt_length_of_getElem? h3
  refine ⟨x2, x3, h2, h3, ?_, ?_⟩
  · rw [List.getElem?_set_ne (by omega), List.getElem?_set_self (by rw [hdr_length]; exact l2)]
  · rw [List.getElem?_set_self (by rw [List.length_set, hdr_length]; exact l3)]

/-- C02.4 (M = 1), decoded: the id bytes of the rewritten packet have the M bit set and decode to
`(old15 + δ) % 32768`. -/
theorem C02_rewrite_pid15_decoded {c : String} {d d' : Bytes} {mk : Bool} {n δ : Nat}
    (hr : rewritePacket c d mk n δ = (d', .ok)) (hδ : δ ≠ 0) (hc : isCodec c "video/vp8" = true)
    (hX : bit (d.getD (payloadOffset d) 0) 0x80 = true)
    (hI : bit (d.getD (payloadOffset d + 1) 0) 0x80 = true)
    (hM : bit (d.getD (payloadOffset d + 2) 0) 0x80 = true) :
    ∃ x2 x3 y2 y3, d[payloadOffset d + 2]? = some x2 ∧ d[payloadOffset d + 3]? = some x3 ∧
      d'[payloadOffset d + 2]? = some y2 ∧ d'[payloadOffset d + 3]? = some y3 ∧
      bit y2 0x80 = true ∧ y2 < 256 ∧ y3 < 256 ∧
      (y2 % 128) * 256 + y3 = ((x2 % 128) * 256 + x3 + δ) % 32768 := by
  obtain ⟨x2, x3, h2, h3, g2, g3⟩ := C02_rewrite_pid15 hr hδ hc hX hI hM
  refine ⟨x2, x3, _, _, h2, h3, g2, g3, bit_128_or _, ?_, ?_, ?_⟩
  · rw [or_128_of_lt (Nat.mod_lt _ (by decide))]
    have := Nat.mod_lt (((x2 % 128) * 256 + x3 + δ) % 32768 / 256) (by decide : 0 < 128)
    omega
  · exact Nat.mod_lt _ (by decide)
  · rw [or_128_of_lt (Nat.mod_lt _ (by decide))]
    omega

/-- C02.4 (M = 0): for VP8 with a picture id present (X = 1, I = 1) and the M bit clear, a
successful rewrite with δ ≠ 0 replaces the id byte by `(old7 + δ) % 128` (M bit clear), where
`old7 = d[o+2]`. -/
theorem C02_rewrite_pid7 {c : String} {d d' : Bytes} {mk : Bool} {n δ : Nat}
    (hr : rewritePacket c d mk n δ = (d', .ok)) (hδ : δ ≠ 0) (hc : isCodec c "video/vp8" = true)
    (hX : bit (d.getD (payloadOffset d) 0) 0x80 = true)
    (hI : bit (d.getD (payloadOffset d + 1) 0) 0x80 = true)
    (hM : bit (d.getD (payloadOffset d + 2) 0) 0x80 = false) :
    ∃ x2, d[payloadOffset d + 2]? = some x2 ∧
      d'[payloadOffset d + 2]? = some ((x2 + δ) % 128) ∧ bit ((x2 + δ) % 128) 0x80 = false := by
  have hp : pidOffsets c d δ = [payloadOffset d + 2] := by
    simp only [pidOffsets, hδ, hc, hX, hI, hM, Bool.not_true, Bool.false_eq_true, if_false]
  obtain ⟨x2, h2, rfl⟩ := rewrite_pid7_core hr hp
  have l2 := lt_length_of_getElem? h2
  refine ⟨x2, h2, ?_, bit_128_of_lt (Nat.mod_lt _ (by decide))⟩
  rw [List.getElem?_set_self (by rw [hdr_length]; exact l2)]

/-- C02.4: for VP8 with a picture id present (X = 1, I = 1), a successful rewrite with δ ≠ 0 of a
well-formed byte list advances the picture id by δ in its own id space:
* M = 1: `old15 = (d[o+2] % 128) * 256 + d[o+3] < 32768`; the new id bytes are
  `0x80 ||| (pid / 256 % 128)` and `pid % 256` with `pid = (old15 + δ) % 32768`;
* M = 0: `old7 = d[o+2] < 128`; the new id byte is `(old7 + δ) % 128`, M bit clear. -/
theorem C02_rewrite_pid {c : String} {d d' : Bytes} {mk : Bool} {n δ : Nat}
    (hb : ∀ x ∈ d, x < 256)
    (hr : rewritePacket c d mk n δ = (d', .ok)) (hδ : δ ≠ 0) (hc : isCodec c "video/vp8" = true)
    (hX : bit (d.getD (payloadOffset d) 0) 0x80 = true)
    (hI : bit (d.getD (payloadOffset d + 1) 0) 0x80 = true) :
    ∃ x2, d[payloadOffset d + 2]? = some x2 ∧
      if bit x2 0x80 = true then
        ∃ x3, d[payloadOffset d + 3]? = some x3 ∧ (x2 % 128) * 256 + x3 < 32768 ∧
          d'[payloadOffset d + 2]? = some (0x80 ||| (((x2 % 128) * 256 + x3 + δ) % 32768 / 256 % 128)) ∧
          d'[payloadOffset d + 3]? = some (((x2 % 128) * 256 + x3 + δ) % 32768 % 256)
      else
        x2 < 128 ∧ d'[payloadOffset d + 2]? = some ((x2 + δ) % 128) := by
  by_cases hM : bit (d.getD (payloadOffset d + 2) 0) 0x80 = true
  · obtain ⟨x2, x3, h2, h3, g2, g3⟩ := C02_rewrite_pid15 hr hδ hc hX hI hM
    have hM' : bit x2 0x80 = true := by simpa [h2] using hM
    refine ⟨x2, h2, ?_⟩
    rw [if_pos hM']
    have b3 : x3 < 256 := hb x3 (List.mem_of_getElem? h3)
    exact ⟨x3, h3, by omega, g2, g3⟩
  · have hM0 : bit (d.getD (payloadOffset d + 2) 0) 0x80 = false := by simpa using hM
    obtain ⟨x2, h2, g2, _⟩ := C02_rewrite_pid7 hr hδ hc hX hI hM0
    have hM' : ¬ bit x2 0x80 = true := by simpa [h2] using hM
    refine ⟨x2, h2, ?_⟩
    rw [if_neg hM']
    have b2 : x2 < 256 := hb x2 (List.mem_of_getElem? h2)
    rw [bit_128_byte b2] at hM'
    exact ⟨by simpa using hM', g2⟩

/-! ### the rewritten packet as seen by an independent parser -/

theorem bit_or_128 (x : Nat) : bit (x ||| 128) 128 = true := by
  rw [Nat.or_comm]; exact bit_128_or x

/-- C02 (RTP level): if RewritePacket succeeds on a packet that `rtp.Packet.Unmarshal` accepts, and
the picture-id bytes it edits (if any) lie inside the payload, then the rewritten buffer unmarshals
too, with the same extension flag and the same payload bounds; the marker is the old marker or-ed
with `setMarker`. -/
theorem C02_rewrite_rtp {c : String} {d d' : Bytes} {mk : Bool} {n δ : Nat} {pkt : Rtp}
    (hr : rewritePacket c d mk n δ = (d', .ok))
    (hrtp : rtpUnmarshal d = .ok pkt)
    (hp : ∀ i ∈ pidOffsets c d δ, pkt.payloadStart ≤ i ∧ i < pkt.payloadEnd) :
    rtpUnmarshal d' = .ok { pkt with marker := pkt.marker || mk } := by
  have hlen : d'.length = d.length := by
    have := C02_rewrite_length c d mk n δ; rw [hr] at this; exact this
  have hl12 := rewrite_ok_length hr
  obtain ⟨hps12, hpspe, hpe⟩ := (rtp_post d).of_ok hrtp
  obtain ⟨hps, hmk, _, hpad⟩ := (rtp_facts d).of_ok hrtp
  have hfr : ∀ i, i ≠ 1 → i ≠ 2 → i ≠ 3 → (i < pkt.payloadStart ∨ pkt.payloadEnd ≤ i) →
      d'[i]? = d[i]? := by
    intro i h1 h2 h3 h4
    apply C02_rewrite_frame_any_status hr h1 h2 h3
    intro hm
    have := hp i hm
    omega
  have hrel := rtp_rel d d' hlen
    (fun i hi => hfr i (by omega) (by omega) (by omega) (by omega))
    (fun hpd => hfr _ (by omega) (by omega) (by omega) (by have := hpad hpd; omega))
  rw [hrtp] at hrel
  cases hd' : rtpUnmarshal d' with
  | error e => rw [hd'] at hrel; exact hrel.elim
  | ok pkt' =>
    rw [hd'] at hrel
    have hq : pkt' = { pkt with marker := pkt'.marker } := hrel
    obtain ⟨_, hmk', _, _⟩ := (rtp_facts d').of_ok hd'
    have h1 := (C02_rewrite_frame hr).2.1
    have hx : d[1]? = some (d[1]'(by omega)) := List.getElem?_eq_getElem _
    rw [hq]
    congr 2
    rw [hmk', hmk, List.getD_eq_getElem?_getD, List.getD_eq_getElem?_getD, h1, hx]
    cases mk with
    | false => simp
    | true => simp [bit_or_128]

/-- C02 (payload level): when there is no picture id to edit (δ = 0, or a codec other than VP8, or a
VP8 descriptor without picture id), a successfully rewritten packet unmarshals to the same payload
bounds and its payload `buf[payloadStart:payloadEnd]` is byte-for-byte the publisher's payload. -/
theorem C02_rewrite_payload_same {c : String} {d d' : Bytes} {mk : Bool} {n δ : Nat} {pkt : Rtp}
    (hr : rewritePacket c d mk n δ = (d', .ok))
    (hrtp : rtpUnmarshal d = .ok pkt)
    (hp : pidOffsets c d δ = []) :
    rtpUnmarshal d' = .ok { pkt with marker := pkt.marker || mk } ∧
    (d'.take pkt.payloadEnd).drop pkt.payloadStart = (d.take pkt.payloadEnd).drop pkt.payloadStart := by
  refine ⟨C02_rewrite_rtp hr hrtp (by rw [hp]; simp), ?_⟩
  obtain ⟨hps12, _, _⟩ := (rtp_post d).of_ok hrtp
  apply List.ext_getElem?
  intro k
  apply payload_congr (a := 0) (b := 0) _ k (by omega) (by omega)
  intro i h1 _ _ _
  exact C02_rewrite_frame_any_status hr (by omega) (by omega) (by omega) (by rw [hp]; simp)

/-- C02.4 (second half, full statement, every header shape: CSRCs, header extension and padding
included): the picture id written by RewritePacket is what an independent parser reads back.
If `rtp.Packet.Unmarshal` accepts the original buffer with payload bounds `pkt`, and
`VP8Packet.Unmarshal` parses its payload to `v` with a picture id (`v.i`), and RewritePacket with
δ ≠ 0 succeeds with buffer `d'`, then `d'` unmarshals to the same payload bounds (marker or-ed with
`setMarker`) and its payload parses to `v` with only the picture id changed, to
`(v.pictureID + δ) % 32768` for a 15-bit id (`v.m`) and `(v.pictureID + δ) % 128` for a 7-bit id;
every other field (X, N, S, PID, I, L, T, K, M, TID, Y and the offset of the VP8 payload) is equal.
No hypothesis on the byte values is needed. -/
theorem C02_rewrite_pid_parsed {c : String} {d d' : Bytes} {mk : Bool} {n δ : Nat} {pkt : Rtp} {v : VP8}
    (hr : rewritePacket c d mk n δ = (d', .ok)) (hδ : δ ≠ 0) (hc : isCodec c "video/vp8" = true)
    (hrtp : rtpUnmarshal d = .ok pkt)
    (hvp8 : vp8Unmarshal ((d.take pkt.payloadEnd).drop pkt.payloadStart) = .ok v)
    (hi : v.i = true) :
    rtpUnmarshal d' = .ok { pkt with marker := pkt.marker || mk } ∧
    vp8Unmarshal ((d'.take pkt.payloadEnd).drop pkt.payloadStart) =
      .ok { v with pictureID := (v.pictureID + δ) % (if v.m = true then 32768 else 128) } := by
  have hlen : d'.length = d.length := by
    have := C02_rewrite_length c d mk n δ; rw [hr] at this; exact this
  obtain ⟨hps12, hpspe, hpe⟩ := (rtp_post d).of_ok hrtp
  obtain ⟨hps, _, _, _⟩ := (rtp_facts d).of_ok hrtp
  -- the VP8 parse of the original payload, in closed form
  rw [vp8Unmarshal_eq] at hvp8
  split at hvp8
  case isFalse => cases hvp8
  rename_i hok
  have hv : vp8Fields ((d.take pkt.payloadEnd).drop pkt.payloadStart) = v := by
    injection hvp8
  rw [payload_length hpe] at hok
  rw [← hv] at hi
  obtain ⟨hX, hI⟩ := vp8Fields_i hi
  obtain ⟨hm, hpid, hstart⟩ := vp8Fields_XI hX hI
  have hfr : ∀ i, 4 ≤ i → i ∉ pidOffsets c d δ → d'[i]? = d[i]? := fun i h4 hn =>
    C02_rewrite_frame_any_status hr (by omega) (by omega) (by omega) hn
  -- the descriptor bytes, read in `d` at the offset RewritePacket uses
  have g : ∀ k, pkt.payloadStart + k < pkt.payloadEnd →
      ((d.take pkt.payloadEnd).drop pkt.payloadStart).getD k 0 = d.getD (payloadOffset d + k) 0 := by
    intro k hk; rw [payload_getD hk, hps]
  have hl' : ((d'.take pkt.payloadEnd).drop pkt.payloadStart).length = pkt.payloadEnd - pkt.payloadStart :=
    payload_length (by omega)
  by_cases hM : bit (((d.take pkt.payloadEnd).drop pkt.payloadStart).getD 2 0) 128 = true
  · -- 15-bit picture id
    rw [if_pos hM] at hpid hstart
    rw [hM] at hm
    have hXd := hX; have hId := hI; have hMd := hM
    rw [g 0 (by omega)] at hXd
    rw [g 1 (by omega)] at hId
    rw [g 2 (by omega)] at hMd
    have hp : pidOffsets c d δ = [payloadOffset d + 2, payloadOffset d + 3] := by
      simp only [pidOffsets, hδ, hc, hId, hMd, Bool.not_true, Bool.false_eq_true, if_false, if_true,
        show bit (d.getD (payloadOffset d) 0) 128 = true from hXd]
    obtain ⟨x2, x3, h2, h3, hd'⟩ := rewrite_pid15_core hr hp
    refine ⟨C02_rewrite_rtp hr hrtp (by rw [hp]; simp; omega), ?_⟩
    -- the rewritten payload agrees with the original one except at positions 2 and 3
    have hag : ∀ i, pkt.payloadStart ≤ i → i < pkt.payloadEnd → i ≠ payloadOffset d + 2 →
        i ≠ payloadOffset d + 3 → d'[i]? = d[i]? := by
      intro i h1 _ h3 h4
      apply hfr i (by omega)
      rw [hp]; simp [h3, h4]
    have q := fun k => payload_congr (d := d) (d' := d') (ps := pkt.payloadStart) (pe := pkt.payloadEnd) hag k
    have hl2 := lt_length_of_getElem? h2
    have hl3 := lt_length_of_getElem? h3
    have q2 : ((d'.take pkt.payloadEnd).drop pkt.payloadStart)[2]? =
        some (0x80 ||| (((x2 % 128) * 256 + x3 + δ) % 32768 / 256 % 128)) := by
      rw [payload_getElem?, if_pos (by omega), hps, hd',
        List.getElem?_set_ne (by omega), List.getElem?_set_self (by rw [hdr_length]; exact hl2)]
    have q3 : ((d'.take pkt.payloadEnd).drop pkt.payloadStart)[3]? =
        some (((x2 % 128) * 256 + x3 + δ) % 32768 % 256) := by
      rw [payload_getElem?, if_pos (by omega), hps, hd',
        List.getElem?_set_self (by rw [List.length_set, hdr_length]; exact hl3)]
    have hf := vp8Fields_pid15 (q 0 (by omega) (by omega)) (q 1 (by omega) (by omega))
      (q 4 (by omega) (by omega)) (q 5 (by omega) (by omega)) hX hI hM q2 q3 (bit_128_or _)
    rw [vp8Unmarshal_eq, hl', hf]
    rw [if_pos hok]
    rw [g 2 (by omega), getD_of_getElem? h2, g 3 (by omega), getD_of_getElem? h3] at hpid
    have harith : (0x80 ||| (((x2 % 128) * 256 + x3 + δ) % 32768 / 256 % 128)) % 128 * 256 +
        ((x2 % 128) * 256 + x3 + δ) % 32768 % 256 = ((x2 % 128) * 256 + x3 + δ) % 32768 := by
      rw [or_128_of_lt (Nat.mod_lt _ (by decide))]
      omega
    rw [harith]
    rw [hv] at hm hpid ⊢
    simp only [hm, hpid, if_true]
  · -- 7-bit picture id
    have hM0 : bit (((d.take pkt.payloadEnd).drop pkt.payloadStart).getD 2 0) 128 = false := by
      simpa using hM
    rw [if_neg hM] at hpid hstart
    rw [hM0] at hm
    have hXd := hX; have hId := hI; have hMd := hM0
    rw [g 0 (by omega)] at hXd
    rw [g 1 (by omega)] at hId
    rw [g 2 (by omega)] at hMd
    have hp : pidOffsets c d δ = [payloadOffset d + 2] := by
      simp only [pidOffsets, hδ, hc, hId, hMd, Bool.not_true, Bool.false_eq_true, if_false,
        show bit (d.getD (payloadOffset d) 0) 128 = true from hXd]
    obtain ⟨x2, h2, hd'⟩ := rewrite_pid7_core hr hp
    refine ⟨C02_rewrite_rtp hr hrtp (by rw [hp]; simp; omega), ?_⟩
    have hag : ∀ i, pkt.payloadStart ≤ i → i < pkt.payloadEnd → i ≠ payloadOffset d + 2 →
        i ≠ payloadOffset d + 2 → d'[i]? = d[i]? := by
      intro i h1 _ h3 _
      apply hfr i (by omega)
      rw [hp]; simp [h3]
    have q := fun k => payload_congr (d := d) (d' := d') (ps := pkt.payloadStart) (pe := pkt.payloadEnd) hag k
    have hl2 := lt_length_of_getElem? h2
    have q2 : ((d'.take pkt.payloadEnd).drop pkt.payloadStart)[2]? = some ((x2 + δ) % 128) := by
      rw [payload_getElem?, if_pos (by omega), hps, hd',
        List.getElem?_set_self (by rw [hdr_length]; exact hl2)]
    have hf := vp8Fields_pid7 (q 0 (by omega) (by omega)) (q 1 (by omega) (by omega))
      (q 3 (by omega) (by omega)) (q 4 (by omega) (by omega)) hX hI hM0 q2
      (bit_128_of_lt (Nat.mod_lt _ (by decide)))
    rw [vp8Unmarshal_eq, hl', hf]
    rw [if_pos hok]
    rw [g 2 (by omega), getD_of_getElem? h2] at hpid
    rw [hv] at hm hpid ⊢
    simp only [hm, hpid, Bool.false_eq_true, if_false]

/-- C02.4 (no picture id): if the payload parses as a VP8 descriptor without picture id (`v.i = false`),
a successful rewrite leaves the whole payload untouched, whatever δ is. -/
theorem C02_rewrite_nopid_parsed {c : String} {d d' : Bytes} {mk : Bool} {n δ : Nat} {pkt : Rtp} {v : VP8}
    (hr : rewritePacket c d mk n δ = (d', .ok))
    (hrtp : rtpUnmarshal d = .ok pkt)
    (hvp8 : vp8Unmarshal ((d.take pkt.payloadEnd).drop pkt.payloadStart) = .ok v)
    (hi : v.i = false) :
    rtpUnmarshal d' = .ok { pkt with marker := pkt.marker || mk } ∧
    (d'.take pkt.payloadEnd).drop pkt.payloadStart = (d.take pkt.payloadEnd).drop pkt.payloadStart := by
  apply C02_rewrite_payload_same hr hrtp
  obtain ⟨hps12, hpspe, hpe⟩ := (rtp_post d).of_ok hrtp
  obtain ⟨hps, _, _, _⟩ := (rtp_facts d).of_ok hrtp
  rw [vp8Unmarshal_eq] at hvp8
  split at hvp8
  case isFalse => cases hvp8
  rename_i hok
  have hv : vp8Fields ((d.take pkt.payloadEnd).drop pkt.payloadStart) = v := by
    injection hvp8
  rw [payload_length hpe] at hok
  rw [← hv] at hi
  have g : ∀ k, pkt.payloadStart + k < pkt.payloadEnd →
      ((d.take pkt.payloadEnd).drop pkt.payloadStart).getD k 0 = d.getD (payloadOffset d + k) 0 := by
    intro k hk; rw [payload_getD hk, hps]
  unfold pidOffsets
  by_cases hδ : δ = 0
  · simp only [hδ, if_true]
  by_cases hc : (!isCodec c "video/vp8") = true
  · simp only [hδ, hc, if_false, if_true]
  by_cases hX : bit (d.getD (payloadOffset d) 0) 128 = true
  · have hXp : bit (((d.take pkt.payloadEnd).drop pkt.payloadStart).getD 0 0) 128 = true := by
      rw [g 0 (by omega)]; exact hX
    obtain ⟨hI, hst⟩ := vp8Fields_X hXp
    rw [hI, g 1 (by omega)] at hi
    simp only [hδ, hc, hX, hi, if_false, Bool.not_true, Bool.not_false, Bool.false_eq_true, if_true]
  · have hX0 : bit (d.getD (payloadOffset d) 0) 128 = false := by simpa using hX
    simp only [hδ, hc, hX0, if_false, Bool.not_false, if_true, Bool.false_eq_true]

/-! ### the VP8 forwarding path -/

/-- what a successful `PacketFlags` on a VP8 track has established: both parsers accepted the packet,
and the reported seqno, marker and picture id are the parsed ones -/
theorem packetFlags_vp8_ok {c : String} {d : Bytes} {f : Flags}
    (hc : isCodec c "video/vp8" = true) (hf : packetFlags c d = .ok f) :
    ∃ pkt v, rtpUnmarshal d = .ok pkt ∧
      vp8Unmarshal ((d.take pkt.payloadEnd).drop pkt.payloadStart) = .ok v ∧
      f.pid = v.pictureID ∧ f.end_ = pkt.marker ∧ f.seqno = d.getD 2 0 * 256 + d.getD 3 0 := by
  have h : Post (packetFlags c d) (fun f => ∃ pkt v, rtpUnmarshal d = .ok pkt ∧
      vp8Unmarshal ((d.take pkt.payloadEnd).drop pkt.payloadStart) = .ok v ∧
      f.pid = v.pictureID ∧ f.end_ = pkt.marker ∧ f.seqno = d.getD 2 0 * 256 + d.getD 3 0) := by
    unfold packetFlags
    wp_simp
    simp only [hc]
    refine ⟨fun _ => trivial, fun h4 => ⟨by omega, fun b1 _ => ⟨by omega, fun b2 h2 => ⟨by omega, fun b3 h3 => ?_⟩⟩⟩⟩
    refine ⟨fun _ => ?_, fun hn => absurd trivial hn⟩
    apply post_intro ((rtp_post d).noPanic)
    intro pkt hpkt
    apply post_intro ((vp8_post _).noPanic)
    intro v hv
    have hs : b2 * 256 + b3 = d.getD 2 0 * 256 + d.getD 3 0 := by
      rw [getD_of_getElem? h2, getD_of_getElem? h3]
    vc_split
    all_goals first
      | omega
      | exact ⟨pkt, v, hpkt, hv, rfl, rfl, hs⟩
      | simp_all
  exact h.of_ok hf

/-- C02 on the VP8 forwarding path (rtpDownTrack.Write): if `PacketFlags` accepted the packet and
`RewritePacket` succeeded, then the packet that is written to the subscriber is accepted by both
parsers again, with the same payload bounds, the marker or-ed with `setMarker`, and a VP8 descriptor
equal to the publisher's except that a present picture id is advanced by δ in its 7- or 15-bit id
space. -/
theorem C02_forward_vp8 {c : String} {d d' : Bytes} {mk : Bool} {n δ : Nat} {f : Flags}
    (hc : isCodec c "video/vp8" = true) (hf : packetFlags c d = .ok f)
    (hr : rewritePacket c d mk n δ = (d', .ok)) :
    ∃ pkt v, rtpUnmarshal d = .ok pkt ∧
      vp8Unmarshal ((d.take pkt.payloadEnd).drop pkt.payloadStart) = .ok v ∧
      f.pid = v.pictureID ∧
      rtpUnmarshal d' = .ok { pkt with marker := pkt.marker || mk } ∧
      vp8Unmarshal ((d'.take pkt.payloadEnd).drop pkt.payloadStart) =
        .ok { v with pictureID :=
                if v.i = true ∧ δ ≠ 0 then (v.pictureID + δ) % (if v.m = true then 32768 else 128)
                else v.pictureID } := by
  obtain ⟨pkt, v, hpkt, hv, hpid, _, _⟩ := packetFlags_vp8_ok hc hf
  refine ⟨pkt, v, hpkt, hv, hpid, ?_⟩
  by_cases hi : v.i = true
  · by_cases hδ : δ = 0
    · have hp : pidOffsets c d δ = [] := by simp [pidOffsets, hδ]
      obtain ⟨h1, h2⟩ := C02_rewrite_payload_same hr hpkt hp
      refine ⟨h1, ?_⟩
      rw [if_neg (fun h : v.i = true ∧ δ ≠ 0 => h.2 hδ), h2, hv]
    · obtain ⟨h1, h2⟩ := C02_rewrite_pid_parsed hr hδ hc hpkt hv hi
      refine ⟨h1, ?_⟩
      rw [if_pos (⟨hi, hδ⟩ : v.i = true ∧ δ ≠ 0)]
      exact h2
  · have hi0 : v.i = false := by simpa using hi
    obtain ⟨h1, h2⟩ := C02_rewrite_nopid_parsed hr hpkt hv hi0
    refine ⟨h1, ?_⟩
    rw [if_neg (fun h : v.i = true ∧ δ ≠ 0 => hi h.1), h2, hv]

/-! ### non-vacuity -/

/-- a VP8 packet: V=2, PT 96, seqno 1, timestamp 1000, SSRC 0xdeadbeef, descriptor X=1 S=1 / I=1 /
15-bit picture id 0x7ffe, two payload bytes -/
def exPkt15 : Bytes :=
  [0x80, 96, 0, 1, 0, 0, 3, 232, 222, 173, 190, 239, 0x90, 0x80, 0xFF, 0xFE, 0x9d, 0x01]

/-- rewriting `exPkt15` with seqno 0x1234 and delta 5 changes exactly bytes 2, 3 (seqno) and 14, 15
(the picture id wraps from 0x7ffe to 3, M bit kept) -/
theorem exPkt15_rewrite : rewritePacket "video/VP8" exPkt15 false 0x1234 5 =
    ([0x80, 96, 0x12, 0x34, 0, 0, 3, 232, 222, 173, 190, 239, 0x90, 0x80, 0x80, 0x03, 0x9d, 0x01], .ok) := by
  unfold rewritePacket
  simp only [isCodec_VP8_vp8]
  decide

example : pidOffsets "video/VP8" exPkt15 5 = [14, 15] := by
  unfold pidOffsets
  simp only [isCodec_VP8_vp8]
  decide

/-- the hypotheses of `C02_rewrite_pid_parsed` are satisfiable (15-bit id), and its conclusion is
the concrete parse of the rewritten packet -/
example :
    rtpUnmarshal exPkt15 = .ok { marker := false, ext := false, payloadStart := 12, payloadEnd := 18 } ∧
    (∃ v, vp8Unmarshal ((exPkt15.take 18).drop 12) = .ok v ∧ v.i = true ∧ v.m = true ∧
      v.pictureID = 0x7ffe) ∧
    (∃ v', vp8Unmarshal (((rewritePacket "video/VP8" exPkt15 false 0x1234 5).1.take 18).drop 12) = .ok v' ∧
      v'.pictureID = 3 ∧ v'.m = true) := by
  rw [exPkt15_rewrite]
  exact ⟨rfl, ⟨_, rfl, rfl, rfl, rfl⟩, ⟨_, rfl, rfl, rfl⟩⟩

/-- `C02_rewrite_pid_parsed` instantiated on `exPkt15`: all six hypotheses hold -/
example :=
  C02_rewrite_pid_parsed (pkt := { marker := false, ext := false, payloadStart := 12, payloadEnd := 18 })
    (v := { x := true, s := true, i := true, m := true, pictureID := 0x7ffe, payloadStart := 4 })
    exPkt15_rewrite (by decide) isCodec_VP8_vp8 rfl rfl rfl

theorem exPkt15_flags : packetFlags "video/VP8" exPkt15 =
    .ok { seqno := 1, start := true, pid := 0x7ffe } := by
  unfold packetFlags
  simp only [isCodec_VP8_vp8]
  rfl

/-- `C02_forward_vp8` instantiated on `exPkt15` -/
example := C02_forward_vp8 isCodec_VP8_vp8 exPkt15_flags exPkt15_rewrite

/-- `C02_rewrite_frame` and `C02_rewrite_pid15` instantiated on `exPkt15` -/
example := C02_rewrite_frame exPkt15_rewrite
example := C02_rewrite_pid15 exPkt15_rewrite (by decide) isCodec_VP8_vp8 (by decide) (by decide) (by decide)

/-- a VP8 packet with padding (P=1, two padding bytes), a one-byte-header extension (X=1, profile
0xBEDE, one word), marker to be set, and a 7-bit picture id 0x7e -/
def exPkt7 : Bytes :=
  [0xB0, 96, 0, 1, 0, 0, 3, 232, 222, 173, 190, 239, 0xBE, 0xDE, 0, 1, 0x10, 0xAA, 0, 0,
   0x90, 0x80, 0x7E, 0x9d, 0x01, 0, 2]

theorem exPkt7_rewrite : rewritePacket "video/VP8" exPkt7 true 0xFFFF 3 =
    ([0xB0, 224, 0xFF, 0xFF, 0, 0, 3, 232, 222, 173, 190, 239, 0xBE, 0xDE, 0, 1, 0x10, 0xAA, 0, 0,
      0x90, 0x80, 0x01, 0x9d, 0x01, 0, 2], .ok) := by
  unfold rewritePacket
  simp only [isCodec_VP8_vp8]
  decide

example : pidOffsets "video/VP8" exPkt7 3 = [22] := by
  unfold pidOffsets
  simp only [isCodec_VP8_vp8]
  decide

/-- the hypotheses of `C02_rewrite_pid_parsed` are satisfiable with extension, padding and a 7-bit id -/
example :
    rtpUnmarshal exPkt7 = .ok { marker := false, ext := true, payloadStart := 20, payloadEnd := 25 } ∧
    (∃ v, vp8Unmarshal ((exPkt7.take 25).drop 20) = .ok v ∧ v.i = true ∧ v.m = false ∧
      v.pictureID = 0x7e) ∧
    rtpUnmarshal (rewritePacket "video/VP8" exPkt7 true 0xFFFF 3).1 =
      .ok { marker := true, ext := true, payloadStart := 20, payloadEnd := 25 } ∧
    (∃ v', vp8Unmarshal (((rewritePacket "video/VP8" exPkt7 true 0xFFFF 3).1.take 25).drop 20) = .ok v' ∧
      v'.pictureID = 1 ∧ v'.m = false) := by
  rw [exPkt7_rewrite]
  exact ⟨rfl, ⟨_, rfl, rfl, rfl, rfl⟩, rfl, ⟨_, rfl, rfl, rfl⟩⟩

/-- the fixed bound check: 13 bytes with the extension bit set is an error, not a panic -/
example : rewritePacket "video/VP8" [0x90, 96, 0, 1, 0, 0, 3, 232, 222, 173, 190, 239, 0] false 7 1 =
    ([0x90, 96, 0, 7, 0, 0, 3, 232, 222, 173, 190, 239, 0], .err) := by
  unfold rewritePacket
  simp only [isCodec_VP8_vp8]
  decide

/-- a packet shorter than the fixed header is rejected untouched -/
example : rewritePacket "video/VP8" [0x80, 96, 0] true 7 1 = ([0x80, 96, 0], .err) := by
  unfold rewritePacket
  decide

/-- another codec: only the seqno changes even though the payload looks like a VP8 descriptor -/
example : rewritePacket "video/vp9" exPkt15 false 0x1234 5 =
    ([0x80, 96, 0x12, 0x34, 0, 0, 3, 232, 222, 173, 190, 239, 0x90, 0x80, 0xFF, 0xFE, 0x9d, 0x01], .ok) := by
  unfold rewritePacket
  simp only [isCodec_vp9_vp8]
  decide

/-! ### edge cases (proved counterexamples) -/

/-- a padding-only packet (P=1, empty payload, three padding bytes) whose padding bytes look like a
VP8 descriptor with a 7-bit picture id -/
def exPadOnly : Bytes := [0xA0, 96, 0, 1, 0, 0, 3, 232, 222, 173, 190, 239, 0x80, 0x80, 0x03]

/-- The hypothesis of `C02_rewrite_rtp` that the edited picture-id bytes lie inside the payload
cannot be dropped: RewritePacket does not look at the padding bit, so on `exPadOnly` it succeeds and
"advances" the last byte, which is the padding count; the result is no longer accepted by
rtp.Packet.Unmarshal.  (When the payload parses as VP8 with a picture id the hypothesis holds, see
`C02_rewrite_pid_parsed`.) -/
example :
    rtpUnmarshal exPadOnly = .ok { marker := false, ext := false, payloadStart := 12, payloadEnd := 12 } ∧
    rewritePacket "video/VP8" exPadOnly false 1 1 =
      ([0xA0, 96, 0, 1, 0, 0, 3, 232, 222, 173, 190, 239, 0x80, 0x80, 0x04], .ok) ∧
    rtpUnmarshal [0xA0, 96, 0, 1, 0, 0, 3, 232, 222, 173, 190, 239, 0x80, 0x80, 0x04] = .error .err := by
  refine ⟨rfl, ?_, rfl⟩
  unfold rewritePacket
  simp only [isCodec_VP8_vp8]
  decide

/-- RewritePacket's second bound check after a header extension asks for four more bytes, so a valid
VP8 packet with an (empty) extension and a three-byte payload (descriptor X, I, 7-bit id 5) gets `err`
with δ ≠ 0, although both parsers accept it; the same payload without extension is rewritten. -/
example :
    rtpUnmarshal [0x90, 96, 0, 1, 0, 0, 3, 232, 222, 173, 190, 239, 0xBE, 0xDE, 0, 0, 0x90, 0x80, 0x05] =
      .ok { marker := false, ext := true, payloadStart := 16, payloadEnd := 19 } ∧
    (∃ v, vp8Unmarshal [0x90, 0x80, 0x05] = .ok v ∧ v.i = true ∧ v.pictureID = 5) ∧
    (rewritePacket "video/VP8"
      [0x90, 96, 0, 1, 0, 0, 3, 232, 222, 173, 190, 239, 0xBE, 0xDE, 0, 0, 0x90, 0x80, 0x05] false 1 1).2 = .err ∧
    rewritePacket "video/VP8" [0x80, 96, 0, 1, 0, 0, 3, 232, 222, 173, 190, 239, 0x90, 0x80, 0x05] false 1 1 =
      ([0x80, 96, 0, 1, 0, 0, 3, 232, 222, 173, 190, 239, 0x90, 0x80, 0x06], .ok) := by
  refine ⟨rfl, ⟨_, rfl, rfl, rfl⟩, ?_, ?_⟩ <;>
  · unfold rewritePacket
    simp only [isCodec_VP8_vp8]
    decide

end Galene.Props.C02
