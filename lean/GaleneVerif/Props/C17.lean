import GaleneVerif.Model.Api
import GaleneVerif.Lemmas.ApiStore
import GaleneVerif.Generated.ApiGuards
/-
C17 — the administrative API acts only for administrators and never reveals secrets.

All theorems are about `Galene.Api.handle fx` (for every setting `fx` of the pending-fix switches), the model of `webserver.apiHandler` that the
correspondence run of engine `api` compares with the real handler (complete table endpoint
shape × method × credential class, plus random update sequences), for EVERY state (config,
group files, tokens), path string, method, credential and body.

* `isAdmin_sound` — `isAdminOrExplicitPassword` accepts only: a configuration user with the
  admin permission and the right password; a user entry (named, else the wildcard entry) of
  the definition governing the addressed group with the admin permission and the right
  password; a valid stateful token whose scope (`Stateful.match`, characterised in C09)
  covers the group and that carries `admin`; a JWT signed with one of the group's keys for
  exactly this group carrying `admin`; or — only where the router asks for it, i.e. on
  `.users/<u>/.password` and `.empty-user/.password` — the current password of user `u`.
* `route_shape` — every router branch is the plain 404 of a path that does not exist or
  starts with an authorisation test.
* `C17_authz`, `C17_refused` — the statement of the property.
* `C17_auth_dominates` — regenerated fact about today's webserver/api.go: every call from a
  request-serving function into the packages group, token and stats is dominated by
  `if !checkAdmin…(…) { return }` (the source has the `cors; auth; action` shape of `route`).
* `C17_effect_only_if_acknowledged` — the state changes only together with a 201/204.
* `C17_no_secrets` — no response body carries a user entry, password, hash or key.
* `C17_preserve_*` — what the update functions leave alone (proved in Lemmas/ApiStore).
-/
namespace Galene.Props.C17
open Galene.Api

/-! ### What C17 means by "authenticates as …" -/

def SpecServerAdmin (st : State) (c : Cred) : Prop :=
  ∃ u pw usr, c = .basic u pw ∧ lookup u st.conf.users = some usr ∧
    usr.password.matches pw = some true ∧ "admin" ∈ usr.perms.perms

def SpecGroupAdmin (st : State) (c : Cred) (g : String) : Prop :=
  g ≠ "" ∧ ∃ u pw k f isSub usr, c = .basic u pw ∧ getDescription st g = some (k, f, isSub) ∧
    (lookup u f.desc.users = some usr ∨ (lookup u f.desc.users = none ∧ f.desc.wildcard = some usr)) ∧
    usr.password.matches pw = some true ∧ "admin" ∈ usr.perms.perms

def SpecToken (st : State) (c : Cred) (g : String) : Prop :=
  ∃ name t, c = .bearer name ∧ lookup name st.tokens = some t ∧ t.valid = .ok ∧
    t.matchGroup g = true ∧ "admin" ∈ t.perms

def SpecJWT (st : State) (c : Cred) (g : String) : Prop :=
  g ≠ "" ∧ ∃ keyId perms k f isSub, c = .jwt keyId g perms ∧ getDescription st g = some (k, f, isSub) ∧
    (∃ key ∈ f.desc.keys, key.kind = .oct ∧ key.id = keyId) ∧ "admin" ∈ perms

def SpecAdmin (st : State) (c : Cred) (g : String) : Prop :=
  SpecServerAdmin st c ∨ SpecGroupAdmin st c g ∨ SpecToken st c g ∨ SpecJWT st c g

def SpecSelf (st : State) (c : Cred) (g u : String) : Prop :=
  g ≠ "" ∧ u ≠ "" ∧ ∃ k f isSub usr, getDescription st g = some (k, f, isSub) ∧
    lookup u f.desc.users = some usr ∧ usr.password.matches c.password = some true

theorem globalAdminMatch_true (c : Conf) (u pw : String) (h : globalAdminMatch c u pw = some true) :
    ∃ usr, lookup u c.users = some usr ∧ usr.password.matches pw = some true ∧ "admin" ∈ usr.perms.perms := by
  unfold globalAdminMatch at h
  split at h
  · simp at h
  · next usr hu =>
    split at h
    · simp at h
    · simp at h
    · next hm =>
      refine ⟨usr, hu, hm, ?_⟩
      simpa using h

theorem tok_check_some (t : Tok) (g : String) (u : String) (perms : List String) (h : t.check g = some (u, perms)) :
    t.matchGroup g = true ∧ t.valid = .ok ∧ perms = t.perms := by
  unfold Tok.check at h
  split at h
  · simp at h
  · next hm =>
    split at h
    · next hv => simp at h; simp at hm; exact ⟨hm, hv, h.2.symm⟩
    · simp at h

theorem getPermission_admin (st : State) (d : Desc) (g : String) (c : Cred) (perms : List String)
    (h : getPermission st d g c = some perms) (ha : perms.contains "admin" = true) :
    (∃ u pw usr, c = .basic u pw ∧
      (lookup u d.users = some usr ∨ (lookup u d.users = none ∧ d.wildcard = some usr)) ∧
      usr.password.matches pw = some true ∧ "admin" ∈ usr.perms.perms)
    ∨ (∃ name t, c = .bearer name ∧ lookup name st.tokens = some t ∧ t.valid = .ok ∧ t.matchGroup g = true ∧ "admin" ∈ t.perms)
    ∨ (∃ keyId perms', c = .jwt keyId g perms' ∧ (∃ key ∈ d.keys, key.kind = .oct ∧ key.id = keyId) ∧ "admin" ∈ perms') := by
  cases c with
  | none => simp [getPermission] at h
  | basic u pw =>
    left
    simp only [getPermission] at h
    split at h
    · simp at h
    · next ps hp =>
      split at h
      · simp at h; subst h
        unfold getPasswordPermission at hp
        split at hp
        · next usr hu =>
          split at hp
          · next hm => simp at hp; subst hp; exact ⟨u, pw, usr, rfl, Or.inl hu, hm, by simpa using ha⟩
          · simp at hp
        · next hu =>
          split at hp
          · next w hw =>
            split at hp
            · next hm => simp at hp; subst hp; exact ⟨u, pw, w, rfl, Or.inr ⟨hu, hw⟩, hm, by simpa using ha⟩
            · simp at hp
          · simp at hp
      · simp at h
  | bearer name =>
    right; left
    simp only [getPermission] at h
    split at h
    · simp at h
    · next t ht =>
      split at h
      · simp at h
      · split at h
        · simp at h
        · next u perms' hc =>
          split at h
          · simp at h; subst h
            obtain ⟨h1, h2, h3⟩ := tok_check_some t g u perms' hc
            subst h3
            exact ⟨name, t, rfl, ht, h2, h1, by simpa using ha⟩
          · simp at h
  | jwt keyId aud perms' =>
    right; right
    simp only [getPermission] at h
    split at h
    · next hk =>
      split at h
      · next haud =>
        simp at h; subst h; subst haud
        refine ⟨keyId, perms', rfl, ?_, by simpa using ha⟩
        simp only [List.any_eq_true] at hk
        obtain ⟨key, hmem, hkk⟩ := hk
        simp at hkk
        exact ⟨key, hmem, hkk.1, hkk.2⟩
      · simp at h
    · simp at h

theorem checkGlobalAdminToken_true (st : State) (c : Cred) (h : checkGlobalAdminToken st c = true) :
    SpecToken st c "" := by
  cases c with
  | bearer name =>
    simp only [checkGlobalAdminToken] at h
    split at h
    · simp at h
    · next t ht =>
      split at h
      · simp at h
      · next u perms hc =>
        obtain ⟨h1, h2, h3⟩ := tok_check_some t "" u perms hc
        subst h3
        exact ⟨name, t, rfl, ht, h2, h1, by simpa using h⟩
  | none => simp [checkGlobalAdminToken] at h
  | basic u pw => simp [checkGlobalAdminToken] at h
  | jwt a b c => simp [checkGlobalAdminToken] at h

/-- The authorisation function of api.go accepts only what C17 allows. -/
theorem isAdmin_sound (st : State) (g u : String) (c : Cred)
    (h : isAdminOrExplicitPassword st g u c = true) : SpecAdmin st c g ∨ SpecSelf st c g u := by
  unfold isAdminOrExplicitPassword at h
  simp only at h
  split at h
  · simp at h
  · next hg =>
    -- the global match returned true
    left; left
    cases c with
    | basic uu pw =>
      simp only at hg
      obtain ⟨usr, h1, h2, h3⟩ := globalAdminMatch_true _ _ _ hg
      exact ⟨uu, pw, usr, rfl, h1, h2, h3⟩
    | none => simp at hg
    | bearer n => simp at hg
    | jwt a b c => simp at hg
  · split at h
    · next hge => subst hge; left; right; right; left; exact checkGlobalAdminToken_true st c h
    · next hgne =>
      split at h
      · simp at h
      · next k f isSub hd =>
        generalize hex : (decide (u ≠ "") && (match lookup u f.desc.users with
            | some usr => usr.password.matches c.password == some true
            | none => false)) = ex at h
        cases ex with
        | true =>
          right
          simp only [Bool.and_eq_true, decide_eq_true_eq] at hex
          obtain ⟨hu, hm⟩ := hex
          split at hm
          · next usr hl =>
            exact ⟨hgne, hu, k, f, isSub, usr, hd, hl, by simpa using hm⟩
          · simp at hm
        | false =>
          simp only [Bool.false_eq_true, ↓reduceIte] at h
          split at h
          · simp at h
          · next perms hp =>
            left
            rcases getPermission_admin st f.desc g c perms hp h with ⟨uu, pw, usr, hc, hl, hm, ha⟩ | ⟨name, t, hc, hl, hv, hm, ha⟩ | ⟨keyId, perms', hc, hk, ha⟩
            · right; left; exact ⟨hgne, uu, pw, k, f, isSub, usr, hc, hd, hl, hm, ha⟩
            · right; right; left; exact ⟨name, t, hc, hl, hv, hm, ha⟩
            · right; right; right; exact ⟨hgne, keyId, perms', k, f, isSub, hc, hd, hk, ha⟩

/-! ### The router -/

theorem routeUser_auth (g : String) (w : Who) : (routeUser g w).auth ≠ .none := by simp [routeUser]
theorem routePassword_auth (g : String) (w : Who) : (routePassword g w).auth ≠ .none := by
  cases w <;> simp [routePassword]

theorem routeUsers_shape (g : String) (p : List Char) : routeUsers g p = plain404 ∨ (routeUsers g p).auth ≠ .none := by
  unfold routeUsers
  split
  · left; rfl
  · split
    · right; simp
    · right
      simp only
      split
      · exact routeUser_auth _ _
      · split
        · exact routePassword_auth _ _
        · simp [afterAuth404]

theorem routeSpecial_shape (g : String) (p : List Char) (w : Who) : (routeSpecial g p w).auth ≠ .none := by
  unfold routeSpecial
  split
  · exact routeUser_auth _ _
  · split
    · exact routePassword_auth _ _
    · simp [afterAuth404]

theorem routeTokens_shape (g : String) (p : List Char) : routeTokens g p = plain404 ∨ (routeTokens g p).auth ≠ .none := by
  unfold routeTokens
  split
  · left; rfl
  · right; split <;> simp

theorem routeGroup_shape (p : List Char) : routeGroup p = plain404 ∨ (routeGroup p).auth ≠ .none := by
  unfold routeGroup
  simp only
  split
  · right; simp
  · split
    · exact routeUsers_shape _ _
    · split
      · right; exact routeSpecial_shape _ _ _
      · split
        · right; exact routeSpecial_shape _ _ _
        · split
          · right; simp
          · split
            · exact routeTokens_shape _ _
            · split
              · right; simp [afterAuth404]
              · right; simp

/-- Every branch of the router either is the plain 404 for a path that does not exist, or
starts with an authorisation test. -/
theorem route_shape (path : String) : route path = plain404 ∨ (route path).auth ≠ .none := by
  unfold route
  simp only
  split
  · left; rfl
  · split
    · left; rfl
    · split
      · split
        · left; rfl
        · right; simp
      · split
        · exact routeGroup_shape _
        · left; rfl

/-! ### Effects -/

/-- the state is unchanged, or the request was acknowledged with 201/204 -/
def Eff (p : Outcome × State) (st : State) : Prop :=
  p.2 = st ∨ ∃ resp, p.1 = .resp resp ∧ (resp.status = 201 ∨ resp.status = 204)

theorem done_eff (st : State) (r : Resp) : Eff (done st r) st := Or.inl rfl

theorem finish_eff (st : State) (res : Except Err State) (ok : Resp) (h : ok.status = 201 ∨ ok.status = 204) :
    Eff (finish st res ok) st := by
  unfold finish
  split
  · exact Or.inr ⟨ok, rfl, h⟩
  · exact Or.inl rfl

theorem created_status (e : Option Nat) : (created e).status = 201 ∨ (created e).status = 204 := by
  unfold created; split <;> simp

macro "eff_tac" : tactic => `(tactic|
  (repeat' (first | split | (simp only []))) <;>
  first
  | exact done_eff _ _
  | exact finish_eff _ _ _ (created_status _)
  | exact finish_eff _ _ _ (Or.inr rfl)
  | exact Or.inr ⟨_, rfl, Or.inl rfl⟩
  | exact Or.inr ⟨_, rfl, Or.inr rfl⟩
  | exact Or.inr ⟨_, rfl, created_status _⟩
  | exact Or.inl rfl)

theorem actGroup_eff (fx : Fixes) (st : State) (r : Request) (g : String) : Eff (actGroup fx st r g) st := by
  unfold actGroup; eff_tac
theorem actUser_eff (st : State) (r : Request) (g : String) (w : Who) : Eff (actUser st r g w) st := by
  unfold actUser; eff_tac
theorem actPassword_eff (st : State) (r : Request) (g : String) (w : Who) : Eff (actPassword st r g w) st := by
  unfold actPassword; eff_tac
theorem actKeys_eff (st : State) (r : Request) (g : String) : Eff (actKeys st r g) st := by
  unfold actKeys; eff_tac
theorem actTokenList_eff (st : State) (r : Request) (g : String) : Eff (actTokenList st r g) st := by
  unfold actTokenList; eff_tac
theorem actToken_eff (fx : Fixes) (st : State) (r : Request) (g t : String) : Eff (actToken fx st r g t) st := by
  unfold actToken; eff_tac

theorem act_eff (fx : Fixes) (st : State) (r : Request) (a : Action) : Eff (act fx st r a) st := by
  cases a <;> simp only [act]
  case notFoundPlain => exact done_eff _ _
  case notFoundPage => exact done_eff _ _
  case stats => eff_tac
  case listGroups => eff_tac
  case group g => exact actGroup_eff _ _ _ _
  case listUsers g => eff_tac
  case user g w => exact actUser_eff _ _ _ _
  case password g w => exact actPassword_eff _ _ _ _
  case keys g => exact actKeys_eff _ _ _
  case tokenList g => exact actTokenList_eff _ _ _
  case token g t => exact actToken_eff _ _ _ _ _

theorem handle_eff (fx : Fixes) (st : State) (r : Request) : Eff (handle fx st r) st := by
  unfold handle
  simp only
  split
  · exact done_eff _ _
  · split
    · exact done_eff _ _
    · exact act_eff _ _ _ _

/-! ### Secrets -/

/-- does a response body carry a password (cleartext or hash), a user entry or a key? -/
def leaks : Body → Bool
  | .desc d => !d.users.isEmpty || d.wildcard.isSome || !d.keys.isEmpty || !d.legacy.isEmpty
  | .user u => u.password != .absent
  | _ => false

def Clean (p : Outcome × State) : Prop := ∀ resp, p.1 = .resp resp → leaks resp.body = false

theorem done_clean (st : State) (r : Resp) (h : leaks r.body = false) : Clean (done st r) := by
  intro resp hr; simp [done] at hr; subst hr; exact h

theorem httpError_clean (e : Err) : leaks (httpError e).body = false := by
  cases e <;> rfl

theorem finish_clean (st : State) (res : Except Err State) (ok : Resp) (h : leaks ok.body = false) :
    Clean (finish st res ok) := by
  intro resp hr
  unfold finish at hr
  split at hr
  · simp at hr; subst hr; exact h
  · simp at hr; subst hr; exact httpError_clean _

theorem sendJSON_clean (r : Request) (e : Option Nat) (b : Body) (h : leaks b = false) :
    leaks (sendJSON r e b).body = false := by
  unfold sendJSON; simp only; split
  · rfl
  · exact h

theorem getSanitisedUser_clean (st : State) (g : String) (w : Who) (u : User) (v : Nat)
    (h : getSanitisedUser st g w = some (u, v)) : leaks (Body.user u) = false := by
  unfold getSanitisedUser at h
  split at h
  · simp at h
  · split at h
    · simp at h
    · simp at h; obtain ⟨h1, _⟩ := h; subst h1; simp [leaks]

theorem jsonGate_clean (r : Request) (resp : Resp) (h : jsonGate r = some resp) : leaks resp.body = false := by
  unfold jsonGate at h
  split at h
  · simp at h; subst h; rfl
  · split at h <;> simp at h <;> subst h <;> exact httpError_clean _

macro "clean_tac" : tactic => `(tactic|
  (repeat' (first | split | (simp only []))) <;>
  first
  | exact done_clean _ _ rfl
  | exact done_clean _ _ (httpError_clean _)
  | exact done_clean _ _ (sendJSON_clean _ _ _ rfl)
  | exact finish_clean _ _ _ rfl
  | exact done_clean _ _ (jsonGate_clean _ _ ‹_›)
  | (unfold Clean; intro resp hr; simp only [Outcome.resp.injEq] at hr; subst hr; rfl)
  | (unfold Clean; intro resp hr; simp at hr))

/-- What `GetSanitisedDescription` clears — and what it does not: the obsolete arrays survive it. -/
theorem sanitise_spec (d : Desc) :
    d.sanitise.users = [] ∧ d.sanitise.wildcard = none ∧ d.sanitise.keys = [] ∧
    d.sanitise.legacy = d.legacy ∧ d.sanitise.content = d.content ∧ d.sanitise.autoSub = d.autoSub :=
  ⟨rfl, rfl, rfl, rfl, rfl, rfl⟩

/-- **Secrets and the legacy format.**  Whatever obsolete `op`/`presenter`/`other` arrays, users,
wildcard user and keys a definition file has, the description that went through
`upgradeDescription` and then `GetSanitisedDescription` carries no user entry, password, hash or
key: the upgrade empties the arrays (`upgrade_spec`), the sanitiser the rest (`sanitise_spec`). -/
theorem sanitised_upgrade_clean (d : Desc) : leaks (.desc d.upgrade.sanitise) = false := rfl

/-- Sanitising alone is not enough: without the upgrade (or with an upgrade that leaves entries in
the arrays) a legacy entry, password included, would be served. -/
theorem sanitise_without_upgrade_leaks :
    ∃ d : Desc, leaks (.desc d.sanitise) = true :=
  ⟨{ legacy := [{ role := "op", name := "usrDup", password := some (.plain "secret") }] }, rfl⟩

/-- every description obtained through `GetDescription` has been upgraded -/
theorem getDescription_upgraded (st : State) (g k : String) (f : GroupFile) (s : Bool)
    (h : getDescription st g = some (k, f, s)) : ∃ d0, f.desc = Desc.upgrade d0 := by
  obtain ⟨f0, _, hf⟩ := readDescription_lookup _ _ _ _ _ _ h
  exact ⟨f0.desc, by rw [hf]⟩

theorem actGroup_clean (fx : Fixes) (st : State) (r : Request) (g : String) : Clean (actGroup fx st r g) := by
  unfold actGroup
  split
  · split
    · exact done_clean _ _ rfl
    · next k f s hd =>
      obtain ⟨d0, hd0⟩ := getDescription_upgraded st g k f s hd
      split
      · exact done_clean _ _ rfl
      · split
        · exact done_clean _ _ rfl
        · exact done_clean _ _ (sendJSON_clean _ _ _ (by rw [hd0]; exact sanitised_upgrade_clean d0))
  · split
    · exact done_clean _ _ rfl
    · next k f s hd =>
      obtain ⟨d0, hd0⟩ := getDescription_upgraded st g k f s hd
      split
      · exact done_clean _ _ rfl
      · split
        · exact done_clean _ _ rfl
        · exact done_clean _ _ (sendJSON_clean _ _ _ (by rw [hd0]; exact sanitised_upgrade_clean d0))
  · clean_tac
  · clean_tac
  · clean_tac
theorem actUser_clean (st : State) (r : Request) (g : String) (w : Who) : Clean (actUser st r g w) := by
  unfold actUser
  split
  · split
    · exact done_clean _ _ (httpError_clean _)
    · next u v hu =>
      split
      · exact done_clean _ _ rfl
      · exact done_clean _ _ (sendJSON_clean _ _ _ (getSanitisedUser_clean _ _ _ _ _ hu))
  · split
    · exact done_clean _ _ (httpError_clean _)
    · next u v hu =>
      split
      · exact done_clean _ _ rfl
      · exact done_clean _ _ (sendJSON_clean _ _ _ (getSanitisedUser_clean _ _ _ _ _ hu))
  · clean_tac
  · clean_tac
  · clean_tac
theorem actPassword_clean (st : State) (r : Request) (g : String) (w : Who) : Clean (actPassword st r g w) := by
  unfold actPassword; clean_tac
theorem actKeys_clean (st : State) (r : Request) (g : String) : Clean (actKeys st r g) := by
  unfold actKeys; clean_tac
theorem actTokenList_clean (st : State) (r : Request) (g : String) : Clean (actTokenList st r g) := by
  unfold actTokenList; clean_tac
theorem actToken_clean (fx : Fixes) (st : State) (r : Request) (g t : String) : Clean (actToken fx st r g t) := by
  unfold actToken; clean_tac

theorem act_clean (fx : Fixes) (st : State) (r : Request) (a : Action) : Clean (act fx st r a) := by
  cases a <;> simp only [act]
  case notFoundPlain => exact done_clean _ _ rfl
  case notFoundPage => exact done_clean _ _ rfl
  case stats => clean_tac
  case listGroups => clean_tac
  case group g => exact actGroup_clean _ _ _ _
  case listUsers g => clean_tac
  case user g w => exact actUser_clean _ _ _ _
  case password g w => exact actPassword_clean _ _ _ _
  case keys g => exact actKeys_clean _ _ _
  case tokenList g => exact actTokenList_clean _ _ _
  case token g t => exact actToken_clean _ _ _ _ _

theorem handle_clean (fx : Fixes) (st : State) (r : Request) : Clean (handle fx st r) := by
  unfold handle
  simp only
  split
  · exact done_clean _ _ rfl
  · split
    · exact done_clean _ _ rfl
    · exact act_clean _ _ _ _


/-! ### The property -/

def preflight (r : Request) : Prop := (route r.path).cors = true ∧ r.method = .OPTIONS

/-- the credentials satisfy what the branch selected by the path demands -/
def Satisfies (st : State) (c : Cred) : Auth → Prop
  | .none => True
  | .admin g => SpecAdmin st c g
  | .adminOrSelf g u => SpecAdmin st c g ∨ SpecSelf st c g u

theorem authorised_sound (st : State) (c : Cred) (a : Auth) (h : authorised st c a = true) : Satisfies st c a := by
  cases a with
  | none => trivial
  | admin g =>
    rcases isAdmin_sound st g "" c h with h | h
    · exact h
    · exact absurd rfl h.2.1
  | adminOrSelf g u => exact isAdmin_sound st g u c h

/-- A CORS preflight is answered 200 with an empty body and changes nothing. -/
theorem C17_preflight (fx : Fixes) (st : State) (r : Request) (h : preflight r) :
    handle fx st r = (.resp { status := 200 }, st) := by
  unfold handle
  simp only [done]
  rw [if_pos (by simp [h.1, h.2])]

/-- **C17, refusal.**  A request that is not a preflight and whose credentials do not satisfy
the branch's authorisation requirement is answered `401 Haha!` (no group data) — or, when the
path does not exist, the plain `404 page not found` — and the state is unchanged. -/
theorem C17_refused (fx : Fixes) (st : State) (r : Request) (hp : ¬ preflight r) :
    (route r.path = plain404 ∧ handle fx st r = (.resp notFoundPlain, st)) ∨
    ((route r.path).auth ≠ .none ∧
      (¬ Satisfies st r.cred (route r.path).auth → handle fx st r = (.resp { status := 401, body := .haha }, st))) := by
  rcases route_shape r.path with h404 | hauth
  · left
    refine ⟨h404, ?_⟩
    unfold handle
    simp only [h404, plain404, authorised, act, done]
    simp
  · right
    refine ⟨hauth, fun hns => ?_⟩
    have hna : authorised st r.cred (route r.path).auth = false := by
      cases hh : authorised st r.cred (route r.path).auth with
      | false => rfl
      | true => exact absurd (authorised_sound _ _ _ hh) hns
    unfold handle
    simp only [done]
    rw [if_neg (by
      intro hc
      simp only [Bool.and_eq_true, decide_eq_true_eq] at hc
      exact hp hc)]
    simp [hna]

/-- **C17, authorisation.**  Every response other than 401 to a request that is not a
preflight was produced either for a path that does not exist (the plain 404, nothing changed)
or for credentials that satisfy the branch's requirement: server administrator, administrator
of the addressed group, bearer of an admin token in scope — or, on the password branches only,
the user's own current password. -/
theorem C17_authz (fx : Fixes) (st st' : State) (r : Request) (o : Outcome) (h : handle fx st r = (o, st'))
    (hp : ¬ preflight r) (h401 : o ≠ .resp { status := 401, body := .haha }) :
    (route r.path = plain404 ∧ o = .resp notFoundPlain ∧ st' = st) ∨
    ((route r.path).auth ≠ .none ∧ Satisfies st r.cred (route r.path).auth) := by
  rcases C17_refused fx st r hp with ⟨h1, h2⟩ | ⟨h1, h2⟩
  · left
    rw [h2] at h
    simp at h
    exact ⟨h1, h.1.symm, h.2.symm⟩
  · right
    refine ⟨h1, ?_⟩
    apply Classical.byContradiction
    intro hns
    rw [h2 hns] at h
    simp at h
    exact h401 h.1.symm

/-- The password exception is offered by the password branches of named users only. -/
theorem C17_self_only_on_password (path : String) (g u : String)
    (h : (route path).auth = .adminOrSelf g u) : (route path).action = .password g (.named u) := by
  -- every branch with `adminOrSelf` is built by `routePassword`
  have key : ∀ (b : Branch), (b = plain404 ∨ b.auth ≠ .adminOrSelf g u ∨ b.action = .password g (.named u)) →
      b.auth = .adminOrSelf g u → b.action = .password g (.named u) := by
    intro b hb hbu
    rcases hb with hb | hb | hb
    · subst hb; simp [plain404] at hbu
    · exact absurd hbu hb
    · exact hb
  apply key _ _ h
  have hpw : ∀ g' w, (routePassword g' w).auth ≠ .adminOrSelf g u ∨ (routePassword g' w).action = .password g (.named u) := by
    intro g' w
    cases w with
    | wildcard => left; simp [routePassword]
    | named u' =>
      by_cases hh : g' = g ∧ u' = u
      · right; simp [routePassword, hh.1, hh.2]
      · left; simp only [routePassword]; intro hc; simp at hc; exact hh hc
  have husers : ∀ g' p, routeUsers g' p = plain404 ∨ (routeUsers g' p).auth ≠ .adminOrSelf g u ∨ (routeUsers g' p).action = .password g (.named u) := by
    intro g' p
    unfold routeUsers
    split
    · left; rfl
    · split
      · right; left; simp
      · simp only
        split
        · right; left; simp [routeUser]
        · split
          · right; exact hpw _ _
          · right; left; simp [afterAuth404]
  have hspecial : ∀ g' p w, (routeSpecial g' p w).auth ≠ .adminOrSelf g u ∨ (routeSpecial g' p w).action = .password g (.named u) := by
    intro g' p w
    unfold routeSpecial
    split
    · left; simp [routeUser]
    · split
      · exact hpw _ _
      · left; simp [afterAuth404]
  unfold route
  simp only
  split
  · left; rfl
  · split
    · left; rfl
    · split
      · split
        · left; rfl
        · right; left; simp
      · split
        · unfold routeGroup
          simp only
          split
          · right; left; simp
          · split
            · exact husers _ _
            · split
              · right; exact hspecial _ _ _
              · split
                · right; exact hspecial _ _ _
                · split
                  · right; left; simp
                  · split
                    · unfold routeTokens
                      split
                      · left; rfl
                      · right; left; split <;> simp
                    · split
                      · right; left; simp [afterAuth404]
                      · right; left; simp
        · left; rfl

/-- **C17, effects.**  The state (configuration, definition files, tokens) changes only if the
response is 201 or 204; in particular a request answered 401, 404, 412 or 5xx has no effect. -/
theorem C17_effect_only_if_acknowledged (fx : Fixes) (st st' : State) (r : Request) (o : Outcome) (h : handle fx st r = (o, st')) :
    st' = st ∨ ∃ resp, o = .resp resp ∧ (resp.status = 201 ∨ resp.status = 204) := by
  have := handle_eff fx st r
  rw [h] at this
  exact this

/-- **C17, secrets.**  No response body is built from a user entry, a password (cleartext or
hash) or a key: a description is sent without users, wildcard user and keys, a user without
password; every other body is a list of names, a token, statistics or a fixed text.  This includes
definitions in the legacy file format (`sanitised_upgrade_clean`): `leaks` also looks into the
obsolete `op`/`presenter`/`other` arrays, which `GetSanitisedDescription` does not clear. -/
theorem C17_no_secrets (fx : Fixes) (st st' : State) (r : Request) (resp : Resp) (h : handle fx st r = (.resp resp, st')) :
    leaks resp.body = false := by
  have := handle_clean fx st r
  rw [h] at this
  exact this resp rfl

/-! ### Preservation: what the update functions of group/description.go leave alone

"Stored" means: as the server reads the file, i.e. after `upgradeDescription` (`Desc.upgrade`,
specified by `upgrade_spec` in Lemmas/ApiStore: the obsolete `op`/`presenter`/`other` arrays folded
into users, first entry wins, the `users` map and the `wildcard-user` field win over all of them).
Every rewritten file is in the modern format (`legacy = []`) — except that `UpdateDescription`
copies the obsolete arrays of the REQUEST into the file (P25). -/

/-- `UpdateDescription` refuses a description that carries users, a wildcard user or keys, and
a successful one changes one file, in which users, wildcard user and keys are the stored ones. -/
theorem C17_preserve_description (st st' : State) (name : String) (etag : Option Nat) (d : DescIn) (hn : name ≠ "")
    (h : updateDescription st name etag d = .ok st') :
    d.hasUsers = false ∧ d.hasWildcard = false ∧ d.hasKeys = false ∧
    st'.conf = st.conf ∧ st'.tokens = st.tokens ∧
    ∃ key f', lookup key st'.groups = some f' ∧
      (∀ k', k' ≠ key → lookup k' st'.groups = lookup k' st.groups) ∧
      f'.desc.content = d.content ∧ f'.desc.autoSub = d.autoSub ∧
      f'.desc.legacy = d.legacy ∧ f'.desc.allowSubLegacy = false ∧
      (∀ f, lookup key st.groups = some f →
        f'.desc.users = f.desc.upgrade.users ∧ f'.desc.wildcard = f.desc.upgrade.wildcard ∧
        f'.desc.keys = f.desc.upgrade.keys) := by
  unfold updateDescription at h
  split at h
  · simp at h
  · next hs =>
    simp only [Bool.or_eq_true, not_or, Bool.not_eq_true] at hs
    obtain ⟨⟨h1, h2⟩, h3⟩ := hs
    refine ⟨h1, h2, h3, ?_⟩
    simp only at h
    split at h
    · simp at h
    · cases hold : readDescription st.groups name false with
      | none =>
        simp only [hold] at h
        have hst := rewrite_ok _ _ _ _ h
        subst hst
        refine ⟨rfl, rfl, fileKey name, _, lookup_upsert_self _ _ _, fun k' hk => lookup_upsert_ne _ _ _ _ hk,
          rfl, rfl, rfl, rfl, ?_⟩
        intro f hf
        rw [readDescription_none _ _ hn hold] at hf
        simp at hf
      | some o =>
        obtain ⟨k, f0, s⟩ := o
        simp only [hold] at h
        have hst := rewrite_ok _ _ _ _ h
        subst hst
        refine ⟨rfl, rfl, k, _, lookup_upsert_self _ _ _, fun k' hk => lookup_upsert_ne _ _ _ _ hk,
          rfl, rfl, rfl, rfl, ?_⟩
        intro f hf
        obtain ⟨f1, hl, hf1⟩ := readDescription_lookup _ _ _ _ _ _ hold
        rw [hl] at hf
        simp at hf; subst hf; subst hf1
        exact ⟨rfl, rfl, rfl⟩

/-- A description update whose body carries no obsolete arrays (every accepted body once P25 is
fixed) writes a file in the modern format, whose users and wildcard user — as the server will read
them back — are exactly the stored ones. -/
theorem C17_preserve_description_modern (st st' : State) (name : String) (etag : Option Nat) (d : DescIn)
    (hn : name ≠ "") (hl : d.legacy = []) (h : updateDescription st name etag d = .ok st') :
    ∃ key f', lookup key st'.groups = some f' ∧ f'.desc.upgrade = f'.desc ∧
      (∀ f, lookup key st.groups = some f →
        f'.desc.upgrade.users = f.desc.upgrade.users ∧ f'.desc.upgrade.wildcard = f.desc.upgrade.wildcard) := by
  obtain ⟨_, _, _, _, _, key, f', h1, _, _, _, h5, h6, h7⟩ := C17_preserve_description st st' name etag d hn h
  have hup : f'.desc.upgrade = f'.desc := upgrade_of_modern _ (h5.trans hl) h6
  refine ⟨key, f', h1, hup, fun f hf => ?_⟩
  rw [hup]
  exact ⟨(h7 f hf).1, (h7 f hf).2.1⟩

/-- `UpdateUser` refuses a user description carrying a password; a successful one keeps the
stored password of that user and leaves every other user, the wildcard user (or the named users),
the keys and the description alone; the file it writes is in the modern format. -/
theorem C17_preserve_user (st st' : State) (g : String) (w : Who) (etag : Option Nat) (u : User)
    (h : updateUser st g w etag u = .ok st') :
    u.password = .absent ∧
    ∃ key f f', OneFile st st' key f f' ∧ f'.desc.legacy = [] ∧
      f'.desc.content = f.desc.upgrade.content ∧ f'.desc.autoSub = f.desc.upgrade.autoSub ∧
      f'.desc.keys = f.desc.upgrade.keys ∧
      (∀ w', w' ≠ w → f'.desc.getUser w' = f.desc.upgrade.getUser w') ∧
      ∃ nu, f'.desc.getUser w = some nu ∧ nu.perms = u.perms ∧
        nu.password = ((f.desc.upgrade.getUser w).map (·.password)).getD .absent := by
  unfold updateUser at h
  split at h
  · simp at h
  · next hp =>
    refine ⟨by simpa using hp, ?_⟩
    split at h
    · simp at h
    · next k f s hr =>
      simp only at h
      split at h
      · simp at h
      · obtain ⟨f0, hl, hf0⟩ := readDescription_lookup _ _ _ _ _ _ hr
        subst hf0
        obtain ⟨f', hone, hd⟩ := rewrite_oneFile _ _ _ _ _ hl h
        refine ⟨k, f0, f', hone, ?_⟩
        rw [hd]
        obtain ⟨r1, r2, r3⟩ := setUser_rest f0.desc.upgrade w
          { perms := u.perms, password := ((f0.desc.upgrade.getUser w).map (·.password)).getD .absent }
        exact ⟨setUser_legacy _ _ _, r1, r2, r3, fun w' hw => getUser_setUser_ne _ _ _ _ hw, _,
          getUser_setUser_self _ _ _, rfl, rfl⟩

/-- `DeleteUser` removes exactly the addressed user. -/
theorem C17_preserve_deleteUser (st st' : State) (g : String) (w : Who) (etag : Option Nat)
    (h : deleteUser st g w etag = .ok st') :
    ∃ key f f', OneFile st st' key f f' ∧ f'.desc.legacy = [] ∧
      f'.desc.content = f.desc.upgrade.content ∧ f'.desc.autoSub = f.desc.upgrade.autoSub ∧
      f'.desc.keys = f.desc.upgrade.keys ∧
      (∀ w', w' ≠ w → f'.desc.getUser w' = f.desc.upgrade.getUser w') ∧ f'.desc.getUser w = none := by
  unfold deleteUser at h
  split at h
  · simp at h
  · next k f s hr =>
    split at h
    · simp at h
    · split at h
      · simp at h
      · obtain ⟨f0, hl, hf0⟩ := readDescription_lookup _ _ _ _ _ _ hr
        subst hf0
        obtain ⟨f', hone, hd⟩ := rewrite_oneFile _ _ _ _ _ hl h
        refine ⟨k, f0, f', hone, ?_⟩
        rw [hd]
        obtain ⟨r1, r2, r3⟩ := delUser_rest f0.desc.upgrade w
        exact ⟨delUser_legacy _ _, r1, r2, r3, fun w' hw => getUser_delUser_ne _ _ _ hw, getUser_delUser_self _ _⟩

/-- `SetUserPassword` changes exactly the password of the addressed user. -/
theorem C17_preserve_password (st st' : State) (g : String) (w : Who) (pw : Password)
    (h : setUserPassword st g w pw = .ok st') :
    ∃ key f f', OneFile st st' key f f' ∧ f'.desc.legacy = [] ∧
      f'.desc.content = f.desc.upgrade.content ∧ f'.desc.autoSub = f.desc.upgrade.autoSub ∧
      f'.desc.keys = f.desc.upgrade.keys ∧
      (∀ w', w' ≠ w → f'.desc.getUser w' = f.desc.upgrade.getUser w') ∧
      ∃ ou, f.desc.upgrade.getUser w = some ou ∧ f'.desc.getUser w = some { ou with password := pw } := by
  unfold setUserPassword at h
  split at h
  · simp at h
  · next k f s hr =>
    split at h
    · simp at h
    · next ou hu =>
      obtain ⟨f0, hl, hf0⟩ := readDescription_lookup _ _ _ _ _ _ hr
      subst hf0
      obtain ⟨f', hone, hd⟩ := rewrite_oneFile _ _ _ _ _ hl h
      refine ⟨k, f0, f', hone, ?_⟩
      rw [hd]
      obtain ⟨r1, r2, r3⟩ := setUser_rest f0.desc.upgrade w { ou with password := pw }
      exact ⟨setUser_legacy _ _ _, r1, r2, r3, fun w' hw => getUser_setUser_ne _ _ _ _ hw, ou, hu,
        getUser_setUser_self _ _ _⟩

/-- `SetKeys` changes exactly the keys. -/
theorem C17_preserve_keys (st st' : State) (g : String) (keys : Option (List Key))
    (h : setKeys st g keys = .ok st') :
    ∃ key f f', OneFile st st' key f f' ∧ f'.desc.legacy = [] ∧
      f'.desc.content = f.desc.upgrade.content ∧ f'.desc.autoSub = f.desc.upgrade.autoSub ∧
      f'.desc.users = f.desc.upgrade.users ∧ f'.desc.wildcard = f.desc.upgrade.wildcard ∧
      f'.desc.keys = keys.getD [] := by
  unfold setKeys at h
  split at h
  · simp at h
  · split at h
    · simp at h
    · next k f s hr =>
      obtain ⟨f0, hl, hf0⟩ := readDescription_lookup _ _ _ _ _ _ hr
      subst hf0
      obtain ⟨f', hone, hd⟩ := rewrite_oneFile _ _ _ _ _ hl h
      refine ⟨k, f0, f', hone, ?_⟩
      rw [hd]
      exact ⟨rfl, rfl, rfl, rfl, rfl, rfl⟩

/-- `DeleteDescription` removes one file and nothing else. -/
theorem C17_preserve_deleteDescription (st st' : State) (name : String) (etag : Option Nat)
    (h : deleteDescription st name etag = .ok st') :
    st'.conf = st.conf ∧ st'.tokens = st.tokens ∧
    ∃ key, lookup key st'.groups = none ∧ ∀ k', k' ≠ key → lookup k' st'.groups = lookup k' st.groups := by
  unfold deleteDescription at h
  split at h
  · simp at h
  · next k f s hg =>
    split at h
    · simp at h
    · simp at h; subst h
      exact ⟨rfl, rfl, k, lookup_erase_self _ _, fun k' hk => lookup_erase_ne _ _ _ hk⟩

/-- the group-definition branch is never selected with the empty group name (the hypothesis
`name ≠ ""` of `C17_preserve_description` holds for every request) -/
theorem route_group_nonempty (path g : String) (h : (route path).action = .group g) : g ≠ "" := by
  have hpw : ∀ g' w, (routePassword g' w).action ≠ .group g := by
    intro g' w; cases w <;> simp [routePassword]
  have husers : ∀ g' p, (routeUsers g' p).action ≠ .group g := by
    intro g' p
    unfold routeUsers
    split
    · simp [plain404]
    · split
      · simp
      · simp only
        split
        · simp [routeUser]
        · split
          · exact hpw _ _
          · simp [afterAuth404]
  have hspecial : ∀ g' p w, (routeSpecial g' p w).action ≠ .group g := by
    intro g' p w
    unfold routeSpecial
    split
    · simp [routeUser]
    · split
      · exact hpw _ _
      · simp [afterAuth404]
  revert h
  unfold route
  simp only
  split
  · simp [plain404]
  · split
    · simp [plain404]
    · split
      · split <;> simp [plain404]
      · split
        · unfold routeGroup
          simp only
          split
          · simp
          · next hne =>
            split
            · exact fun h => absurd h (husers _ _)
            · split
              · exact fun h => absurd h (hspecial _ _ _)
              · split
                · exact fun h => absurd h (hspecial _ _ _)
                · split
                  · simp
                  · split
                    · unfold routeTokens
                      split
                      · simp [plain404]
                      · split <;> simp
                    · split
                      · simp [afterAuth404]
                      · next hk =>
                        intro h
                        simp only [Action.group.injEq] at h
                        subst h
                        intro hg
                        simp only [Decidable.not_not] at hk
                        exact hne (by rw [hg, hk]; rfl)
        · simp [plain404]

/-! ### The source has the shape of the model's router (regenerated on every run) -/

open Galene.Generated in
/-- In webserver/api.go as it is on the checked tree, every call into `group.`, `token.` and
`stats.` made by a request-serving function comes after an authorisation test on every path
(lexical must-analysis by extract/apiguards; it fails closed on code it does not understand),
the eight handlers of the router are among the functions analysed, and the list is not empty. -/
theorem C17_auth_dominates :
    apiCalls.all (·.guarded) = true ∧ 20 ≤ apiCalls.length ∧
    ["apiHandler", "apiGroupHandler", "usersHandler", "specialUserHandler", "userHandler",
     "passwordHandler", "keysHandler", "tokensHandler"].all (apiHandlers.contains ·) = true := by decide

/-! ### Non-vacuity -/

def exState : State :=
  { conf := { writable := true, users := [("root", { password := .plain "r", perms := .named "admin" })] },
    groups := [("grpA", { ver := 2, desc :=
      { content := 5, autoSub := true,
        users := [("usrAlice", { password := .plain "l", perms := .named "op" }),
                  ("usrAna", { password := .hashed "b" "a", perms := .named "admin" })],
        wildcard := some { password := .wildcard, perms := .named "message" },
        keys := [⟨.oct, "1"⟩] } })],
    tokens := [("tokA", { group := "grpA", user := some "tadm", perms := ["admin"], valid := .ok })],
    tokVer := some 3, ctr := 3 }

def get (path : String) (c : Cred) : Request := { method := .GET, path := path, cred := c }

-- the group administrator, the server administrator, a token and a JWT are served …
example : (handle {} exState (get "/galene-api/v0/.groups/grpA" (.basic "usrAna" "a"))).1 =
    .resp { status := 200, etag := some 2, body := .desc { content := 5, autoSub := true } } := by decide
def served : Outcome := .resp { status := 200, etag := some 2, body := .desc { content := 5, autoSub := true } }
example : (handle {} exState (get "/galene-api/v0/.groups/grpA" (.basic "root" "r"))).1 = served := by decide
example : (handle {} exState (get "/galene-api/v0/.groups/grpA" (.bearer "tokA"))).1 = served := by decide
example : (handle {} exState (get "/galene-api/v0/.groups/grpA" (.jwt "1" "grpA" ["admin"]))).1 = served := by decide
-- … an ordinary user, a wrong password and a JWT for another group are not
example : (handle {} exState (get "/galene-api/v0/.groups/grpA" (.basic "usrAlice" "l"))).1 = .resp { status := 401, body := .haha } := by decide
example : (handle {} exState (get "/galene-api/v0/.groups/grpA" (.basic "usrAna" "x"))).1 = .resp { status := 401, body := .haha } := by decide
example : (handle {} exState (get "/galene-api/v0/.groups/grpA" (.jwt "1" "grpB" ["admin"]))).1 = .resp { status := 401, body := .haha } := by decide
-- the password exception: usrAlice may change her own password, not usrAna's
def putPw (user : String) : Request :=
  { method := .PUT, path := "/galene-api/v0/.groups/grpA/.users/" ++ user ++ "/.password",
    cred := .basic "usrAlice" "l", ctype := .json, body := .pw (.plain "new") }
example : (handle {} exState (putPw "usrAlice")).1 = .resp { status := 204 } := by decide
example : (handle {} exState (putPw "usrAna")).1 = .resp { status := 401, body := .haha } := by decide
-- the stored description carries secrets, the served one does not
example : leaks (.desc (exState.groups.head!.2.desc)) = true := by decide
-- an update by the administrator keeps users, wildcard user and keys
def putDesc : Request :=
  { method := .PUT, path := "/galene-api/v0/.groups/grpA", cred := .basic "root" "r",
    ctype := .json, ifMatch := [.tag 2], body := .desc { content := 9 } }
example : (handle {} exState putDesc).2.groups.map
      (fun p => (p.2.desc.users.length, p.2.desc.wildcard.isSome, p.2.desc.keys.length, p.2.desc.content, p.2.ver))
    = [(2, true, 1, 9, 4)] := by decide

/-! #### the legacy file format -/

def legacyDesc : Desc :=
  { content := 4, users := [("usrMod", { password := .plain "lm", perms := .named "admin" })],
    allowSubLegacy := true,
    legacy := [ { role := "op", name := "usrOp", password := some (.plain "o") },
                { role := "op", name := "usrDup", password := some (.hashed "b" "d1") },
                { role := "op", name := "usrMod", password := some (.plain "lx") },
                { role := "present", name := "usrDup", password := some (.plain "d2") },
                { role := "present", name := "", password := some (.plain "w1") },
                { role := "present", name := "usrPre", password := none },
                { role := "message", name := "", password := some (.hashed "k" "w2") } ] }

def legacyState : State :=
  { exState with groups := [("grpL", { ver := 2, desc := legacyDesc })] }

-- first wins, the users map wins, the second entry without username is dropped, no password = any password
example : legacyDesc.upgrade.users =
    [("usrDup", { password := .hashed "b" "d1", perms := .named "op" }),
     ("usrMod", { password := .plain "lm", perms := .named "admin" }),
     ("usrOp", { password := .plain "o", perms := .named "op" }),
     ("usrPre", { password := .wildcard, perms := .named "present" })] := by decide
example : legacyDesc.upgrade.wildcard = some { password := .plain "w1", perms := .named "present" } := by decide
example : legacyDesc.upgrade.autoSub = true := by decide
-- what is served for such a file
example : (handle {} legacyState (get "/galene-api/v0/.groups/grpL" (.basic "root" "r"))).1 =
    .resp { status := 200, etag := some 2, body := .desc { content := 4, autoSub := true } } := by decide
example : (handle {} legacyState (get "/galene-api/v0/.groups/grpL/.users/usrDup" (.basic "usrMod" "lm"))).1 =
    .resp { status := 200, etag := some 2, body := .user { perms := .named "op" } } := by decide
-- the password of a dropped duplicate authenticates nobody
example : (handle {} legacyState (get "/galene-api/v0/.groups/grpL" (.basic "usrMod" "lx"))).1 =
    .resp { status := 401, body := .haha } := by decide
-- the raw description, merely sanitised, would leak; upgraded first it does not
example : leaks (.desc legacyDesc.sanitise) = true := by decide
example : leaks (.desc legacyDesc.upgrade.sanitise) = false := by decide
-- a user update rewrites the file in the modern format with the effective users
def delDup : Request :=
  { method := .DELETE, path := "/galene-api/v0/.groups/grpL/.users/usrDup", cred := .basic "root" "r" }
example : (handle {} legacyState delDup).2.groups.map (fun p => (p.2.desc.legacy.length, p.2.desc.users.map (·.1), p.2.desc.wildcard.isSome))
    = [(0, ["usrMod", "usrOp", "usrPre"], true)] := by decide

end Galene.Props.C17
