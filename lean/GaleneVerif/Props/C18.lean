import GaleneVerif.Model.Api
import GaleneVerif.Lemmas.ApiStore
import GaleneVerif.Lemmas.SafeReplaceDesc
import GaleneVerif.Generated.SyscallsDesc
import GaleneVerif.Generated.ApiGuards
/-
C18 — conditional updates of group definitions are exclusive; definition files are replaced
atomically.  (The string level of precondition.go — `scanETag`, `etagMatch` on raw header
values — is engine `paths`, Model/Etag.lean; here a header is a list of `*`, tags and tags
that never match.)

* `etagMatch_iff`, `C18_preconditions` — `etagMatch` holds iff the list names the current
  version; the 412/304/continue table.
* `C18_cas` — a conditional second phase (`UpdateDescription`, `DeleteDescription`,
  `UpdateUser`, `DeleteUser` under `groups.mu`) succeeds only if the tag it was given is the
  current tag of the object it replaces (`none`: only if the object is absent).
* `C18_exclusive` — in every history of second phases, of two conditional writes to the same
  file presenting the same tag the later one fails if the earlier one succeeded.
* `C18_exclusive_interleavings` — the same as a machine: any number of two-phase writers with
  arbitrary first phases under an arbitrary scheduler never produce two winners for one tag.
* `C18_http_group_write`, `C18_http_group_read` — one HTTP request: acknowledged writes honour
  `If-Match`/`If-None-Match`; GET answers 304 exactly when a listed tag is current.
* `C18_two_phase_shape` — regenerated fact: in api.go the tag read in phase 1 is the one tested by
  `checkPreconditions` and handed to the second phase.
* `C18_atomic_file` — `safeReplace_atomic` applied to the system calls captured from the real
  `rewriteDescriptionFile` (regenerated on every run, shape checked by `decide`).
Scope (DESIGN C18): `.password` and `.keys` are write-only resources for which no tag is ever
served; their handlers do not look at `If-Match` (`setPw`/`setKeys` below are unconditional).
Their read-modify-write is one second phase, so no update between API writers is lost; the
harness records that a stale `If-Match` on them is ignored.
-/
namespace Galene.Props.C18
open Galene.Api

/-! ### Entity-tag lists -/

theorem etagMatch_none (h : List HItem) : etagMatch none h = false := by
  induction h with
  | nil => rfl
  | cons it rest ih => cases it <;> simp [etagMatch, ih]

theorem etagMatch_some (v : Nat) (h : List HItem) :
    etagMatch (some v) h = true ↔ (.star ∈ h ∨ .tag v ∈ h) := by
  induction h with
  | nil => simp [etagMatch]
  | cons it rest ih =>
    cases it with
    | star => simp [etagMatch]
    | bogus => simp [etagMatch, ih]
    | tag k =>
      simp only [etagMatch]
      by_cases hk : k = v
      · subst hk; simp
      · have hvk : ¬ v = k := fun h => hk h.symm
        have : ¬ (some v = some k) := by simp [hvk]
        rw [if_neg this, ih]
        simp [hvk]

/-- a header list names the version `cur` (`none`: the object does not exist) -/
def Names (cur : Option Nat) (h : List HItem) : Prop :=
  ∃ v, cur = some v ∧ (.star ∈ h ∨ .tag v ∈ h)

theorem etagMatch_iff (cur : Option Nat) (h : List HItem) : etagMatch cur h = true ↔ Names cur h := by
  cases cur with
  | none => simp [etagMatch_none, Names]
  | some v => simp [etagMatch_some, Names]

open Classical in
/-- `checkPreconditions`: the 412/304/continue table of RFC 7232 as galene implements it. -/
theorem C18_preconditions (r : Request) (cur : Option Nat) :
    checkPreconditions r cur =
      if r.ifMatch ≠ [] ∧ ¬ Names cur r.ifMatch then some 412
      else if r.ifNoneMatch ≠ [] ∧ Names cur r.ifNoneMatch then
        (if r.method = .GET ∨ r.method = .HEAD then some 304 else some 412)
      else none := by
  unfold checkPreconditions
  by_cases h1 : r.ifMatch ≠ [] ∧ ¬ Names cur r.ifMatch
  · rw [if_pos h1, if_pos]
    have : etagMatch cur r.ifMatch = false := by
      cases hh : etagMatch cur r.ifMatch with
      | false => rfl
      | true => exact absurd ((etagMatch_iff _ _).1 hh) h1.2
    simp [h1.1, this]
  · rw [if_neg h1, if_neg]
    · by_cases h2 : r.ifNoneMatch ≠ [] ∧ Names cur r.ifNoneMatch
      · rw [if_pos h2, if_pos]
        · by_cases h3 : r.method = .GET ∨ r.method = .HEAD
          · rw [if_pos h3, if_pos]; simpa using h3
          · rw [if_neg h3, if_neg]; simpa using h3
        · simp [h2.1, (etagMatch_iff _ _).2 h2.2]
      · rw [if_neg h2, if_neg]
        intro hc
        simp only [Bool.and_eq_true, decide_eq_true_eq] at hc
        exact h2 ⟨by simpa using hc.1, (etagMatch_iff _ _).1 hc.2⟩
    · intro hc
      simp only [Bool.and_eq_true, decide_eq_true_eq, Bool.not_eq_true'] at hc
      apply h1
      refine ⟨by simpa using hc.1, fun hn => ?_⟩
      rw [(etagMatch_iff _ _).2 hn] at hc
      simp at hc


/-! ### The second phase of a conditional update (group/description.go under `groups.mu`) -/

/-- a second-phase operation together with the tag its writer read in the first phase -/
inductive WOp where
  | updDesc (name : String) (etag : Option Nat) (d : DescIn)
  | delDesc (name : String) (etag : Option Nat)
  | updUser (g : String) (w : Who) (etag : Option Nat) (u : User)
  | delUser (g : String) (w : Who) (etag : Option Nat)
  | setPw (g : String) (w : Who) (pw : Password)          -- unconditional: no tag is served for passwords
  | setKeys (g : String) (keys : Option (List Key))       -- unconditional: no tag is served for keys
  deriving Repr

def WOp.run (st : State) : WOp → Except Err State
  | .updDesc n e d => updateDescription st n e d
  | .delDesc n e => deleteDescription st n e
  | .updUser g w e u => updateUser st g w e u
  | .delUser g w e => deleteUser st g w e
  | .setPw g w pw => Galene.Api.setUserPassword st g w pw
  | .setKeys g k => Galene.Api.setKeys st g k

/-- the state after the operation (unchanged if it fails) -/
def exec (st : State) (op : WOp) : State :=
  match op.run st with
  | .ok st' => st'
  | .error _ => st

def succeeds (st : State) (op : WOp) : Bool :=
  match op.run st with
  | .ok _ => true
  | .error _ => false

/-- the tag a conditional operation presents (`none` inside: "must not exist") -/
def WOp.etag : WOp → Option (Option Nat)
  | .updDesc _ e _ | .delDesc _ e | .updUser _ _ e _ | .delUser _ _ e => some e
  | _ => none

/-- the definition file an operation addresses -/
def WOp.file : WOp → String
  | .updDesc n _ _ | .delDesc n _ => fileKey n
  | .updUser g _ _ _ | .delUser g _ _ | .setPw g _ _ | .setKeys g _ => fileKey g

/-- the tag of a user inside the group's own definition file -/
def userTag (st : State) (g : String) (w : Who) : Option Nat :=
  match readDescription st.groups g false with
  | some (_, f, _) => (f.desc.getUser w).map fun _ => f.ver
  | none => none

/-- the current tag of the object an operation addresses; `none`: it does not exist -/
def WOp.cur (st : State) : WOp → Option Nat
  | .updDesc n _ _ | .delDesc n _ => getDescriptionTag st n
  | .updUser g w _ _ | .delUser g w _ => userTag st g w
  | _ => none

theorem getFile_false (gs : List (String × GroupFile)) (name : String) (k : String) (f : GroupFile) (s : Bool)
    (h : getFile gs name false = some (k, f, s)) : k = fileKey name ∧ s = false ∧ lookup (fileKey name) gs = some f := by
  unfold getFile at h
  unfold getFileAux at h
  split at h
  · simp at h
  · split at h
    · next f' hf => simp at h; obtain ⟨h1, h2, h3⟩ := h; subst h1; subst h2; subst h3; exact ⟨rfl, rfl, hf⟩
    · simp at h

/-- without the subgroup walk `readDescription` is `getFile` plus the upgrade of the description -/
theorem readDescription_false (gs : List (String × GroupFile)) (name : String) :
    readDescription gs name false =
      (getFile gs name false).map fun o => (o.1, { o.2.1 with desc := o.2.1.desc.upgrade }, o.2.2) := by
  unfold readDescription
  cases h : getFile gs name false with
  | none => rfl
  | some o =>
    obtain ⟨k, f, s⟩ := o
    obtain ⟨_, hs, _⟩ := getFile_false gs name k f s h
    subst hs
    simp

/-- the upgrade does not touch the version -/
theorem readDescription_false_ver (gs : List (String × GroupFile)) (name : String) :
    (readDescription gs name false).map (fun o => o.2.1.ver) = (getFile gs name false).map (fun o => o.2.1.ver) := by
  rw [readDescription_false]
  cases getFile gs name false <;> rfl

/-- **C18, compare-and-swap.**  A conditional second phase that succeeds presented exactly the
current tag of the object it replaces: an update or delete carrying tag `t` finds version `t`,
a creation (`none`) finds the object absent. -/
theorem C18_cas (st st' : State) (op : WOp) (e : Option Nat) (he : op.etag = some e)
    (h : op.run st = .ok st') : op.cur st = e := by
  cases op with
  | updDesc n e' d =>
    simp only [WOp.etag, Option.some.injEq] at he; subst he
    simp only [WOp.run, updateDescription] at h
    split at h
    · simp at h
    · split at h
      · simp at h
      · next hne =>
        simp only [WOp.cur, getDescriptionTag]
        rw [readDescription_false_ver] at hne
        simpa using hne
  | delDesc n e' =>
    simp only [WOp.etag, Option.some.injEq] at he; subst he
    simp only [WOp.run, deleteDescription] at h
    split at h
    · simp at h
    · next k f s hg =>
      split at h
      · simp at h
      · next hne =>
        simp only [WOp.cur, getDescriptionTag, hg]
        simpa using (Decidable.not_not.1 hne).symm
  | updUser g w e' u =>
    simp only [WOp.etag, Option.some.injEq] at he; subst he
    simp only [WOp.run, updateUser] at h
    split at h
    · simp at h
    · split at h
      · simp at h
      · next k f s hr =>
        split at h
        · simp at h
        · next hne =>
          simp only [WOp.cur, userTag, hr]
          simpa using hne
  | delUser g w e' =>
    simp only [WOp.etag, Option.some.injEq] at he; subst he
    simp only [WOp.run, deleteUser] at h
    split at h
    · simp at h
    · next k f s hr =>
      split at h
      · simp at h
      · next u hu =>
        split at h
        · simp at h
        · next hne =>
          simp only [WOp.cur, userTag, hr, hu]
          simpa using (Decidable.not_not.1 hne).symm
  | setPw g w pw => simp [WOp.etag] at he
  | setKeys g k => simp [WOp.etag] at he


/-! ### Exclusivity over histories -/

/-- versions are bounded by the version counter: every write creates a fresh version
(C18's quantifier: successive versions differ in size or modification time) -/
def WF (st : State) : Prop := ∀ k f, lookup k st.groups = some f → f.ver ≤ st.ctr

/-- version `t` of file `k` has been replaced: `k` is absent or strictly newer -/
def Past (st : State) (k : String) (t : Nat) : Prop :=
  WF st ∧ t ≤ st.ctr ∧ ∀ f, lookup k st.groups = some f → t < f.ver

theorem readDescription_false_key (gs : List (String × GroupFile)) (name k : String) (f : GroupFile) (s : Bool)
    (h : readDescription gs name false = some (k, f, s)) :
    k = fileKey name ∧ ∃ f0, lookup (fileKey name) gs = some f0 ∧ f0.ver = f.ver := by
  rw [readDescription_false] at h
  cases hg : getFile gs name false with
  | none => simp [hg] at h
  | some o =>
    obtain ⟨k0, f0, s0⟩ := o
    obtain ⟨h1, _, h3⟩ := getFile_false gs name k0 f0 s0 hg
    simp [hg] at h
    obtain ⟨hk, hf, _⟩ := h
    subst hk; subst hf
    exact ⟨h1, f0, h3, rfl⟩

/-- a successful second phase writes a fresh version of the file it addresses, or removes it -/
theorem run_effect (st st' : State) (op : WOp) (h : op.run st = .ok st') :
    (∃ d, st' = { st with groups := upsert op.file { desc := d, ver := st.ctr + 1 } st.groups, ctr := st.ctr + 1 }) ∨
    st' = { st with groups := erase op.file st.groups } := by
  cases op with
  | updDesc n e d =>
    simp only [WOp.run, updateDescription] at h
    split at h
    · simp at h
    · split at h
      · simp at h
      · cases hold : readDescription st.groups n false with
        | none =>
          simp only [hold] at h
          exact Or.inl ⟨_, rewrite_ok _ _ _ _ h⟩
        | some o =>
          obtain ⟨k, f, s⟩ := o
          simp only [hold] at h
          obtain ⟨hk, _⟩ := readDescription_false_key _ _ _ _ _ hold
          subst hk
          exact Or.inl ⟨_, rewrite_ok _ _ _ _ h⟩
  | delDesc n e =>
    simp only [WOp.run, deleteDescription] at h
    split at h
    · simp at h
    · next k f s hg =>
      obtain ⟨hk, _, _⟩ := getFile_false _ _ _ _ _ hg
      subst hk
      split at h
      · simp at h
      · simp at h; exact Or.inr h.symm
  | updUser g w e u =>
    simp only [WOp.run, updateUser] at h
    split at h
    · simp at h
    · split at h
      · simp at h
      · next k f s hr =>
        obtain ⟨hk, _⟩ := readDescription_false_key _ _ _ _ _ hr
        subst hk
        split at h
        · simp at h
        · exact Or.inl ⟨_, rewrite_ok _ _ _ _ h⟩
  | delUser g w e =>
    simp only [WOp.run, deleteUser] at h
    split at h
    · simp at h
    · next k f s hr =>
      obtain ⟨hk, _⟩ := readDescription_false_key _ _ _ _ _ hr
      subst hk
      split at h
      · simp at h
      · split at h
        · simp at h
        · exact Or.inl ⟨_, rewrite_ok _ _ _ _ h⟩
  | setPw g w pw =>
    simp only [WOp.run, setUserPassword] at h
    split at h
    · simp at h
    · next k f s hr =>
      obtain ⟨hk, _⟩ := readDescription_false_key _ _ _ _ _ hr
      subst hk
      split at h
      · simp at h
      · exact Or.inl ⟨_, rewrite_ok _ _ _ _ h⟩
  | setKeys g ks =>
    simp only [WOp.run, Galene.Api.setKeys] at h
    split at h
    · simp at h
    · split at h
      · simp at h
      · next k f s hr =>
        obtain ⟨hk, _⟩ := readDescription_false_key _ _ _ _ _ hr
        subst hk
        exact Or.inl ⟨_, rewrite_ok _ _ _ _ h⟩

theorem exec_cases (st : State) (op : WOp) :
    exec st op = st ∨ ∃ st', op.run st = .ok st' ∧ exec st op = st' := by
  unfold exec
  cases h : op.run st with
  | ok st' => exact Or.inr ⟨st', rfl, rfl⟩
  | error e => exact Or.inl rfl

theorem wf_exec (st : State) (op : WOp) (h : WF st) : WF (exec st op) := by
  rcases exec_cases st op with he | ⟨st', hr, he⟩
  · rw [he]; exact h
  · rw [he]
    rcases run_effect st st' op hr with ⟨d, hs⟩ | hs
    · subst hs
      intro k f hl
      simp only at hl ⊢
      by_cases hk : k = op.file
      · subst hk; rw [lookup_upsert_self] at hl; simp at hl; subst hl; simp
      · rw [lookup_upsert_ne _ _ _ _ hk] at hl
        exact Nat.le_succ_of_le (h k f hl)
    · subst hs
      intro k f hl
      simp only at hl ⊢
      by_cases hk : k = op.file
      · subst hk; rw [lookup_erase_self] at hl; simp at hl
      · rw [lookup_erase_ne _ _ _ hk] at hl
        exact h k f hl

theorem past_exec (st : State) (op : WOp) (k : String) (t : Nat) (h : Past st k t) : Past (exec st op) k t := by
  obtain ⟨hwf, ht, hp⟩ := h
  refine ⟨wf_exec st op hwf, ?_, ?_⟩
  · rcases exec_cases st op with he | ⟨st', hr, he⟩
    · rw [he]; exact ht
    · rw [he]
      rcases run_effect st st' op hr with ⟨d, hs⟩ | hs <;> subst hs <;> simp only <;> omega
  · rcases exec_cases st op with he | ⟨st', hr, he⟩
    · rw [he]; exact hp
    · rw [he]
      rcases run_effect st st' op hr with ⟨d, hs⟩ | hs
      · subst hs
        intro f hl
        simp only at hl
        by_cases hk : k = op.file
        · subst hk; rw [lookup_upsert_self] at hl; simp at hl; subst hl; simp only; omega
        · rw [lookup_upsert_ne _ _ _ _ hk] at hl; exact hp f hl
      · subst hs
        intro f hl
        simp only at hl
        by_cases hk : k = op.file
        · subst hk; rw [lookup_erase_self] at hl; simp at hl
        · rw [lookup_erase_ne _ _ _ hk] at hl; exact hp f hl

/-- the object has tag `t` only if its file holds version `t` -/
theorem cur_some (st : State) (op : WOp) (t : Nat) (h : op.cur st = some t) :
    ∃ f, lookup op.file st.groups = some f ∧ f.ver = t := by
  cases op with
  | updDesc n e d =>
    simp only [WOp.cur, getDescriptionTag] at h
    cases hg : getFile st.groups n false with
    | none => simp [hg] at h
    | some o =>
      obtain ⟨k, f, s⟩ := o
      obtain ⟨_, _, hl⟩ := getFile_false _ _ _ _ _ hg
      simp [hg] at h
      exact ⟨f, hl, h⟩
  | delDesc n e =>
    simp only [WOp.cur, getDescriptionTag] at h
    cases hg : getFile st.groups n false with
    | none => simp [hg] at h
    | some o =>
      obtain ⟨k, f, s⟩ := o
      obtain ⟨_, _, hl⟩ := getFile_false _ _ _ _ _ hg
      simp [hg] at h
      exact ⟨f, hl, h⟩
  | updUser g w e u =>
    simp only [WOp.cur, userTag] at h
    split at h
    · next k f s hr =>
      obtain ⟨_, f0, hl, hv⟩ := readDescription_false_key _ _ _ _ _ hr
      cases hu : f.desc.getUser w with
      | none => simp [hu] at h
      | some u' => simp [hu] at h; exact ⟨f0, hl, hv.trans h⟩
    · simp at h
  | delUser g w e =>
    simp only [WOp.cur, userTag] at h
    split at h
    · next k f s hr =>
      obtain ⟨_, f0, hl, hv⟩ := readDescription_false_key _ _ _ _ _ hr
      cases hu : f.desc.getUser w with
      | none => simp [hu] at h
      | some u' => simp [hu] at h; exact ⟨f0, hl, hv.trans h⟩
    · simp at h
  | setPw g w pw => simp [WOp.cur] at h
  | setKeys g k => simp [WOp.cur] at h

/-- once a conditional write with tag `t` has succeeded, version `t` of that file is past -/
theorem past_after_success (st st' : State) (op : WOp) (t : Nat) (hwf : WF st)
    (he : op.etag = some (some t)) (h : op.run st = .ok st') : Past st' op.file t := by
  have hcur := C18_cas st st' op (some t) he h
  obtain ⟨f, hl, hv⟩ := cur_some st op t hcur
  have htc : t ≤ st.ctr := hv ▸ hwf _ _ hl
  have hwf' : WF st' := by
    have := wf_exec st op hwf
    unfold exec at this; rw [h] at this; exact this
  refine ⟨hwf', ?_, ?_⟩
  · rcases run_effect st st' op h with ⟨d, hs⟩ | hs <;> subst hs <;> simp only <;> omega
  · rcases run_effect st st' op h with ⟨d, hs⟩ | hs
    · subst hs; intro f' hl'; simp only at hl'
      rw [lookup_upsert_self] at hl'; simp at hl'; subst hl'; simp only; omega
    · subst hs; intro f' hl'; simp only at hl'
      rw [lookup_erase_self] at hl'; simp at hl'

def runAll (st : State) (ops : List WOp) : State := ops.foldl exec st

theorem past_runAll (st : State) (ops : List WOp) (k : String) (t : Nat) (h : Past st k t) :
    Past (runAll st ops) k t := by
  induction ops generalizing st with
  | nil => exact h
  | cons o os ih => exact ih _ (past_exec st o k t h)

theorem wf_runAll (st : State) (ops : List WOp) (h : WF st) : WF (runAll st ops) := by
  induction ops generalizing st with
  | nil => exact h
  | cons o os ih => exact ih _ (wf_exec st o h)

/-- **C18, exclusivity.**  In every history of second phases — i.e. under every interleaving of
any number of two-phase writers, whatever tags their first phases read and whenever they read
them, since a first phase changes nothing and second phases are serialised by `groups.mu` —
of two conditional writes to the same definition file that present the same tag `t`, the later
one fails if the earlier one succeeded: at most one of the writers holding a tag wins, and
the update of the winner is not overwritten by a writer that has not seen it. -/
theorem C18_exclusive (st0 : State) (hwf : WF st0) (pre mid : List WOp) (a b : WOp) (t : Nat)
    (ha : a.etag = some (some t)) (hb : b.etag = some (some t)) (hfile : a.file = b.file)
    (hsa : succeeds (runAll st0 pre) a = true) :
    succeeds (runAll (exec (runAll st0 pre) a) mid) b = false := by
  have hwf1 := wf_runAll st0 pre hwf
  unfold succeeds at hsa
  cases hra : a.run (runAll st0 pre) with
  | error e => simp [hra] at hsa
  | ok st1 =>
    have hex : exec (runAll st0 pre) a = st1 := by unfold exec; rw [hra]
    rw [hex]
    have hp := past_runAll st1 mid a.file t (past_after_success _ _ a t hwf1 ha hra)
    unfold succeeds
    cases hrb : b.run (runAll st1 mid) with
    | error e => rfl
    | ok st2 =>
      exfalso
      have hcur := C18_cas _ _ b (some t) hb hrb
      obtain ⟨f, hl, hv⟩ := cur_some _ b t hcur
      rw [← hfile] at hl
      have := hp.2.2 f hl
      omega


/-! ### The same, as a machine of two-phase writers under an arbitrary scheduler -/

/-- what a writer wants to do; the tag comes from its first phase -/
inductive Job where
  | updDesc (name : String) (d : DescIn)
  | delDesc (name : String)
  | updUser (g : String) (w : Who) (u : User)
  | delUser (g : String) (w : Who)
  deriving Repr

def Job.op : Job → Option Nat → WOp
  | .updDesc n d, e => .updDesc n e d
  | .delDesc n, e => .delDesc n e
  | .updUser g w u, e => .updUser g w e u
  | .delUser g w, e => .delUser g w e

def Job.file : Job → String
  | .updDesc n _ | .delDesc n => fileKey n
  | .updUser g _ _ | .delUser g _ => fileKey g

theorem Job.op_etag (j : Job) (e : Option Nat) : (j.op e).etag = some e := by cases j <;> rfl
theorem Job.op_file (j : Job) (e : Option Nat) : (j.op e).file = j.file := by cases j <;> rfl

/-- a writer: its job and its first phase — ANY function of the state it happens to see
(`GetDescriptionTag`, `GetUserTag`, a tag remembered from an earlier GET, …) -/
structure Writer where
  job : Job
  read : State → Option Nat

inductive WState where
  | idle
  | holding (e : Option Nat)                  -- first phase done, tag in hand
  | done (e : Option Nat) (ok : Bool)         -- second phase done
  deriving DecidableEq, Repr

structure Sys where
  st : State
  ws : Nat → WState

/-- writer `i` takes its next step: the first phase reads, the second runs atomically (`groups.mu`) -/
def stepW (writers : Nat → Option Writer) (s : Sys) (i : Nat) : Sys :=
  match writers i, s.ws i with
  | some w, .idle => { s with ws := fun k => if k = i then .holding (w.read s.st) else s.ws k }
  | some w, .holding e =>
    { st := exec s.st (w.job.op e),
      ws := fun k => if k = i then .done e (succeeds s.st (w.job.op e)) else s.ws k }
  | _, _ => s

def runSchedule (writers : Nat → Option Writer) (s : Sys) (sched : List Nat) : Sys := sched.foldl (stepW writers) s

/-- every writer that has won with tag `t` has made version `t` of its file past -/
def SysInv (writers : Nat → Option Writer) (s : Sys) : Prop :=
  WF s.st ∧ ∀ i w t, writers i = some w → s.ws i = .done (some t) true → Past s.st w.job.file t

theorem no_second (st : State) (op : WOp) (k : String) (t : Nat) (hp : Past st k t)
    (hf : op.file = k) (he : op.etag = some (some t)) : succeeds st op = false := by
  unfold succeeds
  cases hr : op.run st with
  | error e => rfl
  | ok st' =>
    exfalso
    obtain ⟨f, hl, hv⟩ := cur_some _ op t (C18_cas _ _ op (some t) he hr)
    rw [hf] at hl
    have := hp.2.2 f hl
    omega

theorem sysInv_step (writers : Nat → Option Writer) (s : Sys) (i : Nat) (h : SysInv writers s) :
    SysInv writers (stepW writers s i) ∧
    (∀ j w wj t, j ≠ i → writers i = some w → writers j = some wj → w.job.file = wj.job.file →
      s.ws j = .done (some t) true → (stepW writers s i).ws i = .done (some t) true → s.ws i = .done (some t) true) := by
  obtain ⟨hwf, hpast⟩ := h
  unfold stepW
  cases hw : writers i with
  | none => exact ⟨⟨hwf, hpast⟩, fun _ _ _ _ _ h => by simp at h⟩
  | some w =>
    cases hs : s.ws i with
    | idle =>
      simp only
      refine ⟨⟨hwf, fun j wj t hj hd => ?_⟩, fun j w' wj t _ _ _ _ _ hd => ?_⟩
      · by_cases hji : j = i
        · subst hji; simp at hd
        · simp only [hji, if_false] at hd; exact hpast j wj t hj hd
      · simp at hd
    | done e ok =>
      simp only
      exact ⟨⟨hwf, hpast⟩, fun _ _ _ _ _ _ _ _ _ hd => by rw [hs] at hd; exact hd⟩
    | holding e =>
      simp only
      refine ⟨⟨wf_exec _ _ hwf, fun j wj t hj hd => ?_⟩, fun j w' wj t hji hw' hwj hfile hdj hd => ?_⟩
      · by_cases hji : j = i
        · subst hji
          rw [hw] at hj; simp only [Option.some.injEq] at hj; subst hj
          simp only [if_true, WState.done.injEq] at hd
          obtain ⟨he, hok⟩ := hd
          subst he
          -- the second phase succeeded with tag t
          unfold succeeds at hok
          cases hr : (w.job.op (some t)).run s.st with
          | error e' => simp [hr] at hok
          | ok st' =>
            have := past_after_success s.st st' (w.job.op (some t)) t hwf (Job.op_etag _ _) hr
            rw [Job.op_file] at this
            unfold exec; rw [hr]; exact this
        · simp only [hji, if_false] at hd
          exact past_exec _ _ _ _ (hpast j wj t hj hd)
      · -- writer i cannot win with a tag that writer j has already won with
        exfalso
        simp only [Option.some.injEq] at hw'; subst hw'
        simp only [if_true, WState.done.injEq] at hd
        obtain ⟨he, hok⟩ := hd
        subst he
        have hp := hpast j wj t hwj hdj
        have := no_second s.st (w.job.op (some t)) wj.job.file t hp (by rw [Job.op_file, hfile]) (Job.op_etag _ _)
        rw [this] at hok; simp at hok

/-- no two winners with the same tag on the same file -/
def Exclusive (writers : Nat → Option Writer) (s : Sys) : Prop :=
  ∀ i j wi wj t, i ≠ j → writers i = some wi → writers j = some wj → wi.job.file = wj.job.file →
    s.ws i = .done (some t) true → s.ws j = .done (some t) true → False

theorem stepW_other (writers : Nat → Option Writer) (s : Sys) (i j : Nat) (h : j ≠ i) :
    (stepW writers s i).ws j = s.ws j := by
  unfold stepW
  cases writers i with
  | none => rfl
  | some w => cases s.ws i <;> simp [h]

theorem exclusive_step (writers : Nat → Option Writer) (s : Sys) (k : Nat) (hi : SysInv writers s)
    (hx : Exclusive writers s) : Exclusive writers (stepW writers s k) := by
  intro i j wi wj t hij hwi hwj hfile hdi hdj
  have hstep := (sysInv_step writers s k hi).2
  by_cases hik : i = k
  · subst hik
    have hjk : j ≠ i := fun h => hij h.symm
    rw [stepW_other _ _ _ _ hjk] at hdj
    have := hstep j wi wj t hjk hwi hwj hfile hdj hdi
    exact hx i j wi wj t hij hwi hwj hfile this hdj
  · rw [stepW_other _ _ _ _ hik] at hdi
    by_cases hjk : j = k
    · subst hjk
      have := hstep i wj wi t hik hwj hwi hfile.symm hdi hdj
      exact hx i j wi wj t hij hwi hwj hfile hdi this
    · rw [stepW_other _ _ _ _ hjk] at hdj
      exact hx i j wi wj t hij hwi hwj hfile hdi hdj

/-- **C18, exclusivity under every interleaving.**  Start any number of two-phase writers (each
with an arbitrary first phase) on a well-formed store and let an arbitrary scheduler pick which
writer takes its next step.  At no point have two different writers both won a conditional write
to the same definition file with the same tag. -/
theorem C18_exclusive_interleavings (writers : Nat → Option Writer) (st0 : State) (hwf : WF st0)
    (sched : List Nat) :
    Exclusive writers (runSchedule writers { st := st0, ws := fun _ => .idle } sched) := by
  suffices h : ∀ s, SysInv writers s → Exclusive writers s →
      SysInv writers (runSchedule writers s sched) ∧ Exclusive writers (runSchedule writers s sched) by
    refine (h _ ⟨hwf, fun i w t _ hd => by simp at hd⟩ (fun i j wi wj t _ _ _ _ hd => by simp at hd)).2
  induction sched with
  | nil => exact fun s h1 h2 => ⟨h1, h2⟩
  | cons k ks ih =>
    intro s h1 h2
    exact ih _ (sysInv_step writers s k h1).1 (exclusive_step writers s k h1 h2)

/-! ### The HTTP level (one request; phase 1 and phase 2 back to back) -/

theorem pre_none (r : Request) (cur : Option Nat) (h : checkPreconditions r cur = none) :
    (r.ifMatch ≠ [] → Names cur r.ifMatch) ∧ (r.ifNoneMatch ≠ [] → ¬ Names cur r.ifNoneMatch) := by
  rw [C18_preconditions] at h
  split at h
  · simp at h
  · next h1 =>
    split at h
    · split at h <;> simp at h
    · next h2 =>
      constructor
      · intro hne
        apply Classical.byContradiction
        intro hn
        exact h1 ⟨hne, hn⟩
      · intro hne hn
        exact h2 ⟨hne, hn⟩

theorem pre_304 (r : Request) (cur : Option Nat) :
    checkPreconditions r cur = some 304 ↔
      (r.ifMatch = [] ∨ Names cur r.ifMatch) ∧ r.ifNoneMatch ≠ [] ∧ Names cur r.ifNoneMatch ∧
      (r.method = .GET ∨ r.method = .HEAD) := by
  rw [C18_preconditions]
  constructor
  · intro h
    split at h
    · simp at h
    · next h1 =>
      split at h
      · next h2 =>
        split at h
        · next h3 =>
          refine ⟨?_, h2.1, h2.2, h3⟩
          apply Classical.byContradiction
          intro hn
          apply h1
          constructor
          · intro he; exact hn (Or.inl he)
          · intro hnm; exact hn (Or.inr hnm)
        · simp at h
      · simp at h
  · rintro ⟨h1, h2, h3, h4⟩
    rw [if_neg, if_pos ⟨h2, h3⟩, if_pos h4]
    rintro ⟨ha, hb⟩
    rcases h1 with h1 | h1
    · exact ha h1
    · exact hb h1

/-- **C18 at the HTTP level, writes to a group definition.**  A PUT or DELETE that is acknowledged
(201/204) carried an `If-Match` (if any) naming the version it replaced, and an `If-None-Match`
(if any) naming neither that version nor, with `*`, any version: creation with
`If-None-Match: *` succeeds only if the definition did not exist. -/
theorem C18_http_group_write (fx : Fixes) (st st' : State) (r : Request) (g : String) (resp : Resp)
    (hm : r.method = .PUT ∨ r.method = .DELETE)
    (h : actGroup fx st r g = (.resp resp, st')) (hok : resp.status = 201 ∨ resp.status = 204) :
    (r.ifMatch ≠ [] → Names (getDescriptionTag st g) r.ifMatch) ∧
    (r.ifNoneMatch ≠ [] → ¬ Names (getDescriptionTag st g) r.ifNoneMatch) := by
  unfold actGroup at h
  rcases hm with hm | hm
  · rw [hm] at h
    simp only at h
    split at h
    · next code hc =>
      -- a precondition failed: the status is 412 or 304
      simp only [done, Prod.mk.injEq, Outcome.resp.injEq] at h
      obtain ⟨h1, _⟩ := h
      subst h1
      rw [C18_preconditions] at hc
      split at hc
      · simp at hc; subst hc; simp at hok
      · split at hc
        · split at hc <;> simp at hc <;> subst hc <;> simp at hok
        · simp at hc
    · next hc => exact pre_none r _ hc
  · rw [hm] at h
    simp only at h
    split at h
    · simp only [done, Prod.mk.injEq, Outcome.resp.injEq] at h
      obtain ⟨h1, _⟩ := h
      subst h1
      simp [httpError] at hok
    · next v hv =>
      split at h
      · next code hc =>
        simp only [done, Prod.mk.injEq, Outcome.resp.injEq] at h
        obtain ⟨h1, _⟩ := h
        subst h1
        rw [C18_preconditions] at hc
        split at hc
        · simp at hc; subst hc; simp at hok
        · split at hc
          · split at hc <;> simp at hc <;> subst hc <;> simp at hok
          · simp at hc
      · next hc => rw [hv]; exact pre_none r _ hc

/-- **C18 at the HTTP level, reads.**  A GET/HEAD of an existing group definition is answered 304
exactly when `If-None-Match` names the current version (and `If-Match`, if present, does too);
the tag served is the current version. -/
theorem C18_http_group_read (fx : Fixes) (st : State) (r : Request) (g k : String) (f : GroupFile)
    (hm : r.method = .GET ∨ r.method = .HEAD) (hd : getDescription st g = some (k, f, false)) :
    ∃ resp, actGroup fx st r g = (.resp resp, st) ∧
      (resp.status = 200 ∨ resp.status = 304 ∨ resp.status = 412) ∧ resp.etag = some f.ver ∧
      (resp.status = 304 ↔
        (r.ifMatch = [] ∨ Names (some f.ver) r.ifMatch) ∧ r.ifNoneMatch ≠ [] ∧ Names (some f.ver) r.ifNoneMatch) := by
  have h304 := pre_304 r (some f.ver)
  unfold actGroup
  rcases hm with hm | hm <;> rw [hm] <;> simp only [hd] <;>
  · cases hc : checkPreconditions r (some f.ver) with
    | none =>
      refine ⟨_, rfl, Or.inl rfl, rfl, ?_⟩
      simp only [sendJSON]
      constructor
      · intro h; simp at h
      · intro h
        have := h304.2 ⟨h.1, h.2.1, h.2.2, by simp [hm]⟩
        rw [hc] at this; simp at this
    | some code =>
      have hcode : code = 304 ∨ code = 412 := by
        rw [C18_preconditions] at hc
        split at hc
        · simp at hc; exact Or.inr hc.symm
        · split at hc
          · split at hc <;> simp at hc
            · exact Or.inl hc.symm
            · exact Or.inr hc.symm
          · simp at hc
      refine ⟨_, rfl, ?_, rfl, ?_⟩
      · rcases hcode with h | h <;> simp [h]
      · constructor
        · intro h
          subst h
          have := h304.1 hc
          exact ⟨this.1, this.2.1, this.2.2.1⟩
        · intro h
          have := h304.2 ⟨h.1, h.2.1, h.2.2, by simp [hm]⟩
          rw [hc] at this
          simpa using this

/-! ### The handlers have the two-phase shape (regenerated on every run) -/

open Galene.Generated in
/-- In webserver/api.go as it is on the checked tree, every conditional write
(`UpdateDescription`, `DeleteDescription`, `UpdateUser`, `DeleteUser`, `token.Update`,
`token.Delete`) gets as its tag the variable `etag` that the same statement list assigned from
`GetDescriptionTag` / `GetUserTag` / `token.Get` (phase 1) and passed through
`checkPreconditions(w, r, etag)` — the shape `actGroup`/`actUser`/`actToken` of the model have
(lexical check by extract/apiguards). -/
theorem C18_two_phase_shape :
    apiCas.all (fun c => c.sameVar && c.precond) = true ∧ 6 ≤ apiCas.length := by decide

/-! ### Atomic replacement of the definition file -/

open Galene.SafeReplaceDesc Galene.Generated in
/-- **C18, atomic file.**  The system calls of `rewriteDescriptionFile`, as captured from the
real code on this tree, have the shape create-temp / write / close / rename; hence after every
prefix of them (a crash at any point, a concurrent reader, a restart) the definition file holds
the complete old or the complete new definition. -/
theorem C18_atomic_file (fs0 : FS)
    (hfresh : ∀ q i, fs0.names q = some i → i < fs0.next)
    (hfds : ∀ d, fs0.fds d = none)
    (hexcl : ∀ p fd, Op.createExcl p fd ∈ syscallsDesc → fs0.names p = none)
    (n : Nat) :
    (run (syscallsDesc.take n) fs0).content syscallsDescTarget = fs0.content syscallsDescTarget ∨
    (run (syscallsDesc.take n) fs0).content syscallsDescTarget = some (newContent syscallsDescTarget syscallsDesc) :=
  safeReplace_atomic syscallsDescTarget syscallsDesc fs0 (by decide) hfresh hfds hexcl n

open Galene.SafeReplaceDesc in
/-- does the list contain `fsync fd, close fd` followed later by a rename onto the target? -/
def syncedBeforeRename (target : String) : List Op → Bool
  | .fsync fd :: .close fd' :: rest =>
    (fd == fd' && rest.any (fun o => match o with | .rename _ d => d == target | _ => false)) ||
      syncedBeforeRename target (.close fd' :: rest)
  | _ :: rest => syncedBeforeRename target rest
  | [] => false

open Galene.Generated in
/-- the captured sequence syncs the temporary file before renaming it (a remark for the
durability side, which the crash model does not cover) -/
theorem C18_fsync_before_rename : syncedBeforeRename syscallsDescTarget syscallsDesc = true := by decide

/-! ### Non-vacuity -/

def st0 : State :=
  { conf := { writable := true },
    groups := [("grpA", { ver := 2, desc := { content := 5, users := [("usrAna", { perms := .named "admin" })] } })],
    ctr := 2 }

example : WF st0 := by
  intro k f h
  simp only [st0, lookup] at h
  split at h <;> simp at h
  subst h; simp [st0]

-- two writers read tag 2; the first wins, the second loses, in either order and with a third party in between
def w1 : WOp := .updDesc "grpA" (some 2) { content := 10 }
def w2 : WOp := .updUser "grpA" (.named "usrAna") (some 2) { perms := .named "op" }
example : succeeds st0 w1 = true := by decide
example : succeeds st0 w2 = true := by decide
example : succeeds (exec st0 w1) w2 = false := by decide
example : succeeds (exec st0 w2) w1 = false := by decide
example : succeeds (runAll (exec st0 w1) [.setKeys "grpA" none]) w2 = false := by decide
-- the creator needs absence
example : succeeds st0 (.updDesc "grpA" none {}) = false := by decide
example : succeeds st0 (.updDesc "grpB" none {}) = true := by decide
example : Names (some 2) [.bogus, .tag 2] := ⟨2, rfl, Or.inr (by decide)⟩

-- the machine: both writers read tag 2 before either writes; exactly one wins, whoever writes first
def twoWriters : Nat → Option Writer
  | 0 => some { job := .updDesc "grpA" { content := 10 }, read := fun st => getDescriptionTag st "grpA" }
  | 1 => some { job := .updUser "grpA" (.named "usrAna") { perms := .named "op" }, read := fun st => userTag st "grpA" (.named "usrAna") }
  | _ => none
def sys0 : Sys := { st := st0, ws := fun _ => .idle }
example : (runSchedule twoWriters sys0 [0, 1, 0, 1]).ws 0 = .done (some 2) true := by decide
example : (runSchedule twoWriters sys0 [0, 1, 0, 1]).ws 1 = .done (some 2) false := by decide
example : (runSchedule twoWriters sys0 [0, 1, 1, 0]).ws 0 = .done (some 2) false := by decide
example : (runSchedule twoWriters sys0 [0, 1, 1, 0]).ws 1 = .done (some 2) true := by decide
-- sequential writers both win (the second one read the new tag)
example : (runSchedule twoWriters sys0 [0, 0, 1, 1]).ws 1 = .done (some 3) true := by decide

end Galene.Props.C18
