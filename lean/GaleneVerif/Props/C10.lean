import GaleneVerif.Model.Group
/-!
# C10 — admission rules hold under every interleaving of the critical sections

Model: `GaleneVerif/Model/Group.lean` (one `Step` per region that group.go executes
under `g.mu`; `run w steps` is an arbitrary interleaving).  The theorems about a single
`secAdmit` hold in EVERY state, hence in every state reachable by any interleaving of
any number of joins, leaves, lock changes and reloads; the invariants are proved by
induction over arbitrary step lists.

* `C10_admit_sound`, `C10_capacity_all_interleavings`: a client that is neither an
  operator nor a system client is inserted only if, in the state the admission section
  executes in, the group is unlocked, inside its window, (autokick ⇒ an operator is a
  member) and (`max-clients > 0` ⇒ fewer than `max-clients` members).
* `C10_operator_exempt`: operators and system clients pass whatever the lock, window,
  autokick and capacity say (they still need a fresh, non-empty id).
* `C10_refused_not_member_not_announced`: a refused client is not inserted and nothing
  at all is announced.
* `C10_no_duplicate_ids`: in every reachable state the member ids are pairwise distinct.
* `C10_leave_unknown_is_noop`: `DelClient` of an object that is not the registered
  member of its id changes nothing.
* `C10_autolock_fresh`: a fresh autolock group is locked by the `add` section that creates it.
* `C10_autolock_partial`: if `DelClient` kept `g.mu` across `autoLockKick` (`execA`: the
  removal and the re-lock are ONE step) then under every interleaving an autolock group
  without operator is locked, so no non-operator is admitted after the last operator left.
  The code does NOT do that (finding P9): `C10_autolock_split_counterexample` is a
  schedule of the real step alphabet in which a non-operator is admitted to an autolock
  group whose last operator has left.
* `C10_rejected_keeps_permissions_counterexample` (finding P10): `c.Init` runs before the
  checks, so a refused client keeps the username and permissions.
-/
namespace Galene.Group

/-! ### client objects -/

theorem lookup_filter_ne {β} (l : List (Nat × β)) (h h' : Nat) (hne : h' ≠ h) :
    (l.filter (fun p => p.1 != h)).lookup h' = l.lookup h' := by
  induction l with
  | nil => rfl
  | cons p ps ih =>
    obtain ⟨a, b⟩ := p
    by_cases ha : a = h
    · subst ha
      have h1 : (h' == a) = false := by simpa using hne
      simp [List.filter, List.lookup, h1, ih]
    · have h2 : (a != h) = true := by simpa using ha
      simp only [List.filter, h2, List.lookup]
      split <;> simp_all

@[simp] theorem obj_setObj_same (w : World) (h : Nat) (c : Client) : (w.setObj h c).obj h = c := by
  simp [World.obj, World.setObj]

theorem obj_setObj_other (w : World) (h h' : Nat) (c : Client) (hne : h' ≠ h) :
    (w.setObj h c).obj h' = w.obj h' := by
  have h1 : (h' == h) = false := by simpa using hne
  simp [World.obj, World.setObj, List.lookup, h1, lookup_filter_ne _ _ _ hne]

@[simp] theorem setObj_group (w : World) (h : Nat) (c : Client) : (w.setObj h c).group = w.group := rfl
@[simp] theorem setObj_file (w : World) (h : Nat) (c : Client) : (w.setObj h c).file = w.file := rfl

/-- `hasOp` only looks at the objects of the members. -/
theorem hasOp_congr (w w' : World) (g : Grp) (hobj : ∀ h ∈ handles g, w'.obj h = w.obj h) :
    hasOp w' g = hasOp w g := by
  unfold hasOp
  apply List.any_congr_mem
  intro p hp
  rw [hobj p.2 (by simpa [handles] using ⟨p.1, hp⟩)]
where
  List.any_congr_mem {α} {l : List α} {f g : α → Bool} (h : ∀ x ∈ l, f x = g x) : l.any f = l.any g := by
    induction l with
    | nil => rfl
    | cons a as ih =>
      simp only [List.any_cons]
      rw [h a (by simp), ih (fun x hx => h x (by simp [hx]))]

/-! ### the admission section -/

theorem admissionChecks_ok {w g now} (hk : admissionChecks w g now = .ok ()) :
    g.locked = none ∧ notYetOpen g.desc now = false ∧ alreadyClosed g.desc now = false ∧
    (g.desc.autokick = true → hasOp w g = true) := by
  unfold admissionChecks at hk
  cases hl : g.locked with
  | some m => simp [hl] at hk
  | none =>
    simp only [hl] at hk
    by_cases h1 : notYetOpen g.desc now = true
    · simp [h1] at hk
    · by_cases h2 : alreadyClosed g.desc now = true
      · simp [h1, h2] at hk
      · by_cases h3 : (g.desc.autokick && !hasOp w g) = true
        · simp [h1, h2, h3] at hk
        · refine ⟨rfl, by simpa using h1, by simpa using h2, ?_⟩
          intro hak
          simp [hak] at h3
          exact h3

theorem notYetOpen_false {d now} (h : notYetOpen d now = false) :
    ∀ nb, d.notBefore = some nb → nb ≤ now := by
  intro nb hnb
  simp [notYetOpen, hnb] at h
  exact h

theorem alreadyClosed_false {d now} (h : alreadyClosed d now = false) :
    ∀ ex, d.expires = some ex → now ≤ ex := by
  intro ex hex
  simp [alreadyClosed, hex] at h
  exact h

theorem isFull_false {g : Grp} (h : isFull g = false) :
    g.desc.maxClients > 0 → (g.clients.length : Int) < g.desc.maxClients := by
  intro hpos
  simp [isFull, hpos] at h
  exact h

theorem lookup_none_iff {β} (l : List (String × β)) (k : String) :
    l.lookup k = none ↔ k ∉ l.map (·.1) := by
  induction l with
  | nil => simp
  | cons p ps ih =>
    obtain ⟨a, b⟩ := p
    by_cases hk : k = a
    · subst hk; simp [List.lookup]
    · have : (k == a) = false := by simpa using hk
      simp [List.lookup, this, ih, hk]

/-- What a passed `admitChecks` implies. -/
theorem admitChecks_ok {w1 g h sys now} (hk : admitChecks w1 g h sys now = .ok ()) :
    (w1.obj h).id ≠ "" ∧ g.clients.lookup (w1.obj h).id = none ∧
    (sys = true ∨ isOp (w1.obj h) = true ∨
      (g.locked = none ∧ notYetOpen g.desc now = false ∧ alreadyClosed g.desc now = false ∧
       (g.desc.autokick = true → hasOp w1 g = true) ∧ isFull g = false)) := by
  unfold admitChecks at hk
  simp only at hk
  by_cases hid : (w1.obj h).id = ""
  · split at hk <;> simp [hid] at hk
  · cases hdup : g.clients.lookup (w1.obj h).id with
    | some x => split at hk <;> simp [hid, hdup] at hk
    | none =>
      refine ⟨hid, rfl, ?_⟩
      by_cases hex : (sys || isOp (w1.obj h)) = true
      · simp at hex
        rcases hex with h1 | h1
        · exact Or.inl h1
        · exact Or.inr (Or.inl h1)
      · simp only [hex] at hk
        cases hac : admissionChecks w1 g now with
        | error f => simp [hac] at hk
        | ok u =>
          by_cases hf : isFull g = true
          · simp [hac, hf] at hk
          · have := admissionChecks_ok hac
            exact Or.inr (Or.inr ⟨this.1, this.2.1, this.2.2.1, this.2.2.2, by simpa using hf⟩)

/-- Operators and system clients with a fresh non-empty id pass. -/
theorem admitChecks_exempt {w1 g h sys now} (hex : sys = true ∨ isOp (w1.obj h) = true)
    (hid : (w1.obj h).id ≠ "") (hfresh : g.clients.lookup (w1.obj h).id = none) :
    admitChecks w1 g h sys now = .ok () := by
  unfold admitChecks
  have : (sys || isOp (w1.obj h)) = true := by
    rcases hex with h1 | h1 <;> simp [h1]
  simp [this, hid, hfresh]

/-- What `authorise` does to the world. -/
theorem authorise_ok {w g h creds w1 sys} (ha : authorise w g h creds = .ok (w1, sys)) :
    w1.group = w.group ∧ w1.file = w.file ∧ w1.roles = w.roles ∧
    (∀ h', h' ≠ h → w1.obj h' = w.obj h') ∧ (w1.obj h).id = (w.obj h).id ∧
    (sys = true ↔ (w.obj h).perms.contains "system" = true) ∧ (sys = true → w1 = w) := by
  unfold authorise at ha
  simp only at ha
  by_cases hs : (w.obj h).perms.contains "system" = true
  · simp only [hs, if_true] at ha
    cases ha
    exact ⟨rfl, rfl, rfl, fun _ _ => rfl, rfl, ⟨fun _ => hs, fun _ => rfl⟩, fun _ => rfl⟩
  · simp only [hs] at ha
    cases hg : getPermission w.roles g.desc creds with
    | error f => simp [hg] at ha
    | ok up =>
      obtain ⟨u, p⟩ := up
      simp only [hg, Bool.false_eq_true, if_false] at ha
      cases ha
      refine ⟨rfl, rfl, rfl, ?_, by simp, by simpa using hs, by simp⟩
      intro h' hne
      exact obj_setObj_other _ _ _ _ hne

/-- A successful admission section, decomposed. -/
theorem secAdmit_ok {w h creds now} (hok : (secAdmit w h creds now).2.res = .ok ()) :
    ∃ g w1 sys, w.group = some g ∧ authorise w g h creds = .ok (w1, sys) ∧
      admitChecks w1 g h sys now = .ok () ∧
      (secAdmit w h creds now).1 = { w1 with group := some (insertClient w1 g h).1 } ∧
      (secAdmit w h creds now).2.evs = (insertClient w1 g h).2 := by
  cases hg : w.group with
  | none => simp [secAdmit, hg] at hok
  | some g =>
    cases ha : authorise w g h creds with
    | error f => simp [secAdmit, hg, ha] at hok
    | ok r =>
      obtain ⟨w1, sys⟩ := r
      cases hc : admitChecks w1 g h sys now with
      | error f => simp [secAdmit, hg, ha, hc] at hok
      | ok u => exact ⟨g, w1, sys, rfl, ha, hc, by simp [secAdmit, hg, ha, hc], by simp [secAdmit, hg, ha, hc]⟩

/-- A refused admission section: the group (members, lock, description) is untouched
and no callback at all is made. -/
theorem secAdmit_error {w h creds now f} (he : (secAdmit w h creds now).2.res = .error f) :
    (secAdmit w h creds now).1.group = w.group ∧ (secAdmit w h creds now).2.evs = [] ∧
    (∀ h', h' ≠ h → (secAdmit w h creds now).1.obj h' = w.obj h') := by
  unfold secAdmit at he ⊢
  cases hg : w.group with
  | none => simp [hg]
  | some g =>
    simp only [hg] at he ⊢
    cases ha : authorise w g h creds with
    | error f' => simp [hg]
    | ok r =>
      obtain ⟨w1, sys⟩ := r
      simp only [ha] at he ⊢
      have hao := authorise_ok ha
      cases hc : admitChecks w1 g h sys now with
      | error f' =>
        by_cases hl : w.initLate = true
        · simp [hl, hg]
        · simp [hl, hao.1, hg]; exact hao.2.2.2.1
      | ok u => simp [hc] at he

/-- **C10, admission soundness.**  If the admission section of `AddClient` inserts client
object `h` then, in the state it executed in: the id is non-empty and not a member's;
and the client is a system client, or it was granted "op", or ALL of: the group is
unlocked, `not-before ≤ now ≤ expires`, (autokick ⇒ some member holds "op"), and
(`max-clients > 0` ⇒ fewer than `max-clients` members).  Holds in every state, hence
under every interleaving of critical sections. -/
theorem C10_admit_sound (w : World) (h : Nat) (creds : Creds) (now : Int)
    (hok : (secAdmit w h creds now).2.res = .ok ()) :
    ∃ g, w.group = some g ∧
      let w' := (secAdmit w h creds now).1
      (w'.obj h).id ≠ "" ∧ (w'.obj h).id ∉ g.clients.map (·.1) ∧
      ((w.obj h).perms.contains "system" = true ∨ isOp (w'.obj h) = true ∨
        (g.locked = none ∧
         (∀ nb, g.desc.notBefore = some nb → nb ≤ now) ∧
         (∀ ex, g.desc.expires = some ex → now ≤ ex) ∧
         (g.desc.autokick = true → ∃ p ∈ g.clients, isOp (w'.obj p.2) = true) ∧
         (g.desc.maxClients > 0 → (g.clients.length : Int) < g.desc.maxClients))) := by
  obtain ⟨g, w1, sys, hg, ha, hc, hw, _⟩ := secAdmit_ok hok
  refine ⟨g, hg, ?_⟩
  have hobj : ∀ x, (secAdmit w h creds now).1.obj x = w1.obj x := by
    intro x; rw [hw]; rfl
  simp only [hobj]
  obtain ⟨hid, hfresh, hrest⟩ := admitChecks_ok hc
  refine ⟨hid, (lookup_none_iff _ _).1 hfresh, ?_⟩
  rcases hrest with h1 | h1 | ⟨hl, hnb, hex, hak, hfull⟩
  · exact Or.inl ((authorise_ok ha).2.2.2.2.2.1.1 h1)
  · exact Or.inr (Or.inl h1)
  · refine Or.inr (Or.inr ⟨hl, notYetOpen_false hnb, alreadyClosed_false hex, ?_, isFull_false hfull⟩)
    intro hk
    have := hak hk
    simpa [hasOp] using this

/-- **C10, operators are exempt.**  A client that is granted "op" (or is a system client),
with a non-empty id that no member has, is admitted whatever the lock, the time window,
autokick and `max-clients` say. -/
theorem C10_operator_exempt (w : World) (g : Grp) (h : Nat) (creds : Creds) (now : Int)
    (w1 : World) (sys : Bool) (hg : w.group = some g)
    (ha : authorise w g h creds = .ok (w1, sys))
    (hex : sys = true ∨ isOp (w1.obj h) = true)
    (hid : (w.obj h).id ≠ "") (hfresh : (w.obj h).id ∉ g.clients.map (·.1)) :
    (secAdmit w h creds now).2.res = .ok () := by
  have hao := authorise_ok ha
  have hid1 : (w1.obj h).id ≠ "" := by rw [hao.2.2.2.2.1]; exact hid
  have hfr1 : g.clients.lookup (w1.obj h).id = none := by
    rw [hao.2.2.2.2.1]; exact (lookup_none_iff _ _).2 hfresh
  have hc := admitChecks_exempt (now := now) hex hid1 hfr1
  unfold secAdmit
  simp [hg, ha, hc]

/-- **C10, a refused client is not a member and is announced to no one.**  When the
admission section refuses, the member list, the lock and the description are exactly
as before and no `Joined`/`PushClient` callback is made to anybody. -/
theorem C10_refused_not_member_not_announced (w : World) (h : Nat) (creds : Creds) (now : Int)
    (f : Fail) (he : (secAdmit w h creds now).2.res = .error f) :
    (secAdmit w h creds now).1.group = w.group ∧ (secAdmit w h creds now).2.evs = [] :=
  ⟨(secAdmit_error he).1, (secAdmit_error he).2.1⟩

/-! ### invariants over all interleavings -/

/-- closed form of the group returned by `autoLockKick` -/
theorem autoLockKick_fst (w : World) (g : Grp) :
    (autoLockKick w g).1 =
      if (g.desc.autolock && g.locked.isNone && !hasOp w g) = true then
        { g with locked := some defaultLockMsg } else g := by
  unfold autoLockKick
  cases h1 : g.desc.autolock <;> cases h2 : g.locked.isNone <;> cases h3 : g.desc.autokick <;>
    cases h4 : hasOp w g <;> simp

theorem autoLockKick_spec (w : World) (g : Grp) :
    (autoLockKick w g).1.desc = g.desc ∧ (autoLockKick w g).1.clients = g.clients ∧
    (g.locked.isSome = true → (autoLockKick w g).1.locked = g.locked) ∧
    (g.desc.autolock = true → hasOp w g = false → (autoLockKick w g).1.locked.isSome = true) := by
  rw [autoLockKick_fst]
  refine ⟨?_, ?_, ?_, ?_⟩
  · split <;> rfl
  · split <;> rfl
  · intro hl
    have : g.locked.isNone = false := by cases hx : g.locked <;> simp_all
    simp [this]
  · intro hal hno
    cases hl : g.locked <;> simp [hal, hno, hl]

/-- the ids of the members -/
def memberIds (w : World) : List String :=
  match w.group with
  | some g => g.clients.map (·.1)
  | none => []

/-- the client objects that are members -/
def members (w : World) : List Nat :=
  match w.group with
  | some g => handles g
  | none => []

/-- The three outcomes of the `add` section: nothing happens (no file and no group, or
the file vanished while there are members), the empty group is dropped, or the group
(fresh, or with a replaced description; same members and lock) goes through `autoLockKick`. -/
theorem secAdd_cases (w : World) :
    (secAdd w).1 = w ∨ (secAdd w).1 = { w with group := none } ∨
    (∃ g1 : Grp, (∀ g, w.group = some g → g1.clients = g.clients ∧ g1.locked = g.locked) ∧
        (w.group = none → g1.clients = [] ∧ g1.locked = none) ∧
        (secAdd w).1 = { w with group := some (autoLockKick w g1).1 }) := by
  unfold secAdd
  cases hg : w.group with
  | none =>
    cases hf : w.file with
    | none => left; rfl
    | some d =>
      right; right
      refine ⟨{ desc := d }, ?_, ?_, ?_⟩
      · intro g hg'; cases hg'
      · intro _; exact ⟨rfl, rfl⟩
      · simp
  | some g =>
    cases hf : w.file with
    | none =>
      by_cases he : g.clients.isEmpty = true
      · right; left; simp [he]
      · left; simp [he]; cases w; simp_all
    | some d =>
      right; right
      by_cases hc : (d.version != g.desc.version) = true
      · refine ⟨{ g with desc := d }, ?_, ?_, ?_⟩
        · intro g' hg'; cases hg'; exact ⟨rfl, rfl⟩
        · intro h; cases h
        · simp [hc]
      · refine ⟨g, ?_, ?_, ?_⟩
        · intro g' hg'; cases hg'; exact ⟨rfl, rfl⟩
        · intro h; cases h
        · simp [hc]

theorem secAdd_clients (w : World) :
    memberIds (secAdd w).1 = memberIds w ∨ memberIds (secAdd w).1 = [] := by
  rcases secAdd_cases w with h | h | ⟨g1, h1, h2, h3⟩
  · left; rw [h]
  · right; rw [h]; rfl
  · rw [h3]
    simp only [memberIds, (autoLockKick_spec w g1).2.1]
    cases hg : w.group with
    | none => right; rw [(h2 hg).1]; rfl
    | some g => left; rw [(h1 g hg).1]

theorem nodup_filter_fst (l : List (String × Nat)) (k : String) (hn : (l.map (·.1)).Nodup) :
    ((l.filter (fun p => p.1 != k)).map (·.1)).Nodup := by
  induction l with
  | nil => simp
  | cons p ps ih =>
    simp only [List.map_cons, List.nodup_cons] at hn
    by_cases hp : (p.1 != k) = true
    · simp only [List.filter, hp, List.map_cons, List.nodup_cons]
      refine ⟨?_, ih hn.2⟩
      intro hmem
      apply hn.1
      simp only [List.mem_map] at hmem ⊢
      obtain ⟨q, hq, hqe⟩ := hmem
      exact ⟨q, (List.mem_filter.1 hq).1, hqe⟩
    · simp only [List.filter, hp]
      exact ih hn.2

theorem secRemove_memberIds_nodup (w : World) (h : Nat) (hn : (memberIds w).Nodup) :
    (memberIds (secRemove w h).1).Nodup := by
  simp only [secRemove]
  cases hg : w.group with
  | none => simpa [memberIds, hg] using hn
  | some g =>
    simp only []
    split
    · exact hn
    · simp only [memberIds, hg] at hn
      simp only [memberIds]
      exact nodup_filter_fst _ _ hn

theorem secAutolock_memberIds (w : World) : memberIds (secAutolock w).1 = memberIds w := by
  simp only [secAutolock]
  cases hg : w.group with
  | none => simp [memberIds, hg]
  | some g => simp only [memberIds, hg, (autoLockKick_spec w g).2.1]

theorem removeAtomic_memberIds_nodup (w : World) (h : Nat) (hn : (memberIds w).Nodup) :
    (memberIds (removeAtomic w h)).Nodup := by
  simp only [removeAtomic]
  split
  · rw [secAutolock_memberIds]; exact secRemove_memberIds_nodup w h hn
  · exact secRemove_memberIds_nodup w h hn

theorem exec_memberIds_nodup (w : World) (s : Step) (hn : (memberIds w).Nodup) :
    (memberIds (exec w s)).Nodup := by
  cases s with
  | setFile d => exact hn
  | setId h id => exact hn
  | mkSystem h => exact hn
  | add =>
    rcases secAdd_clients w with h | h
    · simp only [exec]; rw [h]; exact hn
    · simp only [exec]; rw [h]; exact List.nodup_nil
  | admitSec h c now =>
    simp only [exec]
    cases hr : (secAdmit w h c now).2.res with
    | error f =>
      have := (secAdmit_error hr).1
      simp only [memberIds, this]
      exact hn
    | ok u =>
      obtain ⟨g, w1, sys, hg, ha, hc, hw, _⟩ := secAdmit_ok hr
      rw [hw]
      obtain ⟨_, hfresh, _⟩ := admitChecks_ok hc
      simp only [memberIds, hg] at hn
      simp only [memberIds, insertClient, List.map_append, List.map_cons, List.map_nil]
      rw [List.nodup_append]
      refine ⟨hn, by simp, ?_⟩
      intro a ha b hb
      simp at hb
      subst hb
      intro heq
      subst heq
      exact (lookup_none_iff _ _).1 hfresh ha
  | remove h =>
    simp only [exec]
    split
    · exact removeAtomic_memberIds_nodup w h hn
    · exact secRemove_memberIds_nodup w h hn
  | autolock =>
    simp only [exec]
    rw [secAutolock_memberIds]; exact hn
  | setLocked b m =>
    simp only [exec, secSetLocked]
    cases hg : w.group with
    | none => simpa [memberIds, hg] using hn
    | some g => simpa [memberIds, hg] using hn

/-- **C10, no two members share an id**, in every state reachable from a state without
duplicates (in particular from the empty registry) by ANY interleaving of critical
sections, description changes and client-side id changes. -/
theorem C10_no_duplicate_ids (w0 : World) (steps : List Step) (h0 : (memberIds w0).Nodup) :
    (memberIds (run w0 steps)).Nodup := by
  induction steps generalizing w0 with
  | nil => exact h0
  | cons s rest ih => exact ih (exec w0 s) (exec_memberIds_nodup w0 s h0)

/-- **C10, capacity under racing joins.**  However joins, leaves, lock changes and
reloads interleave, at the moment a client that is neither operator nor system is
inserted, the group holds fewer than `max-clients` members (when `max-clients > 0`). -/
theorem C10_capacity_all_interleavings (w0 : World) (steps : List Step) (h : Nat) (creds : Creds)
    (now : Int) (g : Grp)
    (hg : (run w0 steps).group = some g)
    (hok : (secAdmit (run w0 steps) h creds now).2.res = .ok ())
    (hnsys : ((run w0 steps).obj h).perms.contains "system" = false)
    (hnop : isOp ((secAdmit (run w0 steps) h creds now).1.obj h) = false)
    (hmax : g.desc.maxClients > 0) :
    (g.clients.length : Int) < g.desc.maxClients := by
  obtain ⟨g', hg', hrest⟩ := C10_admit_sound _ h creds now hok
  rw [hg] at hg'
  cases hg'
  simp only at hrest
  rcases hrest.2.2 with h1 | h1 | h1
  · rw [hnsys] at h1; cases h1
  · rw [hnop] at h1; cases h1
  · exact h1.2.2.2.2 hmax

/-- **C10, a leave by a non-member removes nobody**: `DelClient(c)` where the member
registered under `c.Id()` is not `c` (or nobody is) leaves the world unchanged. -/
theorem C10_leave_unknown_is_noop (w : World) (h : Nat) (g : Grp) (hg : w.group = some g)
    (hne : g.clients.lookup (w.obj h).id ≠ some h) :
    (secRemove w h).1 = w ∧ (secRemove w h).2.evs = [] := by
  unfold secRemove
  simp only [hg]
  have : (g.clients.lookup (w.obj h).id != some h) = true := by simpa using hne
  simp [this]

/-! ### autolock -/

/-- an autolock group none of whose members holds "op" is locked -/
def AutolockInv (w : World) : Prop :=
  ∀ g, w.group = some g → g.desc.autolock = true → hasOp w g = false → g.locked.isSome = true

/-- Client-side discipline (not enforced by group.go but by its callers): a client object
is given an id / made a system client / started on a join only while it is not a member
(webClient refuses a second join itself), and `SetLocked(false)` is issued only while an
operator is a member (rtpconn checks "op" before calling it). -/
def Step.preB (w : World) : Step → Bool
  | .setId h _ => !(members w).contains h
  | .mkSystem h => !(members w).contains h
  | .admitSec h _ _ => !(members w).contains h
  | .setLocked false _ => match w.group with
    | some g => hasOp w g
    | none => false
  | _ => true

/-- The machine in which `DelClient` keeps `g.mu` across `autoLockKick` (the suggested
repair of finding P9): removal and re-lock are one step. -/
def execA (w : World) : Step → World
  | .remove h => removeAtomic w h
  | s => exec w s

def disciplinedB (ex : World → Step → World) : World → List Step → Bool
  | _, [] => true
  | w, s :: rest => s.preB w && disciplinedB ex (ex w s) rest

def DisciplinedA (w : World) (steps : List Step) : Prop := disciplinedB execA w steps = true

theorem disciplinedA_cons {w s rest} (h : DisciplinedA w (s :: rest)) :
    s.preB w = true ∧ DisciplinedA (execA w s) rest := by
  simpa [DisciplinedA, disciplinedB] using h

def runA (w : World) (steps : List Step) : World := steps.foldl execA w

/-- the same discipline on the real step alphabet -/
def Disciplined (w : World) (steps : List Step) : Prop := disciplinedB exec w steps = true

instance (w : World) (steps : List Step) : Decidable (Disciplined w steps) := by
  unfold Disciplined; infer_instance
instance (w : World) (steps : List Step) : Decidable (DisciplinedA w steps) := by
  unfold DisciplinedA; infer_instance
deriving instance DecidableEq for Except

theorem hasOp_clients (w : World) (g g' : Grp) (h : g'.clients = g.clients) : hasOp w g' = hasOp w g := by
  simp [hasOp, h]

theorem inv_of_autoLockKick (w w' : World) (g1 : Grp) (hobj : w'.objs = w.objs)
    (hgrp : w'.group = some (autoLockKick w g1).1) : AutolockInv w' := by
  intro g hg hal hno
  rw [hgrp] at hg
  cases hg
  have hs := autoLockKick_spec w g1
  have h1 : hasOp w' (autoLockKick w g1).1 = hasOp w g1 := by
    rw [hasOp_clients w' g1 _ hs.2.1]
    simp [hasOp, World.obj, hobj]
  rw [h1] at hno
  rw [hs.1] at hal
  exact hs.2.2.2 hal hno

theorem inv_setObj (w : World) (h : Nat) (c : Client) (hi : AutolockInv w)
    (hnm : (members w).contains h = false) : AutolockInv (w.setObj h c) := by
  intro g hg hal hno
  have hg' : w.group = some g := hg
  apply hi g hg' hal
  rw [← hno]
  symm
  apply hasOp_congr
  intro x hx
  apply obj_setObj_other
  intro hxe
  subst hxe
  simp [members, hg'] at hnm
  exact hnm hx

theorem secRemove_not_removed (w : World) (h : Nat) (hr : (secRemove w h).2.removed = false) :
    (secRemove w h).1 = w := by
  unfold secRemove at hr ⊢
  cases hg : w.group with
  | none => rfl
  | some g =>
    simp only [hg] at hr ⊢
    split
    · rfl
    · rename_i hc
      simp [hc] at hr

theorem secRemove_objs (w : World) (h : Nat) : (secRemove w h).1.objs = w.objs := by
  unfold secRemove
  cases hg : w.group with
  | none => rfl
  | some g => simp only []; split <;> rfl

theorem execA_inv (w : World) (s : Step) (hp : s.preB w = true) (hi : AutolockInv w) :
    AutolockInv (execA w s) := by
  cases s with
  | setFile d => exact fun g hg => hi g hg
  | setId h id =>
    simp only [Step.preB, Bool.not_eq_true'] at hp
    exact inv_setObj w h _ hi hp
  | mkSystem h =>
    simp only [Step.preB, Bool.not_eq_true'] at hp
    exact inv_setObj w h _ hi hp
  | add =>
    simp only [execA, exec]
    rcases secAdd_cases w with h | h | ⟨g1, _, _, h3⟩
    · rw [h]; exact hi
    · rw [h]; intro g hg; cases hg
    · rw [h3]; exact inv_of_autoLockKick w _ g1 rfl rfl
  | admitSec h c now =>
    simp only [Step.preB, Bool.not_eq_true'] at hp
    simp only [execA, exec]
    cases hr : (secAdmit w h c now).2.res with
    | error f =>
      obtain ⟨hgrp, _, hobj⟩ := secAdmit_error hr
      intro g hg hal hno
      rw [hgrp] at hg
      apply hi g hg hal
      rw [← hno]
      symm
      apply hasOp_congr
      intro x hx
      apply hobj
      intro hxe
      subst hxe
      simp [members, hg] at hp
      exact hp hx
    | ok u =>
      obtain ⟨g, w1, sys, hg, ha, hc, hw, _⟩ := secAdmit_ok hr
      rw [hw]
      have hao := authorise_ok ha
      intro g' hg' hal hno
      simp only [insertClient] at hg'
      cases hg'
      simp only [hasOp, List.any_append, Bool.or_eq_false_iff] at hno
      have h1 : hasOp w g = false := by
        rw [← hno.1]
        symm
        show hasOp w1 g = hasOp w g
        apply hasOp_congr
        intro x hx
        apply hao.2.2.2.1
        intro hxe
        subst hxe
        simp [members, hg] at hp
        exact hp hx
      exact hi g hg hal h1
  | remove h =>
    simp only [execA, removeAtomic]
    by_cases hr : (secRemove w h).2.removed = true
    · simp only [hr, if_true]
      unfold secAutolock
      cases hg : (secRemove w h).1.group with
      | none => intro g hg'; simp [hg] at hg'
      | some g => exact inv_of_autoLockKick (secRemove w h).1 _ g rfl rfl
    · simp only [hr]
      rw [secRemove_not_removed w h (by simpa using hr)]
      exact hi
  | autolock =>
    simp only [execA, exec, secAutolock]
    cases hg : w.group with
    | none => intro g hg'; simp [hg] at hg'
    | some g => exact inv_of_autoLockKick w _ g rfl rfl
  | setLocked b m =>
    simp only [execA, exec, secSetLocked]
    cases hg : w.group with
    | none => intro g hg'; simp [hg] at hg'
    | some g =>
      intro g' hg' hal hno
      cases hg'
      cases b with
      | true => rfl
      | false =>
        simp only [Step.preB, hg] at hp
        have : hasOp w g = false := hno
        rw [hp] at this
        cases this

/-- Invariant form: with the removal and the re-lock in one step, every reachable state
of every disciplined interleaving satisfies "autolock ∧ no operator ⇒ locked". -/
theorem C10_autolock_inv_partial (w0 : World) (steps : List Step) (h0 : AutolockInv w0)
    (hd : DisciplinedA w0 steps) : AutolockInv (runA w0 steps) := by
  induction steps generalizing w0 with
  | nil => exact h0
  | cons s rest ih =>
    have hd' := disciplinedA_cons hd
    exact ih (execA w0 s) (execA_inv w0 s hd'.1 h0) hd'.2

/-- **C10, autolock (partial).**  Full statement: in every interleaving of the critical
sections of group.go, no admission of a non-operator succeeds in a state where the group
has autolock set and no operator is a member.  Proved here for the machine `execA` in
which `DelClient` executes the removal and `autoLockKick` as ONE critical section; the
real code releases `g.mu` in between, and for the real step alphabet the statement is
false (`C10_autolock_split_counterexample`, finding P9).  Other hypotheses: the client
discipline `DisciplinedA` (see `Step.preB`), start from the empty registry. -/
theorem C10_autolock_partial (w0 : World) (steps : List Step) (h0 : w0.group = none)
    (hd : DisciplinedA w0 steps) (h : Nat) (creds : Creds) (now : Int) (g : Grp)
    (hg : (runA w0 steps).group = some g) (hal : g.desc.autolock = true)
    (hok : (secAdmit (runA w0 steps) h creds now).2.res = .ok ())
    (hnsys : ((runA w0 steps).obj h).perms.contains "system" = false)
    (hnop : isOp ((secAdmit (runA w0 steps) h creds now).1.obj h) = false) :
    hasOp (runA w0 steps) g = true := by
  have hinv := C10_autolock_inv_partial w0 steps (fun g hg => by rw [h0] at hg; cases hg) hd
  obtain ⟨g', hg', hrest⟩ := C10_admit_sound _ h creds now hok
  rw [hg] at hg'
  cases hg'
  simp only at hrest
  rcases hrest.2.2 with h1 | h1 | h1
  · rw [hnsys] at h1; cases h1
  · rw [hnop] at h1; cases h1
  · cases hop : hasOp (runA w0 steps) g with
    | true => rfl
    | false =>
      have := hinv g hg hal hop
      rw [h1.1] at this
      cases this

/-- **C10, a fresh autolock group is locked**: the `add` section that creates the group
from a description with `autolock` leaves it locked (and empty). -/
theorem C10_autolock_fresh (w : World) (d : Desc) (hg : w.group = none) (hf : w.file = some d)
    (hal : d.autolock = true) :
    ∃ g, (secAdd w).1.group = some g ∧ g.locked.isSome = true ∧ g.clients = [] ∧ g.desc = d := by
  have hs := autoLockKick_spec w { desc := d }
  refine ⟨(autoLockKick w { desc := d }).1, ?_, ?_, hs.2.1, hs.1⟩
  · simp [secAdd, hg, hf]
  · exact hs.2.2.2 hal (by simp [hasOp])

/-! ### the repaired variants (`World.delAtomic`, `World.initLate`) -/

theorem authorise_flags {w g h creds w1 sys} (ha : authorise w g h creds = .ok (w1, sys)) :
    w1.delAtomic = w.delAtomic := by
  unfold authorise at ha
  simp only at ha
  split at ha
  · cases ha; rfl
  · split at ha
    · cases ha
    · cases ha; rfl

theorem secAdmit_delAtomic (w : World) (h : Nat) (c : Creds) (now : Int) :
    (secAdmit w h c now).1.delAtomic = w.delAtomic := by
  unfold secAdmit
  cases hg : w.group with
  | none => rfl
  | some g =>
    simp only []
    cases ha : authorise w g h c with
    | error f => rfl
    | ok r =>
      obtain ⟨w1, sys⟩ := r
      simp only []
      have hf := authorise_flags ha
      cases hc : admitChecks w1 g h sys now with
      | error f => simp only []; split <;> simp [hf]
      | ok u => simp [hf]

theorem secRemove_delAtomic (w : World) (h : Nat) : (secRemove w h).1.delAtomic = w.delAtomic := by
  unfold secRemove
  cases hg : w.group with
  | none => rfl
  | some g => simp only []; split <;> rfl

theorem secAutolock_delAtomic (w : World) : (secAutolock w).1.delAtomic = w.delAtomic := by
  unfold secAutolock
  cases hg : w.group <;> rfl

theorem removeAtomic_delAtomic (w : World) (h : Nat) : (removeAtomic w h).delAtomic = w.delAtomic := by
  simp only [removeAtomic]
  split
  · rw [secAutolock_delAtomic, secRemove_delAtomic]
  · exact secRemove_delAtomic w h

theorem exec_delAtomic (w : World) (s : Step) : (exec w s).delAtomic = w.delAtomic := by
  cases s with
  | setFile d => rfl
  | setId h id => rfl
  | mkSystem h => rfl
  | add =>
    simp only [exec]
    rcases secAdd_cases w with h | h | ⟨g1, _, _, h3⟩
    · rw [h]
    · rw [h]
    · rw [h3]
  | admitSec h c now => exact secAdmit_delAtomic w h c now
  | remove h =>
    simp only [exec]
    split
    · exact removeAtomic_delAtomic w h
    · exact secRemove_delAtomic w h
  | autolock => exact secAutolock_delAtomic w
  | setLocked b m =>
    simp only [exec, secSetLocked]
    cases hg : w.group <;> rfl

theorem exec_eq_execA (w : World) (s : Step) (hd : w.delAtomic = true) : exec w s = execA w s := by
  cases s <;> simp [exec, execA, hd]

theorem run_eq_runA (w : World) (steps : List Step) (hd : w.delAtomic = true) :
    run w steps = runA w steps ∧ (Disciplined w steps ↔ DisciplinedA w steps) := by
  induction steps generalizing w with
  | nil => exact ⟨rfl, Iff.rfl⟩
  | cons s rest ih =>
    have he := exec_eq_execA w s hd
    have hd' : (exec w s).delAtomic = true := by rw [exec_delAtomic]; exact hd
    obtain ⟨h1, h2⟩ := ih (exec w s) hd'
    refine ⟨?_, ?_⟩
    · simp only [run, runA, List.foldl_cons] at h1 ⊢
      rw [← he]; exact h1
    · simp only [Disciplined, DisciplinedA, disciplinedB, Bool.and_eq_true] at h2 ⊢
      rw [← he]
      exact and_congr_right (fun _ => h2)

/-- **C10, autolock, for the repaired code.**  When `DelClient` keeps `g.mu` across
`autoLockKick` (`delAtomic`, the variant the harness probes on the real code), the real
step alphabet IS the atomic machine, so under every disciplined interleaving no
non-operator is admitted to an autolock group that has no operator. -/
theorem C10_autolock_of_delAtomic (w0 : World) (steps : List Step) (h0 : w0.group = none)
    (hda : w0.delAtomic = true) (hd : Disciplined w0 steps) (h : Nat) (creds : Creds) (now : Int) (g : Grp)
    (hg : (run w0 steps).group = some g) (hal : g.desc.autolock = true)
    (hok : (secAdmit (run w0 steps) h creds now).2.res = .ok ())
    (hnsys : ((run w0 steps).obj h).perms.contains "system" = false)
    (hnop : isOp ((secAdmit (run w0 steps) h creds now).1.obj h) = false) :
    hasOp (run w0 steps) g = true := by
  obtain ⟨hr, hdd⟩ := run_eq_runA w0 steps hda
  rw [hr] at hg hok hnsys hnop ⊢
  exact C10_autolock_partial w0 steps h0 (hdd.1 hd) h creds now g hg hal hok hnsys hnop

/-- **C10/C11, a refused client keeps nothing, for the repaired code.**  When `AddClient`
calls `c.Init` only after every check has passed (`initLate`), a refused admission section
leaves the whole world — the client object included — exactly as it was. -/
theorem C10_rejected_keeps_nothing_of_initLate (w : World) (h : Nat) (creds : Creds) (now : Int)
    (f : Fail) (hl : w.initLate = true) (he : (secAdmit w h creds now).2.res = .error f) :
    (secAdmit w h creds now).1 = w := by
  unfold secAdmit at he ⊢
  cases hg : w.group with
  | none => rfl
  | some g =>
    simp only [hg] at he ⊢
    cases ha : authorise w g h creds with
    | error f' => rfl
    | ok r =>
      obtain ⟨w1, sys⟩ := r
      simp only [ha] at he ⊢
      cases hc : admitChecks w1 g h sys now with
      | error f' => simp [hl]
      | ok u => simp [hc] at he

/-! ### the two defects, as proved counterexamples -/

def cexDesc : Desc :=
  { autolock := true, version := 1,
    users := [("o", { role := "op", pw := .plain "p" }), ("a", { role := "present", pw := .plain "p" })] }

def cexWorld : World := { file := some cexDesc }

/-- operator `o` (object 0) creates and joins the group and unlocks it; newcomer `a`
(object 1) runs its `add` section; the operator's `DelClient` runs its removal section
and is pre-empted before `autoLockKick` -/
def cexPrefix : List Step :=
  [.setId 0 "c0", .add, .admitSec 0 { username := some "o", password := "p" } 0, .setLocked false "",
   .setId 1 "c1", .add, .remove 0]

def cexAdmit : Step := .admitSec 1 { username := some "a", password := "p" } 0

/-- **Finding P9** (counterexample to the unrestricted `C10_autolock`): on the REAL step
alphabet, where `DelClient`'s removal and its `autoLockKick` are separate steps, there is
a disciplined schedule after which an autolock group has no member at all, is unlocked,
and the admission section admits a non-operator. -/
theorem C10_autolock_split_counterexample :
    Disciplined cexWorld (cexPrefix ++ [cexAdmit, .autolock]) ∧
    (∃ g, (run cexWorld cexPrefix).group = some g ∧ g.desc.autolock = true ∧ g.clients = [] ∧
      g.locked = none) ∧
    (secAdmit (run cexWorld cexPrefix) 1 { username := some "a", password := "p" } 0).2.res = .ok () ∧
    isOp ((run cexWorld (cexPrefix ++ [cexAdmit])).obj 1) = false ∧
    (∃ g, (run cexWorld (cexPrefix ++ [cexAdmit, .autolock])).group = some g ∧
      g.clients = [("c1", 1)] ∧ g.locked.isSome = true) := by
  refine ⟨by decide, ⟨_, rfl, by decide, by decide, by decide⟩, by decide, by decide, ⟨_, rfl, by decide, by decide⟩⟩

/-- **Finding P10** (counterexample to "a rejected client keeps nothing"): `c.Init` runs
before the admission checks, so a presenter refused by a locked group keeps its
username and permissions in the client object although it is not a member. -/
theorem C10_rejected_keeps_permissions_counterexample :
    let w := run cexWorld [.setId 0 "c0", .add]
    let r := secAdmit w 0 { username := some "a", password := "p" } 0
    r.2.res = .error (.locked "this group is locked") ∧ (r.1.obj 0).perms = ["present", "message"] ∧
    (r.1.obj 0).username = "a" ∧ members r.1 = [] := by
  decide

/-- What does hold: a client refused before `Init` (bad credentials) keeps what it had. -/
theorem C10_unauthorised_keeps_nothing_new (w : World) (g : Grp) (h : Nat) (creds : Creds) (now : Int)
    (f : Fail) (hg : w.group = some g) (ha : authorise w g h creds = .error f) :
    (secAdmit w h creds now).1 = w := by
  simp [secAdmit, hg, ha]

/-! ### non-vacuity -/

/-- the hypotheses of `C10_autolock_partial` are satisfiable by a non-trivial run: on the
atomic machine the same schedule refuses the newcomer -/
example : DisciplinedA cexWorld (cexPrefix ++ [cexAdmit]) ∧
    (secAdmit (runA cexWorld cexPrefix) 1 { username := some "a", password := "p" } 0).2.res
      = .error (.locked "this group is locked") := by
  refine ⟨by decide, by decide⟩

/-- and with the `delAtomic` variant of the real step alphabet the very schedule of the
counterexample is disciplined and ends with the newcomer refused -/
example :
    let w : World := { cexWorld with delAtomic := true }
    Disciplined w (cexPrefix ++ [cexAdmit]) ∧
    (secAdmit (run w cexPrefix) 1 { username := some "a", password := "p" } 0).2.res
      = .error (.locked "this group is locked") := by
  refine ⟨by decide, by decide⟩

/-- a non-operator IS admitted (so `C10_admit_sound` is not vacuous), to an unlocked group
with an operator inside -/
example :
    let w := run cexWorld [.setId 0 "c0", .add, .admitSec 0 { username := some "o", password := "p" } 0,
      .setLocked false "", .setId 1 "c1", .add]
    (secAdmit w 1 { username := some "a", password := "p" } 0).2.res = .ok () ∧
    memberIds (secAdmit w 1 { username := some "a", password := "p" } 0).1 = ["c0", "c1"] := by
  decide

/-- capacity: with `max-clients = 1` the second non-operator is refused, an operator is not -/
example :
    let d : Desc := { cexDesc with autolock := false, maxClients := 1 }
    let w := run { file := some d } [.setId 0 "c0", .setId 1 "c1", .setId 2 "c2", .add,
      .admitSec 0 { username := some "a", password := "p" } 0]
    (secAdmit w 1 { username := some "a", password := "p" } 0).2.res = .error .full ∧
    (secAdmit w 2 { username := some "o", password := "p" } 0).2.res = .ok () := by
  decide

end Galene.Group
