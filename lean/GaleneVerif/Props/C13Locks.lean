import GaleneVerif.Model.Locks
/-!
# C13 (b)/(c) — generic theorems: ranked lock order ⇒ no deadlock, guards ⇒ no race

The abstract machine is `GaleneVerif/Model/Locks.lean`: threads execute lists of
`acq l` / `rel l` / `access x w` events, a mutex has at most one owner, `acq` of an owned
mutex blocks.  Nothing here depends on galene; the galene-specific side conditions
(decided on the regenerated facts on every run) are in `Props/C13Facts.lean`.

* `guarded_no_race`: if in every thread every access to `x` is executed while (lexically)
  holding `guard x`, then in no reachable state are two different threads both about to
  access the same `x` (reads included, so in particular no two conflicting accesses).
* `acyclic_order_no_deadlock`: if there is a rank such that every thread acquires a
  mutex only while all mutexes it holds have smaller rank (and releases only what it
  holds, everything by the end), then every reachable state in which some thread has not
  finished has a thread that can take a step: no deadlock, in particular no waits-for cycle.
* `conforms_ranked`, `no_deadlock_of_acyclic_edges`: the bridge to extracted facts — if
  every acquire-while-holding pair of every thread is among `edges` and `acyclic edges`
  evaluates to `true`, the threads are ranked, hence deadlock-free.
-/
namespace Galene.Locks

variable {L X : Type} [DecidableEq L]

/-! ### invariants of the machine -/

/-- bookkeeping and mutex ownership agree -/
structure OwnInv (s : MState L X) : Prop where
  held_owned : ∀ (t : Nat) (th : Thread L X), s.threads[t]? = some th → ∀ l ∈ th.held, s.owner l = some t
  held_nodup : ∀ (t : Nat) (th : Thread L X), s.threads[t]? = some th → th.held.Nodup
  owned_held : ∀ (l : L) (t : Nat), s.owner l = some t → ∃ th : Thread L X, s.threads[t]? = some th ∧ l ∈ th.held

theorem lt_of_getElem?_some {α} {l : List α} {i : Nat} {a : α} (h : l[i]? = some a) : i < l.length := by
  rcases Nat.lt_or_ge i l.length with h' | h'
  · exact h'
  · rw [List.getElem?_eq_none h'] at h; cases h

theorem init_ownInv (progs : List (List (Event L X))) : OwnInv (initState progs) := by
  refine ⟨?_, ?_, ?_⟩
  · intro t th hth l hl
    simp only [initState, List.getElem?_map] at hth
    cases hp : progs[t]? with
    | none => simp [hp] at hth
    | some p => simp [hp] at hth; subst hth; cases hl
  · intro t th hth
    simp only [initState, List.getElem?_map] at hth
    cases hp : progs[t]? with
    | none => simp [hp] at hth
    | some p => simp [hp] at hth; subst hth; exact List.nodup_nil
  · intro l t h; simp [initState] at h

/-- the three ways a thread can step -/
theorem stepThread_cases {s s' : MState L X} {t : Nat} (h : stepThread s t = some s') :
    (∃ held l rest, s.threads[t]? = some ⟨held, .acq l :: rest⟩ ∧ s.owner l = none ∧
        s' = { threads := s.threads.set t ⟨l :: held, rest⟩,
               owner := fun l' => if l' = l then some t else s.owner l' }) ∨
    (∃ held l rest, s.threads[t]? = some ⟨held, .rel l :: rest⟩ ∧ s.owner l = some t ∧
        s' = { threads := s.threads.set t ⟨held.erase l, rest⟩,
               owner := fun l' => if l' = l then none else s.owner l' }) ∨
    (∃ held x w rest, s.threads[t]? = some ⟨held, .access x w :: rest⟩ ∧
        s' = { s with threads := s.threads.set t ⟨held, rest⟩ }) := by
  unfold stepThread at h
  split at h
  · rename_i held l rest hth
    split at h
    · rename_i ho
      simp only [Option.some.injEq] at h
      exact Or.inl ⟨held, l, rest, hth, ho, h.symm⟩
    · cases h
  · rename_i held l rest hth
    split at h
    · rename_i ho
      simp only [Option.some.injEq] at h
      exact Or.inr (Or.inl ⟨held, l, rest, hth, ho, h.symm⟩)
    · cases h
  · rename_i held x w rest hth
    simp only [Option.some.injEq] at h
    exact Or.inr (Or.inr ⟨held, x, w, rest, hth, h.symm⟩)
  · cases h

theorem step_ownInv {s s' : MState L X} {t : Nat} (h : stepThread s t = some s') (hi : OwnInv s) :
    OwnInv s' := by
  rcases stepThread_cases h with ⟨held, l, rest, hth, ho, rfl⟩ | ⟨held, l, rest, hth, ho, rfl⟩ |
    ⟨held, x, w, rest, hth, rfl⟩
  · -- acquire
    have hlt := lt_of_getElem?_some hth
    have hnot : l ∉ held := fun hm => by
      have := hi.held_owned t _ hth l hm
      rw [ho] at this; cases this
    refine ⟨?_, ?_, ?_⟩
    · intro t' th' hth' l' hl'
      by_cases htt : t = t'
      · subst htt
        simp only [List.getElem?_set_self hlt, Option.some.injEq] at hth'
        subst hth'
        by_cases hll : l' = l
        · simp [hll]
        · simp only [hll, if_false]
          have : l' ∈ held := by simpa [hll] using hl'
          exact hi.held_owned t _ hth l' this
      · simp only [List.getElem?_set_ne htt] at hth'
        have hown := hi.held_owned t' th' hth' l' hl'
        have hll : l' ≠ l := by
          intro e; subst e; rw [ho] at hown; cases hown
        simp [hll, hown]
    · intro t' th' hth'
      by_cases htt : t = t'
      · subst htt
        simp only [List.getElem?_set_self hlt, Option.some.injEq] at hth'
        subst hth'
        exact List.nodup_cons.2 ⟨hnot, hi.held_nodup t _ hth⟩
      · simp only [List.getElem?_set_ne htt] at hth'
        exact hi.held_nodup t' th' hth'
    · intro l' t' hown
      by_cases hll : l' = l
      · subst hll
        simp only [if_true, Option.some.injEq] at hown
        subst hown
        exact ⟨⟨l' :: held, rest⟩, by simp [List.getElem?_set_self hlt], by simp⟩
      · simp only [hll, if_false] at hown
        obtain ⟨th', hth', hm⟩ := hi.owned_held l' t' hown
        by_cases htt : t = t'
        · subst htt
          rw [hth] at hth'
          cases hth'
          exact ⟨⟨l :: held, rest⟩, by simp [List.getElem?_set_self hlt], List.mem_cons_of_mem _ hm⟩
        · exact ⟨th', by simp [List.getElem?_set_ne htt, hth'], hm⟩
  · -- release
    have hlt := lt_of_getElem?_some hth
    have hnd := hi.held_nodup t _ hth
    refine ⟨?_, ?_, ?_⟩
    · intro t' th' hth' l' hl'
      by_cases htt : t = t'
      · subst htt
        simp only [List.getElem?_set_self hlt, Option.some.injEq] at hth'
        subst hth'
        have hm := (List.Nodup.mem_erase_iff hnd).1 hl'
        simp only [hm.1, if_false]
        exact hi.held_owned t _ hth l' hm.2
      · simp only [List.getElem?_set_ne htt] at hth'
        have hown := hi.held_owned t' th' hth' l' hl'
        have hll : l' ≠ l := by
          intro e; subst e; rw [ho] at hown
          simp only [Option.some.injEq] at hown
          exact htt hown
        simp [hll, hown]
    · intro t' th' hth'
      by_cases htt : t = t'
      · subst htt
        simp only [List.getElem?_set_self hlt, Option.some.injEq] at hth'
        subst hth'
        exact hnd.erase l
      · simp only [List.getElem?_set_ne htt] at hth'
        exact hi.held_nodup t' th' hth'
    · intro l' t' hown
      by_cases hll : l' = l
      · subst hll; simp at hown
      · simp only [hll, if_false] at hown
        obtain ⟨th', hth', hm⟩ := hi.owned_held l' t' hown
        by_cases htt : t = t'
        · subst htt
          rw [hth] at hth'
          cases hth'
          exact ⟨⟨held.erase l, rest⟩, by simp [List.getElem?_set_self hlt], (List.Nodup.mem_erase_iff hnd).2 ⟨hll, hm⟩⟩
        · exact ⟨th', by simp [List.getElem?_set_ne htt, hth'], hm⟩
  · -- access
    have hlt := lt_of_getElem?_some hth
    refine ⟨?_, ?_, ?_⟩
    · intro t' th' hth' l' hl'
      by_cases htt : t = t'
      · subst htt
        simp only [List.getElem?_set_self hlt, Option.some.injEq] at hth'
        subst hth'
        exact hi.held_owned t ⟨held, .access x w :: rest⟩ hth l' hl'
      · simp only [List.getElem?_set_ne htt] at hth'
        exact hi.held_owned t' th' hth' l' hl'
    · intro t' th' hth'
      by_cases htt : t = t'
      · subst htt
        simp only [List.getElem?_set_self hlt, Option.some.injEq] at hth'
        subst hth'
        exact hi.held_nodup t ⟨held, .access x w :: rest⟩ hth
      · simp only [List.getElem?_set_ne htt] at hth'
        exact hi.held_nodup t' th' hth'
    · intro l' t' hown
      obtain ⟨th', hth', hm⟩ := hi.owned_held l' t' hown
      by_cases htt : t = t'
      · subst htt
        rw [hth] at hth'
        cases hth'
        exact ⟨⟨held, rest⟩, by simp [List.getElem?_set_self hlt], hm⟩
      · exact ⟨th', by simp [List.getElem?_set_ne htt, hth'], hm⟩

/-- a per-thread property `P held prog` that is preserved by executing the head event -/
theorem step_threadProp {P : List L → List (Event L X) → Prop}
    (hacq : ∀ held l rest, P held (.acq l :: rest) → P (l :: held) rest)
    (hrel : ∀ held l rest, P held (.rel l :: rest) → P (held.erase l) rest)
    (hacc : ∀ held x w rest, P held (.access x w :: rest) → P held rest)
    {s s' : MState L X} {t : Nat} (h : stepThread s t = some s')
    (hi : ∀ (t : Nat) (th : Thread L X), s.threads[t]? = some th → P th.held th.prog) :
    ∀ (t : Nat) (th : Thread L X), s'.threads[t]? = some th → P th.held th.prog := by
  intro t' th' hth'
  rcases stepThread_cases h with ⟨held, l, rest, hth, _, rfl⟩ | ⟨held, l, rest, hth, _, rfl⟩ |
    ⟨held, x, w, rest, hth, rfl⟩ <;>
  · have hlt := lt_of_getElem?_some hth
    by_cases htt : t = t'
    · subst htt
      simp only [List.getElem?_set_self hlt, Option.some.injEq] at hth'
      subst hth'
      first
        | exact hacq _ _ _ (hi t _ hth)
        | exact hrel _ _ _ (hi t _ hth)
        | exact hacc _ _ _ _ (hi t _ hth)
    · simp only [List.getElem?_set_ne htt] at hth'
      exact hi t' th' hth'

theorem reachable_induction {P : MState L X → Prop} {s0 s : MState L X} (hr : Reachable s0 s) (h0 : P s0)
    (hstep : ∀ s s' t, stepThread s t = some s' → P s → P s') : P s := by
  induction hr with
  | refl => exact h0
  | step t _ hs ih => exact hstep _ _ t hs ih

theorem reachable_ownInv {progs : List (List (Event L X))} {s : MState L X}
    (hr : Reachable (initState progs) s) : OwnInv s :=
  reachable_induction hr (init_ownInv progs) (fun _ _ _ hs hi => step_ownInv hs hi)

theorem init_threadProp {P : List L → List (Event L X) → Prop} (progs : List (List (Event L X)))
    (h : ∀ p ∈ progs, P [] p) : ∀ (t : Nat) (th : Thread L X), (initState progs).threads[t]? = some th → P th.held th.prog := by
  intro t th hth
  simp only [initState, List.getElem?_map] at hth
  cases hp : progs[t]? with
  | none => simp [hp] at hth
  | some p =>
    simp [hp] at hth; subst hth
    exact h p (List.mem_of_getElem? hp)

/-! ### race freedom -/

/-- **guarded_no_race.**  If every thread executes every access to a location `x` while
holding the mutex `guard x`, then no reachable state has two different threads whose next
events are both accesses to the same location. -/
theorem guarded_no_race (guard : X → L) (progs : List (List (Event L X)))
    (hg : ∀ p ∈ progs, GuardedFrom guard [] p) (s : MState L X) (hr : Reachable (initState progs) s)
    (t1 t2 : Nat) (hne : t1 ≠ t2) (x : X) (w1 w2 : Bool) (held1 held2 : List L)
    (rest1 rest2 : List (Event L X))
    (h1 : s.threads[t1]? = some ⟨held1, .access x w1 :: rest1⟩)
    (h2 : s.threads[t2]? = some ⟨held2, .access x w2 :: rest2⟩) : False := by
  have hown := reachable_ownInv hr
  have hgd : ∀ (t : Nat) (th : Thread L X), s.threads[t]? = some th → GuardedFrom guard th.held th.prog :=
    reachable_induction (P := fun s => ∀ (t : Nat) (th : Thread L X), s.threads[t]? = some th → GuardedFrom guard th.held th.prog)
      hr (init_threadProp progs hg)
      (fun _ _ _ hs hi => step_threadProp (P := GuardedFrom guard)
        (fun _ _ _ h => h) (fun _ _ _ h => h) (fun _ _ _ _ h => h.2) hs hi)
  have g1 := (hgd t1 _ h1).1
  have g2 := (hgd t2 _ h2).1
  have o1 := hown.held_owned t1 _ h1 _ g1
  have o2 := hown.held_owned t2 _ h2 _ g2
  rw [o1] at o2
  exact hne (Option.some.inj o2)

/-! ### deadlock freedom -/

/-- an upper bound on the rank of every mutex some thread is about to acquire -/
def waitBound (rank : L → Nat) : List (Thread L X) → Nat
  | [] => 0
  | th :: rest =>
    max (match th.prog with
         | .acq l :: _ => rank l + 1
         | _ => 0) (waitBound rank rest)

theorem lt_waitBound (rank : L → Nat) (ths : List (Thread L X)) (t : Nat) (held : List L) (l : L)
    (rest : List (Event L X)) (h : ths[t]? = some ⟨held, .acq l :: rest⟩) : rank l < waitBound rank ths := by
  induction ths generalizing t with
  | nil => simp at h
  | cons th ths ih =>
    cases t with
    | zero =>
      simp only [List.getElem?_cons_zero, Option.some.injEq] at h
      subst h
      simp only [waitBound]
      omega
    | succ t =>
      simp only [List.getElem?_cons_succ] at h
      have := ih t h
      simp only [waitBound]
      omega

/-- **acyclic_order_no_deadlock.**  Suppose every thread's program is ranked: it acquires
a mutex only while every mutex it holds has a strictly smaller rank, releases only
mutexes it holds, and holds nothing at its end.  Then in every reachable state in which
some thread has not finished, some thread can take a step.  (So no set of threads can
wait for each other in a cycle, nor for a mutex that is never released.) -/
theorem acyclic_order_no_deadlock (rank : L → Nat) (progs : List (List (Event L X)))
    (hrk : ∀ p ∈ progs, RankedFrom rank [] p) (s : MState L X) (hr : Reachable (initState progs) s)
    (hunf : ∃ (t : Nat) (th : Thread L X), s.threads[t]? = some th ∧ th.prog ≠ []) :
    ∃ t s', stepThread s t = some s' := by
  have hown := reachable_ownInv hr
  have hrank : ∀ (t : Nat) (th : Thread L X), s.threads[t]? = some th → RankedFrom rank th.held th.prog :=
    reachable_induction (P := fun s => ∀ (t : Nat) (th : Thread L X), s.threads[t]? = some th → RankedFrom rank th.held th.prog)
      hr (init_threadProp progs hrk)
      (fun _ _ _ hs hi => step_threadProp (P := RankedFrom rank)
        (fun _ _ _ h => h.2) (fun _ _ _ h => h.2) (fun _ _ _ _ h => h) hs hi)
  -- by contradiction: nobody can move
  refine Classical.byContradiction fun hno => ?_
  have hstuck : ∀ t, stepThread s t = none := by
    intro t
    cases hs : stepThread s t with
    | none => rfl
    | some s' => exact (hno ⟨t, s', hs⟩).elim
  -- every unfinished thread is blocked on an acquire of a mutex owned by somebody
  have hblocked : ∀ (t : Nat) (th : Thread L X), s.threads[t]? = some th → th.prog ≠ [] →
      ∃ l rest t', th.prog = .acq l :: rest ∧ s.owner l = some t' := by
    intro t th hth hne
    obtain ⟨held, prog⟩ := th
    cases prog with
    | nil => exact (hne rfl).elim
    | cons e rest =>
      have hst := hstuck t
      cases e with
      | acq l =>
        cases ho : s.owner l with
        | none => simp [stepThread, hth, ho] at hst
        | some t' => exact ⟨l, rest, t', rfl, ho⟩
      | rel l =>
        have hm : l ∈ held := (hrank t ⟨held, .rel l :: rest⟩ hth).1
        have := hown.held_owned t ⟨held, .rel l :: rest⟩ hth l hm
        simp [stepThread, hth, this] at hst
      | access x w => simp [stepThread, hth] at hst
  -- from a blocked thread to one blocked on a mutex of larger rank
  have hnext : ∀ (t : Nat) (held : List L) (l : L) (rest : List (Event L X)),
      s.threads[t]? = some (Thread.mk held (.acq l :: rest)) →
      ∃ (t' : Nat) (held' : List L) (l' : L) (rest' : List (Event L X)),
        s.threads[t']? = some (Thread.mk held' (.acq l' :: rest')) ∧ rank l < rank l' := by
    intro t held l rest hth
    obtain ⟨l0, rest0, t', hp, ho⟩ := hblocked t (Thread.mk held (.acq l :: rest)) hth (by simp)
    simp only [List.cons.injEq, Event.acq.injEq] at hp
    obtain ⟨rfl, rfl⟩ := hp
    obtain ⟨th', hth', hm⟩ := hown.owned_held l t' ho
    have hne' : th'.prog ≠ [] := by
      intro he
      have := hrank t' th' hth'
      rw [he] at this
      simp only [RankedFrom] at this
      rw [this] at hm; cases hm
    obtain ⟨l', rest', _, hp', _⟩ := hblocked t' th' hth' hne'
    have hr' := hrank t' th' hth'
    rw [hp'] at hr'
    exact ⟨t', th'.held, l', rest', by rw [hth']; congr; cases th'; simp_all, hr'.1 l hm⟩
  -- so the awaited ranks are unbounded, but they are bounded by `waitBound`
  have hall : ∀ n : Nat, ∃ (t : Nat) (held : List L) (l : L) (rest : List (Event L X)),
      s.threads[t]? = some (Thread.mk held (.acq l :: rest)) ∧ n ≤ rank l := by
    intro n
    induction n with
    | zero =>
      obtain ⟨t, th, hth, hne⟩ := hunf
      obtain ⟨l, rest, _, hp, _⟩ := hblocked t th hth hne
      exact ⟨t, th.held, l, rest, by rw [hth]; congr; cases th; simp_all, Nat.zero_le _⟩
    | succ n ih =>
      obtain ⟨t, held, l, rest, hth, hle⟩ := ih
      obtain ⟨t', held', l', rest', hth', hlt⟩ := hnext t held l rest hth
      exact ⟨t', held', l', rest', hth', by omega⟩
  obtain ⟨t, held, l, rest, hth, hle⟩ := hall (waitBound rank s.threads)
  have := lt_waitBound rank s.threads t held l rest hth
  omega

/-! ### the bridge to edge lists -/

theorem respects_rank {α} [DecidableEq α] (order : List α) (es : List (α × α)) (h : respects order es = true) :
    ∀ e ∈ es, rankIn order e.1 < rankIn order e.2 := by
  intro e he
  have := List.all_eq_true.1 h e he
  simpa using this

/-- a program whose acquire-while-holding pairs are all among `edges` is ranked by any
order that `edges` respects -/
theorem conforms_ranked (order : List L) (edges : List (L × L)) (h : respects order edges = true)
    (held : List L) (p : List (Event L X)) (hc : ConformsFrom edges held p) :
    RankedFrom (rankIn order) held p := by
  induction p generalizing held with
  | nil => exact hc
  | cons e rest ih =>
    cases e with
    | acq l =>
      exact ⟨fun l' hl' => respects_rank order edges h (l', l) (hc.1 l' hl'), ih _ hc.2⟩
    | rel l => exact ⟨hc.1, ih _ hc.2⟩
    | access x w => exact ih _ hc

/-- **Deadlock freedom from an acyclic edge list.**  If `acyclic edges` evaluates to
`true` and every thread only acquires `l` while holding `l'` when `(l', l) ∈ edges`
(what the fact extractor claims of the code), then no reachable state with an unfinished
thread is stuck. -/
theorem no_deadlock_of_acyclic_edges (edges : List (L × L)) (hac : acyclic edges = true)
    (progs : List (List (Event L X))) (hc : ∀ p ∈ progs, ConformsFrom edges [] p)
    (s : MState L X) (hr : Reachable (initState progs) s)
    (hunf : ∃ (t : Nat) (th : Thread L X), s.threads[t]? = some th ∧ th.prog ≠ []) :
    ∃ t s', stepThread s t = some s' :=
  acyclic_order_no_deadlock (rankIn (candidateOrder edges)) progs
    (fun p hp => conforms_ranked _ edges hac [] p (hc p hp)) s hr hunf

/-! ### non-vacuity and sharpness -/

/-- the classical two-thread inversion is reachable-stuck, and `acyclic` rejects its edges -/
example : acyclic [(0, 1), (1, 0)] = false := by decide
example : acyclic [(0, 1), (1, 2), (0, 2)] = true := by decide
example : acyclic [(3, 3)] = false := by decide

/-- threads A: lock 0, lock 1; B: lock 1, lock 0 — after one step each, nobody can move -/
example :
    let pA : List (Event Nat Nat) := [.acq 0, .acq 1, .rel 1, .rel 0]
    let pB : List (Event Nat Nat) := [.acq 1, .acq 0, .rel 0, .rel 1]
    ∃ s1 s2, stepThread (initState [pA, pB]) 0 = some s1 ∧ stepThread s1 1 = some s2 ∧
      stepThread s2 0 = none ∧ stepThread s2 1 = none := by
  refine ⟨_, _, rfl, rfl, ?_, ?_⟩ <;> simp [stepThread, initState]

/-- a ranked pair of programs (hypothesis of the theorem is satisfiable, non-trivially) -/
example :
    let p : List (Event Nat Nat) := [.acq 0, .acq 1, .access 7 true, .rel 1, .rel 0]
    RankedFrom (fun l => l) [] p ∧ GuardedFrom (fun _ => 1) [] p ∧ ConformsFrom [(0, 1)] [] p := by
  simp [RankedFrom, GuardedFrom, ConformsFrom]

end Galene.Locks
