import GaleneVerif.Model.Cache
/-
C05 — the packet cache returns a stored packet byte-exactly or nothing.

Refinement of the concrete ring (`entries`, `tail`, three-way `resize`) to a
bounded FIFO.  `ringView` reads the ring oldest-first; the ghost state is the
list of all packets ever stored (`hist`, oldest first) and the guaranteed
window `w` (`store`: `min (w+1) cap`; resize to `c`: `min w c`).  All
theorems are for every capacity ≥ 1, every ring position and every sequence
of Store/Resize/ResizeCond (induction over the op list, `C05_reachable`).
Concurrency: every exported method of `Cache` holds `cache.mu` for its whole
body (regenerated fact, see Props/C13), so concurrent histories are
sequential ones.
-/
namespace Galene.Props.C05
open Galene.Cache

/-- the ring read in age order, oldest slot first -/
def ringView (c : Ring) : List Slot := c.entries.drop c.tail ++ c.entries.take c.tail

theorem set_split {α} (l : List α) (n : Nat) (a : α) (h : n < l.length) :
    l.set n a = l.take n ++ a :: l.drop (n+1) := by
  rw [List.set_eq_take_append_cons_drop]; simp [h]

theorem ringView_store (c : Ring) (p : Slot) (ht : c.tail < c.entries.length) :
    ringView (store c p).1 = (ringView c).drop 1 ++ [p] := by
  unfold ringView store
  rw [set_split _ _ _ ht]
  have hA : (List.take c.tail c.entries).length = c.tail := by simp; omega
  have hd : List.drop c.tail c.entries = c.entries[c.tail] :: List.drop (c.tail+1) c.entries :=
    List.drop_eq_getElem_cons ht
  rw [hd]
  simp only [List.cons_append, List.drop_one, List.tail_cons]
  by_cases h1 : c.tail + 1 < c.entries.length
  · rw [Nat.mod_eq_of_lt h1]
    have e1 : List.take c.tail c.entries ++ p :: List.drop (c.tail + 1) c.entries
        = (List.take c.tail c.entries ++ [p]) ++ List.drop (c.tail + 1) c.entries := by simp
    rw [e1, List.drop_left' (by simp [hA]), List.take_left' (by simp [hA])]
    simp only [List.append_assoc]
  · have he : c.tail + 1 = c.entries.length := by omega
    rw [he, Nat.mod_self]
    simp

/-- growing inserts empty slots at the old end of the ring -/
theorem ringView_resize_grow (c : Ring) (cap : Nat) (ht : c.tail ≤ c.entries.length)
    (hg : c.entries.length < cap) :
    ringView (resize c cap) = List.replicate (cap - c.entries.length) Slot.zero ++ ringView c := by
  unfold ringView resize
  have hA : (List.take c.tail c.entries).length = c.tail := by simp; omega
  simp only [show ¬ c.entries.length = cap by omega, show cap > c.entries.length by omega, if_true, if_false]
  rw [List.drop_left' hA, List.take_left' hA]
  simp only [List.append_assoc]

/-- shrinking drops the oldest slots -/
theorem ringView_resize_shrink (c : Ring) (cap : Nat) (ht : c.tail ≤ c.entries.length)
    (hs : cap < c.entries.length) :
    ringView (resize c cap) = (ringView c).drop (c.entries.length - cap) := by
  unfold ringView resize
  have hA : (List.take c.tail c.entries).length = c.tail := by simp; omega
  simp only [show ¬ c.entries.length = cap by omega, show ¬ cap > c.entries.length by omega, if_false]
  by_cases h2 : cap > c.tail
  · simp only [h2, if_true]
    rw [List.drop_left' hA, List.take_left' hA]
    rw [List.drop_append_of_le_length (by simp; omega), List.drop_drop]
    congr 2
    omega
  · simp only [h2, if_false, List.drop_zero, List.take_zero, List.append_nil]
    rw [List.drop_append]
    have : List.drop (c.entries.length - cap) (List.drop c.tail c.entries) = [] := by
      apply List.drop_eq_nil_of_le; simp; omega
    rw [this]
    simp only [List.length_drop, List.nil_append]
    have e : c.entries.length - cap - (c.entries.length - c.tail) = c.tail - cap := by omega
    rw [e]
    rw [List.drop_take]
    congr 1
    omega

theorem mem_ringView (c : Ring) (e : Slot) : e ∈ ringView c ↔ e ∈ c.entries := by
  unfold ringView
  rw [List.mem_append]
  constructor
  · rintro (h | h)
    · exact List.mem_of_mem_drop h
    · exact List.mem_of_mem_take h
  · intro h
    rw [← List.take_append_drop c.tail c.entries, List.mem_append] at h
    exact h.symm

theorem resize_length (c : Ring) (cap : Nat) (ht : c.tail ≤ c.entries.length) :
    (resize c cap).entries.length = cap := by
  unfold resize
  simp only
  split
  · assumption
  · split
    · simp; omega
    · split
      · simp; omega
      · simp; omega

theorem resize_tail (c : Ring) (cap : Nat) (ht : c.tail < c.entries.length) (hc : 0 < cap) :
    (resize c cap).tail < cap := by
  unfold resize
  simp only
  split
  · omega
  · split
    · simp; omega
    · split
      · simp; omega
      · simp; omega

theorem mem_resize (c : Ring) (cap : Nat) (e : Slot) (h : e ∈ (resize c cap).entries) :
    e = Slot.zero ∨ e ∈ c.entries := by
  unfold resize at h
  simp only at h
  split at h
  · exact Or.inr h
  · split at h
    · simp only [List.mem_append, List.mem_replicate] at h
      rcases h with h | h | h
      · exact Or.inr (List.mem_of_mem_take h)
      · exact Or.inl h.2
      · exact Or.inr (List.mem_of_mem_drop h)
    · split at h
      · simp only [List.mem_append] at h
        rcases h with h | h
        · exact Or.inr (List.mem_of_mem_take h)
        · exact Or.inr (List.mem_of_mem_drop h)
      · exact Or.inr (List.mem_of_mem_drop (List.mem_of_mem_take h))

/-- Ghost state: everything ever stored (oldest first) and the guaranteed window. -/
structure Ghost where
  hist : List Slot
  w : Nat

inductive Op where
  | store (p : Slot)
  | resize (cap : Nat)
  | resizeCond (cap : Nat)

/-- the ops the property quantifies over: capacities 1..65535 (no `cap = 0`) -/
def Op.valid : Op → Prop
  | .store _ => True
  | .resize cap => 0 < cap
  | .resizeCond cap => 0 < cap

def step (c : Ring) : Op → Ring
  | .store p => (store c p).1
  | .resize cap => resize c cap
  | .resizeCond cap => (resizeCond c cap).1

def gstep (c : Ring) (g : Ghost) : Op → Ghost
  | .store p => ⟨g.hist ++ [p], min (g.w + 1) c.entries.length⟩
  | .resize cap => ⟨g.hist, min g.w cap⟩
  | .resizeCond cap => ⟨g.hist, min g.w (resizeCond c cap).1.entries.length⟩

structure Inv (c : Ring) (g : Ghost) : Prop where
  tail_lt : c.tail < c.entries.length
  w_le_cap : g.w ≤ c.entries.length
  w_le_hist : g.w ≤ g.hist.length
  /-- the newest `w` slots of the ring are the newest `w` packets stored, in order -/
  window : (ringView c).drop (c.entries.length - g.w) = g.hist.drop (g.hist.length - g.w)
  /-- every slot is empty or holds a packet that was stored -/
  sound : ∀ e ∈ c.entries, e = Slot.zero ∨ e ∈ g.hist

theorem C05_inv_init (cap : Nat) (h : 0 < cap) : Inv (new cap) ⟨[], 0⟩ := by
  refine ⟨by simp [new]; exact h, by simp, by simp, by simp [ringView, new], ?_⟩
  intro e he
  simp [new] at he
  exact Or.inl he.2

theorem inv_store (c : Ring) (g : Ghost) (p : Slot) (h : Inv c g) :
    Inv (step c (.store p)) (gstep c g (.store p)) := by
  obtain ⟨ht, hwc, hwh, hwin, hs⟩ := h
  have hrl : (ringView c).length = c.entries.length := by simp [ringView]; omega
  refine ⟨?_, ?_, ?_, ?_, ?_⟩
  · simp only [step, store, List.length_set]
    exact Nat.mod_lt _ (by omega)
  · simp only [step, gstep, store, List.length_set]; omega
  · simp only [gstep, List.length_append, List.length_singleton]; omega
  · simp only [step, gstep]
    rw [ringView_store c p ht]
    simp only [store, List.length_set, List.length_append, List.length_singleton]
    by_cases hw : g.w < c.entries.length
    · have hm : min (g.w + 1) c.entries.length = g.w + 1 := by omega
      rw [hm]
      rw [List.drop_append_of_le_length (by simp; omega), List.drop_drop]
      rw [show 1 + (c.entries.length - (g.w + 1)) = c.entries.length - g.w by omega, hwin]
      rw [List.drop_append_of_le_length (by omega)]
      congr 2
      omega
    · have hm : min (g.w + 1) c.entries.length = c.entries.length := by omega
      have hw' : g.w = c.entries.length := by omega
      rw [hm]
      rw [hw'] at hwin
      simp only [Nat.sub_self, List.drop_zero] at hwin ⊢
      rw [hwin, List.drop_drop]
      rw [List.drop_append_of_le_length (by omega)]
      congr 2
      omega
  · intro e he
    simp only [step, store] at he
    simp only [gstep, List.mem_append, List.mem_singleton]
    rcases List.mem_or_eq_of_mem_set he with h1 | h1
    · rcases hs e h1 with h2 | h2
      · exact Or.inl h2
      · exact Or.inr (Or.inl h2)
    · exact Or.inr (Or.inr h1)

theorem inv_resize (c : Ring) (g : Ghost) (cap : Nat) (hc : 0 < cap) (h : Inv c g) :
    Inv (resize c cap) ⟨g.hist, min g.w cap⟩ := by
  obtain ⟨ht, hwc, hwh, hwin, hs⟩ := h
  have hlen := resize_length c cap (Nat.le_of_lt ht)
  have hrl : (ringView c).length = c.entries.length := by simp [ringView]; omega
  refine ⟨?_, ?_, ?_, ?_, ?_⟩
  · rw [hlen]; exact resize_tail c cap ht hc
  · rw [hlen]; simp only; omega
  · simp only; omega
  · rw [hlen]
    simp only
    rcases Nat.lt_trichotomy c.entries.length cap with hlt | heq | hgt
    · rw [ringView_resize_grow c cap (Nat.le_of_lt ht) hlt]
      have hm : min g.w cap = g.w := by omega
      rw [hm, List.drop_append, ← hwin]
      have : List.drop (cap - g.w) (List.replicate (cap - c.entries.length) Slot.zero) = [] := by
        apply List.drop_eq_nil_of_le; simp; omega
      rw [this]
      simp only [List.length_replicate, List.nil_append]
      congr 1
      omega
    · have : resize c cap = c := by simp [resize, heq]
      rw [this]
      have hm : min g.w cap = g.w := by omega
      rw [hm, ← heq]; exact hwin
    · rw [ringView_resize_shrink c cap (Nat.le_of_lt ht) hgt, List.drop_drop]
      by_cases hw : g.w ≤ cap
      · have hm : min g.w cap = g.w := by omega
        rw [hm, ← hwin]
        congr 1
        omega
      · have hm : min g.w cap = cap := by omega
        rw [hm]
        have e1 : c.entries.length - cap + (cap - cap) = (c.entries.length - g.w) + (g.w - cap) := by omega
        rw [e1, ← List.drop_drop, hwin, List.drop_drop]
        congr 1
        omega
  · intro e he
    rcases mem_resize c cap e he with h1 | h1
    · exact Or.inl h1
    · exact hs e h1

theorem resizeCond_cases (c : Ring) (cap : Nat) :
    (resizeCond c cap).1 = c ∨ (resizeCond c cap).1 = resize c cap := by
  unfold resizeCond
  simp only
  split
  · exact Or.inl rfl
  · split
    · exact Or.inl rfl
    · exact Or.inr rfl

theorem C05_inv_step (c : Ring) (g : Ghost) (op : Op) (hv : op.valid) (h : Inv c g) :
    Inv (step c op) (gstep c g op) := by
  cases op with
  | store p => exact inv_store c g p h
  | resize cap => exact inv_resize c g cap hv h
  | resizeCond cap =>
    simp only [step, gstep]
    rcases resizeCond_cases c cap with e | e
    · rw [e]
      have : min g.w c.entries.length = g.w := Nat.min_eq_left h.w_le_cap
      rw [this]; exact h
    · rw [e, resize_length c cap (Nat.le_of_lt h.tail_lt)]
      exact inv_resize c g cap hv h

/-- run a whole history from a fresh cache -/
def run : Ring × Ghost → List Op → Ring × Ghost
  | s, [] => s
  | (c, g), op :: ops => run (step c op, gstep c g op) ops

/-- The invariant holds in every reachable state: any capacity ≥ 1, any
sequence of stores and resizes. -/
theorem C05_reachable (cap : Nat) (hc : 0 < cap) (ops : List Op) (hv : ∀ op ∈ ops, op.valid) :
    Inv (run (new cap, ⟨[], 0⟩) ops).1 (run (new cap, ⟨[], 0⟩) ops).2 := by
  suffices H : ∀ (s : Ring × Ghost), Inv s.1 s.2 → (∀ op ∈ ops, op.valid) → Inv (run s ops).1 (run s ops).2 from
    H _ (C05_inv_init cap hc) hv
  induction ops with
  | nil => intro s h _; exact h
  | cons op ops ih =>
    intro s h hv
    obtain ⟨c, g⟩ := s
    simp only [run]
    exact ih (fun o ho => hv o (List.mem_cons_of_mem _ ho)) _
      (C05_inv_step c g op (hv op List.mem_cons_self) h)
      (fun o ho => hv o (List.mem_cons_of_mem _ ho))

theorem find_some (s : Nat) (es : List Slot) (e : Slot) (h : find s es = some e) :
    e ∈ es ∧ e.isEmpty = false ∧ e.seqno = s := by
  induction es with
  | nil => simp [find] at h
  | cons x xs ih =>
    simp only [find] at h
    split at h
    · rename_i hx
      simp only [Bool.and_eq_true, Bool.not_eq_true', beq_iff_eq] at hx
      cases h
      exact ⟨List.mem_cons_self, hx.1, hx.2⟩
    · obtain ⟨h1, h2⟩ := ih h
      exact ⟨List.mem_cons_of_mem _ h1, h2⟩

theorem find_of_mem (s : Nat) (es : List Slot) (p : Slot) (hp : p ∈ es) (hne : p.isEmpty = false)
    (hs : p.seqno = s) : ∃ e, find s es = some e := by
  induction es with
  | nil => cases hp
  | cons x xs ih =>
    simp only [find]
    split
    · exact ⟨x, rfl⟩
    · rename_i hx
      rcases List.mem_cons.mp hp with h | h
      · subst h
        simp [hne, hs] at hx
      · exact ih h

theorem zero_isEmpty : Slot.zero.isEmpty = true := by decide

/-- **Get is sound**: whatever `Get(seqno)` returns is, bytes, length, timestamp and
marker, a packet that was stored under that seqno. -/
theorem C05_get_sound (c : Ring) (g : Ghost) (h : Inv c g) (s : Nat) (e : Slot)
    (hg : get c s = some e) : e ∈ g.hist ∧ e.seqno = s := by
  obtain ⟨hm, hne, hs⟩ := find_some s c.entries e hg
  refine ⟨?_, hs⟩
  rcases h.sound e hm with h0 | h1
  · rw [h0, zero_isEmpty] at hne; cases hne
  · exact h1

/-- **GetAt is sound**: the slot returned has the requested seqno and is either the
empty slot (zero bytes: "nothing") or a packet that was stored. -/
theorem C05_getAt_sound (c : Ring) (g : Ghost) (h : Inv c g) (s i : Nat) (e : Slot)
    (hg : getAt c s i = some e) : e.seqno = s ∧ (e.bytes = [] ∨ e ∈ g.hist) := by
  unfold getAt at hg
  split at hg
  · cases hg
  · rename_i x hx
    split at hg
    · rename_i hs
      cases hg
      refine ⟨by simpa using hs, ?_⟩
      rcases h.sound e (List.mem_of_getElem? hx) with h0 | h1
      · exact Or.inl (by rw [h0]; rfl)
      · exact Or.inr h1
    · cases hg

/-- **The newest `w` packets are retrievable**: for each of them `Get` on its seqno
returns a stored, non-empty packet with that seqno (the packet itself unless a
second stored packet shares the number). -/
theorem C05_recent_retrievable (c : Ring) (g : Ghost) (h : Inv c g) (p : Slot)
    (hp : p ∈ g.hist.drop (g.hist.length - g.w)) (hne : p.isEmpty = false) :
    ∃ e, get c p.seqno = some e ∧ e ∈ g.hist ∧ e.seqno = p.seqno := by
  rw [← h.window] at hp
  have hp' : p ∈ c.entries := (mem_ringView c p).mp (List.mem_of_mem_drop hp)
  obtain ⟨e, he⟩ := find_of_mem p.seqno c.entries p hp' hne rfl
  exact ⟨e, he, C05_get_sound c g h p.seqno e he⟩

/-- The index `Store` returns designates the stored packet: `GetAt(seqno, index)`
right after the store returns exactly it. -/
theorem C05_store_index (c : Ring) (p : Slot) (ht : c.tail < c.entries.length) :
    getAt (store c p).1 p.seqno (store c p).2 = some p := by
  simp [getAt, store, ht]

/-- After `cap` stores at a fixed capacity the window is the whole capacity. -/
theorem C05_window_store (c : Ring) (g : Ghost) (p : Slot) :
    (gstep c g (.store p)).w = min (g.w + 1) c.entries.length := rfl

/-- Non-vacuity: a concrete reachable state (capacity 2, three stores, shrink to 1,
grow to 3) satisfies the invariant with a non-trivial window, and the lookups
behave as the theorems say. -/
def exOps : List Op :=
  [.store ⟨10, false, 1, [1]⟩, .store ⟨11, true, 2, [2, 2]⟩, .store ⟨12, false, 3, [3]⟩,
   .resize 1, .resize 3, .store ⟨13, false, 4, [4]⟩]

example : (run (new 2, ⟨[], 0⟩) exOps).2.w = 2 := by decide
example : get (run (new 2, ⟨[], 0⟩) exOps).1 12 = some ⟨12, false, 3, [3]⟩ := by decide
example : get (run (new 2, ⟨[], 0⟩) exOps).1 11 = none := by decide
example : ∀ op ∈ exOps, op.valid := by simp [exOps, Op.valid]

end Galene.Props.C05
