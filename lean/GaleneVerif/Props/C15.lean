import GaleneVerif.Props.C11
/-
C15 — chat messages are authentic, correctly addressed, and history is bounded.

About `handle` (the guard layer of handleClientMessage), `applyEffect`'s delivery
effects, and Model/History.lean (AddToChatHistory, discardObsoleteHistory,
ClearChatHistory), for all connections, environments, messages and histories:
* `C15_spoof_rejected`   a message claiming another id or user name produces no
                         effect but the closing protocol error;
* `C15_authentic`        every message the handler delivers or broadcasts carries as
                         source the sender's id or nothing, as user name the sender's or nothing;
* `C15_privileged`       … and is marked privileged exactly when the sender holds `op`;
* `C15_addressing`       a chat/usermessage with a dest is delivered to exactly that member
                         (a web client), or answered with an error and delivered to nobody;
                         without dest it is broadcast, minus the sender iff noecho;
                         `C15_broadcast_recipients`: whom the broadcast effect writes to
                         (every web member once, minus the sender iff noecho);
* `C15_history_*`        the stored history is the last ≤ 50 entries added, in order;
                         replay drops the too-old prefix, keeps order, and — with
                         non-decreasing timestamps — contains no entry older than the
                         configured age; clearing removes exactly all / one user's /
                         one message (the last only with both ids).
-/
namespace Galene.Sig
open History

/-- the message an effect hands to other connections -/
def Effect.msgOf : Effect → Option OutMsg
  | .deliver _ m => some m
  | .broadcast _ m => some m
  | _ => none

macro "nomsg" h:ident : tactic => `(tactic| (
  repeat' (first | split_ifs at $h:ident | split at $h:ident)
  all_goals mem_cases $h:ident
  all_goals (simp_all [Effect.msgOf, errReply, tokErr, emptyId])))

/-- **C15_spoof_rejected.**  A message that claims another client's id, or
(other than `join`) another user name, is rejected: the handler does nothing
but return a protocol error, which closes the connection. -/
theorem C15_spoof_rejected (c : Conn) (env : Env) (m : Msg)
    (h : (m.source ≠ "" ∧ m.source ≠ c.id) ∨ (m.type ≠ "join" ∧ ∃ u, m.username = some u ∧ u ≠ c.username)) :
    ∃ s, handle c env m = [Effect.fail (.proto s)] := by
  unfold handle
  by_cases h1 : spoofedSource c m = true
  · exact ⟨_, by rw [if_pos h1]⟩
  · rw [if_neg h1]
    rcases h with h | ⟨ht, u, hu, hne⟩
    · exact absurd (by simp [spoofedSource, h]) h1
    · have h2 : spoofedUser c m = true := by simp [spoofedUser, ht, hu, hne]
      exact ⟨_, by rw [if_pos h2]⟩

/-- not spoofed: the claimed source and user name are the sender's or absent -/
theorem not_spoofed (c : Conn) (m : Msg) (h1 : spoofedSource c m = false) (h2 : spoofedUser c m = false)
    (ht : m.type ≠ "join") :
    (m.source = "" ∨ m.source = c.id) ∧ (m.username = none ∨ m.username = some c.username) := by
  constructor
  · by_cases hs : m.source = ""
    · exact Or.inl hs
    · right
      by_cases hne : m.source = c.id
      · exact hne
      · simp [spoofedSource, hs, hne] at h1
  · cases hu : m.username with
    | none => exact Or.inl rfl
    | some u =>
      right
      by_cases hne : u = c.username
      · rw [hne]
      · simp [spoofedUser, ht, hu, hne] at h2

def Authentic (c : Conn) (m' : OutMsg) : Prop :=
  (m'.source = "" ∨ m'.source = c.id) ∧ (m'.username = none ∨ m'.username = some c.username) ∧
    m'.privileged = decide ("op" ∈ c.perms)

theorem chat_authentic (c : Conn) (env : Env) (m : Msg)
    (hs : (m.source = "" ∨ m.source = c.id) ∧ (m.username = none ∨ m.username = some c.username)) :
    ∀ e ∈ handleChat c env m, ∀ m', e.msgOf = some m' → Authentic c m' := by
  intro e he m' hm
  unfold handleChat at he
  split at he
  · mem_cases he; cases hm
  · simp only at he
    repeat' (first | split_ifs at he | split at he)
    all_goals mem_cases he
    all_goals (cases hm)
    all_goals exact ⟨hs.1, hs.2, rfl⟩

theorem maketoken_nomsg (c : Conn) (env : Env) (g : String) (m : Msg) :
    ∀ e ∈ handleMakeToken c env g m, e.msgOf = none := by
  intro e he; unfold handleMakeToken at he; nomsg he

theorem edittoken_nomsg (c : Conn) (env : Env) (g : String) (m : Msg) :
    ∀ e ∈ handleEditToken c env g m, e.msgOf = none := by
  intro e he; unfold handleEditToken at he; nomsg he

theorem groupaction_authentic (c : Conn) (env : Env) (m : Msg) :
    ∀ e ∈ handleGroupAction c env m, ∀ m', e.msgOf = some m' → Authentic c m' := by
  intro e he m' hm
  unfold handleGroupAction at he
  split at he
  · mem_cases he; cases hm
  · rename_i g hgr
    simp only at he
    split_ifs at he
    all_goals first
      | (rw [maketoken_nomsg c env g m e he] at hm; cases hm; done)
      | (rw [edittoken_nomsg c env g m e he] at hm; cases hm; done)
      | skip
    all_goals (repeat' (first | split_ifs at he | split at he))
    all_goals mem_cases he
    all_goals (cases hm)
    all_goals simp_all [Authentic]

/-- **C15_authentic / C15_privileged.**  Whatever the message: every message
the handler delivers to a member or broadcasts carries as source the sender's
id or nothing, as user name the sender's or nothing, and is marked privileged
exactly when the sender holds `op` in the state the message is handled in. -/
theorem C15_authentic (c : Conn) (env : Env) (m : Msg) (e : Effect) (he : e ∈ handle c env m)
    (m' : OutMsg) (hm : e.msgOf = some m') : Authentic c m' := by
  refine handle_cases (fun e => ∀ m', e.msgOf = some m' → Authentic c m') c env m
    (by simp [Effect.msgOf]) (by simp [Effect.msgOf]) ?_ ?_ ?_ ?_ ?_ ?_ ?_ e he m' hm
  · intro e he; unfold handleJoin at he; nomsg he
  · intro e he; unfold handleRequest at he; nomsg he
  · intro _ _ _ e he; unfold handleOffer at he; nomsg he
  · intro e he; unfold handleMedia at he; nomsg he
  · intro h1 h2 ht
    have hj : m.type ≠ "join" := by rcases ht with h | h <;> simp [h]
    exact chat_authentic c env m (not_spoofed c m h1 h2 hj)
  · intro _; exact groupaction_authentic c env m
  · intro e he; unfold handleUserAction at he; split at he <;> nomsg he

/-! ### addressing -/

/-- whom an effect addresses: a member by id, or everybody (minus the sender iff the flag) -/
inductive Target where
  | one (dest : String)
  | all (noecho : Bool)
  deriving Repr, DecidableEq

def Effect.target : Effect → Option Target
  | .deliver d _ => some (.one d)
  | .broadcast ne _ => some (.all ne)
  | _ => none

/-- the delivery effects of a chat/usermessage, in order -/
def targets (l : List Effect) : List Target := l.filterMap Effect.target

/-- **C15_addressing.**  For an authorised member: without dest the message is
broadcast (minus the sender iff noecho) and delivered to nobody else; with a
dest that is a web member it is delivered to exactly that member; with any
other dest nothing is delivered (and the sender gets an error reply). -/
theorem C15_addressing (c : Conn) (env : Env) (m : Msg) (g : String) (hg : c.group = some g)
    (hp : (if m.type = "chat" ∧ m.kind = "caption" then "caption" else "message") ∈ c.perms) :
    targets (handleChat c env m) =
      if m.dest = "" then [.all m.noecho]
      else match env.member m.dest with
        | some .web => [.one m.dest]
        | _ => [] := by
  unfold handleChat
  rw [hg]
  simp only [hp, not_true_eq_false, if_false]
  repeat' split
  all_goals first
    | rfl
    | simp_all [targets, Effect.target, errReply]

/-- an unauthorised or non-member sender reaches nobody -/
theorem C15_addressing_refused (c : Conn) (env : Env) (m : Msg)
    (h : c.group = none ∨ (if m.type = "chat" ∧ m.kind = "caption" then "caption" else "message") ∉ c.perms) :
    targets (handleChat c env m) = [] := by
  unfold handleChat
  rcases h with h | h
  · rw [h]; simp [targets, Effect.target, errReply]
  · cases hg : c.group with
    | none => simp [targets, Effect.target, errReply]
    | some g => simp [h, targets, Effect.target, errReply]

/-- whom `broadcast` writes to: every web client among the members, in member
order, minus the sender iff noecho -/
def broadcastWrites (members : List Ref) (i : Nat) (noecho : Bool) (m : OutMsg) : List LogItem :=
  members.filterMap fun r => match r with
    | .web j => if noecho ∧ j = i then none else some (.write j m)
    | _ => none

theorem foldl_broadcast_log (members : List Ref) (i : Nat) (noecho : Bool) (m : OutMsg) (w : World) :
    (members.foldl (fun w r => match r with
        | .web j => if noecho ∧ j = i then w else w.write j m
        | _ => w) w).log = w.log ++ broadcastWrites members i noecho m := by
  induction members generalizing w with
  | nil => simp [broadcastWrites]
  | cons r rest ih =>
    simp only [List.foldl_cons]
    rw [ih]
    cases r with
    | web j =>
      by_cases h : noecho = true ∧ j = i
      · simp [broadcastWrites, h]
      · simp [broadcastWrites, h, World.write]
    | mock id => simp [broadcastWrites]
    | disk id => simp [broadcastWrites]

/-- **C15_broadcast_recipients.**  Applying `broadcast` writes the message to
every web client that is a member of the sender's group — once each — except
the sender iff noecho, and to nobody else. -/
theorem C15_broadcast_recipients (w : World) (i : Nat) (c : Client) (gn : String) (g : Group) (noecho : Bool)
    (m : OutMsg) (hc : w.client? i = some c) (hg : c.group = some gn) (hgr : w.group? gn = some g) :
    (applyEffect w i (.broadcast noecho m)).log = w.log ++ broadcastWrites g.members i noecho m := by
  have hgn : (Option.getD (Option.getD (w.client? i) {}).group "") = gn := by simp [hc, hg]
  simp only [applyEffect, hgn, hgr]
  exact foldl_broadcast_log g.members i noecho m w

/-! ### history -/

/-- **C15_history_bound.**  The stored history never exceeds 50 entries. -/
theorem C15_history_bound (h : List Entry) (e : Entry) (hb : h.length ≤ maxChatHistory) :
    (add h e).length ≤ maxChatHistory := by
  simp only [add, maxChatHistory] at *
  by_cases hfull : h.length ≥ 50 <;> simp [hfull] <;> omega

/-- **C15_history_last.**  Starting from the empty history, after any sequence
of additions the stored history is the last ≤ 50 entries added, in order. -/
theorem C15_history_last (es : List Entry) :
    es.foldl add [] = es.drop (es.length - maxChatHistory) := by
  simp only [maxChatHistory]
  suffices h : ∀ (es acc : List Entry), acc.length ≤ 50 →
      es.foldl add acc = (acc ++ es).drop ((acc ++ es).length - 50) by
    simpa using h es [] (by simp)
  intro es
  induction es with
  | nil =>
    intro acc hacc
    have : acc.length - 50 = 0 := by omega
    simp [this]
  | cons e r ih =>
    intro acc hacc
    simp only [List.foldl_cons]
    rw [ih (add acc e) (by have := C15_history_bound acc e (by simpa [maxChatHistory] using hacc); simpa [maxChatHistory] using this)]
    simp only [add, maxChatHistory] at *
    by_cases hfull : acc.length ≥ 50
    · simp only [hfull, if_true]
      have h50 : acc.length = 50 := by omega
      rw [show acc ++ e :: r = acc ++ [e] ++ r by simp]
      rw [show List.drop 1 acc ++ [e] ++ r = List.drop 1 (acc ++ [e] ++ r) by
        rw [List.append_assoc, List.append_assoc, List.drop_append_of_le_length (by omega)]]
      rw [List.drop_drop]
      congr 1
      simp; omega
    · simp [hfull]

/-- replay (`GetChatHistory`) returns a suffix of the stored history: order and
contents are kept, only a prefix is dropped -/
theorem C15_replay_suffix (h : List Entry) (a : Nat) : ∃ pre, h = pre ++ discardObsolete h a := by
  unfold discardObsolete
  exact ⟨h.takeWhile _, (List.takeWhile_append_dropWhile).symm⟩

/-- the first replayed entry is not older than the configured age -/
theorem C15_replay_head (h : List Entry) (a : Nat) (e : Entry) (he : (discardObsolete h a).head? = some e) :
    e.age ≤ a := by
  unfold discardObsolete at he
  have := List.head?_dropWhile_not (fun e : Entry => decide (e.age > a)) h
  rw [he] at this
  simpa using this

/-- **C15_history_age (partial: timestamps must not decrease along the history,
as they do when every entry is stamped `time.Now()` on arrival).**  Nothing
replayed is older than the configured age.  Without the hypothesis the statement
is false (`C15_history_age_false`): discardObsoleteHistory stops at the first
young entry. -/
theorem C15_history_age_partial (h : List Entry) (a : Nat)
    (hmono : h.Pairwise (fun x y => y.age ≤ x.age)) : ∀ e ∈ discardObsolete h a, e.age ≤ a := by
  induction h with
  | nil => simp [discardObsolete]
  | cons x r ih =>
    intro e he
    unfold discardObsolete at he
    rw [List.dropWhile_cons] at he
    split at he
    · exact ih (List.Pairwise.of_cons hmono) e he
    · rename_i hx
      have hxa : x.age ≤ a := by simpa using hx
      rcases List.mem_cons.mp he with h | h
      · rw [h]; exact hxa
      · exact Nat.le_trans ((List.pairwise_cons.mp hmono).1 e h) hxa

theorem C15_history_age_false :
    ∃ (h : List Entry) (a : Nat), ∃ e ∈ discardObsolete h a, e.age > a :=
  ⟨[{ id := "young", age := 0 }, { id := "old", age := 100 }], 10, { id := "old", age := 100 },
    by
      have h : discardObsolete [{ id := "young", age := 0 }, { id := "old", age := 100 }] 10 =
          [{ id := "young", age := 0 }, { id := "old", age := 100 }] := by decide
      rw [h]; simp,
    by decide⟩

/-- **C15_history_clear.**  `clearchat` removes everything (no ids), one user's
messages (user id only), or one message (both ids), and nothing else; the order
of what remains is kept. -/
theorem C15_history_clear (h : List Entry) (id uid : String) :
    (id = "" ∧ uid = "" → clear h id uid = []) ∧
    (¬(id = "" ∧ uid = "") → ∀ e, e ∈ clear h id uid ↔ (e ∈ h ∧ ¬(e.source = uid ∧ (id = "" ∨ e.id = id)))) ∧
    (clear h id uid).Sublist h := by
  refine ⟨fun hh => by simp [clear, hh], fun hh e => ?_, ?_⟩
  · simp only [clear, hh, if_false, List.mem_filter, decide_eq_true_eq]
  · unfold clear
    split
    · exact List.nil_sublist _
    · exact List.filter_sublist

/-- the handler refuses a message id without a user id (`bad value in clearchat`) -/
theorem C15_clearchat_needs_user (c : Conn) (env : Env) (m : Msg) (id uid : String)
    (he : Effect.histClear id uid ∈ handleGroupAction c env m) : ¬(uid = "" ∧ id ≠ "") ∧ "op" ∈ c.perms := by
  unfold handleGroupAction at he
  split at he
  · nomsg he
  · rename_i g hgr
    simp only at he
    split_ifs at he
    all_goals first
      | (exfalso; unfold handleMakeToken at he; nomsg he; done)
      | (exfalso; unfold handleEditToken at he; nomsg he; done)
      | skip
    all_goals (repeat' (first | split_ifs at he | split at he))
    all_goals mem_cases he
    all_goals simp_all [errReply, tokErr]

/-! ### non-vacuity -/

example : targets (handleChat { id := "c0", group := some "g", perms := ["message"] } { members := [("c1", .web)] }
    { type := "chat", dest := "c1", value := .sc (.str "hi") }) = [.one "c1"] := by decide

example : (List.replicate 60 ({ id := "x" } : Entry)).foldl add [] = List.replicate 50 { id := "x" } := by
  rw [C15_history_last]; decide

end Galene.Sig
