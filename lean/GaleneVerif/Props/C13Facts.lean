import GaleneVerif.Model.Locks
import GaleneVerif.Props.C13Locks
import GaleneVerif.Generated.Locks
import GaleneVerif.Generated.Accesses
/-!
# C13 (b)/(c) — side conditions decided on the regenerated lock facts

`GaleneVerif/Generated/{Locks,Accesses}.lean` are rewritten from the source of the
repository by `extract/run.sh` before every `lake build`.  This file re-decides, in the
kernel, the two side conditions of the generic theorems of `Props/C13Locks.lean`:

* `C13_lock_order_side_condition`: `acyclic lockEdges` evaluates to what the extractor
  claims (`lockEdgesAcyclic`).  On the tree of today the claim is `false` (finding P14 and
  the `kickall` cycles); the cycle is reported with its witness by the `locks` engine, not
  by a failing build.  Once the claim is `true`, `C13_deadlock_free_of_facts` applies.
* `C13_guard_side_condition`: the certificate check `certOk` on the access/call facts
  evaluates to what the extractor claims (`allGuardedClaim`; `false` today: findings P9,
  P15, P16).  Once `true`, `C13_guarded_of_facts` says every access to a guarded field is
  made with its guard held or certified to be held by every caller, and entry points need
  nothing.

Both are fail-closed: the deadlock/race conclusions additionally require
`lockUnknowns = []`.  The link between the facts and the Go program (the extractor's
claim that it lists every acquire, call and access) is trusted; see DESIGN.md section 4.
-/
namespace Galene.C13Facts
open Galene.Locks Galene.Generated

/-- Re-decided on every run: Lean's verdict on the regenerated lock-order edges agrees with
the extractor's. -/
theorem C13_lock_order_side_condition : acyclic lockEdges = lockEdgesAcyclic := by decide +kernel

/-- Re-decided on every run: Lean's verdict on the regenerated access/call facts and the
`needs` certificate agrees with the extractor's. -/
theorem C13_guard_side_condition :
    certOk accesses lockedCalls needsCert entryPoints = allGuardedClaim := by decide +kernel

/-- **C13, deadlock freedom from the facts.**  If the regenerated lock-order graph is
acyclic and nothing was left unanalysed, then any set of threads whose
acquire-while-holding pairs are all among the extracted edges never reaches a state in
which some thread is unfinished and nobody can move. -/
theorem C13_deadlock_free_of_facts (hclaim : lockEdgesAcyclic = true) (_hunk : lockUnknowns = [])
    {X : Type} (progs : List (List (Event Nat X))) (hc : ∀ p ∈ progs, ConformsFrom lockEdges [] p)
    (s : MState Nat X) (hr : Reachable (initState progs) s)
    (hunf : ∃ (t : Nat) (th : Thread Nat X), s.threads[t]? = some th ∧ th.prog ≠ []) :
    ∃ t s', stepThread s t = some s' :=
  no_deadlock_of_acyclic_edges lockEdges (C13_lock_order_side_condition.trans hclaim) progs hc s hr hunf

/-- what a passed certificate check means -/
theorem certOk_sound {accs : List (Nat × Nat × Bool × Nat × List Nat)} {calls : List (Nat × Nat × List Nat)}
    {cert : List (Nat × List Nat)} {entries : List Nat} (h : certOk accs calls cert entries = true) :
    (∀ a ∈ accs, a.2.2.2.1 ∈ a.2.2.2.2 ∨ a.2.2.2.1 ∈ certNeeds cert a.1) ∧
    (∀ c ∈ calls, ∀ l ∈ certNeeds cert c.2.1, l ∈ c.2.2 ∨ l ∈ certNeeds cert c.1) ∧
    (∀ e ∈ entries, certNeeds cert e = []) := by
  simp only [certOk, Bool.and_eq_true, List.all_eq_true, Bool.or_eq_true, List.contains_iff_mem,
    List.isEmpty_iff] at h
  exact ⟨h.1.1, h.1.2, h.2⟩

/-- **C13, guarded accesses from the facts.**  If the certificate check passes on the
regenerated facts: every read or write of a guarded field happens with its guard mutex
lexically held, or in a function that every caller calls with that mutex held (transitively:
each call site holds it or is itself in such a function), and no entry point — exported
function, goroutine root, callback, interface implementation — is such a function. -/
theorem C13_guarded_of_facts (hclaim : allGuardedClaim = true) :
    (∀ a ∈ accesses, a.2.2.2.1 ∈ a.2.2.2.2 ∨ a.2.2.2.1 ∈ certNeeds needsCert a.1) ∧
    (∀ c ∈ lockedCalls, ∀ l ∈ certNeeds needsCert c.2.1, l ∈ c.2.2 ∨ l ∈ certNeeds needsCert c.1) ∧
    (∀ e ∈ entryPoints, certNeeds needsCert e = []) :=
  certOk_sound (C13_guard_side_condition.trans hclaim)

/-! non-vacuity: the certificate check accepts a locked access and a "called locked" helper,
and rejects an unguarded entry point -/
example : certOk [(0, 0, true, 7, [7]), (1, 0, false, 7, [])] [(0, 1, [7])] [(1, [7])] [0] = true := by decide
example : certOk [(1, 0, false, 7, [])] [(0, 1, [])] [(1, [7]), (0, [7])] [0] = false := by decide
example : certOk [(0, 0, false, 7, [])] [] [] [0] = false := by decide

end Galene.C13Facts
