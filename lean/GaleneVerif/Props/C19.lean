import GaleneVerif.Lemmas.CleanJoin
/-
C19 — names from clients never reach files outside their configured directories (lexical part).

Everything rests on `Galene.Paths.clean_eq_spec` (Lemmas/Clean.lean): the model of Go's `path.Clean`
(the lazybuf byte loop, tied to the real function by the exhaustive differential run of engine `paths`)
computes, for EVERY string, the lexical resolution of its '/'-separated components.  From it:

  * `C19_clean_rooted`, `C19_clean_fixpoint`, `C19_clean_idempotent`, `C19_clean_ne_nil`
  * `C19_valid_iff`, `C19_validUsername_iff`   — validGroupName/validUsername accept exactly the safe names
  * `C19_parse_components_safe`, `C19_parse_noBackslash`, `C19_parse_agrees` (the FULL agreement clause:
    every non-empty result of `parseGroupName` is accepted by `validGroupName`), with corollaries
    `C19_parse_agrees_partial`, `C19_parse_agrees_iff`.  Finding P21 (in the pinned tree `parseGroupName`
    returned names with a backslash, which `validGroupName` rejects) was a defect of the pinned tree,
    repaired by a `fix:` commit (`parseGroupName` now returns "" for such names); the model follows the
    repaired function and the full clause is proved.
  * `C19_desc_confined`, `C19_desc_found_confined`, `C19_desc_confined_root`
  * `C19_sanitise`, `C19_recording_file`, `C19_recording_dir`, `C19_recording_served`, `C19_delete_target`
  * `C19_splitPath` (the URL is cut at the first "/."), `C19_clean_idempotent_all`

`UpdateDescription` computes the name of a NEW description file with the same expression as
`getDescriptionFile` (`filepath.Join(Directory, path.Clean("/"+name)+".json")`, model `descFileName`), so
`descFileName_confined` covers file creation too (tied to the real function by the `descupdate` op).

"Safe component" (`SafeComp`) = not "", not ".", not "..", contains no '/'.  A string of the form
`joinSlash [c1, …, ck]` with safe components names something k levels below the directory it is
appended to and nothing else: this is the lexical meaning of confinement.  What the file system does
with such a name (symlinks, os.Root) is outside the model and trusted (os.Root is the standard
library's confinement below the lexical level).

Unix build only (`filepath.Separator = '/'`): the Windows-only branches of the Go code are not modelled.
-/
set_option linter.unusedSimpArgs false

namespace Galene.Props.C19
open Galene.Paths

/-! ### path.Clean -/

/-- the fuel of the model's loop is only a termination device: any two amounts that cover the
unread input give the same result -/
theorem cleanLoop_fuel (rooted : Bool) (f1 f2 : Nat) (rest rout : Str) (dd : Nat)
    (h1 : rest.length ≤ f1) (h2 : rest.length ≤ f2) :
    cleanLoop rooted f1 rest rout dd = cleanLoop rooted f2 rest rout dd := by
  rw [cleanLoop_eq_foldl rooted f1 rest rout dd h1, cleanLoop_eq_foldl rooted f2 rest rout dd h2]

/-- the full characterisation of `path.Clean` (restated from Lemmas/Clean.lean): for every string,
the byte-level algorithm returns what the documentation promises -/
theorem C19_clean_spec (path : Str) : clean path = cleanSpec path := clean_eq_spec path

/-- `path.Clean` never returns the empty string (so `name[1:]` in `parseGroupName` cannot panic) -/
theorem C19_clean_ne_nil (path : Str) : clean path ≠ [] := by
  rw [clean_eq_spec]
  unfold cleanSpec
  split
  · simp
  · simp only
    split
    · simp
    · split <;> simp_all

/-- **C19_clean_rooted**: for every string `s`, `Clean("/" + s)` is "/" followed by safe components
joined by "/" (just "/" when there is none): no "", "." or ".." component survives, whatever `s` is. -/
theorem C19_clean_rooted (s : Str) :
    ∃ cs : List Str, (∀ c ∈ cs, SafeComp c) ∧ clean ('/' :: s) = '/' :: joinSlash cs :=
  ⟨rootedNames s, rootedNames_safe s, clean_rooted s⟩

/-- a path that already has that shape is left alone -/
theorem C19_clean_fixpoint {cs : List Str} (h : ∀ c ∈ cs, SafeComp c) :
    clean ('/' :: joinSlash cs) = '/' :: joinSlash cs := by
  rw [clean_rooted, rootedNames_joinSlash h]

/-- `Clean` is idempotent on rooted paths -/
theorem C19_clean_idempotent (s : Str) : clean (clean ('/' :: s)) = clean ('/' :: s) := by
  rw [clean_rooted]; exact C19_clean_fixpoint (rootedNames_safe s)

theorem foldl_resolveStep_dotdots (n : Nat) : ∀ k : Nat,
    (List.replicate n ['.', '.']).foldl (resolveStep false) (k, []) = (k + n, []) := by
  induction n with
  | zero => intro k; rfl
  | succ n ih =>
    intro k
    rw [List.replicate_succ, List.foldl_cons]
    have : resolveStep false (k, []) ['.', '.'] = (k + 1, []) := by simp [resolveStep]
    rw [this, ih]; congr 1; omega

/-- `Clean` is idempotent on every string (rooted or not) -/
theorem C19_clean_idempotent_all (p : Str) : clean (clean p) = clean p := by
  by_cases hp : p = []
  · subst hp; decide
  by_cases hr : p.head? = some '/'
  · obtain ⟨t, rfl⟩ : ∃ t, p = '/' :: t := by
      cases p with
      | nil => simp at hr
      | cons a t => simp only [List.head?_cons, Option.some.injEq] at hr; exact ⟨t, by rw [hr]⟩
    exact C19_clean_idempotent t
  · -- unrooted: the result is "." or `../…/../c1/…/ck`
    have hd : decide (p.head? = some '/') = false := by simpa using hr
    generalize hσ : resolve false (splitSlash p) = σ
    have hsafe : ∀ c ∈ σ.2, SafeComp c := by
      rw [← hσ]; exact foldl_resolveStep_names_safe _ _ (by simp) (splitSlash_noSlash _)
    have hcp : clean p = if bodyOf σ = [] then ['.'] else bodyOf σ := by
      rw [clean_eq_spec]; simp only [cleanSpec, hp, if_false, hd, hσ, Bool.false_eq_true]
    rw [hcp]
    by_cases hb : bodyOf σ = []
    · rw [if_pos hb]; decide
    · rw [if_neg hb]
      have hL : ∀ c ∈ List.replicate σ.1 ['.', '.'] ++ σ.2, c ≠ [] ∧ '/' ∉ c := by
        intro c hc
        rcases List.mem_append.mp hc with h1 | h1
        · rw [(List.mem_replicate.mp h1).2]; decide
        · exact ⟨(hsafe c h1).1, (hsafe c h1).2.2.2⟩
      have hLn : List.replicate σ.1 ['.', '.'] ++ σ.2 ≠ [] := by
        intro e; apply hb; unfold bodyOf; rw [e]; rfl
      have hhead : (bodyOf σ).head? ≠ some '/' := by
        unfold bodyOf
        cases hLL : List.replicate σ.1 ['.', '.'] ++ σ.2 with
        | nil => exact absurd hLL hLn
        | cons c r =>
          have hc := hL c (by rw [hLL]; simp)
          rw [head?_joinSlash hc.1]
          cases c with
          | nil => exact absurd rfl hc.1
          | cons x c =>
            simp only [List.head?_cons, ne_eq, Option.some.injEq]
            intro e; exact hc.2 (by simp [e])
      have hd2 : decide ((bodyOf σ).head? = some '/') = false := by simpa using hhead
      have hres : resolve false (splitSlash (bodyOf σ)) = σ := by
        unfold bodyOf resolve
        rw [splitSlash_joinSlash hLn (fun c hc => (hL c hc).2), List.foldl_append, foldl_resolveStep_dotdots,
          foldl_resolveStep_safe _ _ hsafe]
        simp
      rw [clean_eq_spec]
      simp only [cleanSpec, hb, if_false, hd2, hres, Bool.false_eq_true]

/-- the output of `Clean("/" + s)` starts with '/', and (consequence of the shape) contains no "//" -/
theorem C19_clean_rooted_head (s : Str) : (clean ('/' :: s)).head? = some '/' := by
  rw [clean_rooted]; rfl

/-! ### validGroupName / validUsername -/

theorem contains_iff_mem (s : Str) (c : Char) : s.contains c = true ↔ c ∈ s := by
  simp [List.contains_iff_mem]

/-- **C19_valid_iff**: `validGroupName n` holds exactly when `n` is non-empty, has no backslash, and
every '/'-separated component of `n` is neither "", "." nor ".." (so `n` is not absolute, has no
trailing or doubled slash, and never climbs). -/
theorem C19_valid_iff (n : Str) :
    validGroupName n = true ↔
      n ≠ [] ∧ '\\' ∉ n ∧ ∀ c ∈ splitSlash n, c ≠ [] ∧ c ≠ ['.'] ∧ c ≠ ['.', '.'] := by
  unfold validGroupName
  rw [clean_rooted]
  by_cases hb : n.contains '\\' = true
  · simp only [hb, if_true]
    have := (contains_iff_mem n '\\').mp hb
    simp [this]
  · have hb' : '\\' ∉ n := fun h => hb ((contains_iff_mem n '\\').mpr h)
    simp only [hb, if_false, Bool.false_eq_true]
    constructor
    · intro h
      split at h
      · simp at h
      · rename_i hne
        have he : joinSlash (rootedNames n) = n := by simpa using h
        have hn : n ≠ [] := by
          intro e; apply hne; rw [← he] at e; rw [e]
        refine ⟨hn, hb', ?_⟩
        have hrn : rootedNames n ≠ [] := by
          intro e; rw [e] at he; exact hn he.symm
        have : splitSlash n = rootedNames n := by
          conv => lhs; rw [← he]
          exact splitSlash_joinSlash hrn (fun c hc => (rootedNames_safe n c hc).2.2.2)
        rw [this]
        intro c hc
        exact ⟨(rootedNames_safe n c hc).1, (rootedNames_safe n c hc).2.1, (rootedNames_safe n c hc).2.2.1⟩
    · rintro ⟨hn, _, hc⟩
      have hsafe : ∀ c ∈ splitSlash n, SafeComp c := fun c h =>
        ⟨(hc c h).1, (hc c h).2.1, (hc c h).2.2, splitSlash_noSlash n c h⟩
      have : rootedNames n = splitSlash n := by
        conv => lhs; rw [← joinSlash_splitSlash n]
        exact rootedNames_joinSlash hsafe
      rw [this, joinSlash_splitSlash]
      simp [hn]

/-- `validUsername u` holds exactly when `u` is empty or a valid group name -/
theorem C19_validUsername_iff (u : Str) :
    validUsername u = true ↔
      u = [] ∨ ('\\' ∉ u ∧ ∀ c ∈ splitSlash u, c ≠ [] ∧ c ≠ ['.'] ∧ c ≠ ['.', '.']) := by
  unfold validUsername
  simp only [Bool.or_eq_true, decide_eq_true_eq, C19_valid_iff]
  constructor
  · rintro (h | ⟨_, h2, h3⟩)
    · exact Or.inl h
    · exact Or.inr ⟨h2, h3⟩
  · rintro (h | ⟨h2, h3⟩)
    · exact Or.inl h
    · by_cases hu : u = []
      · exact Or.inl hu
      · exact Or.inr ⟨hu, h2, h3⟩

/-- a valid group name is relative, and so is every valid non-empty username -/
theorem C19_valid_not_absolute {n : Str} (h : validGroupName n = true) : n.head? ≠ some '/' := by
  have ⟨_, _, hc⟩ := (C19_valid_iff n).mp h
  cases n with
  | nil => simp
  | cons x t =>
    intro e
    simp only [List.head?_cons, Option.some.injEq] at e
    subst e
    have := hc [] (by rw [splitSlash_cons_slash]; simp)
    exact this.1 rfl

/-! ### parseGroupName -/

/-- every character of every '/'-separated component of `s` is a character of `s` -/
theorem splitSlash_chars (s : Str) : ∀ c ∈ splitSlash s, ∀ x ∈ c, x ∈ s := by
  induction s with
  | nil => simp [splitSlash]
  | cons a t ih =>
    by_cases ha : a = '/'
    · subst ha
      rw [splitSlash_cons_slash]
      intro c hc x hx
      rcases List.mem_cons.mp hc with rfl | hc
      · simp at hx
      · exact List.mem_cons_of_mem _ (ih c hc x hx)
    · rw [splitSlash_cons_ne ha]
      rw [splitSlash_eq_head_tail t] at ih
      intro c hc x hx
      rcases List.mem_cons.mp hc with rfl | hc
      · rcases List.mem_cons.mp hx with rfl | hx
        · exact List.mem_cons_self
        · exact List.mem_cons_of_mem _ (ih _ List.mem_cons_self x hx)
      · exact List.mem_cons_of_mem _ (ih c (List.mem_cons_of_mem _ hc) x hx)

/-- lexical resolution invents no component: if the names on the stack and the new component
satisfy `P`, so do the names on the stack afterwards -/
theorem resolveStep_names_of {P : Str → Prop} {rooted : Bool} {σ : Nat × List Str} (hs : ∀ c ∈ σ.2, P c)
    {comp : Str} (hc : P comp) : ∀ c ∈ (resolveStep rooted σ comp).2, P c := by
  unfold resolveStep
  split
  · exact hs
  · split
    · split
      · intro c h; exact hs c (List.dropLast_subset _ h)
      · split
        · exact hs
        · simp
    · intro c h
      rcases List.mem_append.mp h with h | h
      · exact hs c h
      · rw [List.mem_singleton.mp h]; exact hc

theorem foldl_resolveStep_names_of {P : Str → Prop} {rooted : Bool} : ∀ (cs : List Str) (σ : Nat × List Str),
    (∀ c ∈ σ.2, P c) → (∀ c ∈ cs, P c) → ∀ c ∈ (cs.foldl (resolveStep rooted) σ).2, P c := by
  intro cs
  induction cs with
  | nil => intro σ hs _; exact hs
  | cons a r ih =>
    intro σ hs hc
    rw [List.foldl_cons]
    exact ih _ (resolveStep_names_of hs (hc a List.mem_cons_self)) (fun c h => hc c (List.mem_cons_of_mem _ h))

/-- every character of every component of `rootedNames x` is a character of `x` -/
theorem rootedNames_chars (x : Str) : ∀ c ∈ rootedNames x, ∀ ch ∈ c, ch ∈ x := by
  unfold rootedNames resolve
  exact foldl_resolveStep_names_of (P := fun c => ∀ ch ∈ c, ch ∈ x) _ _ (by simp) (splitSlash_chars x)

/-- a character of a joined string is the joiner or a character of one of the components -/
theorem mem_joinSlash {ch : Char} : ∀ {cs : List Str}, ch ∈ joinSlash cs → ch = '/' ∨ ∃ c ∈ cs, ch ∈ c := by
  intro cs
  induction cs with
  | nil => simp [joinSlash]
  | cons c r ih =>
    cases r with
    | nil => intro h; exact Or.inr ⟨c, List.mem_cons_self, h⟩
    | cons d r =>
      rw [joinSlash_cons_cons]
      intro h
      rcases List.mem_append.mp h with h | h
      · exact Or.inr ⟨c, List.mem_cons_self, h⟩
      · rcases List.mem_cons.mp h with h | h
        · exact Or.inl h
        · rcases ih h with h | ⟨e, he, hm⟩
          · exact Or.inl h
          · exact Or.inr ⟨e, List.mem_cons_of_mem _ he, hm⟩

/-- `Clean("/" + x)[1:]` contains a backslash only if `x` does -/
theorem joinSlash_rootedNames_noBackslash {x : Str} (h : '\\' ∉ x) : '\\' ∉ joinSlash (rootedNames x) := by
  intro hm
  rcases mem_joinSlash hm with e | ⟨c, hc, hch⟩
  · revert e; decide
  · exact h (rootedNames_chars x c hc _ hch)

/-- every non-empty result of `parseGroupName` is `Clean("/" + x)[1:]` for a backslash-free `x`
(the part of the URL after the prefix), i.e. the resolved components of `x` joined by '/' -/
theorem parseGroupName_eq (pre p : Str) :
    parseGroupName pre p = [] ∨
      ∃ x : Str, '\\' ∉ x ∧ rootedNames x ≠ [] ∧ parseGroupName pre p = joinSlash (rootedNames x) := by
  unfold parseGroupName
  split
  · exact Or.inl rfl
  · simp only
    split
    · exact Or.inl rfl
    · split
      · exact Or.inl rfl
      · split
        · exact Or.inl rfl
        · rename_i hb
          rw [clean_rooted]
          simp only [List.drop_one, List.tail_cons]
          by_cases h : rootedNames (List.drop pre.length p) = []
          · left; rw [h]; rfl
          · right
            exact ⟨_, fun hm => hb ((contains_iff_mem _ '\\').mpr hm), h, rfl⟩

/-- shape of every non-empty result of `parseGroupName`: safe components joined by '/' -/
theorem parseGroupName_shape (pre p : Str) :
    parseGroupName pre p = [] ∨
      ∃ cs : List Str, cs ≠ [] ∧ (∀ c ∈ cs, SafeComp c) ∧ parseGroupName pre p = joinSlash cs := by
  rcases parseGroupName_eq pre p with h | ⟨x, _, hne, he⟩
  · exact Or.inl h
  · exact Or.inr ⟨_, hne, rootedNames_safe x, he⟩

/-- `parseGroupName` never returns a name with a backslash (since the `fix:` commit that makes it
refuse such URLs) -/
theorem C19_parse_noBackslash (pre p : Str) : '\\' ∉ parseGroupName pre p := by
  rcases parseGroupName_eq pre p with h | ⟨x, hb, _, he⟩
  · rw [h]; simp
  · rw [he]; exact joinSlash_rootedNames_noBackslash hb

/-- **for every URL path and prefix**, the components of the name `parseGroupName` returns are
neither "", "." nor "..": whatever the client sends, the name stays lexically inside the groups
directory (this is the part of C19 that confinement needs; it holds without exception). -/
theorem C19_parse_components_safe (pre p : Str) (h : parseGroupName pre p ≠ []) :
    ∀ c ∈ splitSlash (parseGroupName pre p), c ≠ [] ∧ c ≠ ['.'] ∧ c ≠ ['.', '.'] := by
  rcases parseGroupName_shape pre p with h0 | ⟨cs, hne, hs, he⟩
  · exact absurd h0 h
  · rw [he, splitSlash_joinSlash hne (fun c hc => (hs c hc).2.2.2)]
    intro c hc
    exact ⟨(hs c hc).1, (hs c hc).2.1, (hs c hc).2.2.1⟩

/-- **C19_parse_agrees**: the FULL agreement clause of the property — for every prefix and every URL
path, a non-empty name returned by `parseGroupName` is accepted by `validGroupName`: the group layer
accepts every name the URL parser accepts.  (In the pinned tree this was false for names with a
backslash — finding P21, e.g. `parseGroupName("", "\\") = "\\"` — a defect repaired by a `fix:`
commit: `parseGroupName` now returns "" when the name contains a backslash.  The model follows the
repaired function and the clause is proved without any added hypothesis.) -/
theorem C19_parse_agrees (pre p : Str) (h : parseGroupName pre p ≠ []) :
    validGroupName (parseGroupName pre p) = true :=
  (C19_valid_iff _).mpr ⟨h, C19_parse_noBackslash pre p, C19_parse_components_safe pre p h⟩

/-- the earlier partial form of the agreement clause (with the hypothesis that the returned name
contains no backslash, which was needed before the P21 fix); now a corollary of `C19_parse_agrees`,
the hypothesis `hb` being always true (`C19_parse_noBackslash`) -/
theorem C19_parse_agrees_partial (pre p : Str) (h : parseGroupName pre p ≠ [])
    (_hb : '\\' ∉ parseGroupName pre p) : validGroupName (parseGroupName pre p) = true :=
  C19_parse_agrees pre p h

/-- a non-empty result of `parseGroupName` is accepted by `validGroupName` exactly when it has no
backslash; since the P21 fix both sides always hold (`C19_parse_agrees`, `C19_parse_noBackslash`) -/
theorem C19_parse_agrees_iff (pre p : Str) (h : parseGroupName pre p ≠ []) :
    validGroupName (parseGroupName pre p) = true ↔ '\\' ∉ parseGroupName pre p :=
  ⟨fun _ => C19_parse_noBackslash pre p, fun _ => C19_parse_agrees pre p h⟩

/-! ### getDescriptionFile -/

theorem length_trimRightSlash_le (s : Str) : (trimRightSlash s).length ≤ s.length := by
  unfold trimRightSlash
  rw [List.length_reverse]
  calc (s.reverse.dropWhile (· = '/')).length ≤ s.reverse.length := (List.dropWhile_sublist _).length_le
    _ = s.length := List.length_reverse

/-- every iteration of the subgroup walk strictly shortens the name: the walk terminates and the
model's fuel `name.length + 1` is never exhausted -/
theorem descParent_length_lt {name : Str} (h : name ≠ []) : (descParent name).length < name.length := by
  unfold descParent pathSplit trimRightSlash
  simp only [List.reverse_reverse, List.length_reverse]
  -- the directory part is either empty or ends with '/', which TrimRight removes
  generalize hr : name.reverse = r
  have hlen : name.length = r.length := by rw [← hr, List.length_reverse]
  have hrne : r ≠ [] := by rw [← hr]; simpa using h
  rw [hlen]
  cases hd : r.dropWhile (fun c => decide (c ≠ '/')) with
  | nil =>
    have : 0 < r.length := List.length_pos_iff.mpr hrne
    simpa using this
  | cons x d =>
    have hx : x = '/' := by
      have := List.head?_dropWhile_not (fun c => decide (c ≠ '/')) r
      rw [hd] at this
      simpa using this
    subst hx
    have h1 : ('/' :: d).length ≤ r.length := by
      rw [← hd]; exact (List.dropWhile_sublist _).length_le
    have h2 : (('/' :: d).dropWhile (fun c => decide (c = '/'))).length ≤ d.length := by
      simp only [List.dropWhile_cons, decide_true, if_true]
      exact (List.dropWhile_sublist _).length_le
    simp only [List.length_cons] at h1
    omega

theorem descFiles_fuel (dir : Str) (allow : Bool) : ∀ (f1 f2 : Nat) (name : Str),
    name.length ≤ f1 → name.length ≤ f2 → descFiles dir allow f1 name = descFiles dir allow f2 name := by
  intro f1
  induction f1 with
  | zero =>
    intro f2 name h1 _
    have : name = [] := List.length_eq_zero_iff.mp (by omega)
    subst this
    cases f2 <;> simp [descFiles]
  | succ f1 ih =>
    intro f2 name h1 h2
    cases f2 with
    | zero =>
      have : name = [] := List.length_eq_zero_iff.mp (by omega)
      subst this; simp [descFiles]
    | succ f2 =>
      by_cases hn : name = []
      · simp [descFiles, hn]
      · have := descParent_length_lt hn
        simp only [descFiles, hn, if_false]
        cases allow
        · simp
        · simp only [Bool.not_true, Bool.false_eq_true, if_false]
          rw [ih f2 (descParent name) (by omega) (by omega)]

/-- whatever the callback does, the file `getDescriptionFile` settles on is one of the names of the walk -/
theorem getDescriptionFile_mem (dir : Str) (allow : Bool) (get : Nat → Str → Bool) :
    ∀ (fuel k : Nat) (name : Str) (isSub : Bool) (f : Str) (sub : Bool),
      getDescriptionFile dir allow get fuel k name isSub = some (f, sub) → f ∈ descFiles dir allow fuel name := by
  intro fuel
  induction fuel with
  | zero => intro k name isSub f sub h; simp [getDescriptionFile] at h
  | succ fuel ih =>
    intro k name isSub f sub h
    simp only [getDescriptionFile] at h
    by_cases hn : name = []
    · simp [hn] at h
    · simp only [hn, if_false] at h
      simp only [descFiles, hn, if_false]
      split at h
      · simp only [Option.some.injEq, Prod.mk.injEq] at h
        simp [h.1]
      · split at h
        · simp at h
        · rename_i ha
          have ha' : allow = true := by simpa using ha
          have := ih _ _ _ _ _ h
          rw [ha'] at this
          simp [ha', this]

/-- appending ".json" to the last safe component keeps it safe -/
theorem safe_append_json {c : Str} (h : '/' ∉ c) : SafeComp (c ++ jsonExt) := by
  refine ⟨by simp [jsonExt], ?_, ?_, ?_⟩
  · intro e; have := congrArg List.length e; simp [jsonExt] at this
  · intro e; have := congrArg List.length e; simp [jsonExt] at this
  · simp only [List.mem_append, not_or]; exact ⟨h, by decide⟩

/-- `Clean("/"+name) + ".json"` is "/" followed by at least one safe component -/
theorem clean_json_shape (name : Str) :
    ∃ cs : List Str, cs ≠ [] ∧ (∀ c ∈ cs, SafeComp c) ∧ clean ('/' :: name) ++ jsonExt = '/' :: joinSlash cs ∧
      ∃ init last, cs = init ++ [last ++ jsonExt] := by
  rw [clean_rooted]
  by_cases hn : rootedNames name = []
  · refine ⟨[jsonExt], by simp, ?_, by simp [hn, joinSlash], [], [], by simp⟩
    intro c hc
    simp only [List.mem_singleton] at hc
    subst hc
    simpa using safe_append_json (c := []) (by simp)
  · have hl := (List.dropLast_concat_getLast hn).symm
    generalize (rootedNames name).dropLast = init at hl
    generalize (rootedNames name).getLast hn = last at hl
    have hs := rootedNames_safe name
    rw [hl] at hs ⊢
    refine ⟨init ++ [last ++ jsonExt], by simp, ?_, ?_, init, last, rfl⟩
    · intro c hc
      rcases List.mem_append.mp hc with h | h
      · exact hs c (by simp [h])
      · simp only [List.mem_singleton] at h
        subst h
        exact safe_append_json (hs last (by simp)).2.2.2
    · simp only [joinSlash_append_singleton, List.cons_append]
      split <;> simp

/-- **one file name of the walk**: with `Directory = dir ≠ ""`, the name computed for ANY string `name`
is the cleaned directory followed by one or more safe components, the last ending in ".json". -/
theorem descFileName_confined {dir : Str} (hd : dir ≠ []) (name : Str) :
    ∃ cs : List Str, cs ≠ [] ∧ (∀ c ∈ cs, SafeComp c) ∧ descFileName dir name = dirPrefix dir ++ joinSlash cs ∧
      ∃ init last, cs = init ++ [last ++ jsonExt] := by
  obtain ⟨cs, hne, hs, he, hj⟩ := clean_json_shape name
  refine ⟨cs, hne, hs, ?_, hj⟩
  unfold descFileName fjoin
  rw [if_pos hd, he, clean_join_safe hd hs, if_neg hne]

/-- **C19_desc_confined**: for every `Directory ≠ ""`, every string `name` (valid or not), with or
without subgroups, EVERY file name `getDescriptionFile` passes to its callback is the cleaned
Directory followed by `c1/…/ck.json` with k ≥ 1 safe components: lexically inside Directory. -/
theorem C19_desc_confined {dir : Str} (hd : dir ≠ []) (allow : Bool) :
    ∀ (fuel : Nat) (name f : Str), f ∈ descFiles dir allow fuel name →
      ∃ cs : List Str, cs ≠ [] ∧ (∀ c ∈ cs, SafeComp c) ∧ f = dirPrefix dir ++ joinSlash cs ∧
        ∃ init last, cs = init ++ [last ++ jsonExt] := by
  intro fuel
  induction fuel with
  | zero => intro name f h; simp [descFiles] at h
  | succ fuel ih =>
    intro name f h
    simp only [descFiles] at h
    split at h
    · simp at h
    · simp only [List.mem_cons] at h
      rcases h with h | h
      · rw [h]; exact descFileName_confined hd name
      · split at h
        · simp at h
        · exact ih _ _ h

/-- the file `getDescriptionFile` returns (for any behaviour of the callback, i.e. of the file
system) is lexically inside Directory -/
theorem C19_desc_found_confined {dir : Str} (hd : dir ≠ []) (allow : Bool) (get : Nat → Str → Bool)
    (fuel k : Nat) (name : Str) (isSub : Bool) (f : Str) (sub : Bool)
    (h : getDescriptionFile dir allow get fuel k name isSub = some (f, sub)) :
    ∃ cs : List Str, cs ≠ [] ∧ (∀ c ∈ cs, SafeComp c) ∧ f = dirPrefix dir ++ joinSlash cs :=
  let ⟨cs, h1, h2, h3, _⟩ := C19_desc_confined hd allow fuel name f (getDescriptionFile_mem dir allow get fuel k name isSub f sub h)
  ⟨cs, h1, h2, h3⟩

/-- with `Directory = ""` (`filepath.Join` then ignores it) the names are absolute paths `/c1/…/ck.json`
with safe components: the groups directory is then the file-system root (operator's choice) -/
theorem C19_desc_confined_root (name : Str) :
    ∃ cs : List Str, cs ≠ [] ∧ (∀ c ∈ cs, SafeComp c) ∧ descFileName [] name = '/' :: joinSlash cs := by
  obtain ⟨cs, hne, hs, he, _⟩ := clean_json_shape name
  refine ⟨cs, hne, hs, ?_⟩
  unfold descFileName fjoin
  have : clean ('/' :: name) ++ jsonExt ≠ [] := by rw [he]; simp
  simp only [ne_eq, not_true_eq_false, if_false, this, not_false_eq_true, if_true]
  rw [he, C19_clean_fixpoint hs]

/-! ### recordings: sanitise, openDiskFile, recordingsHandler, the delete form -/

/-- **`sanitise` removes both separators**, for every username -/
theorem C19_sanitise (s : Str) : '/' ∉ sanitise s ∧ '\\' ∉ sanitise s := by
  unfold sanitise
  constructor
  · intro h
    obtain ⟨a, _, ha⟩ := List.mem_flatMap.mp h
    split at ha
    · revert ha; decide
    · split at ha
      · revert ha; decide
      · rename_i h1 _
        simp only [List.mem_singleton] at ha
        exact h1 ha.symm
  · intro h
    obtain ⟨a, _, ha⟩ := List.mem_flatMap.mp h
    split at ha
    · revert ha; decide
    · split at ha
      · revert ha; decide
      · rename_i _ h2
        simp only [List.mem_singleton] at ha
        exact h2 ha.symm

theorem digit_ne_sep : ∀ d, d < 10 → Char.ofNat (48 + d) ≠ '/' ∧ Char.ofNat (48 + d) ≠ '\\' := by decide

theorem twoDigits_noSep (n : Nat) : '/' ∉ twoDigits n ∧ '\\' ∉ twoDigits n := by
  have h1 := digit_ne_sep (n / 10 % 10) (Nat.mod_lt _ (by decide))
  have h2 := digit_ne_sep (n % 10) (Nat.mod_lt _ (by decide))
  unfold twoDigits
  simp only [List.mem_cons, List.not_mem_nil, or_false, not_or]
  exact ⟨⟨fun e => h1.1 e.symm, fun e => h2.1 e.symm⟩, ⟨fun e => h1.2 e.symm, fun e => h2.2 e.symm⟩⟩

/-- the separator `sep` does not occur in a recording file name if it occurs neither in the time
stamp nor in the extension (both chosen by the server) and is one of the two that `sanitise` removes -/
theorem recFileName_noSep (sep : Char) (hsep : sep = '/' ∨ sep = '\\') (ts u ext : Str) (k : Nat)
    (hts : sep ∉ ts) (hext : sep ∉ ext) : sep ∉ recFileName ts u ext k := by
  have hsan : sep ∉ sanitise u := by
    rcases hsep with rfl | rfl
    · exact (C19_sanitise u).1
    · exact (C19_sanitise u).2
  have htd : sep ∉ twoDigits k := by
    rcases hsep with rfl | rfl
    · exact (twoDigits_noSep k).1
    · exact (twoDigits_noSep k).2
  have hdash : sep ≠ '-' := by rcases hsep with rfl | rfl <;> decide
  have hdot : sep ≠ '.' := by rcases hsep with rfl | rfl <;> decide
  unfold recFileName
  simp only
  split <;> split <;> simp [hts, hext, hsan, htd, hdash, hdot]

/-- **C19_recording_file**: for EVERY username, the file name `openDiskFile` builds — time stamp,
"-" + sanitised username (if any), optional "-NN", "." + extension — contains neither '/' nor '\\'
and is not "", "." or "..": it is exactly one path component, so the file is created directly in the
directory the `os.Root` was opened on (the group's own recording directory, `diskwriter.New`).
Hypotheses: the server-chosen time stamp (`time.Now().Format("2006-01-02T15:04:05.000")`, 23 bytes)
and extension ("webm") contain no separator; the time stamp has at least 3 bytes. -/
theorem C19_recording_file (ts u ext : Str) (k : Nat)
    (hts : '/' ∉ ts ∧ '\\' ∉ ts) (hext : '/' ∉ ext ∧ '\\' ∉ ext) (hlen : 3 ≤ ts.length) :
    SafeComp (recFileName ts u ext k) ∧ '\\' ∉ recFileName ts u ext k := by
  have h1 := recFileName_noSep '/' (Or.inl rfl) ts u ext k hts.1 hext.1
  have h2 := recFileName_noSep '\\' (Or.inr rfl) ts u ext k hts.2 hext.2
  have hl : 3 ≤ (recFileName ts u ext k).length := by
    unfold recFileName
    simp only
    split <;> split <;> simp <;> omega
  refine ⟨⟨?_, ?_, ?_, h1⟩, h2⟩
  · intro e; rw [e] at hl; simp at hl
  · intro e; rw [e] at hl; simp at hl
  · intro e; rw [e] at hl; simp at hl

theorem mem_takeWhile_imp {α} {q : α → Bool} {x : α} : ∀ {l : List α}, x ∈ l.takeWhile q → q x = true := by
  intro l
  induction l with
  | nil => simp
  | cons a t ih =>
    simp only [List.takeWhile_cons]
    split
    · rename_i ha
      intro h
      rcases List.mem_cons.mp h with rfl | h
      · exact ha
      · exact ih h
    · simp

theorem pathSplit_snd_noSlash (p : Str) : '/' ∉ (pathSplit p).2 := by
  unfold pathSplit
  simp only [List.mem_reverse]
  intro h
  have := mem_takeWhile_imp h
  simp at this

theorem pathSplit_fst_prefix (p : Str) : (pathSplit p).1 <+: p := by
  unfold pathSplit
  simp only
  have := List.dropWhile_suffix (l := p.reverse) (fun c => decide (c ≠ '/'))
  rw [← List.reverse_prefix, List.reverse_reverse] at this
  exact this

theorem trimRightSlash_prefix (p : Str) : trimRightSlash p <+: p := by
  unfold trimRightSlash
  have := List.dropWhile_suffix (l := p.reverse) (fun c => decide (c = '/'))
  rw [← List.reverse_prefix, List.reverse_reverse] at this
  exact this

theorem head?_of_prefix {x p : Str} (h : x <+: p) (hx : x ≠ []) : x.head? = p.head? := by
  obtain ⟨t, rfl⟩ := h
  cases x with
  | nil => exact absurd rfl hx
  | cons a b => rfl

theorem parseGroupName_nil_left_ne_dot {x : Str} (h : parseGroupName [] x ≠ []) : x ≠ [] ∧ x.head? ≠ some '.' := by
  unfold parseGroupName at h
  simp only [List.isPrefixOf_nil_left, Bool.not_true, Bool.false_eq_true, if_false, List.length_nil,
    List.drop_zero] at h
  split at h
  · exact absurd rfl h
  · split at h
    · exact absurd rfl h
    · rename_i h1 h2
      exact ⟨h1, h2⟩

theorem head?_joinSlash_ne_slash {cs : List Str} (hne : cs ≠ []) (hs : ∀ c ∈ cs, SafeComp c) :
    (joinSlash cs).head? ≠ some '/' := by
  cases cs with
  | nil => exact absurd rfl hne
  | cons c r =>
    have hc := hs c (by simp)
    rw [head?_joinSlash hc.1]
    cases c with
    | nil => exact absurd rfl hc.1
    | cons x c =>
      simp only [List.head?_cons, ne_eq, Option.some.injEq]
      intro e; exact hc.2.2.2 (by simp [e])

/-- a relative path of safe components is a fixpoint of `Clean` -/
theorem clean_joinSlash_safe {cs : List Str} (hne : cs ≠ []) (hs : ∀ c ∈ cs, SafeComp c) :
    clean (joinSlash cs) = joinSlash cs := by
  rw [clean_eq_spec]
  have hj : joinSlash cs ≠ [] := by rw [Ne, joinSlash_eq_nil (fun c hc => (hs c hc).1)]; exact hne
  have hr : decide ((joinSlash cs).head? = some '/') = false := by
    simpa using head?_joinSlash_ne_slash hne hs
  have hres : resolve false (splitSlash (joinSlash cs)) = (0, cs) := by
    rw [splitSlash_joinSlash hne (fun c hc => (hs c hc).2.2.2)]
    unfold resolve
    rw [foldl_resolveStep_safe cs _ hs]; simp
  simp only [cleanSpec, hj, if_false, hr, hres, bodyOf, List.replicate_zero, List.nil_append, Bool.false_eq_true]

/-- **C19_recording_served**: when `recordingsHandler` gets past its redirect (the URL is canonical),
the path it has opened under the recordings root is `c1/…/ck/filename` with k ≥ 1 safe components
(the group), the first not starting with '.', and a `filename` without '/' (empty for a directory
listing): a file of the group's own recording directory.  (`filename` ∈ {".", ".."} would denote a
directory, for which the handler takes the `isDir` branch with an empty filename.) -/
theorem C19_recording_served (p : Str) (isDir : Bool) (g f : Str)
    (h : recSplit p isDir = some (g, f)) (hc : recCanonical p g f = true) :
    ∃ cs : List Str, cs ≠ [] ∧ (∀ c ∈ cs, SafeComp c) ∧ g = joinSlash cs ∧ '/' ∉ f ∧
      p = joinSlash (cs ++ [f]) ∧ (isDir = true → f = []) ∧ g.head? ≠ some '.' := by
  have hp : p = g ++ '/' :: f := by simpa [recCanonical] using hc
  -- g is a non-empty result of parseGroupName "" x for a prefix x of p
  have hg : ∃ x, g = parseGroupName [] x ∧ x <+: p ∧ g ≠ [] ∧ '/' ∉ f ∧ (isDir = true → f = []) := by
    unfold recSplit at h
    cases isDir with
    | true =>
      simp only [if_true] at h
      split at h
      · simp at h
      · rename_i hne
        simp only [Option.some.injEq, Prod.mk.injEq] at h
        exact ⟨_, h.1.symm, trimRightSlash_prefix p, h.1 ▸ hne, by simp [← h.2], fun _ => h.2.symm⟩
    | false =>
      simp only [Bool.false_eq_true, if_false] at h
      split at h
      · simp at h
      · rename_i hne
        simp only [Option.some.injEq, Prod.mk.injEq] at h
        exact ⟨_, h.1.symm, pathSplit_fst_prefix p, h.1 ▸ hne, h.2 ▸ pathSplit_snd_noSlash p, by simp⟩
  obtain ⟨x, hgx, hxp, hgne, hf, hdir⟩ := hg
  rcases parseGroupName_shape [] x with h0 | ⟨cs, hne, hs, he⟩
  · exact absurd (hgx.trans h0) hgne
  · refine ⟨cs, hne, hs, hgx.trans he, hf, ?_, hdir, ?_⟩
    · rw [hp, joinSlash_append_singleton, if_neg hne, hgx, he]
    · -- name[0] == '.' is refused, and the canonical URL starts with the group name
      have hx := parseGroupName_nil_left_ne_dot (hgx ▸ hgne)
      have h1 : x.head? = p.head? := head?_of_prefix hxp hx.1
      have h2 : g.head? = p.head? := head?_of_prefix ⟨'/' :: f, hp.symm⟩ hgne
      rw [h2, ← h1]; exact hx.2

/-- **C19_delete_target**: in the delete form, with `group` the (safe) group name of the URL, the
argument of `root.Remove` is either `group/filename` with `filename` ONE safe component, or — for
filename "." or ".." — the group's directory itself (which `Remove` deletes only if it is empty;
see the remark in the report).  Empty names and names containing '/' are refused (`none`).  A
backslash is not a separator on Unix: `a\\b` names a file of the group's directory. -/
theorem C19_delete_target {cs : List Str} (hne : cs ≠ []) (hs : ∀ c ∈ cs, SafeComp c) (fn t : Str)
    (h : deleteTarget (joinSlash cs) fn = some t) :
    (SafeComp fn ∧ t = joinSlash (cs ++ [fn])) ∨ ((fn = ['.'] ∨ fn = ['.', '.']) ∧ t = joinSlash cs) := by
  have hg : joinSlash cs ≠ [] := by rw [Ne, joinSlash_eq_nil (fun c hc => (hs c hc).1)]; exact hne
  unfold deleteTarget at h
  split at h
  · simp at h
  · rename_i h1
    have hfn : fn ≠ [] := fun e => h1 (Or.inr e)
    split at h
    · simp at h
    · rename_i h2
      have hns : '/' ∉ fn := fun hm => h2 ((contains_iff_mem fn '/').mpr hm)
      simp only [Option.some.injEq] at h
      subst h
      unfold fjoin
      rw [if_pos hg, clean_rooted]
      have hsp : rootedNames fn = if fn = ['.'] ∨ fn = ['.', '.'] then [] else [fn] := by
        unfold rootedNames resolve
        rw [splitSlash_of_noSlash hns]
        simp only [List.foldl_cons, List.foldl_nil, resolveStep, hfn, false_or]
        by_cases hd : fn = ['.']
        · simp [hd]
        · by_cases hdd : fn = ['.', '.']
          · simp [hdd]
          · simp [hd, hdd]
      by_cases hdots : fn = ['.'] ∨ fn = ['.', '.']
      · right
        rw [hsp, if_pos hdots]
        refine ⟨hdots, ?_⟩
        have := clean_join_safe hg (R := []) (by simp)
        rw [if_pos rfl] at this
        rw [this, clean_joinSlash_safe hne hs]
      · left
        have hsafe : SafeComp fn := ⟨hfn, fun e => hdots (Or.inl e), fun e => hdots (Or.inr e), hns⟩
        rw [hsp, if_neg hdots]
        refine ⟨hsafe, ?_⟩
        have := clean_join_safe hg (R := [fn]) (by simpa using hsafe)
        rw [if_neg (by simp)] at this
        rw [this]
        simp only [joinSlash]
        -- the cleaned group name is itself, and is neither "/" nor "."
        have hcg := clean_joinSlash_safe hne hs
        have h1 : joinSlash cs ≠ ['/'] := by
          intro e
          have := head?_joinSlash_ne_slash hne hs
          rw [e] at this; simp at this
        have h2 : joinSlash cs ≠ ['.'] := joinSlash_ne_dot (fun c hc => ⟨(hs c hc).1, (hs c hc).2.1⟩)
        unfold dirPrefix
        rw [hcg, if_neg h1, if_neg h2, joinSlash_append_singleton, if_neg hne]
        simp

/-! ### the group's recording directory -/

/-- a doubled slash after a non-empty prefix makes no difference to `Clean` -/
theorem clean_double_slash {d : Str} (hd : d ≠ []) (y : Str) :
    clean (d ++ '/' :: '/' :: y) = clean (d ++ '/' :: y) := by
  rw [clean_eq_spec, clean_eq_spec]
  obtain ⟨c0, t0, rfl⟩ : ∃ c0 t0, d = c0 :: t0 := by
    cases d with
    | nil => exact absurd rfl hd
    | cons a b => exact ⟨a, b, rfl⟩
  have hs : ∀ ρ, resolve ρ (splitSlash ((c0 :: t0) ++ '/' :: '/' :: y)) = resolve ρ (splitSlash ((c0 :: t0) ++ '/' :: y)) := by
    intro ρ
    rw [splitSlash_append_slash, splitSlash_append_slash, splitSlash_cons_slash]
    unfold resolve
    rw [List.foldl_append, List.foldl_append, List.foldl_cons]
    congr 1
  simp only [cleanSpec, List.cons_append, List.cons_ne_nil, if_false, List.head?_cons]
  simp only [List.cons_append] at hs
  simp only [hs]
  rfl

/-- **the recording directory of a group**: `diskwriter.New` opens its `os.Root` on
`filepath.Join(Directory, g.Name())`; every group name has passed `validGroupName` (`group.add`), so
that directory is the cleaned recordings Directory followed by the name itself, component for
component: the group's OWN directory below Directory. -/
theorem C19_recording_dir {dir : Str} (hd : dir ≠ []) {n : Str} (hv : validGroupName n = true) :
    fjoin dir n = dirPrefix dir ++ n ∧ ∀ c ∈ splitSlash n, SafeComp c := by
  obtain ⟨hn, _, hc⟩ := (C19_valid_iff n).mp hv
  have hsafe : ∀ c ∈ splitSlash n, SafeComp c := fun c h =>
    ⟨(hc c h).1, (hc c h).2.1, (hc c h).2.2, splitSlash_noSlash n c h⟩
  refine ⟨?_, hsafe⟩
  unfold fjoin
  rw [if_pos hd, ← clean_double_slash hd]
  have := clean_join_safe hd hsafe
  rw [joinSlash_splitSlash, if_neg (splitSlash_ne_nil n)] at this
  exact this

/-! ### splitPath -/

/-- `strings.Index`: at the returned index the pattern occurs, and at no earlier index -/
theorem indexOf_some {pat : Str} : ∀ {s : Str} {i : Nat}, indexOf pat s = some i →
    s = s.take i ++ pat ++ s.drop (i + pat.length) ∧ (∀ j < i, pat.isPrefixOf (s.drop j) = false) ∧
      i + pat.length ≤ s.length := by
  intro s
  induction s with
  | nil =>
    intro i h
    simp only [indexOf] at h
    split at h
    · rename_i hp; simp only [Option.some.injEq] at h; subst h; subst hp; simp
    · simp at h
  | cons c t ih =>
    intro i h
    simp only [indexOf] at h
    split at h
    · rename_i hp
      simp only [Option.some.injEq] at h; subst h
      have hpre := List.isPrefixOf_iff_prefix.mp hp
      obtain ⟨r, hr⟩ := hpre
      refine ⟨?_, by simp, by have := List.IsPrefix.length_le ⟨r, hr⟩; simpa using this⟩
      simp only [List.take_zero, List.nil_append, Nat.zero_add]
      rw [← hr]; simp
    · rename_i hp
      cases hi : indexOf pat t with
      | none => rw [hi] at h; simp at h
      | some k =>
        rw [hi] at h
        simp only [Option.map_some, Option.some.injEq] at h
        subst h
        obtain ⟨h1, h2, h3⟩ := ih hi
        refine ⟨?_, ?_, by simp only [List.length_cons]; omega⟩
        · simp only [List.take_succ_cons, List.cons_append, List.cons.injEq, true_and]
          have : k + 1 + pat.length = (k + pat.length) + 1 := by omega
          rw [this, List.drop_succ_cons]
          exact h1
        · intro j hj
          cases j with
          | zero => exact Bool.eq_false_iff.2 hp
          | succ j => simpa using h2 j (by omega)

theorem indexOf_none {pat : Str} : ∀ {s : Str}, indexOf pat s = none → ∀ j, pat.isPrefixOf (s.drop j) = false := by
  intro s
  induction s with
  | nil =>
    intro h j
    simp only [indexOf] at h
    split at h
    · simp at h
    · rename_i hp
      cases pat with
      | nil => exact absurd rfl hp
      | cons a b => simp
  | cons c t ih =>
    intro h j
    simp only [indexOf] at h
    split at h
    · simp at h
    · rename_i hp
      cases hi : indexOf pat t with
      | some k => rw [hi] at h; simp at h
      | none =>
        cases j with
        | zero => exact Bool.eq_false_iff.2 hp
        | succ j => simpa using ih hi j

theorem not_mem_of_no_prefix {l : Str} {n : Nat} (h : ∀ j < n, (['/'] : Str).isPrefixOf (l.drop j) = false) :
    '/' ∉ l.take n := by
  induction l generalizing n with
  | nil => simp
  | cons c t ih =>
    cases n with
    | zero => simp
    | succ n =>
      simp only [List.take_succ_cons, List.mem_cons, not_or]
      refine ⟨?_, ih (fun j hj => by simpa using h (j + 1) (by omega))⟩
      have := h 0 (by omega)
      simp only [List.drop_zero, List.isPrefixOf, Bool.and_eq_false_imp, beq_iff_eq] at this
      intro e
      have := this e
      simp at this

/-- **`splitPath`**: either the path contains no "/." and is returned whole with empty kind and rest;
or it is cut at the FIRST "/.": `p = first ++ "/" ++ kind ++ rest` where `kind` starts with '.',
contains no '/', and `rest` is empty or starts with '/'. -/
theorem C19_splitPath (p : Str) :
    ((∀ j, (['/', '.'] : Str).isPrefixOf (p.drop j) = false) ∧ splitPath p = (p, [], [])) ∨
    (∃ a b c, splitPath p = (a, b, c) ∧ p = a ++ '/' :: b ++ c ∧ b.head? = some '.' ∧ '/' ∉ b ∧
      (c = [] ∨ c.head? = some '/') ∧ ∀ j < a.length, (['/', '.'] : Str).isPrefixOf (p.drop j) = false) := by
  unfold splitPath
  cases h1 : indexOf ['/', '.'] p with
  | none => left; exact ⟨indexOf_none h1, rfl⟩
  | some i =>
    right
    obtain ⟨hp, hfirst, hlen⟩ := indexOf_some h1
    simp only [List.length_cons, List.length_nil] at hp hlen
    have htake : (p.take i).length = i := by rw [List.length_take]; omega
    generalize p.drop (i + 2) = q at hp
    have hpa : p = p.take i ++ '/' :: '.' :: q := by
      have : p.take i ++ ['/', '.'] ++ q = p.take i ++ '/' :: '.' :: q := by simp
      rw [← this]; exact hp
    have hd1 : p.drop (i + 1) = '.' :: q := by
      have h0 := congrArg (List.drop (i + 1)) hpa
      have : p.take i ++ '/' :: '.' :: q = (p.take i ++ ['/']) ++ '.' :: q := by simp
      rw [this, List.drop_left' (by simp [htake])] at h0
      exact h0
    simp only [hd1]
    rw [← htake] at hfirst
    cases h2 : indexOf ['/'] ('.' :: q) with
    | none =>
      refine ⟨_, _, _, rfl, by simpa using hpa, rfl, ?_, Or.inl rfl, hfirst⟩
      have := not_mem_of_no_prefix (l := '.' :: q) (n := ('.' :: q).length) (fun j _ => indexOf_none h2 j)
      simpa using this
    | some k =>
      obtain ⟨hk, hkfirst, hlk⟩ := indexOf_some h2
      simp only [List.length_cons, List.length_nil] at hk
      have hlk : k + 1 ≤ ('.' :: q).length := by simpa using hlk
      have htk : (('.' :: q).take k).length = k := by rw [List.length_take]; omega
      have hnb := not_mem_of_no_prefix hkfirst
      have hk1 : ∃ k', k = k' + 1 := by
        cases k with
        | zero =>
          simp only [List.take_zero, List.nil_append, Nat.zero_add, List.cons_append] at hk
          simp at hk
        | succ k => exact ⟨k, rfl⟩
      generalize ('.' :: q).drop (k + 1) = c' at hk
      have hdk : ('.' :: q).drop k = '/' :: c' := by
        conv => lhs; rw [hk]
        have : List.take k ('.' :: q) ++ ['/'] ++ c' = List.take k ('.' :: q) ++ '/' :: c' := by simp
        rw [this, List.drop_left' htk]
      refine ⟨_, _, _, rfl, ?_, ?_, hnb, Or.inr (by rw [hdk]; rfl), hfirst⟩
      · conv => lhs; rw [hpa]
        simp only [List.append_assoc, List.cons_append]
        rw [List.take_append_drop]
      · obtain ⟨k', rfl⟩ := hk1
        rfl

/-! ### non-vacuity: the definitions compute, accept and reject -/

example : clean "/a/../../b/./c//".toList = "/b/c".toList := by decide
example : clean "a/../../b/..".toList = "..".toList := by decide
example : clean "/../..".toList = "/".toList := by decide
example : validGroupName "a/b".toList = true := by decide
example : validGroupName "a/../b".toList = false := by decide
example : validGroupName "a/".toList = false := by decide
example : validGroupName "/a".toList = false := by decide
example : validGroupName "a\\b".toList = false := by decide
example : validGroupName "..a/b.".toList = true := by decide
example : validUsername [] = true ∧ validUsername "..".toList = false := by decide
example : parseGroupName "/group/".toList "/group/a/../b/".toList = "b".toList := by decide
example : parseGroupName "/group/".toList "/group/.a".toList = [] := by decide
example : parseGroupName "/group/".toList "/group/a\\b".toList = [] := by decide
example : parseGroupName [] ['\\'] = [] := by decide
example : parseGroupName "/group/".toList "/group/a/b".toList ≠ [] ∧
    validGroupName (parseGroupName "/group/".toList "/group/a/b".toList) = true := by decide
example : descFiles "./groups/".toList true 20 "a/../b/c/".toList
    = ["groups/b/c.json".toList, "groups/b/c.json".toList, "groups/b.json".toList, "groups/.json".toList,
       "groups/a.json".toList] := by decide
example : descFiles "/D".toList false 20 "../../etc/passwd".toList = ["/D/etc/passwd.json".toList] := by decide
example : descFileName "/D".toList "..".toList = "/D/.json".toList := by decide
example : dirPrefix "./groups/".toList = "groups/".toList ∧ dirPrefix "/".toList = "/".toList ∧ dirPrefix ".".toList = [] := by decide
example : splitPath "/group/a/.status/x".toList = ("/group/a".toList, ".status".toList, "/x".toList) := by decide
example : splitPath "/group/a/b/".toList = ("/group/a/b/".toList, [], []) := by decide
example : sanitise "a/b\\c".toList = "a-slash-b-backslash-c".toList := by decide
example : recFileName "2006-01-02T15:04:05.000".toList "../x".toList "webm".toList 0
    = "2006-01-02T15:04:05.000-..-slash-x.webm".toList := by decide
example : recFileName "T".toList [] "webm".toList 7 = "T-07.webm".toList := by decide
example : recSplit "a/b/f".toList false = some ("a/b".toList, "f".toList) ∧ recCanonical "a/b/f".toList "a/b".toList "f".toList = true := by decide
example : recSplit "a/../c/f".toList false = some ("c".toList, "f".toList) ∧ recCanonical "a/../c/f".toList "c".toList "f".toList = false := by decide
example : recSplit ".hid/f".toList false = none := by decide
example : fjoin "./rec/".toList "a/b".toList = "rec/a/b".toList := by decide
example : deleteTarget "a/b".toList "f".toList = some "a/b/f".toList := by decide
example : deleteTarget "a/b".toList "..".toList = some "a/b".toList := by decide
example : deleteTarget "a/b".toList "../f".toList = none := by decide
example : deleteTarget "a".toList "x\\y".toList = some "a/x\\y".toList := by decide

end Galene.Props.C19
