import GaleneVerif.Model.Token
/-
C09 — a token authorises only its own group scope, validity window and permissions.

Theorems over Model/Token.lean (tied to token/stateful.go, token/jwt.go, token/token.go,
group.Description.GetPermission and webserver.checkGlobalAdminToken by the `token` engine).
All statements are for every string, key set, instant and parameter value; cryptography is the
abstract `Params.verify`.

  C09_stateful_scope, C09_stateful_root, C09_stateful_no_partial_component   scope of (*Stateful).match
  C09_jwt_scope, C09_jwt_no_partial_component                                 scope of matchGroup
  C09_window, C09_no_expiry_never_valid, C09_stateful_grants                  (*Stateful).Check
  C09_key_table, verifySig_ok_iff, C09_jwt_accept, C09_jwt_alg,
  C09_jwt_none_never, C09_jwt_no_keys, C09_jwt_window_boundary                parseJWT
  C09_jwt_check, C09_jwt_end_to_end                                           (*JWT).Check
  C09_grants, C09_no_shadow                                                   GetPermission (token branch)
  C09_global_admin, C09_global_admin_iff                                      checkGlobalAdminToken
-/
namespace Galene.Props.C09
open Galene.Token

/-! ### path components -/

theorem splitSlash_ne_nil (s : Str) : splitSlash s ≠ [] := by
  induction s with
  | nil => simp [splitSlash]
  | cons c cs ih =>
    unfold splitSlash
    split
    · simp
    · split <;> simp

/-- splitting distributes over a slash -/
theorem splitSlash_append_slash (a b : Str) :
    splitSlash (a ++ '/' :: b) = splitSlash a ++ splitSlash b := by
  induction a with
  | nil => simp [splitSlash]
  | cons c cs ih =>
    simp only [List.cons_append]
    by_cases hc : c = '/'
    · subst hc
      simp [splitSlash, ih]
    · rw [splitSlash, if_neg hc, ih]
      rw [splitSlash.eq_2 c cs, if_neg hc]
      cases h : splitSlash cs with
      | nil => exact absurd h (splitSlash_ne_nil cs)
      | cons w ws => simp

/-- join components with '/' -/
def joinSlash : List Str → Str
  | [] => []
  | [w] => w
  | w :: w' :: ws => w ++ '/' :: joinSlash (w' :: ws)

theorem joinSlash_splitSlash (s : Str) : joinSlash (splitSlash s) = s := by
  induction s with
  | nil => simp [splitSlash, joinSlash]
  | cons c cs ih =>
    by_cases hc : c = '/'
    · subst hc
      rw [splitSlash, if_pos rfl]
      cases h : splitSlash cs with
      | nil => exact absurd h (splitSlash_ne_nil cs)
      | cons w ws => rw [joinSlash, ← h, ih]; simp
    · rw [splitSlash, if_neg hc]
      cases h : splitSlash cs with
      | nil => exact absurd h (splitSlash_ne_nil cs)
      | cons w ws =>
        rw [h] at ih
        cases ws with
        | nil => simp [joinSlash] at ih ⊢; exact ih
        | cons w' ws' => simp [joinSlash] at ih ⊢; exact ih

theorem joinSlash_append (a r : List Str) (ha : a ≠ []) (hr : r ≠ []) :
    joinSlash (a ++ r) = joinSlash a ++ '/' :: joinSlash r := by
  induction a with
  | nil => exact absurd rfl ha
  | cons w ws ih =>
    cases ws with
    | nil =>
      cases r with
      | nil => exact absurd rfl hr
      | cons x xs => simp [joinSlash]
    | cons w' ws' =>
      have := ih (by simp)
      simp only [List.cons_append] at this ⊢
      rw [joinSlash, this, joinSlash]
      simp

/-- no component contains a slash -/
theorem splitSlash_no_slash (s : Str) : ∀ w ∈ splitSlash s, '/' ∉ w := by
  induction s with
  | nil => simp [splitSlash]
  | cons c cs ih =>
    by_cases hc : c = '/'
    · subst hc
      rw [splitSlash, if_pos rfl]
      intro w hw
      rcases List.mem_cons.mp hw with h | h
      · subst h; simp
      · exact ih w h
    · rw [splitSlash, if_neg hc]
      cases h : splitSlash cs with
      | nil => exact absurd h (splitSlash_ne_nil cs)
      | cons w ws =>
        rw [h] at ih
        intro x hx
        rcases List.mem_cons.mp hx with h' | h'
        · subst h'
          have := ih w (by simp)
          simp only [List.mem_cons, not_or]
          exact ⟨fun e => hc e.symm, this⟩
        · exact ih x (by simp [h'])


/-! ### the scope specification -/

/-- path components of a group name; the empty name is the root and has none -/
def comps (s : Str) : List Str := if s = [] then [] else splitSlash s

/-- `a` is a proper prefix of `b` (whole components) -/
def ProperPrefix (a b : List Str) : Prop := ∃ r, r ≠ [] ∧ b = a ++ r

/-- the token's group `tg` is `g` itself, or a proper ancestor of `g` and the token covers subgroups -/
def Covers (tg : Str) (sub : Bool) (g : Str) : Prop :=
  g = tg ∨ (sub = true ∧ ProperPrefix (comps tg) (comps g))

theorem hasPrefix_iff (s p : Str) : hasPrefix s p = true ↔ ∃ t, s = p ++ t := by
  unfold hasPrefix
  rw [List.isPrefixOf_iff_prefix]
  constructor
  · rintro ⟨t, h⟩; exact ⟨t, h.symm⟩
  · rintro ⟨t, h⟩; exact ⟨t, h.symm⟩

theorem hasSuffix_iff (s p : Str) : hasSuffix s p = true ↔ ∃ t, s = t ++ p := by
  unfold hasSuffix
  rw [List.isSuffixOf_iff_suffix]
  constructor
  · rintro ⟨t, h⟩; exact ⟨t, h.symm⟩
  · rintro ⟨t, h⟩; exact ⟨t, h.symm⟩

/-- textual prefix up to a slash = proper prefix on whole components -/
theorem prefix_slash_iff (tg g : Str) :
    (∃ t, g = tg ++ '/' :: t) ↔ ProperPrefix (splitSlash tg) (splitSlash g) := by
  constructor
  · rintro ⟨t, rfl⟩
    exact ⟨splitSlash t, splitSlash_ne_nil t, splitSlash_append_slash tg t⟩
  · rintro ⟨r, hr, h⟩
    refine ⟨joinSlash r, ?_⟩
    have := joinSlash_splitSlash g
    rw [h, joinSlash_append _ _ (splitSlash_ne_nil tg) hr, joinSlash_splitSlash] at this
    exact this.symm

theorem comps_of_ne {s : Str} (h : s ≠ []) : comps s = splitSlash s := by simp [comps, h]

/-- **C09_stateful_scope.**  For every token and every non-empty group name `g` (all strings, no
well-formedness needed): `(*Stateful).match` accepts `g` iff `g` is the token's group, or the token
covers subgroups and the components of its group are a proper prefix of the components of `g`
(the empty token group is the root). -/
theorem C09_stateful_scope (t : Stateful) (g : Str) (hg : g ≠ []) :
    t.match g = true ↔ Covers t.group t.includeSubgroups g := by
  unfold Stateful.match Covers
  rw [if_neg hg]
  by_cases h1 : g = t.group
  · simp [h1]
  · rw [if_neg h1]
    cases hs : t.includeSubgroups with
    | false => simp [h1]
    | true =>
      simp only [if_true, true_and]
      by_cases h2 : t.group = []
      · rw [if_pos h2]
        simp only [true_iff]
        right
        rw [h2, comps_of_ne hg]
        exact ⟨splitSlash g, splitSlash_ne_nil g, by simp [comps]⟩
      · rw [if_neg h2, hasPrefix_iff, comps_of_ne hg, comps_of_ne h2, ← prefix_slash_iff]
        simp only [List.append_assoc, List.singleton_append]
        constructor
        · intro h; exact Or.inr h
        · rintro (h | h)
          · exact absurd h h1
          · exact h

/-- The empty group name (only ever passed by `checkGlobalAdminToken`) is matched exactly by
root tokens that cover subgroups. -/
theorem C09_stateful_root (t : Stateful) :
    t.match [] = true ↔ t.includeSubgroups = true ∧ t.group = [] := by
  simp [Stateful.match]

/-- 'a' never covers 'ab': a token for a non-root group never matches a name that extends the
token's group by anything not starting with a slash. -/
theorem C09_stateful_no_partial_component (t : Stateful) (x : Str) (hx : x ≠ [])
    (hs : x.head? ≠ some '/') (ht : t.group ≠ []) : t.match (t.group ++ x) = false := by
  have hg : t.group ++ x ≠ [] := by simp [ht]
  have hne : t.group ++ x ≠ t.group := by
    intro h
    have := congrArg List.length h
    simp at this
    exact hx this
  unfold Stateful.match
  rw [if_neg hg, if_neg hne]
  cases t.includeSubgroups with
  | false => simp
  | true =>
    simp only [if_true, if_neg ht]
    rw [Bool.eq_false_iff]
    intro h
    rw [hasPrefix_iff] at h
    obtain ⟨r, hr⟩ := h
    rw [List.append_assoc, List.append_cancel_left_eq] at hr
    cases x with
    | nil => exact hx rfl
    | cons c cs => simp at hr hs; exact hs hr.1


/-! ### matchGroup -/

/-- the audience path that names group `tg`: "/group/" for the root, "/group/<tg>/" otherwise -/
def audPath (tg : Str) : Str := if tg = [] then groupPrefix else groupPrefix ++ tg ++ ['/']

theorem matchGroup_sub_iff (pth g : Str) :
    matchGroup pth g true = true ↔
      (∃ m, pth = groupPrefix ++ m) ∧ (∃ q, pth = q ++ ['/']) ∧ (∃ t, groupPrefix ++ g ++ ['/'] = pth ++ t) := by
  unfold matchGroup
  rw [← hasPrefix_iff, ← hasSuffix_iff, ← hasPrefix_iff]
  cases hasPrefix pth groupPrefix <;> cases hasSuffix pth ['/'] <;> simp

theorem groupPrefix_slash : ∃ q, groupPrefix = q ++ ['/'] := ⟨['/', 'g', 'r', 'o', 'u', 'p'], by decide⟩

/-- **C09_jwt_scope.**  For every audience path, every subgroup flag and every group name `g` that is
non-empty and does not start with a slash (true of every valid group name): `matchGroup` accepts iff
the path is exactly the audience path of some token group `tg` ("/group/" for the root,
"/group/<tg>/" otherwise) and `tg` is `g`, or covers subgroups and is a proper ancestor of `g` on whole
components. -/
theorem C09_jwt_scope (pth g : Str) (sub : Bool) (hg : g ≠ []) (hs : g.head? ≠ some '/') :
    matchGroup pth g sub = true ↔ ∃ tg, pth = audPath tg ∧ Covers tg sub g := by
  cases sub with
  | false =>
    simp only [matchGroup, Bool.not_false, if_true, decide_eq_true_eq, Covers, Bool.false_eq_true, false_and, or_false]
    constructor
    · intro h; exact ⟨g, by simp [audPath, hg, h], rfl⟩
    · rintro ⟨tg, h1, rfl⟩; simpa [audPath, hg] using h1
  | true =>
    rw [matchGroup_sub_iff]
    constructor
    · rintro ⟨⟨m, rfl⟩, ⟨q, hq⟩, ⟨t, ht⟩⟩
      rw [List.append_assoc, List.append_assoc, List.append_cancel_left_eq] at ht
      rcases List.eq_nil_or_concat m with hm | ⟨m', b, hm⟩
      · subst hm
        refine ⟨[], by simp [audPath], Or.inr ⟨rfl, splitSlash g, splitSlash_ne_nil g, ?_⟩⟩
        simp [comps, hg]
      · rw [List.concat_eq_append] at hm
        subst hm
        have hb : b = '/' := by
          rw [← List.append_assoc] at hq
          have := (List.append_inj' hq rfl).2
          simpa using this
        subst hb
        rcases List.eq_nil_or_concat t with ht0 | ⟨t', b', ht'⟩
        · subst ht0
          have : g = m' := by simpa using ht
          subst this
          exact ⟨g, by simp [audPath, hg], Or.inl rfl⟩
        · rw [List.concat_eq_append] at ht'
          subst ht'
          have hg' : g = m' ++ '/' :: t' := by
            have h : g ++ ['/'] = (m' ++ '/' :: t') ++ [b'] := by simpa using ht
            exact (List.append_inj' h rfl).1
          have hm' : m' ≠ [] := by
            intro h0
            subst h0
            apply hs
            simp [hg']
          refine ⟨m', by simp [audPath, hm'], Or.inr ⟨rfl, ?_⟩⟩
          rw [comps_of_ne hm', comps_of_ne hg]
          exact (prefix_slash_iff m' g).mp ⟨t', hg'⟩
    · rintro ⟨tg, rfl, hc⟩
      by_cases h0 : tg = []
      · subst h0
        simp only [audPath, if_true]
        exact ⟨⟨[], by simp⟩, groupPrefix_slash, ⟨g ++ ['/'], by simp⟩⟩
      · simp only [audPath, if_neg h0]
        refine ⟨⟨tg ++ ['/'], by simp⟩, ⟨groupPrefix ++ tg, rfl⟩, ?_⟩
        rcases hc with rfl | ⟨_, hp⟩
        · exact ⟨[], by simp⟩
        · rw [comps_of_ne h0, comps_of_ne hg] at hp
          obtain ⟨t', rfl⟩ := (prefix_slash_iff tg g).mpr hp
          exact ⟨t' ++ ['/'], by simp⟩

/-- 'a' never covers 'ab' for signed tokens either: the audience path of a non-root group never
matches a group name that extends it by something not starting with a slash. -/
theorem C09_jwt_no_partial_component (tg x : Str) (sub : Bool) (ht : tg ≠ []) (ht' : tg.head? ≠ some '/')
    (hx : x ≠ []) (hs : x.head? ≠ some '/') :
    matchGroup (audPath tg) (tg ++ x) sub = false := by
  rw [Bool.eq_false_iff]
  intro h
  have hg : tg ++ x ≠ [] := by simp [ht]
  have hh : (tg ++ x).head? ≠ some '/' := by
    cases tg with
    | nil => exact absurd rfl ht
    | cons c cs => simpa using ht'
  rw [C09_jwt_scope _ _ _ hg hh] at h
  obtain ⟨tg', hp, hc⟩ := h
  have e : tg' = tg := by
    by_cases h0 : tg' = []
    · subst h0
      simp only [audPath, if_neg ht, if_true] at hp
      have := congrArg List.length hp
      simp at this
    · simp only [audPath, if_neg ht, if_neg h0] at hp
      rw [List.append_assoc, List.append_assoc, List.append_cancel_left_eq] at hp
      exact ((List.append_inj' hp rfl).1).symm
  subst e
  rcases hc with h | ⟨_, hp'⟩
  · have := congrArg List.length h
    simp at this
    exact hx this
  · rw [comps_of_ne ht, comps_of_ne hg] at hp'
    obtain ⟨r, hr⟩ := (prefix_slash_iff tg' (tg' ++ x)).mpr hp'
    rw [List.append_cancel_left_eq] at hr
    subst hr
    simp at hs


/-! ### validity window of stateful tokens -/

/-- **C09_window.**  `(*Stateful).Check` at instant `now` succeeds iff the scope matches, an expiry is
present and `now ≤ expires`, and there is no not-before time or `notBefore ≤ now`.  Both boundary instants
are inside the window (`now.After(exp)` and `now.Before(nbf)` are strict). -/
theorem C09_window (t : Stateful) (now : Int) (g : Str) :
    (∃ r, t.check now g = .ok r) ↔
      t.match g = true ∧ (∃ e, t.expires = some e ∧ now ≤ e) ∧ (∀ nb, t.notBefore = some nb → nb ≤ now) := by
  unfold Stateful.check
  cases hm : t.match g <;> cases he : t.expires <;> cases hn : t.notBefore <;> simp
  · rename_i e
    by_cases h : e < now
    · simp [h]
    · simp [h]; omega
  · rename_i e nb
    by_cases h : e < now
    · simp [h]; omega
    · by_cases h2 : now < nb
      · simp [h, h2]
      · simp [h, h2]; omega

/-- a token without expiry is never valid -/
theorem C09_no_expiry_never_valid (t : Stateful) (now : Int) (g : Str) (h : t.expires = none) :
    t.check now g = .error .expired ∨ t.check now g = .error .badGroup := by
  unfold Stateful.check
  cases t.match g <;> simp [h]

/-- what a successful stateful check grants is exactly what is written in the token -/
theorem C09_stateful_grants (t : Stateful) (now : Int) (g u : Str) (p : List Str)
    (h : t.check now g = .ok (u, p)) : u = t.username.getD [] ∧ p = t.permissions := by
  unfold Stateful.check at h
  repeat' split at h
  all_goals first
    | (simp only [Except.ok.injEq, Prod.mk.injEq] at h; exact ⟨h.1.symm, h.2.symm⟩)
    | cases h


/-! ### signed tokens: keys, signature, claims -/


/-- the kty/alg table of `ParseKey`, with the per-algorithm key length -/
def KeyTable (k : Key) : Prop :=
  (k.kty = some (lit "oct") ∧
    ((k.alg = some (lit "HS256") ∧ k.klen = some 32) ∨ (k.alg = some (lit "HS384") ∧ k.klen = some 48) ∨
     (k.alg = some (lit "HS512") ∧ k.klen = some 64))) ∨
  (k.kty = some (lit "EC") ∧ k.alg = some (lit "ES256") ∧ k.ecOk = true) ∨
  (k.kty = some (lit "RSA") ∧ k.alg = some (lit "RS256") ∧ k.rsaOk = true)

/-- **C09_key_table.**  `ParseKey` accepts an entry iff its key type, declared algorithm and material agree:
oct with HS256/384/512 and a secret of exactly 32/48/64 bytes, EC with ES256 and a P-256 point, RSA with RS256. -/
theorem C09_key_table (k : Key) : parseKey k = true ↔ KeyTable k := by
  unfold parseKey KeyTable
  cases hk : k.kty with
  | none => simp
  | some kty =>
    cases ha : k.alg with
    | none => simp
    | some alg =>
      simp only [Option.some.injEq]
      by_cases h1 : kty = lit "oct"
      · subst h1
        have e1 : lit "oct" ≠ lit "EC" := by decide
        have e2 : lit "oct" ≠ lit "RSA" := by decide
        simp only [if_true, e1, e2, false_and, or_false, true_and]
        by_cases a1 : alg = lit "HS256"
        · subst a1
          have : lit "HS256" ≠ lit "HS384" := by decide
          have : lit "HS256" ≠ lit "HS512" := by decide
          cases k.klen <;> simp [*]
        · by_cases a2 : alg = lit "HS384"
          · subst a2
            have : lit "HS384" ≠ lit "HS256" := by decide
            have : lit "HS384" ≠ lit "HS512" := by decide
            cases k.klen <;> simp [*]
          · by_cases a3 : alg = lit "HS512"
            · subst a3
              have : lit "HS512" ≠ lit "HS256" := by decide
              have : lit "HS512" ≠ lit "HS384" := by decide
              cases k.klen <;> simp [*]
            · simp [a1, a2, a3]
      · by_cases h2 : kty = lit "EC"
        · subst h2
          have e2 : lit "EC" ≠ lit "RSA" := by decide
          by_cases a : alg = lit "ES256" <;> simp [h1, e2, a]
        · by_cases h3 : kty = lit "RSA"
          · subst h3
            by_cases a : alg = lit "RS256" <;> simp [h1, h2, a]
          · simp [h1, h2, h3]

/-- the algorithms a usable key can declare -/
theorem keyTable_alg {k : Key} (h : KeyTable k) :
    k.alg = some (lit "HS256") ∨ k.alg = some (lit "HS384") ∨ k.alg = some (lit "HS512") ∨
    k.alg = some (lit "ES256") ∨ k.alg = some (lit "RS256") := by
  rcases h with ⟨_, h | h | h⟩ | ⟨_, h, _⟩ | ⟨_, h, _⟩
  · exact Or.inl h.1
  · exact Or.inr (Or.inl h.1)
  · exact Or.inr (Or.inr (Or.inl h.1))
  · exact Or.inr (Or.inr (Or.inr (Or.inl h)))
  · exact Or.inr (Or.inr (Or.inr (Or.inr h)))

/-- the entries `ParseKeys` looks at: declared alg equal to the header's, and the header's kid if it has one -/
def selected (keys : List Key) (alg kid : Str) : List Key :=
  keys.filter fun k => (alg = [] || k.alg = some alg) && (kid = [] || k.kid = some kid)

theorem parseKeys_eq (keys : List Key) (alg kid : Str) :
    parseKeys keys alg kid =
      if (selected keys alg kid).all parseKey then some (selected keys alg kid) else none := by
  induction keys with
  | nil => simp [parseKeys, selected]
  | cons k ks ih =>
    unfold parseKeys
    unfold selected at ih ⊢
    by_cases h1 : alg = [] <;> by_cases h2 : k.alg = some alg <;> by_cases h3 : kid = [] <;>
      by_cases h4 : k.kid = some kid <;> cases h5 : parseKey k <;>
      simp [h1, h2, h3, h4, h5, ih] <;>
      (split <;> simp_all)


theorem mem_selected {keys : List Key} {alg kid : Str} {k : Key} :
    k ∈ selected keys alg kid ↔
      k ∈ keys ∧ (alg = [] ∨ k.alg = some alg) ∧ (kid = [] ∨ k.kid = some kid) := by
  simp [selected, List.mem_filter]

/-- `verifySig` as a decision list over the selected entries -/
theorem verifySig_eq (P : Params) (keys : List Key) (alg kid : Str) :
    verifySig P keys alg kid =
      if alg = [] then .error .unverifiable
      else if (selected keys alg kid).all parseKey = false then .error .unverifiable
      else if (selected keys alg kid) = [] then .error .unverifiable
      else if (selected keys alg kid).any (fun k => P.verify k alg) = true then .ok () else .error .badSig := by
  unfold verifySig
  rw [parseKeys_eq]
  by_cases h0 : alg = []
  · simp [h0]
  · rw [if_neg h0, if_neg h0]
    cases hall : (selected keys alg kid).all parseKey with
    | false => simp
    | true =>
      simp only [if_true, Bool.true_eq_false, if_false]
      generalize selected keys alg kid = ks
      match ks with
      | [] => simp
      | [k] => simp
      | k :: k' :: rest => simp

/-- the key function plus signature check succeed iff the header names an algorithm, every selected entry
parses (one bad entry with the right alg/kid poisons the lookup) and some selected entry verifies -/
theorem verifySig_ok_iff (P : Params) (keys : List Key) (alg kid : Str) :
    verifySig P keys alg kid = .ok () ↔
      alg ≠ [] ∧ (∀ k ∈ selected keys alg kid, parseKey k = true) ∧
        ∃ k ∈ selected keys alg kid, P.verify k alg = true := by
  rw [verifySig_eq]
  by_cases h0 : alg = []
  · simp [h0]
  · rw [if_neg h0]
    cases hall : (selected keys alg kid).all parseKey with
    | false =>
      simp only [if_true, reduceCtorEq, false_iff]
      intro ⟨_, h, _⟩
      have : (selected keys alg kid).all parseKey = true := by simpa using h
      rw [hall] at this
      cases this
    | true =>
      have hall' : ∀ k ∈ selected keys alg kid, parseKey k = true := by simpa using hall
      simp only [Bool.true_eq_false, if_false, ne_eq, h0, not_false_eq_true, true_and]
      by_cases he : selected keys alg kid = []
      · simp [he]
      · rw [if_neg he]
        by_cases hv : (selected keys alg kid).any (fun k => P.verify k alg) = true
        · rw [if_pos hv]
          simp only [true_iff]
          exact ⟨hall', by simpa using hv⟩
        · rw [if_neg hv]
          simp only [reduceCtorEq, false_iff]
          intro ⟨_, h⟩
          exact hv (by simpa using h)

/-- the validator: expiry present and `now < exp + leeway`; nbf/iat absent or `≤ now + leeway` -/
theorem validateClaims_iff (P : Params) (now : Int) (t : Jwt) :
    validateClaims P now t = true ↔
      (∃ e, t.exp = .at e ∧ now < e + P.leeway) ∧
      (t.nbf = .absent ∨ ∃ n, t.nbf = .at n ∧ n - P.leeway ≤ now) ∧
      (t.iat = .absent ∨ ∃ i, t.iat = .at i ∧ i - P.leeway ≤ now) := by
  unfold validateClaims
  cases t.exp <;> cases t.nbf <;> cases t.iat <;> simp <;> omega

/-- **C09_jwt_accept.**  If `parseJWT` accepts a token (returns it), then: its header names a registered
signing method `alg`; some entry of the group's key set declares exactly that `alg`, has the header's `kid`
if the header carries one, passes the kty/alg/length table, and the signature verifies under it with `alg`;
the token has an expiry with `now < exp + leeway`; `nbf` and `iat`, when present, are `≤ now + leeway`. -/
theorem C09_jwt_accept (P : Params) (keys : List Key) (now : Int) (t t' : Jwt)
    (h : parseJWT P keys now (.jwt t) = .ok (some t')) :
    t' = t ∧ ∃ alg, t.alg = some alg ∧ alg ∈ P.methods ∧
      (∃ k ∈ keys, k.alg = some alg ∧ (t.kid = [] ∨ k.kid = some t.kid) ∧ KeyTable k ∧ P.verify k alg = true) ∧
      (∃ e, t.exp = .at e ∧ now < e + P.leeway) ∧
      (t.nbf = .absent ∨ ∃ n, t.nbf = .at n ∧ n - P.leeway ≤ now) ∧
      (t.iat = .absent ∨ ∃ i, t.iat = .at i ∧ i - P.leeway ≤ now) := by
  unfold parseJWT at h
  cases ha : t.alg with
  | none => simp [ha] at h
  | some alg =>
    simp only [ha] at h
    cases hmc : P.methods.contains alg with
    | false => simp only [hmc, Bool.not_false, if_true] at h; cases h
    | true =>
      have hm : alg ∈ P.methods := by simpa using hmc
      simp only [hmc, Bool.not_true, Bool.false_eq_true, if_false] at h
      cases hs : t.sigMalformed with
      | true => simp [hs] at h
      | false =>
        simp only [hs, Bool.false_eq_true, if_false] at h
        cases hv : verifySig P keys alg t.kid with
        | error e => simp [hv] at h
        | ok u =>
          simp only [hv] at h
          cases hc : validateClaims P now t with
          | false => simp [hc] at h
          | true =>
            simp only [hc, if_true, Except.ok.injEq, Option.some.injEq] at h
            obtain ⟨hne, hall, k, hk, hver⟩ := (verifySig_ok_iff P keys alg t.kid).mp hv
            obtain ⟨hk1, hk2, hk3⟩ := mem_selected.mp hk
            refine ⟨h.symm, alg, rfl, hm, ⟨k, hk1, ?_, hk3, (C09_key_table k).mp (hall k hk), hver⟩,
              (validateClaims_iff P now t).mp hc⟩
            rcases hk2 with h0 | h0
            · exact absurd h0 hne
            · exact h0

/-- `alg: none`, unknown algorithms and algorithms no key type supports are never accepted: an accepted
token's header algorithm is one of the five that `ParseKey` knows, and the verifying key has the matching type. -/
theorem C09_jwt_alg (P : Params) (keys : List Key) (now : Int) (t t' : Jwt)
    (h : parseJWT P keys now (.jwt t) = .ok (some t')) :
    t.alg = some (lit "HS256") ∨ t.alg = some (lit "HS384") ∨ t.alg = some (lit "HS512") ∨
    t.alg = some (lit "ES256") ∨ t.alg = some (lit "RS256") := by
  obtain ⟨_, alg, ha, _, ⟨k, _, hk, _, ht, _⟩, _⟩ := C09_jwt_accept P keys now t t' h
  rw [ha, ← hk]
  exact keyTable_alg ht

theorem C09_jwt_none_never (P : Params) (keys : List Key) (now : Int) (t t' : Jwt)
    (hn : t.alg = some (lit "none")) : parseJWT P keys now (.jwt t) ≠ .ok (some t') := by
  intro h
  have := C09_jwt_alg P keys now t t' h
  rw [hn] at this
  revert this
  decide

/-- without keys (as in `checkGlobalAdminToken`) no signed token is ever accepted -/
theorem C09_jwt_no_keys (P : Params) (now : Int) (inp : TokenInput) (t' : Jwt) :
    parseJWT P [] now inp ≠ .ok (some t') := by
  intro h
  cases inp with
  | malformed => simp [parseJWT] at h
  | jwt t =>
    obtain ⟨_, _, _, _, ⟨k, hk, _⟩, _⟩ := C09_jwt_accept P [] now t t' h
    simp at hk


/-! ### (*JWT).Check: audience and grants -/

/-- **C09_jwt_check.**  If `(*JWT).Check` succeeds for canonical host `host` and group `g`, then the username
and permissions are the token's `sub` and `permissions`, and some audience of the token parses as a URL whose
host equals `host` up to case (when `host` is configured) and whose path `matchGroup` accepts for `g`. -/
theorem C09_jwt_check (t : Jwt) (host g u : Str) (p : List Str) (h : t.check host g = .ok (u, p)) :
    t.sub = some u ∧ t.perms = some p ∧
      ∃ aud, t.aud = some aud ∧ ∃ hst pth, some (hst, pth) ∈ aud ∧
        (host = [] ∨ equalFold hst host = true) ∧ matchGroup pth g t.includeSubgroups = true := by
  unfold Jwt.check at h
  cases hs : t.sub with
  | none => simp [hs] at h
  | some sub =>
    cases ha : t.aud with
    | none => simp [hs, ha] at h
    | some aud =>
      simp only [hs, ha] at h
      cases hany : aud.any (audOk host g t.includeSubgroups) with
      | false => simp [hany] at h
      | true =>
        simp only [hany, Bool.not_true, Bool.false_eq_true, if_false] at h
        cases hp : t.perms with
        | none => simp [hp] at h
        | some perms =>
          simp only [hp, Except.ok.injEq, Prod.mk.injEq] at h
          obtain ⟨rfl, rfl⟩ := h
          refine ⟨rfl, rfl, aud, rfl, ?_⟩
          obtain ⟨e, he, hok⟩ := List.any_eq_true.mp hany
          cases e with
          | none => simp [audOk] at hok
          | some hp' =>
            obtain ⟨hst, pth⟩ := hp'
            refine ⟨hst, pth, he, ?_⟩
            unfold audOk at hok
            by_cases h0 : host = []
            · simp [h0] at hok
              exact ⟨Or.inl h0, hok⟩
            · cases hf : equalFold hst host with
              | false => simp [h0, hf] at hok
              | true =>
                simp [h0, hf] at hok
                exact ⟨Or.inr rfl, hok⟩


/-! ### GetPermission, token branch -/

/-- **C09_grants.**  If the token branch of `GetPermission` admits a client as `(u, p)`, then the token parsed,
its `Check` for the configured host and this group succeeded with some username `tu` and exactly the
permissions `p`, and `u` is: the token's username when it has one (the client's is ignored); otherwise the
client's username, which is then *not* the name of a configured user; otherwise empty.  `u` is a valid username.
A token that needs a username is refused when the client gives none. -/
theorem C09_grants (P : Params) (keys : List Key) (users : List Str) (host : Str) (now : Int) (g : Str)
    (cu : Option Str) (inp : TokenInput) (stored : Lookup) (u : Str) (p : List Str)
    (h : getPermissionToken P keys users host now g cu inp stored = .ok (u, p)) :
    ∃ tok tu, parse P keys now inp stored = .ok tok ∧ tok.check now host g = .ok (tu, p) ∧
      (cu = none → tok.needsUsername = false) ∧
      ((tu ≠ [] ∧ u = tu) ∨ (tu = [] ∧ cu = some u ∧ u ∉ users) ∨ (tu = [] ∧ cu = none ∧ u = [])) ∧
      validUsername u = true := by
  unfold getPermissionToken at h
  cases hp : parse P keys now inp stored with
  | error e => simp [hp] at h
  | ok tok =>
    simp only [hp] at h
    cases hn : (cu.isNone && tok.needsUsername) with
    | true => simp [hn] at h
    | false =>
      simp only [hn, Bool.false_eq_true, if_false] at h
      cases hc : tok.check now host g with
      | error e => simp [hc] at h
      | ok r =>
        obtain ⟨tu, perms⟩ := r
        simp only [hc] at h
        refine ⟨tok, tu, rfl, ?_⟩
        have hnu : cu = none → tok.needsUsername = false := by
          intro h0; subst h0; simpa using hn
        by_cases ht : tu = []
        · subst ht
          simp only [if_true] at h
          cases cu with
          | none =>
            simp only at h
            cases hv : validUsername [] with
            | false => simp [hv] at h
            | true =>
              simp only [hv, Bool.not_true, Bool.false_eq_true, if_false, Except.ok.injEq, Prod.mk.injEq] at h
              obtain ⟨rfl, rfl⟩ := h
              exact ⟨hc, hnu, Or.inr (Or.inr ⟨rfl, rfl, rfl⟩), hv⟩
          | some c =>
            simp only at h
            by_cases hu : c ∈ users
            · have hu' : users.contains c = true := by simpa using hu
              rw [if_pos hu'] at h; cases h
            · have hu' : ¬ users.contains c = true := by simpa using hu
              rw [if_neg hu'] at h
              simp only at h
              cases hv : validUsername c with
              | false => simp [hv] at h
              | true =>
                simp only [hv, Bool.not_true, Bool.false_eq_true, if_false, Except.ok.injEq, Prod.mk.injEq] at h
                obtain ⟨rfl, rfl⟩ := h
                exact ⟨hc, hnu, Or.inr (Or.inl ⟨rfl, rfl, hu⟩), hv⟩
        · simp only [if_neg ht] at h
          cases hv : validUsername tu with
          | false => simp [hv] at h
          | true =>
            simp only [hv, Bool.not_true, Bool.false_eq_true, if_false, Except.ok.injEq, Prod.mk.injEq] at h
            obtain ⟨rfl, rfl⟩ := h
            exact ⟨hc, hnu, Or.inl ⟨ht, rfl⟩, hv⟩


/-- a client-chosen username never shadows a configured user: if the granted username is the name of a
configured user, it was written in the token -/
theorem C09_no_shadow (P : Params) (keys : List Key) (users : List Str) (host : Str) (now : Int) (g : Str)
    (cu : Option Str) (inp : TokenInput) (stored : Lookup) (u : Str) (p : List Str)
    (h : getPermissionToken P keys users host now g cu inp stored = .ok (u, p)) (hu : u ∈ users) :
    ∃ tok, parse P keys now inp stored = .ok tok ∧ tok.check now host g = .ok (u, p) := by
  obtain ⟨tok, tu, h1, h2, _, h4, _⟩ := C09_grants P keys users host now g cu inp stored u p h
  rcases h4 with ⟨_, rfl⟩ | ⟨_, _, hn⟩ | ⟨rfl, _, rfl⟩
  · exact ⟨tok, h1, h2⟩
  · exact absurd hu hn
  · exact ⟨tok, h1, h2⟩

/-! ### end to end for signed tokens -/

theorem parse_jwt_inv {P : Params} {keys : List Key} {now : Int} {inp : TokenInput} {stored : Lookup} {t : Jwt}
    (h : parse P keys now inp stored = .ok (.jwt t)) :
    inp = .jwt t ∧ parseJWT P keys now (.jwt t) = .ok (some t) := by
  unfold parse at h
  cases hj : parseJWT P keys now inp with
  | error e => simp [hj] at h
  | ok o =>
    cases o with
    | none =>
      simp only [hj] at h
      cases stored <;> simp at h
    | some t' =>
      simp only [hj, Except.ok.injEq, Tok.jwt.injEq] at h
      subst h
      cases inp with
      | malformed => simp [parseJWT] at hj
      | jwt t0 =>
        have := (C09_jwt_accept P keys now t0 t' hj).1
        subst this
        exact ⟨rfl, hj⟩

theorem validGroupName_shape {g : Str} (h : validGroupName g = true) : g ≠ [] ∧ g.head? ≠ some '/' := by
  unfold validGroupName at h
  cases g with
  | nil => simp [splitSlash] at h
  | cons c cs =>
    refine ⟨by simp, ?_⟩
    intro hc
    simp only [List.head?_cons, Option.some.injEq] at hc
    subst hc
    simp [splitSlash] at h

/-- **C09_jwt_end_to_end.**  If `token.Parse` yields a signed token and its `Check` admits the bearer to the
valid group name `g` on a server with canonical host `host`, then (1) the signature verifies under one of
the group's keys whose declared algorithm is the header's (and whose kid is the header's, if any) and which
passes the kty/alg table; (2) the token has an expiry and `now < exp + leeway`; (3) some audience has host
`host` (up to case, when configured) and is exactly the audience path of a group `tg` that is `g` or, with
include-subgroups, a proper ancestor of `g` on whole path components; (4) username and permissions are the
token's `sub` and `permissions`. -/
theorem C09_jwt_end_to_end (P : Params) (keys : List Key) (now : Int) (inp : TokenInput) (stored : Lookup)
    (t : Jwt) (host g u : Str) (p : List Str)
    (hp : parse P keys now inp stored = .ok (.jwt t))
    (hc : (Tok.jwt t).check now host g = .ok (u, p)) (hg : validGroupName g = true) :
    (∃ alg k, t.alg = some alg ∧ k ∈ keys ∧ k.alg = some alg ∧ (t.kid = [] ∨ k.kid = some t.kid) ∧
        KeyTable k ∧ P.verify k alg = true) ∧
    (∃ e, t.exp = .at e ∧ now < e + P.leeway) ∧
    (∃ aud hst tg, t.aud = some aud ∧ some (hst, audPath tg) ∈ aud ∧ (host = [] ∨ equalFold hst host = true) ∧
        Covers tg t.includeSubgroups g) ∧
    t.sub = some u ∧ t.perms = some p := by
  obtain ⟨_, hj⟩ := parse_jwt_inv hp
  obtain ⟨_, alg, ha, _, ⟨k, hk, hka, hkid, hkt, hv⟩, hexp, _, _⟩ := C09_jwt_accept P keys now t t hj
  have hc' : t.check host g = .ok (u, p) := by
    unfold Tok.check at hc
    cases h : t.check host g with
    | error e => simp [h, Except.mapError] at hc
    | ok r => simpa [h, Except.mapError] using hc
  obtain ⟨hsub, hperms, aud, haud, hst, pth, hmem, hhost, hmg⟩ := C09_jwt_check t host g u p hc'
  obtain ⟨hg1, hg2⟩ := validGroupName_shape hg
  obtain ⟨tg, rfl, hcov⟩ := (C09_jwt_scope pth g t.includeSubgroups hg1 hg2).mp hmg
  exact ⟨⟨alg, k, ha, hk, hka, hkid, hkt, hv⟩, hexp, ⟨aud, hst, tg, haud, hmem, hhost, hcov⟩, hsub, hperms⟩

/-- the expiry boundary of signed tokens: with every other check passing, the token is accepted at every
instant strictly before `exp + leeway` and refused from `exp + leeway` on -/
theorem C09_jwt_window_boundary (P : Params) (now e : Int) (t : Jwt) (he : t.exp = .at e)
    (hn : t.nbf = .absent) (hi : t.iat = .absent) :
    validateClaims P now t = true ↔ now < e + P.leeway := by
  rw [validateClaims_iff]
  simp [he, hn, hi]

/-! ### global administrator -/

/-- **C09_global_admin.**  `checkGlobalAdminToken` answers "administrator" only for a *stateful* token (no
signed token can verify without keys) whose group is the root, which covers subgroups, carries the
permission "admin", has an expiry `≥ now` and no not-before time in the future. -/
theorem C09_global_admin (P : Params) (host : Str) (now : Int) (inp : TokenInput) (stored : Lookup)
    (h : checkGlobalAdminToken P host now inp stored = .ok true) :
    ∃ s, stored = some s ∧ s.group = [] ∧ s.includeSubgroups = true ∧ lit "admin" ∈ s.permissions ∧
      (∃ e, s.expires = some e ∧ now ≤ e) ∧ (∀ nb, s.notBefore = some nb → nb ≤ now) := by
  unfold checkGlobalAdminToken at h
  cases hp : parse P [] now inp stored with
  | error e => simp [hp] at h
  | ok tok =>
    simp only [hp] at h
    cases tok with
    | jwt t => exact absurd (parse_jwt_inv hp).2 (C09_jwt_no_keys P now (.jwt t) t)
    | stateful s =>
      have hst : stored = some s := by
        unfold parse at hp
        cases hj : parseJWT P [] now inp with
        | error e => simp [hj] at hp
        | ok o =>
          cases o with
          | some t' => simp [hj] at hp
          | none =>
            simp only [hj] at hp
            cases stored with
            | none => simp at hp
            | some s' => simpa using hp
      cases hc : s.check now [] with
      | error e => simp [Tok.check, hc, Except.mapError] at h
      | ok r =>
        obtain ⟨u, p⟩ := r
        simp only [Tok.check, hc, Except.mapError, Except.ok.injEq] at h
        obtain ⟨hm, hexp, hnbf⟩ := (C09_window s now []).mp ⟨(u, p), hc⟩
        obtain ⟨hsub, hgrp⟩ := (C09_stateful_root s).mp hm
        obtain ⟨_, rfl⟩ := C09_stateful_grants s now [] u p hc
        exact ⟨s, hst, hgrp, hsub, by simpa using h, hexp, hnbf⟩

/-- conversely, for a token string that is not a JWT, these conditions are also sufficient -/
theorem C09_global_admin_iff (P : Params) (host : Str) (now : Int) (stored : Lookup) :
    checkGlobalAdminToken P host now .malformed stored = .ok true ↔
    ∃ s, stored = some s ∧ s.group = [] ∧ s.includeSubgroups = true ∧ lit "admin" ∈ s.permissions ∧
      (∃ e, s.expires = some e ∧ now ≤ e) ∧ (∀ nb, s.notBefore = some nb → nb ≤ now) := by
  constructor
  · exact C09_global_admin P host now .malformed stored
  · rintro ⟨s, rfl, hg, hs, hadm, hexp, hnbf⟩
    have hm : s.match [] = true := (C09_stateful_root s).mpr ⟨hs, hg⟩
    obtain ⟨⟨u, p⟩, hc⟩ := (C09_window s now []).mpr ⟨hm, hexp, hnbf⟩
    obtain ⟨_, rfl⟩ := C09_stateful_grants s now [] u p hc
    simp [checkGlobalAdminToken, parse, parseJWT, Tok.check, hc, Except.mapError, hadm]

/-! ### non-vacuity -/

def accepted : Except PErr (Option Jwt) → Bool
  | .ok (some _) => true
  | _ => false

/-- a deployment in which exactly the key with material "m1" verifies, with HS256 -/
def exP : Params :=
  { methods := [lit "HS256", lit "ES256", lit "none"], verify := fun k alg => k.material = lit "m1" && alg = lit "HS256" }

def exKey : Key := { kty := some (lit "oct"), alg := some (lit "HS256"), klen := some 32, material := lit "m1" }
def exJwt : Jwt :=
  { alg := some (lit "HS256"), exp := .at 100, aud := some [none, some (lit "H.example", lit "/group/a/")],
    sub := some (lit "alice"), includeSubgroups := true, perms := some [lit "present"] }

-- scope: subgroup at a component boundary yes, textual extension no, root covers everything, exact only without the flag
example : Stateful.match { group := lit "a", includeSubgroups := true } (lit "a/b") = true := by decide
example : Stateful.match { group := lit "a", includeSubgroups := true } (lit "ab") = false := by decide
example : Stateful.match { group := lit "a", includeSubgroups := false } (lit "a/b") = false := by decide
example : Stateful.match { group := [], includeSubgroups := true } (lit "a/b") = true := by decide
example : Covers (lit "a") true (lit "a/b") := Or.inr ⟨rfl, [lit "b"], by decide, by decide⟩
example : matchGroup (lit "/group/a/") (lit "a/b") true = true := by decide
example : matchGroup (lit "/group/a/") (lit "ab") true = false := by decide
example : matchGroup (lit "/group/") (lit "ab") true = true := by decide
example : audPath (lit "a") = lit "/group/a/" := by decide
-- window: both boundary instants are inside, one tick outside is refused, no expiry is refused
example : (Stateful.check { group := lit "a", expires := some 10, notBefore := some 5, permissions := [lit "op"] } 10 (lit "a"))
    = .ok ([], [lit "op"]) := by rfl
example : (Stateful.check { group := lit "a", expires := some 10, notBefore := some 5 } 5 (lit "a")) = .ok ([], []) := by rfl
example : (Stateful.check { group := lit "a", expires := some 10 } 11 (lit "a")) = .error .expired := by rfl
example : (Stateful.check { group := lit "a", expires := some 10, notBefore := some 5 } 4 (lit "a")) = .error .future := by rfl
example : (Stateful.check { group := lit "a" } 0 (lit "a")) = .error .expired := by rfl
-- signed tokens: accepted with the right key; refused with alg none, with a key of the wrong declared alg or length, after exp + leeway
example : accepted (parseJWT exP [exKey] 104 (.jwt exJwt)) = true := by decide
example : accepted (parseJWT exP [exKey] 105 (.jwt exJwt)) = false := by decide
example : accepted (parseJWT exP [exKey] 0 (.jwt { exJwt with alg := some (lit "none") })) = false := by decide
example : accepted (parseJWT exP [{ exKey with alg := some (lit "HS384") }] 0 (.jwt exJwt)) = false := by decide
example : accepted (parseJWT exP [{ exKey with klen := some 48 }] 0 (.jwt exJwt)) = false := by decide
example : accepted (parseJWT exP [{ exKey with kty := some (lit "RSA") }] 0 (.jwt exJwt)) = false := by decide
example : accepted (parseJWT exP [exKey, { exKey with klen := none, material := lit "m2" }] 0 (.jwt exJwt)) = false := by decide
example : accepted (parseJWT exP [exKey] 0 (.jwt { exJwt with exp := .absent })) = false := by decide
example : exJwt.check (lit "h.example") (lit "a/b") = .ok (lit "alice", [lit "present"]) := by rfl
example : exJwt.check (lit "other.example") (lit "a/b") = .error .wrongGroup := by rfl
example : exJwt.check (lit "h.example") (lit "ab") = .error .wrongGroup := by rfl
-- GetPermission: the token's name wins; a client-chosen name must not be a configured user's
example : getPermissionToken exP [exKey] [lit "bob"] (lit "h.example") 0 (lit "a") (some (lit "bob")) (.jwt exJwt) none
    = .ok (lit "alice", [lit "present"]) := by rfl
example : getPermissionToken exP [exKey] [lit "bob"] (lit "h.example") 0 (lit "a") (some (lit "bob"))
    (.jwt { exJwt with sub := some [] }) none = .error .duplicateUsername := by rfl
example : getPermissionToken exP [exKey] [lit "bob"] (lit "h.example") 0 (lit "a") (some (lit "carol"))
    (.jwt { exJwt with sub := some [] }) none = .ok (lit "carol", [lit "present"]) := by rfl
-- global administrator
example : checkGlobalAdminToken exP [] 0 .malformed
    (some { group := [], includeSubgroups := true, permissions := [lit "admin"], expires := some 1 }) = .ok true := by rfl
example : checkGlobalAdminToken exP [] 0 .malformed
    (some { group := [], includeSubgroups := false, permissions := [lit "admin"], expires := some 1 })
    = .error (.inr (.stateful .badGroup)) := by rfl
example : checkGlobalAdminToken exP [] 0 (.jwt { exJwt with aud := some [some ([], lit "/group/")], perms := some [lit "admin"] }) none
    = .error (.inl (.jwt .unverifiable)) := by rfl

end Galene.Props.C09
