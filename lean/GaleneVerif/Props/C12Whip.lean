import GaleneVerif.Props.C11Whip
/-
C12, WHIP part: every request to the WHIP endpoint or a WHIP session gets a response.  The model
(`Model/Whip.lean`) has an explicit outcome `Outcome.crash` for the one expression of
webserver/whip.go that can panic on client input (`rest[1:]` in whipResourceHandler); everything
below the model (pion's SDP parser, sdpfrag's scanner, net/http) is covered by the `whip` engine's
correspondence run under recover() only (exploration, not proof).
-/
namespace Galene.Whip

/-- **C12 (WHIP part).** No request — any method, path, headers, body, on any server state, through
the dispatcher or on either handler directly — makes the model of the WHIP handlers take the one
step that would panic in Go (`rest[1:]` on an empty string): the guard before it covers it.  Every
request gets a response (or is not WHIP's). -/
theorem C12_whip_no_crash (w : World) (via : Via) (r : Req) : (handle w via r).2 ≠ .crash := by
  have hs := handle_spec w via r
  generalize handle w via r = res at hs
  cases hs with
  | endpoint h =>
    cases h with
    | refused _ _ _ _ _ _ hc _ => exact hc
    | created => simp
  | noSession o ho => rcases ho with h | h | h | h <;> simp [h, status]
  | session id c _ _ _ h => exact h.noCrash


/-- the dispatcher sends every path whose dot-component is `.whip` to one of the two handlers and
nothing else to them: an outcome `notWhip` never comes from a handler called on its own -/
theorem C12_whip_handlers_answer (w : World) (r : Req) :
    (whipEndpointHandler w r).2 ≠ .notWhip ∧ (whipResourceHandler w r).2 ≠ .notWhip := by
  constructor
  · have hs := endpoint_spec w r
    generalize whipEndpointHandler w r = res at hs
    cases hs with
    | refused _ _ _ _ _ _ _ hw => exact hw
    | created => simp
  · rcases resource_spec w r with ⟨o, h, ho⟩ | ⟨id, c, _, _, _, h4⟩
    · rw [h]; rcases ho with h | h | h <;> simp [h, status]
    · exact h4.isWhip

end Galene.Whip
