import GaleneVerif.Model.Api
import GaleneVerif.Lemmas.ApiStore
/-
C17 with groups LIVE IN MEMORY.  The model of the API (Model/Api.lean) authenticates and reads with
`getDescription` = "resolve the name and read the file".  The real `group.GetDescription` returns
the description cached in a live group when `descriptionUnchanged(name, desc)` says it is current.
This file proves that this makes no difference — and shows what the test is for:

* `getFile_isSub` — for a given name, "own file or an ancestor's" is a function of the file found.
* `C17_cached_description_is_current` — if the live table is `Coherent` with the store (an entry
  records how its name resolved; a file that still has the recorded version still has the recorded
  content), `getDescriptionLive` = `getDescription`.
* `addLive_coherent`, `fresh_coherent`, `handle_fresh`, `C17_live_reachable` — `Coherent` holds at
  every state reachable by API requests (also under a write fault), files written by the harness,
  wipes and `group.Add`, from any store whose versions are bounded by its counter and an empty live
  table: `rewrite` gives every version it writes a new number (the harness: a fresh mtime), so a
  cached description can only be taken for current when it is.
* `C17_live_authorisation` — hence at every reachable state the description the API authenticates
  against for a live group is the one `getDescription` returns, which is what C17_authz speaks about.
* `C17_stale_by_file_name` — the freshness test must resolve the NAME: with a test that only
  stats the cached file (seeded change C17-6), a live subgroup that gets its own definition keeps
  being served its parent's description.
-/
namespace Galene.Props.C17Live
open Galene.Api

/-- the freshness test of seeded change C17-6: stat the cached file name instead of resolving the name -/
def descriptionUnchangedByFile (gs : List (String × GroupFile)) (c : Cached) : Bool :=
  match lookup c.key gs with
  | some f => f.ver == c.file.ver
  | none => false

theorem getFileAux_sub (gs : List (String × GroupFile)) (a : Bool) (fuel : Nat) (name : String)
    (k : String) (f : GroupFile) (s : Bool) (h : getFileAux gs a fuel name true = some (k, f, s)) : s = true := by
  induction fuel generalizing name with
  | zero => simp [getFileAux] at h
  | succ n ih =>
    unfold getFileAux at h
    split at h
    · simp at h
    · split at h
      · simp at h; exact h.2.2
      · split at h
        · exact ih _ h
        · simp at h

/-- for a given name, whether the file found is the group's own or an ancestor's can be read off
the file: it is an ancestor's iff it is not the file of the name itself -/
theorem getFile_isSub (gs : List (String × GroupFile)) (name : String) (a : Bool)
    (k : String) (f : GroupFile) (s : Bool) (h : getFile gs name a = some (k, f, s)) :
    s = decide (k ≠ fileKey name) := by
  unfold getFile at h
  unfold getFileAux at h
  split at h
  · simp at h
  · split at h
    · simp at h; obtain ⟨h1, _, h3⟩ := h; subst h1; subst h3; simp
    · next hnone =>
      split at h
      · have hs := getFileAux_sub _ _ _ _ _ _ _ h
        have hl := getFileAux_lookup _ _ _ _ _ _ _ _ h
        subst hs
        have : k ≠ fileKey name := by
          intro hk; subst hk; rw [hnone] at hl; simp at hl
        simp [this]
      · simp at h

/-- the table of live groups agrees with the store: an entry records how its name resolved when it
was read; and IF the file it was read from still has the version recorded, THEN it still has the
content recorded (versions identify contents: C18's quantifier) -/
def Coherent (live : List (String × Cached)) (gs : List (String × GroupFile)) : Prop :=
  ∀ name c, lookup name live = some c →
    c.isSub = decide (c.key ≠ fileKey name) ∧
    (c.isSub = true → c.file.desc.autoSub = true) ∧
    (∀ f, lookup c.key gs = some f → f.ver = c.file.ver → c.file = { f with desc := f.desc.upgrade })

/-- **C17, the cached description is the current one.**  With the freshness test of the real code
(`descriptionUnchanged` resolves the NAME again), `GetDescription` for a live group returns exactly
what reading the files returns — so everything the model proves about authorisation with "no group
is live" holds with any groups live. -/
theorem C17_cached_description_is_current (live : List (String × Cached)) (st : State) (name : String)
    (hco : Coherent live st.groups) :
    getDescriptionLive live st name = getDescription st name := by
  unfold getDescriptionLive getDescription
  cases hl : lookup name live with
  | none => rfl
  | some c =>
    simp only []
    split
    · next hu =>
      obtain ⟨hsub, hauto, hsame⟩ := hco name c hl
      unfold descriptionUnchanged at hu
      split at hu
      · next k f s hg =>
        simp only [Bool.and_eq_true, beq_iff_eq] at hu
        obtain ⟨hk, hv⟩ := hu
        subst hk
        have hlk := getFile_lookup _ _ _ _ _ _ hg
        have hfile := hsame f hlk hv
        have hs := getFile_isSub _ _ _ _ _ _ hg
        have hss : s = c.isSub := hs.trans hsub.symm
        have hau : f.desc.upgrade.autoSub = c.file.desc.autoSub := by rw [hfile]
        unfold readDescription
        rw [hg]
        simp only [hau, hss]
        rw [← hfile]
        cases hci : c.isSub with
        | false => simp
        | true => simp [hauto hci]
      · simp at hu
    · rfl

theorem readLive_coherent (live : List (String × Cached)) (st : State) (name : String)
    (hco : Coherent live st.groups) : Coherent (readLive live st name).2 st.groups := by
  unfold readLive
  split
  · next k f s hr =>
    intro n c hn
    simp only [] at hn
    by_cases hnn : n = name
    · subst hnn
      rw [lookup_upsert_self] at hn
      simp only [Option.some.injEq] at hn
      subst hn
      simp only []
      unfold readDescription at hr
      split at hr
      · simp at hr
      · next k' f' s' hg =>
        simp only [] at hr
        split at hr
        · simp at hr
        · next hchk =>
          simp only [Option.some.injEq, Prod.mk.injEq] at hr
          obtain ⟨h1, h2, h3⟩ := hr
          subst h1; subst h2; subst h3
          refine ⟨getFile_isSub _ _ _ _ _ _ hg, ?_, ?_⟩
          · intro hs
            simpa [hs] using hchk
          · intro f hf _
            have := getFile_lookup _ _ _ _ _ _ hg
            rw [this] at hf
            simp only [Option.some.injEq] at hf
            subst hf
            rfl
    · rw [lookup_upsert_ne _ _ _ _ hnn] at hn
      exact hco n c hn
  · intro n c hn
    simp only [] at hn
    by_cases hnn : n = name
    · subst hnn; rw [lookup_erase_self] at hn; simp at hn
    · rw [lookup_erase_ne _ _ _ hnn] at hn
      exact hco n c hn

/-- making a group live keeps the table coherent -/
theorem addLive_coherent (live : List (String × Cached)) (st : State) (name : String)
    (hco : Coherent live st.groups) : Coherent (addLive live st name).2 st.groups := by
  unfold addLive
  split
  · split
    · exact hco
    · exact readLive_coherent live st name hco
  · exact readLive_coherent live st name hco

/-- a change of the store keeps the table coherent if every file that keeps its version keeps its
content — which is what fresh version numbers (`rewrite`: `ctr + 1`; the harness: a fresh mtime per
version) give -/
theorem coherent_of_versions (live : List (String × Cached)) (gs gs' : List (String × GroupFile))
    (hco : Coherent live gs)
    (hver : ∀ name c, lookup name live = some c → ∀ f', lookup c.key gs' = some f' → f'.ver = c.file.ver →
      lookup c.key gs = some f') :
    Coherent live gs' := by
  intro n c hn
  obtain ⟨h1, h2, h3⟩ := hco n c hn
  exact ⟨h1, h2, fun f' hf' hv => h3 f' (hver n c hn f' hf' hv) hv⟩

/-- a step of the store that never re-uses a version: the counter does not go back, and every file
afterwards was there before, unchanged, or has a version above the old counter (and within the new) -/
def Fresh (st st' : State) : Prop :=
  st.ctr ≤ st'.ctr ∧ ∀ k f', lookup k st'.groups = some f' →
    lookup k st.groups = some f' ∨ (st.ctr < f'.ver ∧ f'.ver ≤ st'.ctr)

theorem fresh_refl (st : State) : Fresh st st := ⟨Nat.le_refl _, fun _ _ h => Or.inl h⟩

theorem rewrite_fresh (st st' : State) (key : String) (d : Desc) (h : rewrite st key d = .ok st') : Fresh st st' := by
  have hst := rewrite_ok _ _ _ _ h
  subst hst
  refine ⟨Nat.le_succ _, ?_⟩
  intro k f' hf'
  by_cases hk : k = key
  · subst hk
    rw [lookup_upsert_self] at hf'
    simp only [Option.some.injEq] at hf'
    subst hf'
    right
    simp only []
    omega
  · left; rwa [lookup_upsert_ne _ _ _ _ hk] at hf'

theorem erase_fresh (st : State) (key : String) : Fresh st { st with groups := erase key st.groups } := by
  refine ⟨Nat.le_refl _, ?_⟩
  intro k f' hf'
  simp only [] at hf'
  by_cases hk : k = key
  · subst hk; rw [lookup_erase_self] at hf'; simp at hf'
  · left; rwa [lookup_erase_ne _ _ _ hk] at hf'

theorem updateDescription_fresh (st st' : State) (n : String) (e : Option Nat) (d : DescIn)
    (h : updateDescription st n e d = .ok st') : Fresh st st' := by
  unfold updateDescription at h
  split at h
  · simp at h
  · simp only [] at h
    split at h
    · simp at h
    · exact rewrite_fresh _ _ _ _ h

theorem deleteDescription_fresh (st st' : State) (n : String) (e : Option Nat)
    (h : deleteDescription st n e = .ok st') : Fresh st st' := by
  unfold deleteDescription at h
  split at h
  · simp at h
  · split at h
    · simp at h
    · simp only [Except.ok.injEq] at h; subst h; exact erase_fresh _ _

theorem updateUser_fresh (st st' : State) (g : String) (w : Who) (e : Option Nat) (u : User)
    (h : updateUser st g w e u = .ok st') : Fresh st st' := by
  unfold updateUser at h
  split at h
  · simp at h
  · split at h
    · simp at h
    · simp only [] at h
      split at h
      · simp at h
      · exact rewrite_fresh _ _ _ _ h

theorem deleteUser_fresh (st st' : State) (g : String) (w : Who) (e : Option Nat)
    (h : deleteUser st g w e = .ok st') : Fresh st st' := by
  unfold deleteUser at h
  split at h
  · simp at h
  · split at h
    · simp at h
    · split at h
      · simp at h
      · exact rewrite_fresh _ _ _ _ h

theorem setUserPassword_fresh (st st' : State) (g : String) (w : Who) (p : Password)
    (h : setUserPassword st g w p = .ok st') : Fresh st st' := by
  unfold setUserPassword at h
  split at h
  · simp at h
  · split at h
    · simp at h
    · exact rewrite_fresh _ _ _ _ h

theorem setKeys_fresh (st st' : State) (g : String) (ks : Option (List Key))
    (h : setKeys st g ks = .ok st') : Fresh st st' := by
  unfold setKeys at h
  split at h
  · simp at h
  · split at h
    · simp at h
    · exact rewrite_fresh _ _ _ _ h

theorem tokenWrite_fresh (st : State) (n : String) (t : Tok) : Fresh st (tokenWrite st n t) :=
  ⟨Nat.le_succ _, fun _ _ h => Or.inl h⟩

theorem tokenDelete_fresh (st : State) (n : String) : Fresh st (tokenDelete st n) := by
  unfold tokenDelete
  simp only []
  split
  · exact ⟨Nat.le_refl _, fun _ _ h => Or.inl h⟩
  · exact ⟨Nat.le_succ _, fun _ _ h => Or.inl h⟩

def Fr (p : Outcome × State) (st : State) : Prop := Fresh st p.2

theorem done_fr (st : State) (r : Resp) : Fr (done st r) st := fresh_refl st

theorem finish_fr (st : State) (res : Except Err State) (ok : Resp) (h : ∀ st', res = .ok st' → Fresh st st') :
    Fr (finish st res ok) st := by
  unfold finish
  split
  · next st' => exact h st' rfl
  · exact fresh_refl st

macro "fr_tac" : tactic => `(tactic|
  (repeat' (first | split | (simp only []))) <;>
  first
  | exact done_fr _ _
  | exact finish_fr _ _ _ (fun _ h => updateDescription_fresh _ _ _ _ _ h)
  | exact finish_fr _ _ _ (fun _ h => deleteDescription_fresh _ _ _ _ h)
  | exact finish_fr _ _ _ (fun _ h => updateUser_fresh _ _ _ _ _ _ h)
  | exact finish_fr _ _ _ (fun _ h => deleteUser_fresh _ _ _ _ _ h)
  | exact finish_fr _ _ _ (fun _ h => setUserPassword_fresh _ _ _ _ _ h)
  | exact finish_fr _ _ _ (fun _ h => setKeys_fresh _ _ _ _ h)
  | exact tokenWrite_fresh _ _ _
  | exact tokenDelete_fresh _ _
  | exact ⟨Nat.le_succ _, fun _ _ h => Or.inl h⟩
  | exact fresh_refl _)

theorem actGroup_fr (fx : Fixes) (st : State) (r : Request) (g : String) : Fr (actGroup fx st r g) st := by
  unfold actGroup; fr_tac
theorem actUser_fr (st : State) (r : Request) (g : String) (w : Who) : Fr (actUser st r g w) st := by
  unfold actUser; fr_tac
theorem actPassword_fr (st : State) (r : Request) (g : String) (w : Who) : Fr (actPassword st r g w) st := by
  unfold actPassword; fr_tac
theorem actKeys_fr (st : State) (r : Request) (g : String) : Fr (actKeys st r g) st := by
  unfold actKeys; fr_tac
theorem actTokenList_fr (st : State) (r : Request) (g : String) : Fr (actTokenList st r g) st := by
  unfold actTokenList; fr_tac
theorem actToken_fr (fx : Fixes) (st : State) (r : Request) (g t : String) : Fr (actToken fx st r g t) st := by
  unfold actToken; fr_tac

theorem act_fr (fx : Fixes) (st : State) (r : Request) (a : Action) : Fr (act fx st r a) st := by
  cases a <;> simp only [act]
  case notFoundPlain => exact done_fr _ _
  case notFoundPage => exact done_fr _ _
  case stats => fr_tac
  case listGroups => fr_tac
  case group g => exact actGroup_fr _ _ _ _
  case listUsers g => fr_tac
  case user g w => exact actUser_fr _ _ _ _
  case password g w => exact actPassword_fr _ _ _ _
  case keys g => exact actKeys_fr _ _ _
  case tokenList g => exact actTokenList_fr _ _ _
  case token g t => exact actToken_fr _ _ _ _ _

/-- every API request is a fresh step of the store -/
theorem handle_fresh (fx : Fixes) (st : State) (r : Request) : Fresh st (handle fx st r).2 := by
  unfold handle
  simp only
  split
  · exact done_fr _ _
  · split
    · exact done_fr _ _
    · exact act_fr _ _ _ _

/-! ### Every reachable state is coherent -/

/-- versions in the store are bounded by the counter -/
def VB (st : State) : Prop := ∀ k f, lookup k st.groups = some f → f.ver ≤ st.ctr

/-- the versions recorded in the live table are not newer than the version counter -/
def Bounded (live : List (String × Cached)) (ctr : Nat) : Prop :=
  ∀ name c, lookup name live = some c → c.file.ver ≤ ctr

theorem fresh_vb (st st' : State) (h : Fresh st st') (hvb : VB st) : VB st' := by
  intro k f hf
  rcases h.2 k f hf with h1 | h1
  · exact Nat.le_trans (hvb k f h1) h.1
  · exact h1.2

/-- a fresh step of the store keeps the live table coherent -/
theorem fresh_coherent (live : List (String × Cached)) (st st' : State) (h : Fresh st st')
    (hco : Coherent live st.groups) (hb : Bounded live st.ctr) :
    Coherent live st'.groups ∧ Bounded live st'.ctr := by
  refine ⟨coherent_of_versions live _ _ hco ?_, fun n c hn => Nat.le_trans (hb n c hn) h.1⟩
  intro n c hn f' hf' hv
  rcases h.2 c.key f' hf' with h1 | h1
  · exact h1
  · have := hb n c hn
    omega

theorem readLive_bounded (live : List (String × Cached)) (st : State) (name : String)
    (hvb : VB st) (hb : Bounded live st.ctr) : Bounded (readLive live st name).2 st.ctr := by
  unfold readLive
  split
  · next k f s hr =>
    intro n c hn
    simp only [] at hn
    by_cases hnn : n = name
    · subst hnn
      rw [lookup_upsert_self] at hn
      simp only [Option.some.injEq] at hn
      subst hn
      obtain ⟨f0, hf0, hf⟩ := readDescription_lookup _ _ _ _ _ _ hr
      subst hf
      exact hvb k f0 hf0
    · rw [lookup_upsert_ne _ _ _ _ hnn] at hn
      exact hb n c hn
  · intro n c hn
    simp only [] at hn
    by_cases hnn : n = name
    · subst hnn; rw [lookup_erase_self] at hn; simp at hn
    · rw [lookup_erase_ne _ _ _ hnn] at hn
      exact hb n c hn

theorem addLive_bounded (live : List (String × Cached)) (st : State) (name : String)
    (hvb : VB st) (hb : Bounded live st.ctr) : Bounded (addLive live st name).2 st.ctr := by
  unfold addLive
  split
  · split
    · exact hb
    · exact readLive_bounded live st name hvb hb
  · exact readLive_bounded live st name hvb hb

theorem handleFault_fresh (fx : Fixes) (st : State) (r : Request) : Fresh st (handleFault fx st r).2 := by
  unfold handleFault
  simp only []
  split
  · exact fresh_refl st
  · exact handle_fresh fx st r

/-- the harness writes a definition file (ops `group`): a new version -/
def fixtureWrite (st : State) (key : String) (d : Desc) : State :=
  { st with groups := upsert key { desc := d, ver := st.ctr + 1 } st.groups, ctr := st.ctr + 1 }

theorem fixtureWrite_fresh (st : State) (key : String) (d : Desc) : Fresh st (fixtureWrite st key d) := by
  refine ⟨Nat.le_succ _, ?_⟩
  intro k f' hf'
  simp only [fixtureWrite] at hf'
  by_cases hk : k = key
  · subst hk
    rw [lookup_upsert_self] at hf'
    simp only [Option.some.injEq] at hf'
    subst hf'
    right
    simp only [fixtureWrite]
    omega
  · left; rwa [lookup_upsert_ne _ _ _ _ hk] at hf'

theorem wipe_fresh (st : State) : Fresh st { st with conf := {}, groups := [], tokens := [], tokVer := none } :=
  ⟨Nat.le_refl _, fun _ _ h => by simp [lookup] at h⟩

/-- one step of a history of engine `api`: a request, a request under a write fault, `group.Add`,
a definition file written by the harness, all files removed -/
inductive Step : State × List (String × Cached) → State × List (String × Cached) → Prop
  | request (fx : Fixes) (st : State) (live : List (String × Cached)) (r : Request) :
      Step (st, live) ((handle fx st r).2, live)
  | faulted (fx : Fixes) (st : State) (live : List (String × Cached)) (r : Request) :
      Step (st, live) ((handleFault fx st r).2, live)
  | makeLive (st : State) (live : List (String × Cached)) (name : String) :
      Step (st, live) (st, (addLive live st name).2)
  | fixture (st : State) (live : List (String × Cached)) (key : String) (d : Desc) :
      Step (st, live) (fixtureWrite st key d, live)
  | wipe (st : State) (live : List (String × Cached)) :
      Step (st, live) ({ st with conf := {}, groups := [], tokens := [], tokVer := none }, live)

inductive Reachable (st0 : State) : State × List (String × Cached) → Prop
  | start : Reachable st0 (st0, [])
  | step (a b : State × List (String × Cached)) : Reachable st0 a → Step a b → Reachable st0 b

theorem step_inv (a b : State × List (String × Cached)) (h : Step a b)
    (hi : VB a.1 ∧ Coherent a.2 a.1.groups ∧ Bounded a.2 a.1.ctr) :
    VB b.1 ∧ Coherent b.2 b.1.groups ∧ Bounded b.2 b.1.ctr := by
  obtain ⟨hvb, hco, hb⟩ := hi
  cases h with
  | request fx st live r =>
    have hf := handle_fresh fx st r
    exact ⟨fresh_vb _ _ hf hvb, fresh_coherent live _ _ hf hco hb⟩
  | faulted fx st live r =>
    have hf := handleFault_fresh fx st r
    exact ⟨fresh_vb _ _ hf hvb, fresh_coherent live _ _ hf hco hb⟩
  | makeLive st live name =>
    exact ⟨hvb, addLive_coherent live st name hco, addLive_bounded live st name hvb hb⟩
  | fixture st live key d =>
    have hf := fixtureWrite_fresh st key d
    exact ⟨fresh_vb _ _ hf hvb, fresh_coherent live _ _ hf hco hb⟩
  | wipe st live =>
    have hf := wipe_fresh st
    exact ⟨fresh_vb _ _ hf hvb, fresh_coherent live _ _ hf hco hb⟩

/-- **Every reachable live table is coherent with the store.** -/
theorem C17_live_reachable (st0 : State) (hvb : VB st0) (p : State × List (String × Cached))
    (h : Reachable st0 p) : Coherent p.2 p.1.groups := by
  have : VB p.1 ∧ Coherent p.2 p.1.groups ∧ Bounded p.2 p.1.ctr := by
    induction h with
    | start => exact ⟨hvb, fun _ _ h => by simp [lookup] at h, fun _ _ h => by simp [lookup] at h⟩
    | step a b _ hs ih => exact step_inv a b hs ih
  exact this.2.1

/-- **C17 with live groups.**  At every state that requests (also faulted ones), harness writes and
`group.Add` can reach, the description that `group.GetDescription` hands the API for ANY name —
live or not — is the one obtained by resolving the name and reading the file; so the model's
authorisation theorems (C17_authz, C17_refused: "an administrator of the governing definition")
are statements about the real `GetDescription` with live groups too. -/
theorem C17_live_authorisation (st0 : State) (hvb : VB st0) (st : State) (live : List (String × Cached))
    (h : Reachable st0 (st, live)) (name : String) :
    getDescriptionLive live st name = getDescription st name :=
  C17_cached_description_is_current live st name (C17_live_reachable st0 hvb (st, live) h)

/-! #### What the freshness test is for: the seeded variant -/

def getDescriptionLiveByFile (live : List (String × Cached)) (st : State) (name : String) : Option (String × GroupFile × Bool) :=
  match lookup name live with
  | some c =>
    if descriptionUnchangedByFile st.groups c then some (c.key, c.file, c.isSub)
    else readDescription st.groups name true
  | none => readDescription st.groups name true

def parentFile : GroupFile :=
  { ver := 1, desc := { autoSub := true, users := [("usrPad", { password := .plain "pp", perms := .named "admin" })] } }
def childFile : GroupFile :=
  { ver := 2, desc := { users := [("usrCad", { password := .plain "cp", perms := .named "admin" })] } }
def st1 : State := { groups := [("par", parentFile)], ctr := 1 }
def st2 : State := { groups := [("par", parentFile), ("par/child", childFile)], ctr := 2 }
def live1 : List (String × Cached) := (addLive [] st1 "par/child").2

-- the subgroup is live on its parent's definition
example : live1 = [("par/child", { key := "par", file := parentFile, isSub := true })] := by decide
-- it gets a definition of its own: the real test notices that the name resolves elsewhere now
example : getDescriptionLive live1 st2 "par/child" = some ("par/child", childFile, false) := by decide
-- the test by file name does not: the parent's users keep administering the subgroup
theorem C17_stale_by_file_name :
    getDescriptionLiveByFile live1 st2 "par/child" = some ("par", parentFile, true) ∧
    getDescriptionLiveByFile live1 st2 "par/child" ≠ getDescription st2 "par/child" := by decide


-- non-vacuity of the reachability theorem: the history of the seeded scenario
example : Reachable st1 (st2, live1) := by
  have h1 : Reachable st1 (st1, live1) := .step _ _ .start (.makeLive st1 [] "par/child")
  exact .step _ _ h1 (.fixture st1 live1 "par/child" childFile.desc)
example : VB st1 := by
  intro k f h
  simp only [st1, lookup] at h
  split at h
  · simp only [Option.some.injEq] at h; subst h; decide
  · simp at h

end Galene.Props.C17Live
