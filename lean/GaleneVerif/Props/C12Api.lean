import GaleneVerif.Model.Api
/-
C12, HTTP part — every request to the administrative API receives a response.

`Galene.Api.handle fx` has the outcome `crash` where the Go code dereferences a nil pointer;
`fx : Fixes` are the switches for pending `fix:` commits.

* TODAY (`fx.p13 = false`) the full statement is FALSE: `C12_api_crash_counterexample`
  (DESIGN P13).  `PUT /galene-api/v0/.groups/<g>/.tokens/<unknown>` by an authorised
  administrator reaches `old.Group` with the nil token that `token.Get` returned together
  with `os.ErrNotExist` (webserver/api.go, tokensHandler).  net/http recovers the panic, so
  the process survives, but the connection is closed without a response.
  `C12_api_no_crash_partial` proves that this is the ONLY crashing input of the model, and
  `C12_api_crash_iff` characterises the crashing requests exactly.
* WITH THE FIX (`fx.p13 = true`: `if old != nil && old.Group != g`) the full statement holds:
  `C12_api_no_crash_with_fix`, for every state and request; the formerly crashing request
  creates the token (201), as PUT on a new name is documented to do.
-/
namespace Galene.Props.C12Api
open Galene.Api

def NC (p : Outcome × State) : Prop := p.1 ≠ .crash

theorem done_nc (st : State) (r : Resp) : NC (done st r) := by simp [NC, done]

theorem finish_nc (st : State) (res : Except Err State) (ok : Resp) : NC (finish st res ok) := by
  unfold finish NC; split <;> simp

macro "nc_tac" : tactic => `(tactic|
  (repeat' (first | split | (simp only []))) <;>
  first
  | exact done_nc _ _
  | exact finish_nc _ _ _
  | (simp [NC]; done))

theorem actGroup_nc (fx : Fixes) (st : State) (r : Request) (g : String) : NC (actGroup fx st r g) := by
  unfold actGroup; nc_tac
theorem actUser_nc (st : State) (r : Request) (g : String) (w : Who) : NC (actUser st r g w) := by
  unfold actUser; nc_tac
theorem actPassword_nc (st : State) (r : Request) (g : String) (w : Who) : NC (actPassword st r g w) := by
  unfold actPassword; nc_tac
theorem actKeys_nc (st : State) (r : Request) (g : String) : NC (actKeys st r g) := by
  unfold actKeys; nc_tac
theorem actTokenList_nc (st : State) (r : Request) (g : String) : NC (actTokenList st r g) := by
  unfold actTokenList; nc_tac

/-- the request that crashes today: PUT of a token that does not exist -/
def putUnknownToken (st : State) (r : Request) : Prop :=
  ∃ g t, (route r.path).action = .token g t ∧ r.method = .PUT ∧ lookup t st.tokens = none

theorem actToken_nc (fx : Fixes) (st : State) (r : Request) (g t : String)
    (h : fx.p13 = true ∨ ¬ (r.method = .PUT ∧ lookup t st.tokens = none)) : NC (actToken fx st r g t) := by
  unfold actToken
  split
  · exact done_nc _ _
  · split
    · nc_tac
    · nc_tac
    · next hm =>
      simp only
      split
      · next hc =>
        exfalso
        simp only [Bool.and_eq_true, Option.isNone_iff_eq_none, Bool.not_eq_true'] at hc
        rcases h with h | h
        · rw [h] at hc; simp at hc
        · exact h ⟨hm, hc.1⟩
      · nc_tac
    · nc_tac
    · nc_tac

theorem act_nc (fx : Fixes) (st : State) (r : Request) (a : Action)
    (h : fx.p13 = true ∨ ∀ g t, a = .token g t → ¬ (r.method = .PUT ∧ lookup t st.tokens = none)) :
    NC (act fx st r a) := by
  cases a <;> simp only [act]
  case notFoundPlain => exact done_nc _ _
  case notFoundPage => exact done_nc _ _
  case stats => nc_tac
  case listGroups => nc_tac
  case group g => exact actGroup_nc _ _ _ _
  case listUsers g => nc_tac
  case user g w => exact actUser_nc _ _ _ _
  case password g w => exact actPassword_nc _ _ _ _
  case keys g => exact actKeys_nc _ _ _
  case tokenList g => exact actTokenList_nc _ _ _
  case token g t =>
    apply actToken_nc
    rcases h with h | h
    · exact Or.inl h
    · exact Or.inr (h g t rfl)

theorem handle_nc (fx : Fixes) (st : State) (r : Request)
    (h : fx.p13 = true ∨ ∀ g t, (route r.path).action = .token g t → ¬ (r.method = .PUT ∧ lookup t st.tokens = none)) :
    NC (handle fx st r) := by
  unfold handle
  simp only
  split
  · exact done_nc _ _
  · split
    · exact done_nc _ _
    · exact act_nc _ _ _ _ h

/-- **C12 (HTTP), partial — the tree as it is.**  Every request other than a PUT of an unknown
token receives a response. -/
theorem C12_api_no_crash_partial (fx : Fixes) (st : State) (r : Request) (h : ¬ putUnknownToken st r) :
    (handle fx st r).1 ≠ .crash :=
  handle_nc fx st r (Or.inr fun g t ha hc => h ⟨g, t, ha, hc.1, hc.2⟩)

/-- **C12 (HTTP), full — with the nil guard of P13.**  Every request receives a response. -/
theorem C12_api_no_crash_with_fix (fx : Fixes) (hfix : fx.p13 = true) (st : State) (r : Request) :
    (handle fx st r).1 ≠ .crash :=
  handle_nc fx st r (Or.inl hfix)

/-- Without the fix, exactly the authorised PUTs of unknown tokens (of an existing group) crash. -/
theorem C12_api_crash_iff (st : State) (r : Request) :
    (handle { p13 := false } st r).1 = .crash ↔
      ∃ g t, (route r.path).action = .token g t ∧ r.method = .PUT ∧ lookup t st.tokens = none ∧
        authorised st r.cred (route r.path).auth = true ∧ ¬ (g ≠ "" ∧ (getDescription st g).isNone = true) := by
  constructor
  · intro hc
    have hput : putUnknownToken st r := by
      apply Classical.byContradiction
      intro hn
      exact C12_api_no_crash_partial _ st r hn hc
    obtain ⟨g, t, ha, hm, hl⟩ := hput
    refine ⟨g, t, ha, hm, hl, ?_⟩
    unfold handle at hc
    simp only at hc
    split at hc
    · simp [done] at hc
    · split at hc
      · simp [done] at hc
      · next hauth =>
        refine ⟨by simpa using hauth, ?_⟩
        rw [ha] at hc
        simp only [act, actToken] at hc
        split at hc
        · simp [done] at hc
        · next hg => simpa using hg
  · rintro ⟨g, t, ha, hm, hl, hauth, hg⟩
    unfold handle
    simp only
    have hcors : ¬ ((route r.path).cors && decide (r.method = .OPTIONS)) = true := by simp [hm]
    rw [if_neg hcors, if_neg (by simp [hauth]), ha]
    simp only [act, actToken]
    rw [if_neg (by simpa using hg)]
    simp [hm, hl]

def exState : State :=
  { conf := { writable := true, users := [("root", { password := .plain "r", perms := .named "admin" })] },
    groups := [("grpA", { ver := 1, desc := {} })], ctr := 1 }

def exReq : Request :=
  { method := .PUT, path := "/galene-api/v0/.groups/grpA/.tokens/nonesuch", cred := .basic "root" "r",
    ctype := .json, body := .tok { perms := ["op"], valid := .ok } }

/-- **The full statement is false** (P13): an administrator's PUT of a token that does not exist
gets no response. -/
theorem C12_api_crash_counterexample : ∃ st r, (handle { p13 := false } st r).1 = .crash :=
  ⟨exState, exReq, by decide⟩

/-- with the fix the same request creates the token -/
example : (handle { p13 := true } exState exReq).1 = .resp { status := 201 } := by decide
example : (handle { p13 := true } exState exReq).2.tokens = [("nonesuch", { group := "grpA", perms := ["op"], valid := .ok })] := by decide

/-- the same request by someone who is not an administrator is refused, not crashed -/
example : (handle {} exState { exReq with cred := .basic "root" "wrong" }).1 = .resp { status := 401, body := .haha } := by decide
/-- and the guard hypothesis is satisfiable by real traffic: PUT of an existing token -/
example : (handle {} { exState with tokens := [("nonesuch", { group := "grpA" })], tokVer := some 2, ctr := 2 } exReq).1
    = .resp { status := 204 } := by decide

end Galene.Props.C12Api
