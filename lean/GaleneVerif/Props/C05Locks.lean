import GaleneVerif.Generated.Locks
/-!
# C05 — the mutex fact the refinement proof relies on

`Props/C05.lean` proves the cache properties for sequential histories; concurrent readers
are covered because every exported method of `packetcache.Cache` runs entirely under
`cache.mu`.  That fact is regenerated from the source on every run
(`Generated.cacheMethodsLocked`: per exported method, whether the method takes `Cache.mu`
itself and every access to a field of the cache, in the method or in its callees, happens
with `Cache.mu` held) and re-decided here.
-/
namespace Galene.C05Locks
open Galene.Generated

/-- Re-decided on every run: every exported method of `packetcache.Cache` holds `Cache.mu`
around all its accesses to the cache. -/
theorem C05_cache_methods_locked : cacheMethodsLocked.all (fun m => m.2) = true := by decide

/-- the list is not empty: the methods C05 talks about are all there -/
theorem C05_cache_methods_present :
    ["packetcache.Cache.Store", "packetcache.Cache.Get", "packetcache.Cache.GetAt",
     "packetcache.Cache.Resize", "packetcache.Cache.ResizeCond"].all
      (fun n => cacheMethodsLocked.any (fun m => m.1 == n)) = true := by decide

end Galene.C05Locks
