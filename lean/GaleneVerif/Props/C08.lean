import GaleneVerif.Model.Auth
/-
C08 — password login needs the right password and yields exactly the configured rights.

All theorems are about the executable model in `Model/Auth.lean` (tied to the Go code by the
`auth` engine) and hold for every description, every username/password and every `Hash`
(the cryptographic primitives are a parameter; only `C08_hash_roundtrip*` assume anything
about them, and say what).

  C08_accept_iff              a login is accepted iff the username is valid and the governing
                              entry's password matches (named entry first, wildcard only if absent)
  C08_refusal_kinds           which error each refused login gets (all error branches)
  C08_entry_shadows_wildcard  once a name has an entry, the wildcard user is irrelevant
  C08_no_password_never_matches  empty type / absent password field never matches
  C08_null_password_never_matches  `"password": null` is no password (zero Password, never matches)
  C08_perms_exact             granted list = the governing entry's list; role expansion formula;
                              `record`/`token` rules for the real role table; raw lists unchanged
  C08_refusal_no_perms        a refusal grants nothing and leaves the member list unchanged
  C08_hash_roundtrip          makePassword then Match = equality of passwords, on the domain where
                              the hash is injective; pbkdf2 with an empty key matches everything
  bcryptStream_*              what the 72-byte bcrypt key schedule distinguishes
  upgradeDescription_spec     obsolete op/presenter/other fields never override an entry; first wins
  validUsername_iff           valid usernames = "" or no backslash and no empty/"."/".." component
-/
namespace Galene.Props.C08
open Galene.Auth

/-! ### small facts about the building blocks -/

/-- `ConstantTimeCompare` is equality of byte strings. -/
theorem constantTimeCompare_eq (a b : Bytes) : constantTimeCompare a b = decide (a = b) := by
  unfold constantTimeCompare
  by_cases hl : a.length = b.length
  · simp [hl]
  · have : a ≠ b := fun h => hl (by rw [h])
    simp [hl, this]

theorem hexVal_hexDigit (n : Nat) (h : n < 16) : hexVal (hexDigit n) = some n := by
  unfold hexDigit hexVal
  by_cases h10 : n < 10
  · simp only [h10, if_true]
    have : 48 ≤ 48 + n ∧ 48 + n ≤ 57 := by omega
    simp only [this, and_self, if_true]
    congr 1; omega
  · simp only [h10, if_false]
    have h1 : ¬ (48 ≤ 87 + n ∧ 87 + n ≤ 57) := by omega
    have h2 : 97 ≤ 87 + n ∧ 87 + n ≤ 102 := by omega
    simp only [h1, h2, and_self, if_true, if_false]
    congr 1; omega

/-- `hex.DecodeString(hex.EncodeToString(b)) = b` for byte strings. -/
theorem hexDecode_hexEncode (bs : Bytes) (h : ∀ b ∈ bs, b < 256) : hexDecode (hexEncode bs) = some bs := by
  induction bs with
  | nil => rfl
  | cons b rest ih =>
    have hb : b < 256 := h b (by simp)
    have ih' := ih (fun x hx => h x (by simp [hx]))
    simp only [hexEncode, hexDecode]
    rw [hexVal_hexDigit _ (Nat.mod_lt _ (by decide)), hexVal_hexDigit _ (Nat.mod_lt _ (by decide)), ih']
    simp only
    congr 2
    omega

/-! ### acceptance -/

/-- the entry that decides a login for `u`: the named entry if there is one, else the wildcard user -/
def governing (d : Description) (u : Bytes) : Option UserDescription :=
  match d.lookup u with
  | some e => some e
  | none => d.wildcardUser

/-- `getPasswordPermission` succeeds iff the governing entry's password matches, and then returns
that entry's permission set. -/
theorem getPasswordPermission_ok_iff (H : Hash) (d : Description) (u pw : Bytes) (ps : Permissions) :
    getPasswordPermission H d u pw = .ok ps ↔
      ∃ e, governing d u = some e ∧ e.password.matchPw H pw = .ok true ∧ ps = e.permissions := by
  unfold getPasswordPermission governing
  cases hl : d.lookup u with
  | some c =>
    simp only
    cases hm : c.password.matchPw H pw with
    | error e => simp [hm]
    | ok b =>
      cases b with
      | true => simp [hm, eq_comm]
      | false => simp [hm]
  | none =>
    simp only
    cases hw : d.wildcardUser with
    | none => simp
    | some w =>
      simp only
      cases hm : w.password.matchPw H pw with
      | error e => simp [hm]
      | ok b =>
        cases b with
        | true => simp [hm, eq_comm]
        | false => simp [hm]

/-- **C08_accept_iff.**  A username/password login is accepted iff the username is valid and
either the name has an entry whose password matches, or it has no entry, a wildcard user exists
and the wildcard user's password matches.  (A login without a username is never accepted:
`C08_no_username`.) -/
theorem C08_accept_iff (H : Hash) (roles : RoleTable) (d : Description) (u pw : Bytes) :
    (∃ r, getPermission H roles d (some u) pw = .ok r) ↔
      validUsername u = true ∧
      ((∃ e, d.lookup u = some e ∧ e.password.matchPw H pw = .ok true) ∨
       (d.lookup u = none ∧ ∃ w, d.wildcardUser = some w ∧ w.password.matchPw H pw = .ok true)) := by
  unfold getPermission
  simp only
  cases hg : getPasswordPermission H d u pw with
  | error e =>
    have hno : ¬ ∃ ps, getPasswordPermission H d u pw = .ok ps := by simp [hg]
    simp only [reduceCtorEq, exists_false, false_iff]
    intro ⟨_, h⟩
    apply hno
    rcases h with ⟨e, hl, hm⟩ | ⟨hl, w, hw, hm⟩
    · exact ⟨e.permissions, (getPasswordPermission_ok_iff H d u pw _).2 ⟨e, by simp [governing, hl], hm, rfl⟩⟩
    · exact ⟨w.permissions, (getPasswordPermission_ok_iff H d u pw _).2 ⟨w, by simp [governing, hl, hw], hm, rfl⟩⟩
  | ok ps =>
    obtain ⟨e, hgov, hm, _⟩ := (getPasswordPermission_ok_iff H d u pw ps).1 hg
    have hdisj : (∃ e, d.lookup u = some e ∧ e.password.matchPw H pw = .ok true) ∨
        (d.lookup u = none ∧ ∃ w, d.wildcardUser = some w ∧ w.password.matchPw H pw = .ok true) := by
      unfold governing at hgov
      cases hl : d.lookup u with
      | some c => rw [hl] at hgov; simp only [Option.some.injEq] at hgov; subst hgov; exact .inl ⟨c, rfl, hm⟩
      | none => rw [hl] at hgov; exact .inr ⟨rfl, e, hgov, hm⟩
    by_cases hv : validUsername u = true
    · simp [hv, hdisj]
    · simp [hv]

/-- A login that provides neither a username nor a token is refused. -/
theorem C08_no_username (H : Hash) (roles : RoleTable) (d : Description) (pw : Bytes) :
    getPermission H roles d none pw = .error .neither := rfl

/-- **C08_refusal_kinds.**  Every error branch of the password login: which refusal a login gets.
The password is examined before the username is validated, so an invalid username is reported
only when the password stage succeeded. -/
theorem C08_refusal_kinds (H : Hash) (roles : RoleTable) (d : Description) (u pw : Bytes) (err : LoginErr) :
    getPermission H roles d (some u) pw = .error err ↔
      (match err with
       | .pw me => ∃ e, d.lookup u = some e ∧ e.password.matchPw H pw = .error me
       | .badPassword => ∃ e, d.lookup u = some e ∧ e.password.matchPw H pw = .ok false
       | .noSuchUser => d.lookup u = none ∧
           ∀ w, d.wildcardUser = some w → w.password.matchPw H pw ≠ .ok true
       | .invalidUsername => validUsername u = false ∧
           ∃ e, governing d u = some e ∧ e.password.matchPw H pw = .ok true
       | .neither => False) := by
  unfold getPermission
  simp only
  cases hg : getPasswordPermission H d u pw with
  | ok ps =>
    obtain ⟨e, hgov, hm, _⟩ := (getPasswordPermission_ok_iff H d u pw ps).1 hg
    have hgov' := hgov
    unfold governing at hgov
    by_cases hv : validUsername u = true
    · simp only [hv, if_true, reduceCtorEq, false_iff]
      cases err with
      | pw me =>
        rintro ⟨c, hl, hc⟩; rw [hl] at hgov; simp only [Option.some.injEq] at hgov; subst hgov
        rw [hm] at hc; cases hc
      | badPassword =>
        rintro ⟨c, hl, hc⟩; rw [hl] at hgov; simp only [Option.some.injEq] at hgov; subst hgov
        rw [hm] at hc; cases hc
      | noSuchUser =>
        rintro ⟨hl, hw⟩; rw [hl] at hgov; exact hw e hgov hm
      | invalidUsername => simp
      | neither => simp
    · have hv' : validUsername u = false := by simpa using hv
      simp only [hv', Bool.false_eq_true, if_false, Except.error.injEq]
      cases err with
      | pw me =>
        simp only [reduceCtorEq, false_iff]
        rintro ⟨c, hl, hc⟩; rw [hl] at hgov; simp only [Option.some.injEq] at hgov; subst hgov
        rw [hm] at hc; cases hc
      | badPassword =>
        simp only [reduceCtorEq, false_iff]
        rintro ⟨c, hl, hc⟩; rw [hl] at hgov; simp only [Option.some.injEq] at hgov; subst hgov
        rw [hm] at hc; cases hc
      | noSuchUser =>
        simp only [reduceCtorEq, false_iff]
        rintro ⟨hl, hw⟩; rw [hl] at hgov; exact hw e hgov hm
      | invalidUsername => simp only [true_iff]; exact ⟨trivial, e, hgov', hm⟩
      | neither => simp
  | error e0 =>
    simp only [Except.error.injEq]
    have hnot : ∀ e, governing d u = some e → e.password.matchPw H pw ≠ .ok true := by
      intro e hgov hm
      have := (getPasswordPermission_ok_iff H d u pw e.permissions).2 ⟨e, hgov, hm, rfl⟩
      rw [hg] at this; cases this
    unfold getPasswordPermission at hg
    cases hl : d.lookup u with
    | some c =>
      rw [hl] at hg
      simp only at hg
      cases hm : c.password.matchPw H pw with
      | error me =>
        rw [hm] at hg; simp only [Except.error.injEq] at hg; subst hg
        cases err with
        | pw me' => simp [hm]
        | badPassword => simp [hm]
        | noSuchUser => simp
        | invalidUsername =>
          simp only [reduceCtorEq, false_iff]
          rintro ⟨_, e, hgov, hme⟩
          exact hnot e hgov hme
        | neither => simp
      | ok b =>
        cases b with
        | true => rw [hm] at hg; cases hg
        | false =>
          rw [hm] at hg; simp only [Except.error.injEq] at hg; subst hg
          cases err with
          | pw me' => simp [hm]
          | badPassword => simp [hm]
          | noSuchUser => simp
          | invalidUsername =>
            simp only [reduceCtorEq, false_iff]
            rintro ⟨_, e, hgov, hme⟩
            exact hnot e hgov hme
          | neither => simp
    | none =>
      rw [hl] at hg
      simp only at hg
      have he0 : e0 = .noSuchUser := by
        cases hw : d.wildcardUser with
        | none => rw [hw] at hg; simp only [Except.error.injEq] at hg; exact hg.symm
        | some w =>
          rw [hw] at hg; simp only at hg
          cases hm : w.password.matchPw H pw with
          | error me => rw [hm] at hg; simp only [Except.error.injEq] at hg; exact hg.symm
          | ok b =>
            cases b with
            | true => rw [hm] at hg; cases hg
            | false => rw [hm] at hg; simp only [Except.error.injEq] at hg; exact hg.symm
      subst he0
      cases err with
      | pw me' => simp
      | badPassword => simp
      | noSuchUser =>
        simp only [true_iff, true_and]
        intro w hw
        exact hnot w (by simp [governing, hl, hw])
      | invalidUsername =>
        simp only [reduceCtorEq, false_iff]
        rintro ⟨_, e, hgov, hme⟩
        exact hnot e hgov hme
      | neither => simp

/-! ### shadowing, empty passwords -/

/-- **C08_entry_shadows_wildcard.**  If the name has an entry, the outcome of the login does not
depend on the wildcard user at all: it is the same whatever `wildcard-user` the description has
(in particular, none). -/
theorem C08_entry_shadows_wildcard (H : Hash) (roles : RoleTable) (d : Description) (u pw : Bytes)
    (e : UserDescription) (he : d.lookup u = some e) (w' : Option UserDescription) :
    getPermission H roles { d with wildcardUser := w' } (some u) pw = getPermission H roles d (some u) pw := by
  have hl : ({ d with wildcardUser := w' } : Description).lookup u = some e := by
    simpa [Description.lookup] using he
  unfold getPermission getPasswordPermission
  simp only [hl, he]
  cases e.password.matchPw H pw with
  | error _ => rfl
  | ok b => cases b <;> simp [Permissions.perms]

/-- ... and so an entry whose own password does not match (wrong, or erroring) refuses the login
even when the wildcard user would have accepted the same password. -/
theorem C08_entry_shadows_wildcard_refuses (H : Hash) (roles : RoleTable) (d : Description) (u pw : Bytes)
    (e : UserDescription) (he : d.lookup u = some e) (hm : e.password.matchPw H pw ≠ .ok true) :
    ∃ err, getPermission H roles d (some u) pw = .error err ∧
      (err = .badPassword ∨ ∃ me, err = .pw me) := by
  unfold getPermission getPasswordPermission
  simp only [he]
  cases hmm : e.password.matchPw H pw with
  | error me => exact ⟨.pw me, rfl, .inr ⟨me, rfl⟩⟩
  | ok b =>
    cases b with
    | true => exact absurd hmm hm
    | false => exact ⟨.badPassword, rfl, .inl rfl⟩

/-- A password record with an empty type matches no password. -/
theorem matchPw_empty_type (H : Hash) (p : Password) (pw : Bytes) (h : p.type = "") :
    p.matchPw H pw = .ok false := by
  unfold Password.matchPw; simp [h]

/-- An absent `password` field, and an object without a (non-null) `type`, decode to the empty type. -/
theorem ofJson_absent_type :
    (∃ p, Password.ofJson .absent = .ok p ∧ p.type = "") ∧
    (∀ h k s i, ∃ p, Password.ofJson (.obj none h k s i) = .ok p ∧ p.type = "") :=
  ⟨⟨_, rfl, rfl⟩, fun _ _ _ _ => ⟨_, rfl, rfl⟩⟩

/-- **C08_no_password_never_matches.**  An entry with no password (empty type) refuses every
login under its name with `bad password`, whatever the wildcard user is. -/
theorem C08_no_password_never_matches (H : Hash) (roles : RoleTable) (d : Description) (u pw : Bytes)
    (e : UserDescription) (he : d.lookup u = some e) (ht : e.password.type = "") :
    getPermission H roles d (some u) pw = .error .badPassword := by
  unfold getPermission getPasswordPermission
  simp [he, matchPw_empty_type H e.password pw ht]

/-- The same for a wildcard user without password: unknown names are refused. -/
theorem C08_no_password_wildcard (H : Hash) (roles : RoleTable) (d : Description) (u pw : Bytes)
    (w : UserDescription) (hl : d.lookup u = none) (hw : d.wildcardUser = some w) (ht : w.password.type = "") :
    getPermission H roles d (some u) pw = .error .noSuchUser := by
  unfold getPermission getPasswordPermission
  simp [hl, hw, matchPw_empty_type H w.password pw ht]

/-- `"password": null` is "no password": it decodes to the zero `Password`, whose type is empty, so
it never matches any password (this was a defect of the pinned tree, where `null` decoded to the
plain password ""; repaired by a `fix:` commit and recorded in known-findings.jsonl). -/
theorem C08_null_password_never_matches (H : Hash) (pw : Bytes) :
    ∃ p, Password.ofJson .null = .ok p ∧ p.type = "" ∧ p.matchPw H pw = .ok false := by
  refine ⟨_, rfl, rfl, ?_⟩
  exact matchPw_empty_type H _ pw rfl

/-- The string form `"password": "s"` and the object form `{"type":"plain","key":"s"}` are the
same record, and it matches exactly the password `s` (byte for byte). -/
theorem C08_plain_forms (H : Hash) (s pw : Bytes) :
    Password.ofJson (.str s) = Password.ofJson (.obj (some "plain") none (some s) none none) ∧
    ∃ p, Password.ofJson (.str s) = .ok p ∧ p.matchPw H pw = .ok (decide (pw = s)) := by
  refine ⟨rfl, _, rfl, ?_⟩
  unfold Password.matchPw
  simp [constantTimeCompare_eq]

/-- ... whereas in the obsolete `op`/`presenter`/`other` lists a missing or null password means
"anybody" (the entry is upgraded to the wildcard password). -/
theorem upgradeUser_no_password (H : Hash) (name : Bytes) (role : String) (pw : Bytes) :
    (upgradeUser { username := name, password := none } role).password.matchPw H pw = .ok true := by
  unfold upgradeUser Password.matchPw; simp

/-! ### granted permissions -/

/-- **C08_perms_exact (1).**  An accepted login returns the username unchanged and exactly the
expansion of the governing entry's permission set. -/
theorem C08_perms_exact (H : Hash) (roles : RoleTable) (d : Description) (u pw : Bytes)
    (u' : Bytes) (perms : List String) (h : getPermission H roles d (some u) pw = .ok (u', perms)) :
    u' = u ∧ ∃ e, governing d u = some e ∧ e.password.matchPw H pw = .ok true ∧
      perms = e.permissions.perms roles d := by
  unfold getPermission at h
  simp only at h
  cases hg : getPasswordPermission H d u pw with
  | error e => rw [hg] at h; cases h
  | ok ps =>
    rw [hg] at h
    simp only at h
    obtain ⟨e, hgov, hm, hps⟩ := (getPasswordPermission_ok_iff H d u pw ps).1 hg
    by_cases hv : validUsername u = true
    · simp only [hv, if_true, Except.ok.injEq, Prod.mk.injEq] at h
      exact ⟨h.1.symm, e, hgov, hm, by rw [← h.2, hps]⟩
    · simp [hv] at h

/-- **C08_perms_exact (2): role expansion.**  For a named role the list is the role's list from
the table, preceded by `record` iff the role has `op` (and not already `record`) and the group
allows recording, and by `token` iff the role has `present` (and not already `token`) and the
group has unrestricted tokens.  Nothing else is added, nothing is dropped. -/
theorem perms_named (roles : RoleTable) (p : Permissions) (d : Description) (h : p.name ≠ "") :
    p.perms roles d =
      (if d.unrestrictedTokens = true ∧ "present" ∈ (roles.lookup p.name).getD [] ∧
          "token" ∉ (roles.lookup p.name).getD [] then ["token"] else []) ++
      (if d.allowRecording = true ∧ "op" ∈ (roles.lookup p.name).getD [] ∧
          "record" ∉ (roles.lookup p.name).getD [] then ["record"] else []) ++
      (roles.lookup p.name).getD [] := by
  unfold Permissions.perms
  simp only [h, if_false]
  generalize (roles.lookup p.name).getD [] = l
  cases d.allowRecording <;> cases d.unrestrictedTokens <;>
    by_cases h1 : "op" ∈ l <;> by_cases h2 : "record" ∈ l <;>
    by_cases h3 : "present" ∈ l <;> by_cases h4 : "token" ∈ l <;>
    simp [h1, h2, h3, h4]

/-- **C08_perms_exact (3): raw lists** are returned unchanged, whatever the group's flags. -/
theorem perms_raw (roles : RoleTable) (p : Permissions) (d : Description) (h : p.name = "") :
    p.perms roles d = p.permissions := by
  unfold Permissions.perms; simp [h]

/-- the names of the real role table -/
theorem defaultRoles_names (name : String) (l : List String) (h : defaultRoles.lookup name = some l) :
    (name = "op" ∧ l = ["op", "present", "message", "caption", "token"]) ∨
    (name = "present" ∧ l = ["present", "message"]) ∨
    (name = "message" ∧ l = ["message"]) ∨
    (name = "observe" ∧ l = []) ∨
    (name = "caption" ∧ l = ["caption"]) ∨
    (name = "admin" ∧ l = ["admin"]) := by
  unfold defaultRoles at h
  simp only [List.lookup] at h
  repeat' split at h
  all_goals simp_all

/-- **C08_perms_exact (4): the real role table.**  For every role of `permissionsMap`:
`record` is granted iff the role is `op` and the group allows recording; `token` is granted iff
the role is `op`, or the role is `present` and the group has unrestricted tokens; every other
granted permission is one of the role's, and all of the role's are granted. -/
theorem C08_perms_default_table (name : String) (l : List String) (d : Description)
    (h : defaultRoles.lookup name = some l) :
    let g := ({ name := name } : Permissions).perms defaultRoles d
    ("record" ∈ g ↔ name = "op" ∧ d.allowRecording = true) ∧
    ("token" ∈ g ↔ name = "op" ∨ (name = "present" ∧ d.unrestrictedTokens = true)) ∧
    (∀ x, x ∈ g → x = "record" ∨ x = "token" ∨ x ∈ l) ∧
    (∀ x, x ∈ l → x ∈ g) ∧
    g.Nodup := by
  have hne : name ≠ "" := by
    rcases defaultRoles_names name l h with h | h | h | h | h | h <;> (rw [h.1]; decide)
  intro g
  have hg : g = _ := perms_named defaultRoles { name := name } d hne
  simp only [h, Option.getD_some] at hg
  rcases defaultRoles_names name l h with h | h | h | h | h | h <;>
    obtain ⟨hn, hl⟩ := h <;> subst hn hl <;> rw [hg] <;>
    cases d.allowRecording <;> cases d.unrestrictedTokens <;> decide

/-! ### refusals -/

/-- **C08_refusal_no_perms.**  A refused join grants nothing and leaves the group's member list
exactly as it was; an accepted one appends exactly one member, with the client's id, the
username it gave and the permissions `GetPermission` returned. -/
theorem C08_refusal_no_perms (H : Hash) (roles : RoleTable) (d : Description) (members : List Member)
    (id : String) (user : Option Bytes) (pw : Bytes) :
    (∀ e, (addClient H roles d members id user pw).2 = .error e →
        (addClient H roles d members id user pw).1 = members) ∧
    (∀ perms, (addClient H roles d members id user pw).2 = .ok perms →
        ∃ u, user = some u ∧ getPermission H roles d user pw = .ok (u, perms) ∧
          id ≠ "" ∧ (∀ m ∈ members, m.id ≠ id) ∧
          (addClient H roles d members id user pw).1 = members ++ [{ id := id, username := u, perms := perms }]) := by
  unfold addClient
  cases hg : getPermission H roles d user pw with
  | error e => simp
  | ok r =>
    obtain ⟨u', perms'⟩ := r
    simp only
    by_cases hid : id = ""
    · simp [hid]
    · simp only [hid, if_false]
      by_cases hdup : members.any (fun m => m.id = id) = true
      · simp [hdup]
      · simp only [hdup, Bool.false_eq_true, if_false]
        refine ⟨by simp, ?_⟩
        intro perms hp
        simp only [Except.ok.injEq] at hp
        subst hp
        cases user with
        | none => simp [getPermission] at hg
        | some u =>
          have := (C08_perms_exact H roles d u pw u' perms' hg).1
          subst this
          refine ⟨u', rfl, rfl, hid, ?_, rfl⟩
          intro m hm hmid
          apply hdup
          simp only [List.any_eq_true, decide_eq_true_eq]
          exact ⟨m, hm, hmid⟩

/-- A join is accepted iff the login is accepted and the client id is non-empty and not in use
(in a group without lock, time window, client limit or autokick). -/
theorem addClient_ok_iff (H : Hash) (roles : RoleTable) (d : Description) (members : List Member)
    (id : String) (user : Option Bytes) (pw : Bytes) :
    (∃ perms, (addClient H roles d members id user pw).2 = .ok perms) ↔
      (∃ r, getPermission H roles d user pw = .ok r) ∧ id ≠ "" ∧ ∀ m ∈ members, m.id ≠ id := by
  unfold addClient
  cases hg : getPermission H roles d user pw with
  | error e => simp
  | ok r =>
    obtain ⟨u', perms'⟩ := r
    simp only
    by_cases hid : id = ""
    · simp [hid]
    · simp only [hid, if_false]
      by_cases hdup : members.any (fun m => m.id = id) = true
      · simp only [hdup, if_true, reduceCtorEq, exists_false, false_iff]
        simp only [List.any_eq_true, decide_eq_true_eq] at hdup
        obtain ⟨m, hm, hmid⟩ := hdup
        intro ⟨_, _, h⟩
        exact h m hm hmid
      · simp only [hdup, Bool.false_eq_true, if_false]
        simp only [List.any_eq_true, decide_eq_true_eq, not_exists, not_and] at hdup
        refine ⟨fun _ => ⟨⟨_, rfl⟩, hid, hdup⟩, fun _ => ⟨_, rfl⟩⟩

/-! ### the administration tool's hashes -/

/-- What is assumed of `pbkdf2` on a set `D` of passwords: it returns `keyLen` bytes and, for a
non-empty key, different passwords of `D` give different keys (for the same salt, iteration
count and length).  For the real PBKDF2-HMAC-SHA256 `D` cannot contain both `pw` and
`pw ++ [0]` (HMAC zero-pads its key) nor passwords longer than 64 bytes together with their
SHA-256 digest; on NUL-free passwords of at most 64 bytes the assumption is collision
resistance of the construction. -/
structure Pbkdf2Ok (H : Hash) (D : Bytes → Prop) : Prop where
  bytes : ∀ pw salt iter len, ∀ b ∈ H.pbkdf2 pw salt iter len, b < 256
  length : ∀ pw salt iter len, (H.pbkdf2 pw salt iter len).length = len
  inj : ∀ pw pw' salt iter len, 1 ≤ len → D pw → D pw' →
    H.pbkdf2 pw salt iter len = H.pbkdf2 pw' salt iter len → pw = pw'

/-- What is assumed of bcrypt on a set `D` of passwords: a generated hash verifies for the
password it was generated from, and for no other password of `D`.  For the real bcrypt `D` is
at most the NUL-free passwords of at most 72 bytes (see `bcryptStream_*` below). -/
structure BcryptOk (H : Hash) (D : Bytes → Prop) : Prop where
  self : ∀ pw cost rnd key, H.bcryptGenerate pw cost rnd = .ok key → H.bcryptCompare key pw = .ok true
  other : ∀ pw cost rnd key pw', H.bcryptGenerate pw cost rnd = .ok key → D pw → D pw' → pw' ≠ pw →
    H.bcryptCompare key pw' = .ok false

/-- pbkdf2 round trip: the record made from `pw` verifies for `pw` (always), and for no other
password of `D` provided the key length is at least 1. -/
theorem hash_roundtrip_pbkdf2 (H : Hash) (D : Bytes → Prop) (hP : Pbkdf2Ok H D)
    (pw : Bytes) (iter length saltlen cost : Int) (salt rnd : Bytes) (hsalt : ∀ b ∈ salt, b < 256)
    (p : Password) (hmk : makePassword H pw "pbkdf2" iter length saltlen cost salt rnd = .ok p) :
    p.matchPw H pw = .ok true ∧
    (∀ pw', 1 ≤ length → D pw → D pw' → p.matchPw H pw' = .ok (decide (pw' = pw))) ∧
    (length = 0 → ∀ pw', p.matchPw H pw' = .ok true) := by
  unfold makePassword at hmk
  by_cases hs : saltlen < 0
  · simp [hs] at hmk
  · by_cases hl : length < 0
    · simp [hs, hl] at hmk
    · simp only [hs, hl, if_false, if_true, MakeResult.ok.injEq] at hmk
      subst hmk
      have hk := hexDecode_hexEncode _ (hP.bytes pw salt iter length.toNat)
      have hsl := hexDecode_hexEncode salt hsalt
      have hm : ∀ pw', Password.matchPw H
          { type := "pbkdf2", hash := "sha-256", key := some (hexEncode (H.pbkdf2 pw salt iter length.toNat)),
            salt := hexEncode salt, iterations := iter } pw' =
          .ok (decide (H.pbkdf2 pw salt iter length.toNat = H.pbkdf2 pw' salt iter length.toNat)) := by
        intro pw'
        unfold Password.matchPw
        simp [hk, hsl, hP.length]
      refine ⟨by rw [hm]; simp, ?_, ?_⟩
      · intro pw' hlen hD hD'
        rw [hm]
        congr 1
        by_cases he : pw' = pw
        · simp [he]
        · have : H.pbkdf2 pw salt iter length.toNat ≠ H.pbkdf2 pw' salt iter length.toNat := by
            intro heq
            exact he (hP.inj pw pw' salt iter length.toNat (by omega) hD hD' heq).symm
          simp [he, this]
      · intro h0 pw'
        rw [hm]
        have e1 : H.pbkdf2 pw salt iter length.toNat = [] :=
          List.eq_nil_of_length_eq_zero (by rw [hP.length]; omega)
        have e2 : H.pbkdf2 pw' salt iter length.toNat = [] :=
          List.eq_nil_of_length_eq_zero (by rw [hP.length]; omega)
        simp [e1, e2]

/-- bcrypt round trip -/
theorem hash_roundtrip_bcrypt (H : Hash) (D : Bytes → Prop) (hB : BcryptOk H D)
    (pw : Bytes) (iter length saltlen cost : Int) (salt rnd : Bytes)
    (p : Password) (hmk : makePassword H pw "bcrypt" iter length saltlen cost salt rnd = .ok p) :
    p.matchPw H pw = .ok true ∧
    (∀ pw', D pw → D pw' → p.matchPw H pw' = .ok (decide (pw' = pw))) := by
  unfold makePassword at hmk
  by_cases hs : saltlen < 0
  · simp [hs] at hmk
  · have h1 : ("bcrypt" : String) ≠ "pbkdf2" := by decide
    simp only [hs, h1, if_false, if_true] at hmk
    cases hg : H.bcryptGenerate pw cost rnd with
    | error e => rw [hg] at hmk; cases hmk
    | ok key =>
      rw [hg] at hmk
      simp only [MakeResult.ok.injEq] at hmk
      subst hmk
      have hm : ∀ pw' b, H.bcryptCompare key pw' = .ok b →
          Password.matchPw H { type := "bcrypt", key := some key } pw' = .ok b := by
        intro pw' b hb
        unfold Password.matchPw
        simp [hb]
      refine ⟨hm pw true (hB.self pw cost rnd key hg), ?_⟩
      intro pw' hD hD'
      by_cases he : pw' = pw
      · subst he; simpa using hm pw' true (hB.self pw' cost rnd key hg)
      · simpa [he] using hm pw' false (hB.other pw cost rnd key pw' hg hD hD' he)

/-- the `wildcard` algorithm only makes a record from the empty password (otherwise the tool
exits), and that record matches every password: it is not a hash -/
theorem hash_roundtrip_wildcard (H : Hash) (pw : Bytes) (iter length saltlen cost : Int) (salt rnd : Bytes)
    (p : Password) (hmk : makePassword H pw "wildcard" iter length saltlen cost salt rnd = .ok p) :
    pw = [] ∧ ∀ pw', p.matchPw H pw' = .ok true := by
  unfold makePassword at hmk
  by_cases hs : saltlen < 0
  · simp [hs] at hmk
  · have h1 : ("wildcard" : String) ≠ "pbkdf2" := by decide
    have h2 : ("wildcard" : String) ≠ "bcrypt" := by decide
    simp only [hs, h1, h2, if_false, if_true] at hmk
    by_cases hpw : pw = []
    · simp only [hpw, ne_eq, not_true_eq_false, if_false, MakeResult.ok.injEq] at hmk
      subst hmk
      refine ⟨hpw, fun pw' => ?_⟩
      unfold Password.matchPw; simp
    · simp [hpw] at hmk

/-- the algorithms `makePassword` supports -/
theorem makePassword_algorithms (H : Hash) (pw : Bytes) (alg : String) (iter length saltlen cost : Int)
    (salt rnd : Bytes) (p : Password) (hmk : makePassword H pw alg iter length saltlen cost salt rnd = .ok p) :
    alg = "pbkdf2" ∨ alg = "bcrypt" ∨ alg = "wildcard" := by
  unfold makePassword at hmk
  by_cases h1 : alg = "pbkdf2"
  · exact .inl h1
  · by_cases h2 : alg = "bcrypt"
    · exact .inr (.inl h2)
    · by_cases h3 : alg = "wildcard"
      · exact .inr (.inr h3)
      · by_cases hs : saltlen < 0 <;> simp [hs, h1, h2, h3] at hmk

/-- **C08_hash_roundtrip.**  A password record made by the administration tool with a hashing
algorithm (pbkdf2 with a key length of at least 1, or bcrypt) and any other parameters verifies
for the password it was made from, and for no other password of the set `D` on which the
primitives are injective (`Pbkdf2Ok`, `BcryptOk`). -/
theorem C08_hash_roundtrip (H : Hash) (D : Bytes → Prop) (hP : Pbkdf2Ok H D) (hB : BcryptOk H D)
    (pw : Bytes) (alg : String) (iter length saltlen cost : Int) (salt rnd : Bytes)
    (hsalt : ∀ b ∈ salt, b < 256) (p : Password)
    (hmk : makePassword H pw alg iter length saltlen cost salt rnd = .ok p)
    (halg : alg ≠ "wildcard") (hlen : alg = "pbkdf2" → 1 ≤ length) :
    p.matchPw H pw = .ok true ∧
    ∀ pw', D pw → D pw' → p.matchPw H pw' = .ok (decide (pw' = pw)) := by
  rcases makePassword_algorithms H pw alg iter length saltlen cost salt rnd p hmk with h | h | h
  · subst h
    have := hash_roundtrip_pbkdf2 H D hP pw iter length saltlen cost salt rnd hsalt p hmk
    exact ⟨this.1, fun pw' hD hD' => this.2.1 pw' (hlen rfl) hD hD'⟩
  · subst h
    exact hash_roundtrip_bcrypt H D hB pw iter length saltlen cost salt rnd p hmk
  · exact absurd h halg

/-! ### what bcrypt distinguishes

`bcrypt` sees a password only through `bcryptStream pw`, the first 72 bytes of `pw ++ [0]`
repeated for ever.  That stream determines the password among NUL-free passwords of at most 72
bytes, and not beyond: this is the largest domain on which `BcryptOk` can hold for the real
library, and the 72-byte boundary lies outside it. -/

theorem bcryptStream_get (pw : Bytes) (i : Nat) (hi : i < 72) :
    (bcryptStream pw)[i]? = some ((pw ++ [0]).getD (i % (pw.length + 1)) 0) := by
  unfold bcryptStream cycle
  simp [hi]

theorem bcryptStream_prefix (pw : Bytes) (hl : pw.length ≤ 72) (i : Nat) (hi : i < pw.length) :
    (bcryptStream pw)[i]? = pw[i]? := by
  rw [bcryptStream_get pw i (by omega), Nat.mod_eq_of_lt (by omega)]
  rw [List.getD_eq_getElem?_getD, List.getElem?_append_left hi]
  simp [hi]

theorem bcryptStream_terminator (pw : Bytes) (hl : pw.length < 72) :
    (bcryptStream pw)[pw.length]? = some 0 := by
  rw [bcryptStream_get pw _ hl, Nat.mod_eq_of_lt (by omega)]
  simp [List.getD_eq_getElem?_getD]

theorem bcryptStream_length_le (pw pw' : Bytes) (hl : pw.length ≤ 72) (hl' : pw'.length ≤ 72)
    (h0' : 0 ∉ pw') (h : bcryptStream pw = bcryptStream pw') : pw'.length ≤ pw.length := by
  by_cases hlt : pw.length < pw'.length
  · exfalso
    have h1 := bcryptStream_terminator pw (by omega)
    have h2 := bcryptStream_prefix pw' hl' pw.length hlt
    rw [h, h2] at h1
    rw [List.getElem?_eq_getElem hlt] at h1
    simp only [Option.some.injEq] at h1
    exact h0' (h1 ▸ List.getElem_mem hlt)
  · omega

/-- Two NUL-free passwords of at most 72 bytes with the same bcrypt key stream are equal. -/
theorem bcryptStream_injective (pw pw' : Bytes) (hl : pw.length ≤ 72) (hl' : pw'.length ≤ 72)
    (h0 : 0 ∉ pw) (h0' : 0 ∉ pw') (h : bcryptStream pw = bcryptStream pw') : pw = pw' := by
  have e1 := bcryptStream_length_le pw pw' hl hl' h0' h
  have e2 := bcryptStream_length_le pw' pw hl' hl h0 h.symm
  have hlen : pw.length = pw'.length := by omega
  apply List.ext_getElem? 
  intro i
  by_cases hi : i < pw.length
  · rw [← bcryptStream_prefix pw hl i hi, ← bcryptStream_prefix pw' hl' i (by omega), h]
  · rw [List.getElem?_eq_none (by omega), List.getElem?_eq_none (by omega)]


/-- beyond 72 bytes, or with NUL bytes, different passwords have the same key stream (and the
real bcrypt accepts one for the other: observed by the `auth` engine's `matchmade` op) -/
theorem bcryptStream_collisions :
    bcryptStream (List.replicate 72 97) = bcryptStream (List.replicate 72 97 ++ [122, 122, 122]) ∧
    bcryptStream (List.replicate 71 97) = bcryptStream (List.replicate 71 97 ++ [0, 122]) ∧
    bcryptStream [97, 98] = bcryptStream [97, 98, 0, 97, 98] := by decide


/-! ### the obsolete `op` / `presenter` / `other` fields -/

theorem lookup_append_single (us : List (Bytes × UserDescription)) (n u : Bytes) (e : UserDescription) :
    (List.find? (fun x => decide (x.1 = u)) (us ++ [(n, e)])) =
      match List.find? (fun x => decide (x.1 = u)) us with
      | some x => some x
      | none => if n = u then some (n, e) else none := by
  rw [List.find?_append]
  cases h : List.find? (fun x => decide (x.1 = u)) us with
  | some x => simp
  | none => by_cases hn : n = u <;> simp [hn]

/-- one step of `upgradeUsers` -/
def upgradeStep (role : String) (d : Description) (u : ClientPattern) : Description :=
  if u.username = [] then
    match d.wildcardUser with
    | some _ => d
    | none => { d with wildcardUser := some (upgradeUser u role) }
  else
    match d.lookup u.username with
    | some _ => d
    | none => { d with users := d.users ++ [(u.username, upgradeUser u role)] }

theorem upgradeUsers_cons (d : Description) (p : ClientPattern) (ps : List ClientPattern) (role : String) :
    upgradeUsers d (p :: ps) role = upgradeUsers (upgradeStep role d p) ps role := rfl

theorem upgradeUsers_nil (d : Description) (role : String) : upgradeUsers d [] role = d := rfl

theorem upgradeStep_lookup (role : String) (d : Description) (p : ClientPattern) (u : Bytes) :
    (upgradeStep role d p).lookup u =
      match d.lookup u with
      | some e => some e
      | none => if p.username ≠ [] ∧ p.username = u then some (upgradeUser p role) else none := by
  unfold upgradeStep
  by_cases hp : p.username = []
  · simp only [hp, if_true]
    cases d.wildcardUser <;> cases hl : d.lookup u <;> simp [Description.lookup] at hl ⊢ <;> simp [hl]
  · simp only [hp, if_false]
    cases hpl : d.lookup p.username with
    | some e0 =>
      simp only
      cases hl : d.lookup u with
      | some e => rfl
      | none =>
        have : p.username ≠ u := by intro h; rw [h] at hpl; rw [hl] at hpl; cases hpl
        simp [this]
    | none =>
      simp only [Description.lookup, lookup_append_single]
      cases hf : List.find? (fun e => decide (e.1 = u)) d.users with
      | some x => simp
      | none =>
        by_cases hn : p.username = u
        · subst hn; simp [hp]
        · simp [hn]

theorem upgradeStep_wildcard (role : String) (d : Description) (p : ClientPattern) :
    (upgradeStep role d p).wildcardUser =
      match d.wildcardUser with
      | some w => some w
      | none => if p.username = [] then some (upgradeUser p role) else none := by
  unfold upgradeStep
  by_cases hp : p.username = []
  · simp only [hp, if_true]; cases h : d.wildcardUser <;> simp [h]
  · simp only [hp, if_false]
    cases d.lookup p.username <;> cases d.wildcardUser <;> simp

theorem upgradeStep_flags (role : String) (d : Description) (p : ClientPattern) :
    (upgradeStep role d p).allowRecording = d.allowRecording ∧
    (upgradeStep role d p).unrestrictedTokens = d.unrestrictedTokens := by
  unfold upgradeStep
  by_cases hp : p.username = []
  · simp only [hp, if_true]; cases d.wildcardUser <;> exact ⟨rfl, rfl⟩
  · simp only [hp, if_false]; cases d.lookup p.username <;> exact ⟨rfl, rfl⟩

/-- After `upgradeUsers`, a name is governed by the entry it already had, else by the first
pattern of the list with that (non-empty) name. -/
theorem upgradeUsers_lookup (d : Description) (ps : List ClientPattern) (role : String) (u : Bytes) :
    (upgradeUsers d ps role).lookup u =
      match d.lookup u with
      | some e => some e
      | none =>
        match ps.find? (fun p => decide (p.username ≠ [] ∧ p.username = u)) with
        | some p => some (upgradeUser p role)
        | none => none := by
  induction ps generalizing d with
  | nil => rw [upgradeUsers_nil]; cases d.lookup u <;> rfl
  | cons p ps ih =>
    rw [upgradeUsers_cons, ih, upgradeStep_lookup]
    cases hl : d.lookup u with
    | some e => rfl
    | none =>
      simp only [List.find?_cons]
      by_cases hc : p.username ≠ [] ∧ p.username = u
      · obtain ⟨h1, h2⟩ := hc
        subst h2
        simp [h1]
      · have : ¬ (p.username ≠ [] ∧ p.username = u) := hc
        simp only [this, if_false, decide_false]

/-- ... and the wildcard user is the one it already had, else the first pattern without a name. -/
theorem upgradeUsers_wildcard (d : Description) (ps : List ClientPattern) (role : String) :
    (upgradeUsers d ps role).wildcardUser =
      match d.wildcardUser with
      | some w => some w
      | none =>
        match ps.find? (fun p => decide (p.username = [])) with
        | some p => some (upgradeUser p role)
        | none => none := by
  induction ps generalizing d with
  | nil => rw [upgradeUsers_nil]; cases d.wildcardUser <;> rfl
  | cons p ps ih =>
    rw [upgradeUsers_cons, ih, upgradeStep_wildcard]
    cases hl : d.wildcardUser with
    | some e => rfl
    | none =>
      simp only [List.find?_cons]
      by_cases hc : p.username = []
      · simp [hc]
      · simp [hc]

theorem upgradeUsers_flags (d : Description) (ps : List ClientPattern) (role : String) :
    (upgradeUsers d ps role).allowRecording = d.allowRecording ∧
    (upgradeUsers d ps role).unrestrictedTokens = d.unrestrictedTokens := by
  induction ps generalizing d with
  | nil => exact ⟨rfl, rfl⟩
  | cons p ps ih =>
    rw [upgradeUsers_cons]
    have := upgradeStep_flags role d p
    exact ⟨(ih _).1.trans this.1, (ih _).2.trans this.2⟩

/-- the first pattern of an obsolete list that names `u`, upgraded to a user of role `role` -/
def firstNamed (ps : List ClientPattern) (role : String) (u : Bytes) : Option UserDescription :=
  (ps.find? (fun p => decide (p.username ≠ [] ∧ p.username = u))).map (upgradeUser · role)

/-- the first pattern of an obsolete list without a username -/
def firstAnon (ps : List ClientPattern) (role : String) : Option UserDescription :=
  (ps.find? (fun p => decide (p.username = []))).map (upgradeUser · role)

/-- **Obsolete fields.**  After `upgradeDescription`, a name is governed by its entry in `users`
if it has one, else by the first entry with that name in `op`, then `presenter`, then `other`
(with the roles op, present, message); the wildcard user is `wildcard-user` if present, else the
first entry without a name in the same order; the recording/token flags are untouched.  An
existing entry is never overridden. -/
theorem upgradeDescription_spec (d : Description) (o p x : List ClientPattern) (u : Bytes) :
    (upgradeDescription d o p x).lookup u =
      (d.lookup u).or ((firstNamed o "op" u).or ((firstNamed p "present" u).or (firstNamed x "message" u))) ∧
    (upgradeDescription d o p x).wildcardUser =
      d.wildcardUser.or ((firstAnon o "op").or ((firstAnon p "present").or (firstAnon x "message"))) ∧
    (upgradeDescription d o p x).allowRecording = d.allowRecording ∧
    (upgradeDescription d o p x).unrestrictedTokens = d.unrestrictedTokens := by
  have hL : ∀ (d : Description) ps role, (upgradeUsers d ps role).lookup u = (d.lookup u).or (firstNamed ps role u) := by
    intro d ps role
    rw [upgradeUsers_lookup]
    unfold firstNamed
    cases d.lookup u <;> cases List.find? (fun p => decide (p.username ≠ [] ∧ p.username = u)) ps <;> rfl
  have hW : ∀ (d : Description) ps role, (upgradeUsers d ps role).wildcardUser = d.wildcardUser.or (firstAnon ps role) := by
    intro d ps role
    rw [upgradeUsers_wildcard]
    unfold firstAnon
    cases d.wildcardUser <;> cases List.find? (fun p => decide (p.username = [])) ps <;> rfl
  unfold upgradeDescription
  refine ⟨?_, ?_, ?_, ?_⟩
  · rw [hL, hL, hL]; simp [Option.or_assoc]
  · rw [hW, hW, hW]; simp [Option.or_assoc]
  · rw [(upgradeUsers_flags _ _ _).1, (upgradeUsers_flags _ _ _).1, (upgradeUsers_flags _ _ _).1]
  · rw [(upgradeUsers_flags _ _ _).2, (upgradeUsers_flags _ _ _).2, (upgradeUsers_flags _ _ _).2]


/-! ### valid usernames -/

/-- a path component that `path.Clean` keeps as it is -/
def goodComponent (c : Bytes) : Prop := c ≠ [] ∧ c ≠ [46] ∧ c ≠ [46, 46]

instance (c : Bytes) : Decidable (goodComponent c) := by unfold goodComponent; infer_instance

theorem splitSlash_ne_nil (n : Bytes) : splitSlash n ≠ [] := by
  cases n with
  | nil => simp [splitSlash]
  | cons c rest =>
    unfold splitSlash
    by_cases h : c = 47
    · simp [h]
    · simp only [h, if_false]
      cases splitSlash rest <;> simp

theorem joinSlash_splitSlash (n : Bytes) : joinSlash (splitSlash n) = 47 :: n := by
  induction n with
  | nil => rfl
  | cons c rest ih =>
    unfold splitSlash
    by_cases h : c = 47
    · simp [h, joinSlash, ih]
    · simp only [h, if_false]
      cases hs : splitSlash rest with
      | nil => exact absurd hs (splitSlash_ne_nil rest)
      | cons x xs =>
        rw [hs] at ih
        simp only [joinSlash, List.cons_append, List.cons.injEq, true_and] at ih ⊢
        exact ih

theorem splitSlash_noslash (n : Bytes) : ∀ c ∈ splitSlash n, 47 ∉ c := by
  induction n with
  | nil => simp [splitSlash]
  | cons c rest ih =>
    unfold splitSlash
    by_cases h : c = 47
    · simp only [h, if_true, List.mem_cons]
      rintro x (rfl | hx)
      · simp
      · exact ih x hx
    · simp only [h, if_false]
      cases hs : splitSlash rest with
      | nil => simp; exact fun h' => h h'.symm
      | cons x xs =>
        rw [hs] at ih
        simp only [List.mem_cons]
        rintro y (rfl | hy)
        · have := ih x (by simp)
          simp only [List.mem_cons, not_or]
          exact ⟨fun h' => h h'.symm, this⟩
        · exact ih y (by simp [hy])

/-- `joinSlash l` is empty or starts with a slash -/
theorem joinSlash_head (l : List Bytes) : joinSlash l = [] ∨ ∃ t, joinSlash l = 47 :: t := by
  cases l with
  | nil => exact .inl rfl
  | cons c r => exact .inr ⟨_, rfl⟩

theorem append_slash_inj (c c' t t' : Bytes) (hc : 47 ∉ c) (hc' : 47 ∉ c')
    (ht : t = [] ∨ ∃ r, t = 47 :: r) (ht' : t' = [] ∨ ∃ r, t' = 47 :: r)
    (h : c ++ t = c' ++ t') : c = c' ∧ t = t' := by
  induction c generalizing c' with
  | nil =>
    cases c' with
    | nil => exact ⟨rfl, by simpa using h⟩
    | cons a c' =>
      exfalso
      simp only [List.nil_append, List.cons_append] at h
      rcases ht with ht | ⟨r, ht⟩
      · rw [ht] at h; cases h
      · rw [ht] at h
        simp only [List.cons.injEq] at h
        exact hc' (by simp [h.1])
  | cons a c ih =>
    cases c' with
    | nil =>
      exfalso
      simp only [List.nil_append, List.cons_append] at h
      rcases ht' with ht' | ⟨r, ht'⟩
      · rw [ht'] at h; cases h
      · rw [ht'] at h
        simp only [List.cons.injEq] at h
        exact hc (by simp [h.1])
    | cons a' c' =>
      simp only [List.cons_append, List.cons.injEq] at h
      have := ih c' (fun hm => hc (by simp [hm])) (fun hm => hc' (by simp [hm])) h.2
      exact ⟨by rw [h.1, this.1], this.2⟩

theorem joinSlash_inj (a b : List Bytes) (ha : ∀ c ∈ a, 47 ∉ c) (hb : ∀ c ∈ b, 47 ∉ c)
    (h : joinSlash a = joinSlash b) : a = b := by
  induction a generalizing b with
  | nil =>
    cases b with
    | nil => rfl
    | cons c r => simp [joinSlash] at h
  | cons c r ih =>
    cases b with
    | nil => simp [joinSlash] at h
    | cons c' r' =>
      simp only [joinSlash, List.cons_append, List.cons.injEq, true_and] at h
      have := append_slash_inj c c' _ _ (ha c (by simp)) (hb c' (by simp)) (joinSlash_head r) (joinSlash_head r') h
      rw [this.1, ih r' (fun x hx => ha x (by simp [hx])) (fun x hx => hb x (by simp [hx])) this.2]

/-- one step of the `path.Clean` loop on the stack of kept components -/
def cleanStep (out : List Bytes) (c : Bytes) : List Bytes :=
  if c = [] then out else if c = [46] then out else if c = [46, 46] then out.drop 1 else c :: out

theorem cleanComponents_eq (comps : List Bytes) : cleanComponents comps = (comps.foldl cleanStep []).reverse := rfl

theorem cleanStep_good (out : List Bytes) (c : Bytes) (h : goodComponent c) : cleanStep out c = c :: out := by
  unfold cleanStep; simp [h.1, h.2.1, h.2.2]

theorem cleanStep_bad (out : List Bytes) (c : Bytes) (h : ¬ goodComponent c) : (cleanStep out c).length ≤ out.length := by
  unfold cleanStep
  by_cases h1 : c = []
  · simp [h1]
  · by_cases h2 : c = [46]
    · simp [h2]
    · by_cases h3 : c = [46, 46]
      · simp [h3]
      · exact absurd ⟨h1, h2, h3⟩ h

theorem foldl_clean_good (comps out : List Bytes) (h : ∀ c ∈ comps, goodComponent c) :
    comps.foldl cleanStep out = comps.reverse ++ out := by
  induction comps generalizing out with
  | nil => rfl
  | cons c r ih =>
    rw [List.foldl_cons, cleanStep_good out c (h c (by simp)), ih _ (fun x hx => h x (by simp [hx]))]
    simp

theorem foldl_clean_length (comps out : List Bytes) :
    (comps.foldl cleanStep out).length ≤ out.length + comps.length ∧
    ((comps.foldl cleanStep out).length = out.length + comps.length → ∀ c ∈ comps, goodComponent c) := by
  induction comps generalizing out with
  | nil => simp
  | cons c r ih =>
    rw [List.foldl_cons]
    have := ih (cleanStep out c)
    by_cases hg : goodComponent c
    · rw [cleanStep_good out c hg] at this ⊢
      simp only [List.length_cons] at this ⊢
      refine ⟨by omega, fun he x hx => ?_⟩
      simp only [List.mem_cons] at hx
      rcases hx with rfl | hx
      · exact hg
      · exact this.2 (by omega) x hx
    · have hb := cleanStep_bad out c hg
      simp only [List.length_cons]
      exact ⟨by omega, fun he => by omega⟩

theorem foldl_clean_mem (comps out : List Bytes) :
    ∀ x ∈ comps.foldl cleanStep out, x ∈ out ∨ x ∈ comps := by
  induction comps generalizing out with
  | nil => intro x hx; exact .inl hx
  | cons c r ih =>
    intro x hx
    rw [List.foldl_cons] at hx
    rcases ih _ x hx with h | h
    · unfold cleanStep at h
      split at h
      · exact .inl h
      · split at h
        · exact .inl h
        · split at h
          · exact .inl (List.mem_of_mem_drop h)
          · simp only [List.mem_cons] at h
            rcases h with rfl | h
            · exact .inr (by simp)
            · exact .inl h
    · exact .inr (by simp [h])

/-- **validGroupName, characterised.**  A name is a valid group name (on a system whose separator
is '/') iff it contains no backslash and every '/'-separated component is non-empty and is
neither "." nor "..": `path.Clean("/" + name)` leaves exactly such names alone. -/
theorem validGroupName_iff (name : Bytes) :
    validGroupName name = true ↔ 92 ∉ name ∧ ∀ c ∈ splitSlash name, goodComponent c := by
  unfold validGroupName
  by_cases hb : name.contains 92 = true
  · have : 92 ∈ name := by simpa using hb
    simp [this]
  · have hb' : 92 ∉ name := by simpa using hb
    simp only [hb, Bool.false_eq_true, if_false, hb', not_false_eq_true, true_and]
    unfold cleanRooted
    constructor
    · intro h
      cases hcc : cleanComponents (splitSlash name) with
      | nil => simp [hcc] at h
      | cons x xs =>
        rw [hcc] at h
        simp only at h
        split at h
        · cases h
        · simp only [decide_eq_true_eq] at h
          rw [← joinSlash_splitSlash name, ← hcc] at h
          have hmem : ∀ c ∈ cleanComponents (splitSlash name), 47 ∉ c := by
            intro c hc
            rw [cleanComponents_eq, List.mem_reverse] at hc
            rcases foldl_clean_mem _ _ c hc with h' | h'
            · simp at h'
            · exact splitSlash_noslash name c h'
          have heq := joinSlash_inj _ _ hmem (splitSlash_noslash name) h
          have hlen := congrArg List.length heq
          rw [cleanComponents_eq, List.length_reverse] at hlen
          exact (foldl_clean_length (splitSlash name) []).2 (by simpa using hlen)
    · intro hgood
      have hcc : cleanComponents (splitSlash name) = splitSlash name := by
        rw [cleanComponents_eq, foldl_clean_good _ _ hgood]; simp
      rw [hcc]
      cases hs : splitSlash name with
      | nil => exact absurd hs (splitSlash_ne_nil name)
      | cons x xs =>
        have hj : joinSlash (x :: xs) = 47 :: name := by rw [← hs]; exact joinSlash_splitSlash name
        have hne : name ≠ [] := by
          intro h0
          rw [h0] at hgood
          exact (hgood [] (by simp [splitSlash])).1 rfl
        simp [hj, hne]

/-- **validUsername, characterised**: the empty name, or a valid group name. -/
theorem validUsername_iff (u : Bytes) :
    validUsername u = true ↔ u = [] ∨ (92 ∉ u ∧ ∀ c ∈ splitSlash u, goodComponent c) := by
  unfold validUsername
  simp only [Bool.or_eq_true, decide_eq_true_eq, validGroupName_iff]


/-- `C08_accept_iff` with the username rule spelled out. -/
theorem C08_accept_iff_explicit (H : Hash) (roles : RoleTable) (d : Description) (u pw : Bytes) :
    (∃ r, getPermission H roles d (some u) pw = .ok r) ↔
      (u = [] ∨ (92 ∉ u ∧ ∀ c ∈ splitSlash u, goodComponent c)) ∧
      ∃ e, governing d u = some e ∧ e.password.matchPw H pw = .ok true := by
  rw [C08_accept_iff, validUsername_iff]
  refine and_congr_right fun _ => ?_
  unfold governing
  cases hl : d.lookup u with
  | some c => simp
  | none => simp

/-! ### non-vacuity -/

deriving instance DecidableEq for Except

/-- a toy instance of the primitives: the assumptions of `C08_hash_roundtrip` are satisfiable -/
def toyHash : Hash where
  pbkdf2 := fun pw _ _ len => List.replicate len (pw.headD 0 % 256)
  bcryptCompare := fun key pw => .ok (decide (key = bcryptStream pw))
  bcryptGenerate := fun pw _ _ => if pw.length > 72 then .error () else .ok (bcryptStream pw)

/-- one-byte passwords: the toy pbkdf2 is injective there -/
def toyD (pw : Bytes) : Prop := pw.length = 1 ∧ 0 ∉ pw ∧ ∀ b ∈ pw, b < 256

theorem toy_pbkdf2Ok : Pbkdf2Ok toyHash toyD where
  bytes := by
    intro pw salt iter len b hb
    simp only [toyHash, List.mem_replicate] at hb
    rw [hb.2]; exact Nat.mod_lt _ (by decide)
  length := by intro pw salt iter len; simp [toyHash]
  inj := by
    intro pw pw' salt iter len hlen hD hD' h
    simp only [toyHash] at h
    have hh : pw.headD 0 % 256 = pw'.headD 0 % 256 := by
      have := congrArg (fun l => l.headD 0) h
      cases len with
      | zero => omega
      | succ n => simpa [List.replicate_succ] using this
    obtain ⟨h1, _, h3⟩ := hD
    obtain ⟨h1', _, h3'⟩ := hD'
    match pw, pw', h1, h1' with
    | [a], [b], _, _ =>
      have ha := h3 a (by simp)
      have hb := h3' b (by simp)
      simp only [List.headD_cons] at hh
      rw [Nat.mod_eq_of_lt ha, Nat.mod_eq_of_lt hb] at hh
      rw [hh]

theorem toy_bcryptOk : BcryptOk toyHash toyD where
  self := by
    intro pw cost rnd key hg
    simp only [toyHash] at hg ⊢
    split at hg
    · cases hg
    · simp only [Except.ok.injEq] at hg; simp [hg]
  other := by
    intro pw cost rnd key pw' hg hD hD' hne
    simp only [toyHash] at hg ⊢
    split at hg
    · cases hg
    · simp only [Except.ok.injEq] at hg
      subst hg
      have : bcryptStream pw ≠ bcryptStream pw' := fun h =>
        hne (bcryptStream_injective pw pw' (by have := hD.1; omega) (by have := hD'.1; omega) hD.2.1 hD'.2.1 h).symm
      simp [this]

/-- the round trip theorem applies: hypotheses satisfiable, conclusion non-trivial -/
example : ∃ p, makePassword toyHash [112] "pbkdf2" 4096 32 8 0 [1, 2, 3, 4, 5, 6, 7, 8] [] = .ok p ∧
    p.matchPw toyHash [112] = .ok true ∧ p.matchPw toyHash [113] = .ok false := by
  have hmk : makePassword toyHash [112] "pbkdf2" 4096 32 8 0 [1, 2, 3, 4, 5, 6, 7, 8] [] = .ok _ := rfl
  have h := C08_hash_roundtrip toyHash toyD toy_pbkdf2Ok toy_bcryptOk [112] "pbkdf2" 4096 32 8 0
    [1, 2, 3, 4, 5, 6, 7, 8] [] (by decide) _ hmk (by decide) (by decide)
  refine ⟨_, hmk, h.1, ?_⟩
  have := h.2 [113] (by simp [toyD]) (by simp [toyD])
  simpa using this

/-- a description with an operator, a user without password, a user whose password is JSON null,
and a wildcard user; the group allows recording -/
def exDesc : Description :=
  { allowRecording := true,
    users := [ ([97], { password := { type := "plain", key := some [112] }, permissions := { name := "op" } }),
               ([98], { permissions := { name := "present" } }),
               ([99], { password := { type := "plain", key := some [] }, permissions := { permissions := ["op", "x"] } }) ],
    wildcardUser := some { password := { type := "plain", key := some [119] }, permissions := { name := "present" } } }

-- the operator with the right password: the role's list plus `record`
example : getPermission toyHash defaultRoles exDesc (some [97]) [112] =
    .ok ([97], ["record", "op", "present", "message", "caption", "token"]) := by decide
-- the wildcard user's password does not open a named entry (shadowing)
example : getPermission toyHash defaultRoles exDesc (some [97]) [119] = .error .badPassword := by decide
-- an entry without password refuses everything, including the wildcard user's password
example : getPermission toyHash defaultRoles exDesc (some [98]) [119] = .error .badPassword := by decide
example : getPermission toyHash defaultRoles exDesc (some [98]) [] = .error .badPassword := by decide
-- a raw list is returned unchanged (no `record` although it contains `op`)
example : getPermission toyHash defaultRoles exDesc (some [99]) [] = .ok ([99], ["op", "x"]) := by decide
-- an unknown name falls through to the wildcard user
example : getPermission toyHash defaultRoles exDesc (some [100]) [119] = .ok ([100], ["present", "message"]) := by decide
example : getPermission toyHash defaultRoles exDesc (some [100]) [112] = .error .noSuchUser := by decide
-- "..": right password, invalid username
example : getPermission toyHash defaultRoles exDesc (some [46, 46]) [119] = .error .invalidUsername := by decide
-- usernames
example : validUsername [97, 47, 98] = true ∧ validUsername [] = true ∧ validUsername [97, 47, 46, 46, 47, 98] = false ∧
    validUsername [97, 92, 98] = false ∧ validUsername [97, 47] = false ∧ validUsername [47, 97] = false := by decide
-- obsolete fields: "alice" is in `users` and stays as she is; "bob" comes from the `op` list (first
-- occurrence wins, password-less = anybody); the first nameless entry becomes the wildcard user
example :
    let d := upgradeDescription
      { users := [([97], { password := { type := "plain", key := some [112] }, permissions := { name := "observe" } })] }
      [{ username := [97] }, { username := [98] }] [{ username := [98], password := some { type := "plain", key := some [113] } }, { username := [] }] []
    getPermission toyHash defaultRoles d (some [97]) [112] = .ok ([97], []) ∧
    getPermission toyHash defaultRoles d (some [97]) [] = .error .badPassword ∧
    getPermission toyHash defaultRoles d (some [98]) [] = .ok ([98], ["op", "present", "message", "caption", "token"]) ∧
    getPermission toyHash defaultRoles d (some [99]) [55] = .ok ([99], ["present", "message"]) := by decide
-- a refused join leaves the member list alone; an accepted one appends the member
example : (addClient toyHash defaultRoles exDesc [] "c1" (some [97]) [113]).1 = [] := by decide
example : (addClient toyHash defaultRoles exDesc [] "c1" (some [100]) [119]).1 =
    [{ id := "c1", username := [100], perms := ["present", "message"] }] := by decide

end Galene.Props.C08
