import GaleneVerif.Generated.Params
import GaleneVerif.Props.C01Deep
import GaleneVerif.Model.DownTrack
/-
Side conditions on the constants regenerated from /repo's source on every run
(`Generated/Params.lean`).  The theorems of C01/C03/C04/C05 are proved for all
parameter values satisfying these decidable conditions; they are re-established
here for today's values by `decide`, so a harmless change of a constant keeps
everything checking and a harmful one fails here.
-/
namespace Galene.Props.Params
open Galene

/-- the packetmap parameters as the source has them -/
def pm : PacketMap.Params :=
  { maxEntries := Generated.pmMaxEntries, W := Generated.pmWindows.headD 0, maxCount := Generated.pmMaxCount }

/-- every window literal in packetmap.go is the same number -/
theorem pm_windows_agree : Generated.pmWindows.length = 6 ∧ Generated.pmWindows.all (· = pm.W) = true := by decide

/-- the arithmetic side condition of the C01/C03 theorems (`Side P R`), with the
largest drop-run bound it allows for today's constants -/
theorem pm_side : Galene.Lemmas.PMInv.Side pm (32769 - pm.maxCount - pm.W) := by
  constructor <;> decide

theorem pm_maxEntries_pos : 0 < pm.maxEntries := by decide

/-- the packet cache stores at most `BufSize` bytes and the down track copies into a
`BufSize` buffer; lengths fit 15 bits (the marker shares the word) -/
theorem bufSize_ok : 0 < Generated.bufSize ∧ Generated.bufSize < 32768 := by decide

/-- loss-rate bounds are ordered (C04_rate_bounds' hypothesis) and the AIMD arithmetic
cannot overflow 64 bits -/
theorem lossRate_ok :
    Generated.minLossRate ≤ Generated.initLossRate ∧ Generated.initLossRate ≤ Generated.maxLossRate ∧
    Generated.maxLossRate * 512 < 18446744073709551616 := by decide

end Galene.Props.Params
