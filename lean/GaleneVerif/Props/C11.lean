import GaleneVerif.Model.Signalling
import GaleneVerif.Lemmas.SigHeap
import Mathlib.Tactic.SplitIfs
/-
C11 — every privileged action requires its permission; non-members hold none.

The theorems are about `handle` (Model/Signalling.lean), the transcription of
rtpconn.handleClientMessage that contains **every** guard and returns the list of
primitive effects the handler performs; `applyEffect` (mechanics) contains no
permission test.  The differential run of engine `sig` ties `handle`/`applyEffect`
to the real code on every check.

Proved for all connections, environments and messages:
* `C11_guard`            an effect that acts on the group, on other members or on the
                         token store is produced only for a member that holds the
                         permissions of the property's table (`Effect.required`);
* `C11_token_delegation` a minted token is for the member's own group, has an expiry,
                         delegates only permissions the creator holds, carries the
                         server-chosen id and the creator as issuer;
* `C11_token_reach_list` token listing reaches only the member's own group;
* `C11_nonmember_refused` a connection that is in no group and holds no permission is
                         refused everything: only replies to itself, closing errors,
                         `join`, and closing its own (non-existent) streams;
* `C11_publish_guard`    publishing needs `present` — **not** membership (see below);
* `C11_revocation_*`     after the target has handled a permission change its
                         permission list is exactly the old one with the change applied,
                         `handle` judges the next message by that list, and a member
                         that handles the loss of `present` gets `abort` for every stream.
False on today's code, with proved counterexamples:
* `C11_token_reach_edit_false`  edittoken reaches a token of another group (P11);
* `C11_nonmember_false_refused` after a refused join the connection keeps its permissions (P10);
* `C11_nonmember_false_redirect` the same after `redirect`, and the client stays in the group (P18);
* `C11_publish_nonmember`       `offer` from such a connection reaches `publish` (→ crash, C12);
* `C11_shared_token_list_false` moderation of one token user changes another's permissions.
-/
namespace Galene.Sig

/-- effects that act on the group, on other members or on the token store
(everything except: replies to the sender, the closing error, join/leave, the
bookkeeping of the id generator, and opening/closing the sender's own streams) -/
def Effect.acts : Effect → Bool
  | .reply _ => false
  | .fail _ => false
  | .consumeFresh => false
  | .join .. => false
  | .leave => false
  | .publish .. => false
  | .unpublish _ => false
  | _ => true

/-- the table of the property text: which permissions the effect needs, given
the message that caused it -/
def Effect.required (m : Msg) : Effect → List String
  | .deliver .. | .broadcast .. | .histAdd _ =>
    if m.type = "groupaction" then ["op"]
    else if m.type = "chat" ∧ m.kind = "caption" then ["caption"] else ["message"]
  | .histClear .. | .setLocked .. | .groupData _ | .changePerm .. | .kick .. | .identify _ | .subgroups => ["op"]
  | .record | .unrecord => ["record"]
  | .mintToken .. => ["token"]
  | .editToken .. | .listTokens _ => ["op", "token"]
  | _ => []

/-- `e` may be produced for connection `c`: it is a member and holds what `e` needs -/
def Allowed (c : Conn) (m : Msg) (e : Effect) : Prop :=
  c.group.isSome = true ∧ ∀ p ∈ e.required m, p ∈ c.perms

/-- split a membership in an explicit list into its cases (the element is substituted) -/
macro "mem_cases" h:ident : tactic => `(tactic| (
  simp only [List.mem_cons, List.mem_append, List.mem_nil_iff, List.not_mem_nil, or_false, false_or,
    List.mem_singleton] at $h:ident
  repeat' (rcases $h:ident with $h:ident | $h:ident)))

/-- close a leaf: the effect is explicit, the guards are in the context -/
macro "leaf" : tactic => `(tactic| (
  first
    | (simp_all [Effect.acts, Allowed, Effect.required, errReply, tokErr, emptyId]; done)
    | (simp_all [Effect.acts, Allowed, Effect.required, errReply, tokErr, emptyId]
       try (split_ifs <;> simp_all); done)
    | (simp_all [Effect.acts, Allowed, Effect.required, errReply, tokErr, emptyId, Option.isSome_iff_ne_none])))

/-- split every `if` and `match` of a hypothesis, then enumerate the explicit list -/
macro "crunch" h:ident : tactic => `(tactic| (
  repeat' (first | split_ifs at $h:ident | split at $h:ident)
  all_goals mem_cases $h:ident
  all_goals leaf))

/-! ### chat / usermessage -/

theorem handleChat_guard (c : Conn) (env : Env) (m : Msg) (hm : m.type = "chat" ∨ m.type = "usermessage") :
    ∀ e ∈ handleChat c env m, e.acts = true → Allowed c m e := by
  have hg : m.type ≠ "groupaction" := by rcases hm with h | h <;> simp [h]
  intro e he ha
  unfold handleChat at he
  split at he
  · mem_cases he; leaf
  · simp only at he
    crunch he

/-! ### groupaction -/

theorem handleMakeToken_guard (c : Conn) (env : Env) (g : String) (m : Msg) (hgr : c.group = some g) :
    ∀ e ∈ handleMakeToken c env g m, e.acts = true → Allowed c m e := by
  intro e he ha
  unfold handleMakeToken at he
  crunch he

theorem handleEditToken_guard (c : Conn) (env : Env) (g : String) (m : Msg) (hgr : c.group = some g) :
    ∀ e ∈ handleEditToken c env g m, e.acts = true → Allowed c m e := by
  intro e he ha
  unfold handleEditToken at he
  crunch he

theorem handleGroupAction_guard (c : Conn) (env : Env) (m : Msg) (hm : m.type = "groupaction") :
    ∀ e ∈ handleGroupAction c env m, e.acts = true → Allowed c m e := by
  intro e he ha
  unfold handleGroupAction at he
  split at he
  · mem_cases he; leaf
  · rename_i g hgr
    simp only at he
    split_ifs at he
    all_goals first
      | exact handleMakeToken_guard c env g m hgr e he ha
      | exact handleEditToken_guard c env g m hgr e he ha
      | skip
    all_goals crunch he

/-! ### useraction -/

theorem handleUserAction_guard (c : Conn) (env : Env) (m : Msg) :
    ∀ e ∈ handleUserAction c env m, e.acts = true → Allowed c m e := by
  intro e he ha
  unfold handleUserAction at he
  split at he
  · mem_cases he; leaf
  · crunch he

/-! ### the whole handler -/

/-- **C11_guard.**  Whatever the message and whatever the state of the
connection: an effect that acts on the group, on other members or on the token
store is produced only if the connection is a member of a group and holds the
permissions the property's table lists for that effect. -/
theorem C11_guard (c : Conn) (env : Env) (m : Msg) (e : Effect) (he : e ∈ handle c env m) (ha : e.acts = true) :
    Allowed c m e := by
  unfold handle at he
  by_cases h : spoofedSource c m = true
  · rw [if_pos h] at he
    mem_cases he; leaf
  rw [if_neg h] at he
  clear h
  by_cases h : spoofedUser c m = true
  · rw [if_pos h] at he
    mem_cases he; leaf
  rw [if_neg h] at he
  clear h
  by_cases h : m.type = "join"
  · rw [if_pos h] at he
    unfold handleJoin at he; crunch he
  rw [if_neg h] at he
  clear h
  by_cases h : m.type = "request"
  · rw [if_pos h] at he
    unfold handleRequest at he
    split_ifs at he with h1 h2
    · mem_cases he; leaf
    · mem_cases he; leaf
    · mem_cases he
      exact ⟨by cases hg : c.group <;> simp_all, by simp [Effect.required]⟩
  rw [if_neg h] at he
  clear h
  by_cases h : m.type = "requestStream"
  · rw [if_pos h] at he
    mem_cases he; leaf
  rw [if_neg h] at he
  clear h
  by_cases h : m.type = "offer"
  · rw [if_pos h] at he
    unfold handleOffer at he; crunch he
  rw [if_neg h] at he
  clear h
  by_cases h : m.type ∈ mediaTypes
  · rw [if_pos h] at he
    unfold handleMedia at he; crunch he
  rw [if_neg h] at he
  clear h
  by_cases h : m.type = "chat" ∨ m.type = "usermessage"
  · rw [if_pos h] at he
    exact handleChat_guard c env m h e he ha
  rw [if_neg h] at he
  clear h
  by_cases h : m.type = "groupaction"
  · rw [if_pos h] at he
    exact handleGroupAction_guard c env m h e he ha
  rw [if_neg h] at he
  clear h
  by_cases h : m.type = "useraction"
  · rw [if_pos h] at he
    exact handleUserAction_guard c env m e he ha
  rw [if_neg h] at he
  clear h
  by_cases h : m.type = "pong"
  · rw [if_pos h] at he
    mem_cases he
  rw [if_neg h] at he
  clear h
  by_cases h : m.type = "ping"
  · rw [if_pos h] at he
    mem_cases he; leaf
  rw [if_neg h] at he
  clear h
  mem_cases he; leaf


/-! ### inversion: where each effect comes from -/

/-- like `crunch`, for statements about one particular effect: every leaf whose
explicit effects are of another shape closes by constructor mismatch -/
macro "crunch'" h:ident : tactic => `(tactic| (
  repeat' (first | split_ifs at $h:ident | split at $h:ident)
  all_goals mem_cases $h:ident
  all_goals (try (simp_all [errReply, tokErr, emptyId]; done))))

/-- the by-cases skeleton of `handle`, for a predicate on effects that holds
vacuously of everything the simple branches produce -/
theorem handle_cases (P : Effect → Prop) (c : Conn) (env : Env) (m : Msg)
    (hfail : ∀ x, P (.fail x)) (hreply : ∀ x, P (.reply x))
    (hjoin : ∀ e ∈ handleJoin c m, P e) (hreq : ∀ e ∈ handleRequest c m, P e)
    (hoffer : spoofedSource c m = false → spoofedUser c m = false → m.type = "offer" →
      ∀ e ∈ handleOffer c env m, P e) (hmedia : ∀ e ∈ handleMedia m, P e)
    (hchat : spoofedSource c m = false → spoofedUser c m = false → m.type = "chat" ∨ m.type = "usermessage" →
      ∀ e ∈ handleChat c env m, P e)
    (hga : m.type = "groupaction" → ∀ e ∈ handleGroupAction c env m, P e)
    (hua : ∀ e ∈ handleUserAction c env m, P e) :
    ∀ e ∈ handle c env m, P e := by
  intro e he
  unfold handle at he
  by_cases hs1 : spoofedSource c m = true
  · rw [if_pos hs1] at he; mem_cases he; exact hfail _
  rw [if_neg hs1] at he
  by_cases hs2 : spoofedUser c m = true
  · rw [if_pos hs2] at he; mem_cases he; exact hfail _
  rw [if_neg hs2] at he
  by_cases h : m.type = "join"
  · rw [if_pos h] at he; exact hjoin e he
  rw [if_neg h] at he; clear h
  by_cases h : m.type = "request"
  · rw [if_pos h] at he; exact hreq e he
  rw [if_neg h] at he; clear h
  by_cases h : m.type = "requestStream"
  · rw [if_pos h] at he; mem_cases he; exact hfail _
  rw [if_neg h] at he; clear h
  by_cases h : m.type = "offer"
  · rw [if_pos h] at he; exact hoffer (by simpa using hs1) (by simpa using hs2) h e he
  rw [if_neg h] at he; clear h
  by_cases h : m.type ∈ mediaTypes
  · rw [if_pos h] at he; exact hmedia e he
  rw [if_neg h] at he; clear h
  by_cases h : m.type = "chat" ∨ m.type = "usermessage"
  · rw [if_pos h] at he; exact hchat (by simpa using hs1) (by simpa using hs2) h e he
  rw [if_neg h] at he; clear h
  by_cases h : m.type = "groupaction"
  · rw [if_pos h] at he; exact hga h e he
  rw [if_neg h] at he; clear h
  by_cases h : m.type = "useraction"
  · rw [if_pos h] at he; exact hua e he
  rw [if_neg h] at he; clear h
  by_cases h : m.type = "pong"
  · rw [if_pos h] at he; mem_cases he
  rw [if_neg h] at he; clear h
  by_cases h : m.type = "ping"
  · rw [if_pos h] at he; mem_cases he; exact hreply _
  rw [if_neg h] at he; clear h
  mem_cases he; exact hfail _

/-! ### tokens -/

/-- effects on the token store -/
def Effect.isTok : Effect → Bool
  | .mintToken .. => true
  | .editToken .. => true
  | .listTokens _ => true
  | _ => false

macro "notok" h:ident : tactic => `(tactic| (
  repeat' (first | split_ifs at $h:ident | split at $h:ident)
  all_goals mem_cases $h:ident
  all_goals (simp_all [Effect.isTok, errReply, tokErr, emptyId])))

theorem no_tok_join (c : Conn) (m : Msg) : ∀ e ∈ handleJoin c m, e.isTok = false := by
  intro e he; unfold handleJoin at he; notok he
theorem no_tok_request (c : Conn) (m : Msg) : ∀ e ∈ handleRequest c m, e.isTok = false := by
  intro e he; unfold handleRequest at he; notok he
theorem no_tok_offer (c : Conn) (env : Env) (m : Msg) : ∀ e ∈ handleOffer c env m, e.isTok = false := by
  intro e he; unfold handleOffer at he; notok he
theorem no_tok_media (m : Msg) : ∀ e ∈ handleMedia m, e.isTok = false := by
  intro e he; unfold handleMedia at he; notok he
theorem no_tok_chat (c : Conn) (env : Env) (m : Msg) : ∀ e ∈ handleChat c env m, e.isTok = false := by
  intro e he
  unfold handleChat at he
  split at he
  · notok he
  · simp only at he
    notok he
theorem no_tok_useraction (c : Conn) (env : Env) (m : Msg) : ∀ e ∈ handleUserAction c env m, e.isTok = false := by
  intro e he
  unfold handleUserAction at he
  split at he
  · notok he
  · notok he

/-- token effects come from the three token branches of `groupaction` only -/
theorem tok_groupaction (c : Conn) (env : Env) (m : Msg) (e : Effect)
    (he : e ∈ handleGroupAction c env m) (ht : e.isTok = true) :
    ∃ g, c.group = some g ∧
      (e ∈ handleMakeToken c env g m ∨ e ∈ handleEditToken c env g m ∨
        (e = Effect.listTokens g ∧ "op" ∈ c.perms ∧ "token" ∈ c.perms)) := by
  unfold handleGroupAction at he
  split at he
  · mem_cases he; simp [errReply, Effect.isTok] at ht
  · rename_i g hgr
    refine ⟨g, hgr, ?_⟩
    simp only at he
    split_ifs at he
    all_goals first
      | exact Or.inl he
      | exact Or.inr (Or.inl he)
      | skip
    all_goals (repeat' (first | split_ifs at he | split at he))
    all_goals mem_cases he
    all_goals simp_all [Effect.isTok, errReply, tokErr]

theorem tok_handle (c : Conn) (env : Env) (m : Msg) (e : Effect) (he : e ∈ handle c env m) (ht : e.isTok = true) :
    e ∈ handleGroupAction c env m := by
  have := handle_cases (fun e => e.isTok = true → e ∈ handleGroupAction c env m) c env m
    (by simp [Effect.isTok]) (by simp [Effect.isTok])
    (fun e he h => by simp [no_tok_join c m e he] at h)
    (fun e he h => by simp [no_tok_request c m e he] at h)
    (fun _ _ _ e he h => by simp [no_tok_offer c env m e he] at h)
    (fun e he h => by simp [no_tok_media m e he] at h)
    (fun _ _ _ e he h => by simp [no_tok_chat c env m e he] at h)
    (fun _ e he _ => he)
    (fun e he h => by simp [no_tok_useraction c env m e he] at h)
  exact this e he ht

/-- what `maketoken` may mint for connection `c` -/
def Delegated (c : Conn) (env : Env) (t : TokReq) (id : String) (issuedBy : Option String) : Prop :=
  c.group = some t.group ∧ t.expires.isSome = true ∧ (∀ p ∈ t.perms.getD [], p ∈ c.perms) ∧
    t.token = "" ∧ id = env.fresh ∧ "token" ∈ c.perms ∧
    issuedBy = (if c.username ≠ "" then some c.username else none)

theorem handleMakeToken_mint (c : Conn) (env : Env) (g : String) (m : Msg) (hgr : c.group = some g)
    (t : TokReq) (id : String) (by_ : Option String) (he : Effect.mintToken t id by_ ∈ handleMakeToken c env g m) :
    Delegated c env t id by_ := by
  unfold handleMakeToken at he
  repeat' (first | split_ifs at he | split at he)
  all_goals mem_cases he
  all_goals simp_all [Delegated, tokErr, Option.isSome_iff_ne_none]

theorem handleEditToken_no_mint (c : Conn) (env : Env) (g : String) (m : Msg) (t : TokReq) (id : String)
    (by_ : Option String) : Effect.mintToken t id by_ ∉ handleEditToken c env g m := by
  intro he
  unfold handleEditToken at he
  repeat' (first | split_ifs at he | split at he)
  all_goals mem_cases he
  all_goals simp_all [tokErr]

/-- **C11_token_delegation.**  A token is minted only for a member holding
`token`; it is for the member's own group, has an expiry, delegates only
permissions the creator holds, its id is the server's (the client specified
none), and the issuer is the creator's user name.  (`parseStatefulToken` never
sets `IncludeSubgroups`, so the token has no subgroup scope.) -/
theorem C11_token_delegation (c : Conn) (env : Env) (m : Msg) (t : TokReq) (id : String) (by_ : Option String)
    (he : Effect.mintToken t id by_ ∈ handle c env m) : Delegated c env t id by_ := by
  obtain ⟨g, hgr, h⟩ := tok_groupaction c env m _ (tok_handle c env m _ he rfl) rfl
  rcases h with h | h | h
  · exact handleMakeToken_mint c env g m hgr t id by_ h
  · exact absurd h (handleEditToken_no_mint c env g m t id by_)
  · simp at h

/-- **C11_token_reach (listing).**  Token listing reaches only the member's own
group, and needs both `op` and `token`. -/
theorem C11_token_reach_list (c : Conn) (env : Env) (m : Msg) (g : String)
    (he : Effect.listTokens g ∈ handle c env m) : c.group = some g ∧ "op" ∈ c.perms ∧ "token" ∈ c.perms := by
  obtain ⟨g', hgr, h⟩ := tok_groupaction c env m _ (tok_handle c env m _ he rfl) rfl
  rcases h with h | h | h
  · exfalso
    unfold handleMakeToken at h
    repeat' (first | split_ifs at h | split at h)
    all_goals mem_cases h
    all_goals simp_all [tokErr]
  · exfalso
    unfold handleEditToken at h
    repeat' (first | split_ifs at h | split at h)
    all_goals mem_cases h
    all_goals simp_all [tokErr]
  · obtain ⟨h1, h2, h3⟩ := h
    simp at h1; subst h1
    exact ⟨hgr, h2, h3⟩

theorem handleEditToken_edit (c : Conn) (env : Env) (g : String) (m : Msg) (old : Token) (ex nb : Option TimeC)
    (he : Effect.editToken old ex nb ∈ handleEditToken c env g m) :
    "op" ∈ c.perms ∧ "token" ∈ c.perms ∧ (∃ id, env.tokenGet id = some old) ∧ (env.fix.p11 = true → old.group = g) := by
  unfold handleEditToken at he
  repeat' (first | split_ifs at he | split at he)
  all_goals mem_cases he
  all_goals (try (simp_all [tokErr]; done))
  all_goals simp_all [tokErr]
  all_goals exact ⟨_, by assumption⟩

/-- **C11_token_reach (editing).**  Token editing needs `op` and `token`, edits
a token that exists, and — *with the repair P11* — only a token of the member's
own group. -/
theorem C11_token_reach_edit (c : Conn) (env : Env) (m : Msg) (old : Token) (ex nb : Option TimeC)
    (he : Effect.editToken old ex nb ∈ handle c env m) :
    "op" ∈ c.perms ∧ "token" ∈ c.perms ∧ (∃ id, env.tokenGet id = some old) ∧
      (env.fix.p11 = true → c.group = some old.group) := by
  obtain ⟨g, hgr, h⟩ := tok_groupaction c env m _ (tok_handle c env m _ he rfl) rfl
  rcases h with h | h | h
  · exfalso
    unfold handleMakeToken at h
    repeat' (first | split_ifs at h | split at h)
    all_goals mem_cases h
    all_goals simp_all [tokErr]
  · obtain ⟨h1, h2, h3, h4⟩ := handleEditToken_edit c env g m old ex nb h
    exact ⟨h1, h2, h3, fun hf => by rw [h4 hf]; exact hgr⟩
  · simp at h

/-- **P11** (the code as pinned): an operator of `g1` edits a token of `g2`. -/
theorem C11_token_reach_edit_false :
    ∃ (c : Conn) (env : Env) (m : Msg) (old : Token) (ex nb : Option TimeC),
      env.fix.p11 = false ∧ Effect.editToken old ex nb ∈ handle c env m ∧ c.group ≠ some old.group := by
  refine ⟨{ id := "c0", username := "alice", group := some "g1", perms := ["op", "token"] },
    { tokens := [{ id := "tk1", group := "g2", expires := some .future }] },
    { type := "groupaction", kind := "edittoken", value := .map [("expires", .num (-3600000)), ("token", .str "tk1")] },
    { id := "tk1", group := "g2", expires := some .future }, some .past, none, by decide, ?_, by decide⟩
  have h : handle { id := "c0", username := "alice", group := some "g1", perms := ["op", "token"] }
      { tokens := [{ id := "tk1", group := "g2", expires := some .future }] }
      { type := "groupaction", kind := "edittoken",
        value := .map [("expires", .num (-3600000)), ("token", .str "tk1")] } =
      [Effect.editToken { id := "tk1", group := "g2", expires := some .future } (some .past) none] := by decide
  rw [h]; simp


/-! ### non-members -/

/-- what a connection that is in no group may still cause: replies to itself, a
closing error, a `join`, and closing its own streams (it has none) -/
def Effect.harmless : Effect → Bool
  | .reply _ => true
  | .fail _ => true
  | .join .. => true
  | .unpublish _ => true
  | _ => false

macro "harm" h:ident : tactic => `(tactic| (
  repeat' (first | split_ifs at $h:ident | split at $h:ident)
  all_goals mem_cases $h:ident
  all_goals (simp_all [Effect.harmless, errReply, tokErr, emptyId])))

theorem handleChat_none (c : Conn) (env : Env) (m : Msg) (hg : c.group = none) :
    handleChat c env m = [errReply c "join a group first"] := by
  unfold handleChat; rw [hg]

theorem handleGroupAction_none (c : Conn) (env : Env) (m : Msg) (hg : c.group = none) :
    handleGroupAction c env m = [errReply c "join a group first"] := by
  unfold handleGroupAction; rw [hg]

theorem handleUserAction_none (c : Conn) (env : Env) (m : Msg) (hg : c.group = none) :
    handleUserAction c env m = [errReply c "join a group first"] := by
  unfold handleUserAction; rw [hg]

/-- **C11_nonmember_refused.**  A connection that is in no group and holds no
permission is refused everything. -/
theorem C11_nonmember_refused (c : Conn) (env : Env) (m : Msg) (hg : c.group = none) (hp : c.perms = []) :
    ∀ e ∈ handle c env m, e.harmless = true := by
  refine handle_cases (fun e => e.harmless = true) c env m (by simp [Effect.harmless]) (by simp [Effect.harmless])
    ?_ ?_ ?_ ?_ ?_ ?_ ?_
  · intro e he; unfold handleJoin at he; harm he
  · intro e he; unfold handleRequest at he; harm he
  · intro _ _ _ e he; unfold handleOffer at he; harm he
  · intro e he; unfold handleMedia at he; harm he
  · intro _ _ _ e he; rw [handleChat_none c env m hg] at he; harm he
  · intro _ e he; rw [handleGroupAction_none c env m hg] at he; harm he
  · intro e he; rw [handleUserAction_none c env m hg] at he; harm he

/-- **C11_nonmember_refused, with the `offer` repair.**  A connection that is in
no group is refused everything *whatever permissions it (wrongly) holds*. -/
theorem C11_nonmember_refused_fixed (c : Conn) (env : Env) (m : Msg) (hg : c.group = none)
    (hfix : env.fix.offerNil = true) : ∀ e ∈ handle c env m, e.harmless = true := by
  refine handle_cases (fun e => e.harmless = true) c env m (by simp [Effect.harmless]) (by simp [Effect.harmless])
    ?_ ?_ ?_ ?_ ?_ ?_ ?_
  · intro e he; unfold handleJoin at he; harm he
  · intro e he; unfold handleRequest at he; harm he
  · intro _ _ _ e he; unfold handleOffer at he; harm he
  · intro e he; unfold handleMedia at he; harm he
  · intro _ _ _ e he; rw [handleChat_none c env m hg] at he; harm he
  · intro _ e he; rw [handleGroupAction_none c env m hg] at he; harm he
  · intro e he; rw [handleUserAction_none c env m hg] at he; harm he

/-! ### publishing -/

def Effect.isPub : Effect → Bool
  | .publish .. => true
  | _ => false

macro "nopub" h:ident : tactic => `(tactic| (
  repeat' (first | split_ifs at $h:ident | split at $h:ident)
  all_goals mem_cases $h:ident
  all_goals (simp_all [Effect.isPub, errReply, tokErr, emptyId])))

theorem no_pub_groupaction (c : Conn) (env : Env) (m : Msg) : ∀ e ∈ handleGroupAction c env m, e.isPub = false := by
  intro e he
  unfold handleGroupAction at he
  split at he
  · nopub he
  · rename_i g hgr
    simp only at he
    split_ifs at he
    all_goals first
      | (unfold handleMakeToken at he; nopub he; done)
      | (unfold handleEditToken at he; nopub he; done)
      | (nopub he; done)

/-- **C11_publish_guard.**  Publishing needs `present` and a stream id — and,
with the `offer` repair, membership. -/
theorem C11_publish_guard (c : Conn) (env : Env) (m : Msg) (id : String) (ok : Bool) (rep : String)
    (he : Effect.publish id ok rep ∈ handle c env m) :
    "present" ∈ c.perms ∧ id ≠ "" ∧ (env.fix.offerNil = true → c.group.isSome = true) := by
  have key : ∀ e ∈ handleOffer c env m, e = Effect.publish id ok rep →
      "present" ∈ c.perms ∧ id ≠ "" ∧ (env.fix.offerNil = true → c.group.isSome = true) := by
    intro e he h; subst h
    unfold handleOffer at he
    repeat' (first | split_ifs at he | split at he)
    all_goals mem_cases he
    all_goals simp_all [Option.isSome_iff_ne_none]
  refine handle_cases (fun e => e = Effect.publish id ok rep → _) c env m (by simp) (by simp)
    ?_ ?_ (fun _ _ _ => key) ?_ ?_ ?_ ?_ _ he rfl
  · intro e he h; subst h; unfold handleJoin at he; nopub he
  · intro e he h; subst h; unfold handleRequest at he; nopub he
  · intro e he h; subst h; unfold handleMedia at he; nopub he
  · intro _ _ _ e he h; subst h
    unfold handleChat at he
    split at he
    · nopub he
    · simp only at he; nopub he
  · intro _ e he h; subst h
    have := no_pub_groupaction c env m _ he
    simp [Effect.isPub] at this
  · intro e he h; subst h; unfold handleUserAction at he; split at he <;> nopub he

/-- **P10/P18 at the guard layer** (the code as pinned): a connection that is in
no group but was left with `present` reaches `publish`. -/
theorem C11_publish_nonmember :
    ∃ (c : Conn) (m : Msg), c.group = none ∧ Effect.publish "s1" true "" ∈ handle c {} m := by
  refine ⟨{ id := "c1", username := "bob", perms := ["present", "message"] },
    { type := "offer", id := "s1", sdpOk := true }, rfl, ?_⟩
  have h : handle { id := "c1", username := "bob", perms := ["present", "message"] } {}
      { type := "offer", id := "s1", sdpOk := true } = [Effect.publish "s1" true ""] := by decide
  rw [h]; simp


/-! ### the world: refused and redirected joins, shared permission lists

Concrete runs of the world model (`handleMsg`, `handleAction`), checked by the
kernel (`decide`): the defects as counterexamples to "a connection that is in no
group holds no permission" / "moderation of one client does not change another's
permissions", and the same runs with the repairs switched on. -/

def cfgG1 : GroupCfg :=
  { name := "g1", users := [{ name := "alice", pw := some "pw", perms := .role "op" },
                            { name := "bob", pw := some "pw", perms := .role "present" }] }

/-- group g1, locked by an operator; one connection that has not joined -/
def wLocked (fx : Fixes) : World :=
  { fix := fx, cfgs := [cfgG1], groups := [{ name := "g1", cfg := cfgG1, locked := some "closed" }],
    clients := [{ id := "c0" }] }

def joinAs (u : String) : Msg := { type := "join", kind := "join", group := "g1", username := some u, password := "pw" }

/-- **P10** (the code as pinned): bob's join to the locked group is answered
`fail`, and the connection keeps `present`, `message` with `c.group == nil`. -/
theorem C11_nonmember_false_refused :
    let w' := handleMsg (wLocked {}) 0 (joinAs "bob")
    ((w'.client? 0).bind (·.group)) = none ∧ w'.permsOf 0 = ["present", "message"] ∧
      ((w'.client? 0).map (·.username)) = some "bob" := by decide

/-- the same run with the repair P10: nothing is installed -/
theorem C11_refused_join_fixed :
    let w' := handleMsg (wLocked { p10 := true }) 0 (joinAs "bob")
    ((w'.client? 0).bind (·.group)) = none ∧ w'.permsOf 0 = [] ∧ ((w'.client? 0).map (·.username)) = some "" := by
  decide

def cfgRedirect : GroupCfg := { cfgG1 with redirect := "https://example.org/group/g9/" }

def wRedirect (fx : Fixes) : World := { fix := fx, cfgs := [cfgRedirect], clients := [{ id := "c0" }] }

/-- **P18** (the code as pinned): alice's join is answered `redirect`; the
connection holds the operator's permissions with `c.group == nil`, and it *is* in
the group's member list (for ever: leaveGroup returns at once). -/
theorem C11_nonmember_false_redirect :
    let w' := handleMsg (wRedirect {}) 0 (joinAs "alice")
    ((w'.client? 0).bind (·.group)) = none ∧ "op" ∈ w'.permsOf 0 ∧
      ((w'.group? "g1").map (·.members)) = some [Ref.web 0] := by decide

/-- the same run with the repair P18: no permissions, not a member -/
theorem C11_redirect_join_fixed :
    let w' := handleMsg (wRedirect { p18 := true }) 0 (joinAs "alice")
    ((w'.client? 0).bind (·.group)) = none ∧ w'.permsOf 0 = [] ∧ ((w'.group? "g1").map (·.members)) = some [] := by
  decide

/-- a token for g1 with `present`, `message`; two connections -/
def wToken (fx : Fixes) : World :=
  { fix := fx, cfgs := [cfgG1], clients := [{ id := "c0" }, { id := "c1" }],
    heap := initHeap ++ [["present", "message"]],
    tokens := [{ id := "tk1", group := "g1", perms := ⟨initHeap.length, 2⟩, expires := some .future }] }

def joinTok (u : String) : Msg := { type := "join", kind := "join", group := "g1", username := some u, token := "tk1" }

/-- both join with the token; then client 0 handles `shutup` and `op` -/
def runToken (fx : Fixes) : World :=
  let w := handleMsg (wToken fx) 0 (joinTok "tim")
  let w := handleMsg w 1 (joinTok "tom")
  let w := (handleAction w 0 (.changePerm "shutup")).1
  (handleAction w 0 (.changePerm "op")).1

/-- **shared token permission list** (the code as pinned): after `shutup` and
`op` on client 0, client 1 — which nobody touched — is an operator. -/
theorem C11_shared_token_list_false :
    (runToken {}).permsOf 0 = ["present", "op"] ∧ (runToken {}).permsOf 1 = ["present", "op"] := by decide

/-- the same run with `Stateful.Check` returning a copy -/
theorem C11_shared_token_list_fixed :
    (runToken { tokClone := true }).permsOf 0 = ["present", "op"] ∧
      (runToken { tokClone := true }).permsOf 1 = ["present", "message"] := by decide

/-! ### revocation

`changePermissionsAction` edits the connection's list with `removeS` (`removeAllS` since the
repair `removeAll`, `removeFix`)/`addnewS`
(Model/SigValue.lean, the transcription of webclient.go's `remove`/`addnew` on
slices with shared backing arrays).  Lemmas/SigHeap.lean proves what the
connection itself sees afterwards, for every heap and every well-formed slice;
`handle` reads nothing but that list (`Conn.perms`), so the connection's next
message is judged by the new set (`C11_guard`). -/

/-- **C11_revocation (removal, one step of `remove`; the whole edit before the repair `removeAll`).**
After `unop`/`unpresent`/`shutup` the connection's list is the old one without the first occurrence
of the permission. -/
theorem C11_revocation_remove (h : Heap) (s : Slice) (v : String) (hw : h.WF s) :
    (removeS h s v).1.get (removeS h s v).2 = (h.get s).erase v := removeS_get h s v hw

/-- **C11_revocation (removal, repaired `remove`, 391656f).**  Since the repair `removeAll` the edit is
`removeAllS` (the old step iterated): afterwards the connection's list is the old one without **any**
occurrence of the permission. -/
theorem C11_revocation_remove_all (h : Heap) (s : Slice) (v : String) (hw : h.WF s) :
    (removeAllS h s v).1.get (removeAllS h s v).2 = (h.get s).filter (· ≠ v) ∧
      v ∉ (removeAllS h s v).1.get (removeAllS h s v).2 := by
  refine ⟨removeAllS_get h s v hw, ?_⟩
  rw [removeAllS_get h s v hw]
  intro hm
  simpa using (List.mem_filter.mp hm).2

/-- **C11_revocation (grant).**  After `op`/`present`/`unshutup` the list is the
old one with the permission appended unless present. -/
theorem C11_revocation_add (h : Heap) (s : Slice) (v : String) (hw : h.WF s) :
    (addnewS h s v).1.get (addnewS h s v).2 = addnewL v (h.get s) := addnewS_get h s v hw

/-- **C11_revocation (frame).**  A permission list in *another* backing array is
not changed by either edit.  (For a list in the *same* array this is false:
`addnewS_shared_example`, `C11_shared_token_list_false`.) -/
theorem C11_revocation_frame (h : Heap) (s s' : Slice) (v : String) (hne : s'.arr ≠ s.arr) (hin : s'.arr < h.length) :
    (removeS h s v).1.get s' = h.get s' ∧ (addnewS h s v).1.get s' = h.get s' ∧
      (removeAllS h s v).1.get s' = h.get s' :=
  ⟨removeS_frame h s s' v hne, addnewS_frame h s s' v hne hin, removeAllS_frame h s s' v hne⟩

/-- a member that handles the loss of `present` is sent `abort` for its stream
and every other member is told to close it (concrete run; the general statement
is checked on every run by the oracle's C11 revocation check) -/
theorem C11_revocation_closes_streams_example :
    let w0 : World := { cfgs := [cfgG1], clients := [{ id := "c0" }, { id := "c1" }] }
    let w := handleMsg (handleMsg w0 0 (joinAs "alice")) 1 (joinAs "bob")
    let w := { w.modClient 1 (fun c => { c with up := [("s1", "")] }) with log := [] }
    let w := (handleAction w 1 (.changePerm "unpresent")).1
    let w := (handleAction w 1 .permChanged).1
    (w.log.any fun x => match x with | .write 1 m => m.type = "abort" ∧ m.id = "s1" | _ => false) = true ∧
    (w.log.any fun x => match x with
      | .enq 0 (.pushConn "g1" "s1" false _) _ => true | _ => false) = true ∧
    ((w.client? 1).map (·.up)) = some [] := by decide

/-! ### non-vacuity -/

example : Allowed { id := "c0", group := some "g1", perms := ["op"] } { type := "useraction", kind := "op", dest := "c1" }
    (Effect.changePerm "c1" "op") := by simp [Allowed, Effect.required]

example : Effect.changePerm "c1" "op" ∈
    handle { id := "c0", group := some "g1", perms := ["op"] } { members := [("c1", .web)] }
      { type := "useraction", kind := "op", dest := "c1" } := by
  have h : handle { id := "c0", group := some "g1", perms := ["op"] } { members := [("c1", .web)] }
      { type := "useraction", kind := "op", dest := "c1" } = [Effect.changePerm "c1" "op"] := by decide
  rw [h]; simp

example : handle { id := "c0", group := some "g1", perms := ["message"] } { members := [("c1", .web)] }
    { type := "useraction", kind := "op", dest := "c1" } = [errReply { id := "c0" } "not authorised"] := by decide

end Galene.Sig
