import GaleneVerif.Model.PacketMap
/-
C01 — forwarded sequence numbers are gap-free, unique and ordered under drops.
Basic layer (proved here): the operations never panic (index invariant), a
drop is accepted only for the next in-order packet, the current offset is
minus the number of accepted drops (mod 2^16), and an in-order packet is
forwarded as `seqno + delta`, i.e. seqno minus the number of packets withheld
so far.  The deep layer (late and duplicate packets through the interval
table; Reverse) is in Props/C01Deep.lean and Props/C03.lean.
-/
namespace Galene.Props.C01
open Galene.PacketMap

/-- Index invariant: no Go index panic is possible.

Compared with the two-clause invariant suggested in the task
(`length ≤ maxEntries ∧ (entries ≠ [] → lastEntry < length)`) there is a third clause
`entries = [] → lastEntry = 0`: Go's `reset` zeroes `lastEntry` together with `entries`, and
`Drop` relies on it when it installs the first one-element table.  Without the clause the
invariant is not preserved by `dropOp` (`weakWF_not_preserved` below). -/
def WF (P : Params) (m : State) : Prop :=
  m.entries.length ≤ P.maxEntries ∧ (m.entries ≠ [] → m.lastEntry < m.entries.length)
    ∧ (m.entries = [] → m.lastEntry = 0)

theorem wf_init (P : Params) : WF P {} := by
  simp [WF]

/-- the two-clause invariant of the task statement -/
def weakWF (P : Params) (m : State) : Prop :=
  m.entries.length ≤ P.maxEntries ∧ (m.entries ≠ [] → m.lastEntry < m.entries.length)

/-- The two-clause invariant is too weak: a (Go-unreachable) state with a nil table but
`lastEntry = 5` satisfies it, one accepted `Drop` leads to a state violating it, and the
following `Map` panics with an index out of range. -/
theorem weakWF_not_preserved :
    weakWF {} { started := true, lastEntry := 5 } ∧
    ¬ weakWF {} (dropOp {} { started := true, lastEntry := 5 } 0 0).1 ∧
    mapOp {} (dropOp {} { started := true, lastEntry := 5 } 0 0).1 1 0 = none := by
  refine ⟨by simp [weakWF], ?_, by decide⟩
  intro h
  have := h.2 (by decide)
  revert this
  decide

theorem ne_nil_of_length_ne_zero {α} {l : List α} (h : ¬ l.length = 0) : l ≠ [] := by
  intro hc; rw [hc] at h; simp at h

theorem addMapping_wf (P : Params) (hP : 0 < P.maxEntries) (m : State) (s d pd : Nat) (h : WF P m) :
    ∃ m', addMapping P m s d pd = some m' ∧ WF P m' ∧ m'.delta = m.delta ∧ m'.pidDelta = m.pidDelta
      ∧ m'.next = m.next ∧ m'.nextPid = m.nextPid ∧ (m.entries ≠ [] → m'.entries ≠ []) := by
  unfold addMapping
  by_cases h0 : m.entries.length = 0
  · simp [h0]; exact h
  · have hne : m.entries ≠ [] := ne_nil_of_length_ne_zero h0
    have hl := h.2.1 hne
    simp only [h0, if_false]
    rw [List.getElem?_eq_getElem hl]
    simp only
    split
    · refine ⟨_, rfl, ?_, rfl, rfl, rfl, rfl, ?_⟩
      · refine ⟨?_, ?_, ?_⟩
        · simp only [List.length_set]; exact h.1
        · intro _; simp only [List.length_set]; exact hl
        · intro hc
          have := congrArg List.length hc
          simp only [List.length_set, List.length_nil] at this
          omega
      · intro _ hc
        have := congrArg List.length hc
        simp only [List.length_set, List.length_nil] at this
        omega
    · split
      · refine ⟨_, rfl, ?_, rfl, rfl, rfl, rfl, ?_⟩
        · refine ⟨?_, ?_, ?_⟩
          · simp only [List.length_append, List.length_singleton]; omega
          · intro _; simp only [List.length_append, List.length_singleton]; omega
          · intro hc; simp at hc
        · intro _; simp
      · have hfull : m.entries.length = P.maxEntries := by have := h.1; omega
        have hj : (m.lastEntry + 1) % P.maxEntries < m.entries.length := by
          rw [hfull]; exact Nat.mod_lt _ hP
        simp only [hj, if_true]
        refine ⟨_, rfl, ?_, rfl, rfl, rfl, rfl, ?_⟩
        · refine ⟨?_, ?_, ?_⟩
          · simp only [List.length_set]; exact h.1
          · intro _; simp only [List.length_set]; exact hj
          · intro hc
            have := congrArg List.length hc
            simp only [List.length_set, List.length_nil] at this
            omega
        · intro _ hc
          have := congrArg List.length hc
          simp only [List.length_set, List.length_nil] at this
          omega

theorem walk_no_panic (es : List Entry) (last : Nat) (cls : Entry → Cls) :
    ∀ (fuel i : Nat), i < es.length → ∃ r, walk es last cls fuel i = some r := by
  intro fuel
  induction fuel with
  | zero => intro i _; exact ⟨_, rfl⟩
  | succ n ih =>
    intro i hi
    unfold walk
    rw [List.getElem?_eq_getElem hi]
    simp only
    split
    · exact ⟨_, rfl⟩
    · exact ⟨_, rfl⟩
    · split <;> split
      · exact ⟨_, rfl⟩
      · apply ih; omega
      · exact ⟨_, rfl⟩
      · apply ih; omega

theorem direct_no_panic (P : Params) (m : State) (s : Nat) (h : WF P m) :
    ∃ r, direct m s = some r := by
  unfold direct
  split
  · exact ⟨_, rfl⟩
  · rename_i h0
    apply walk_no_panic
    exact h.2.1 (ne_nil_of_length_ne_zero h0)

/-- **`Map.Map` never panics** and preserves the index invariant. -/
theorem C01_map_total (P : Params) (hP : 0 < P.maxEntries) (m : State) (s pid : Nat) (h : WF P m) :
    ∃ m' r, mapOp P m s pid = some (m', r) ∧ WF P m' := by
  unfold mapOp
  split
  · refine ⟨_, _, rfl, ?_⟩
    split <;> exact h
  · split
    · split
      · exact ⟨_, _, rfl, wf_init P⟩
      · obtain ⟨m1, e1, hw, _⟩ := addMapping_wf P hP m s m.delta m.pidDelta h
        rw [e1]
        exact ⟨_, _, rfl, hw⟩
    · split
      · exact ⟨_, _, rfl, wf_init P⟩
      · obtain ⟨r, hr⟩ := direct_no_panic P m s h
        rw [hr]
        exact ⟨_, _, rfl, h⟩

/-- `Drop` preserves the index invariant. -/
theorem C01_drop_wf (P : Params) (hP : 0 < P.maxEntries) (m : State) (s pid : Nat) (h : WF P m) :
    WF P (dropOp P m s pid).1 := by
  unfold dropOp
  split
  · exact h
  · by_cases h0 : m.entries.length = 0
    · have hnil : m.entries = [] := List.eq_nil_of_length_eq_zero h0
      have hl := h.2.2 hnil
      simp only [WF, h0, if_true, List.length_singleton, hl]
      refine ⟨by omega, fun _ => by omega, fun hc => by simp at hc⟩
    · simp only [WF, h0, if_false]
      exact h

/-- **`Reverse` never panics.** -/
theorem C01_reverse_total (P : Params) (m : State) (n : Nat) (h : WF P m) :
    ∃ r, reverse m n = some r := by
  unfold reverse
  split
  · split <;> exact ⟨_, rfl⟩
  · rename_i h0
    apply walk_no_panic
    exact h.2.1 (ne_nil_of_length_ne_zero h0)

/-- **A drop is accepted only for the next in-order packet** (so an offset never
changes retroactively), and only once the stream has started. -/
theorem C01_drop_only_next (P : Params) (m : State) (s pid : Nat) :
    (dropOp P m s pid).2 = true ↔ (m.started = true ∧ s = m.next) := by
  unfold dropOp
  split
  · rename_i h
    simp only [Bool.not_eq_true', Bool.or_eq_true, decide_eq_true_eq] at h
    rcases h with h | h <;> simp [h]
  · rename_i h
    simp only [Bool.not_eq_true', Bool.or_eq_true, decide_eq_true_eq, not_or, Bool.not_eq_false,
      Decidable.not_not] at h
    simp [h.1, h.2]

/-- An accepted drop lowers the offset by exactly one and advances `next` by one. -/
theorem C01_drop_effect (P : Params) (m : State) (pid : Nat) (hs : m.started = true) :
    (dropOp P m m.next pid).1.delta = sub16 m.delta 1 ∧
    (dropOp P m m.next pid).1.next = add16 m.next 1 ∧
    (dropOp P m m.next pid).1.started = true := by
  simp [dropOp, hs]

/-- A refused drop leaves the state unchanged. -/
theorem C01_drop_refused_unchanged (P : Params) (m : State) (s pid : Nat)
    (h : m.started = false ∨ s ≠ m.next) :
    dropOp P m s pid = (m, false) := by
  unfold dropOp
  rcases h with h | h <;> simp [h]

/-- the first packet ever seen defines the origin: from the zero value `{}`, ANY first `Map s pid`
forwards `s` unchanged and leaves exactly the started state expecting `s + 1` -/
theorem C01_first_packet (P : Params) (s pid : Nat) :
    mapOp P {} s pid = some ({ started := true, next := add16 s 1, nextPid := pid }, (true, s, 0)) := by
  simp [mapOp]

theorem addMapping_started (P : Params) (m m' : State) (s d pd : Nat)
    (e : addMapping P m s d pd = some m') : m'.started = m.started := by
  unfold addMapping at e
  split at e
  · cases e; rfl
  · split at e
    · cases e
    · split at e
      · cases e; rfl
      · simp only at e
        split at e
        · cases e; rfl
        · split at e
          · cases e; rfl
          · cases e

/-- `started` is set by the first `Map` and never cleared by `Map` ... -/
theorem C01_started_map (P : Params) (m m' : State) (s pid : Nat) (r : Result)
    (hs : m.started = true) (e : mapOp P m s pid = some (m', r)) : m'.started = true := by
  unfold mapOp at e
  split at e
  · simp only [Option.some.injEq, Prod.mk.injEq] at e
    rw [← e.1]
    split
    · rfl
    · exact hs
  · split at e
    · split at e
      · simp only [Option.some.injEq, Prod.mk.injEq] at e
        rw [← e.1]; simpa [State.reset] using hs
      · split at e
        · cases e
        · rename_i m1 e1
          simp only [Option.some.injEq, Prod.mk.injEq] at e
          rw [← e.1]
          simp only
          rw [addMapping_started P m m1 s _ _ e1]; exact hs
    · split at e
      · simp only [Option.some.injEq, Prod.mk.injEq] at e
        rw [← e.1]; simpa [State.reset] using hs
      · split at e
        · cases e
        · simp only [Option.some.injEq, Prod.mk.injEq] at e
          rw [← e.1]; exact hs

/-- ... nor by `Drop` -/
theorem C01_started_drop (P : Params) (m : State) (s pid : Nat) :
    (dropOp P m s pid).1.started = m.started := by
  unfold dropOp
  split <;> rfl

/-- **An in-order packet inside the window is forwarded as `seqno + delta`**
(delta = minus the number of drops accepted since the last reset, see
`C01_delta_counts_drops`), with the current picture-id shift. -/
theorem C01_inorder_number (P : Params) (hP : 0 < P.maxEntries) (m : State) (s pid : Nat) (h : WF P m)
    (hne : ¬ (m.delta = 0 ∧ m.entries.length = 0))
    (hfw : PacketMap.compare m.next s ≤ 0) (hwin : sub16 s m.next ≤ P.W) :
    ∃ m', mapOp P m s pid = some (m', (true, add16 s m.delta, m.pidDelta)) ∧ m'.delta = m.delta
      ∧ m'.next = add16 s 1 := by
  unfold mapOp
  have h1 : (decide (m.delta = 0) && decide (m.entries.length = 0)) = false := by
    simp only [Bool.and_eq_false_iff, decide_eq_false_iff_not]
    by_cases hd : m.delta = 0
    · exact Or.inr (fun hc => hne ⟨hd, hc⟩)
    · exact Or.inl hd
  simp only [h1, Bool.false_eq_true, if_false, hfw, if_true]
  have h2 : ¬ sub16 s m.next > P.W := by omega
  simp only [h2, if_false]
  obtain ⟨m1, e1, _, hd, hp, _, _⟩ := addMapping_wf P hP m s m.delta m.pidDelta h
  rw [e1]
  simp only [hd, hp]
  exact ⟨_, rfl, rfl, rfl⟩

/-- In the identity region (no drop since the last reset) every packet is
forwarded under its own number. -/
theorem C01_identity_region (P : Params) (m : State) (s pid : Nat)
    (h : m.delta = 0 ∧ m.entries.length = 0) :
    ∃ m', mapOp P m s pid = some (m', (true, s, 0)) ∧ m'.delta = 0 ∧ m'.entries.length = 0 := by
  unfold mapOp
  simp only [h.1, h.2, decide_true, Bool.and_self, if_true]
  refine ⟨_, rfl, ?_⟩
  split <;> simp [h.1, h.2]

/-- ops on the 16-bit API -/
inductive Op where
  | map (s pid : Nat)
  | drop (s pid : Nat)

/-- one step; a panic (impossible by `C01_map_total`) leaves the state unchanged -/
def step (P : Params) (m : State) : Op → State
  | .map s pid => match mapOp P m s pid with | some (m', _) => m' | none => m
  | .drop s pid => (dropOp P m s pid).1

/-- did this step reset the map (jump beyond the window)? -/
def isReset (P : Params) (m : State) : Op → Bool
  | .map s _ =>
    !(m.delta = 0 && m.entries.length = 0) &&
    (if PacketMap.compare m.next s ≤ 0 then sub16 s m.next > P.W else sub16 m.next s > P.W)
  | .drop _ _ => false

/-- ghost: number of drops accepted since the last reset -/
def countDrops (P : Params) : State → Nat → List Op → Nat
  | _, n, [] => n
  | m, n, op :: ops =>
    let n' := if isReset P m op then 0 else
      match op with
      | .drop s pid => if (dropOp P m s pid).2 then n + 1 else n
      | .map _ _ => n
    countDrops P (step P m op) n' ops

def run (P : Params) : State → List Op → State
  | m, [] => m
  | m, op :: ops => run P (step P m op) ops

theorem sub16_one_count (n : Nat) :
    sub16 ((65536 - n % 65536) % 65536) 1 = (65536 - (n + 1) % 65536) % 65536 := by
  unfold sub16; omega

/-- every reachable state satisfies the index invariant -/
theorem C01_run_wf (P : Params) (hP : 0 < P.maxEntries) (ops : List Op) :
    ∀ (m : State), WF P m → WF P (run P m ops) := by
  induction ops with
  | nil => intro m h; exact h
  | cons op ops ih =>
    intro m h
    simp only [run]
    apply ih
    cases op with
    | drop s pid => exact C01_drop_wf P hP m s pid h
    | map s pid =>
      obtain ⟨m', r, e, hw'⟩ := C01_map_total P hP m s pid h
      simpa [step, e] using hw'

/-- effect of one `Map` on the offset: reset to 0 exactly when `isReset`, unchanged otherwise -/
theorem map_delta (P : Params) (hP : 0 < P.maxEntries) (m m' : State) (s pid : Nat) (r : Result)
    (hw : WF P m) (e : mapOp P m s pid = some (m', r)) :
    m'.delta = if isReset P m (.map s pid) then 0 else m.delta := by
  unfold mapOp at e
  simp only [isReset]
  split at e
  · rename_i h0
    simp only [h0, Bool.not_true, Bool.false_and, Bool.false_eq_true, if_false]
    simp only [Option.some.injEq, Prod.mk.injEq] at e
    rw [← e.1]
    split <;> rfl
  · rename_i h0
    simp only [h0, Bool.not_false, Bool.true_and]
    split at e
    · rename_i hc
      simp only [hc, if_true]
      split at e
      · rename_i hj
        simp only [hj, decide_true, if_true]
        simp only [Option.some.injEq, Prod.mk.injEq] at e
        rw [← e.1]; simp [State.reset]
      · rename_i hj
        simp only [hj, decide_false, Bool.false_eq_true, if_false]
        obtain ⟨m1, e1, _, hd1, _⟩ := addMapping_wf P hP m s m.delta m.pidDelta hw
        rw [e1] at e
        simp only [Option.some.injEq, Prod.mk.injEq] at e
        rw [← e.1]; exact hd1
    · rename_i hc
      simp only [hc, if_false]
      split at e
      · rename_i hj
        simp only [hj, decide_true, if_true]
        simp only [Option.some.injEq, Prod.mk.injEq] at e
        rw [← e.1]; simp [State.reset]
      · rename_i hj
        simp only [hj, decide_false, Bool.false_eq_true, if_false]
        split at e
        · cases e
        · simp only [Option.some.injEq, Prod.mk.injEq] at e
          rw [← e.1]

/-- **The offset is minus the number of accepted drops** since the last reset,
modulo 2^16, in every reachable state. -/
theorem C01_delta_counts_drops (P : Params) (hP : 0 < P.maxEntries) (ops : List Op) :
    ∀ (m : State) (n : Nat), WF P m → m.delta = (65536 - n % 65536) % 65536 →
      (run P m ops).delta = (65536 - (countDrops P m n ops) % 65536) % 65536 := by
  induction ops with
  | nil => intro m n _ h; simpa [run, countDrops] using h
  | cons op ops ih =>
    intro m n hw hd
    simp only [run, countDrops]
    cases op with
    | drop s pid =>
      apply ih
      · exact C01_drop_wf P hP m s pid hw
      · simp only [isReset, Bool.false_eq_true, if_false, step]
        unfold dropOp
        split
        · simpa using hd
        · simp only [if_true, hd]
          exact sub16_one_count n
    | map s pid =>
      obtain ⟨m', r, e, hw'⟩ := C01_map_total P hP m s pid hw
      have hstep : step P m (.map s pid) = m' := by simp [step, e]
      rw [hstep]
      apply ih _ _ hw'
      rw [map_delta P hP m m' s pid r hw e]
      split
      · rfl
      · exact hd

/-- from the initial state: offset = −(number of accepted drops since the last reset) -/
theorem C01_delta_counts_drops_init (P : Params) (hP : 0 < P.maxEntries) (ops : List Op) :
    (run P {} ops).delta = (65536 - (countDrops P {} 0 ops) % 65536) % 65536 :=
  C01_delta_counts_drops P hP ops {} 0 (wf_init P) (by decide)

/-- Non-vacuity: a concrete history (start 65534, wrap, two drops, a late packet). -/
def exOps : List Op :=
  [.map 65534 7, .map 65535 7, .drop 0 8, .drop 1 8, .map 2 9, .map 3 9, .map 65535 7]

example : (run {} {} exOps).delta = 65534 := by decide
example : countDrops {} {} 0 exOps = 2 := by decide
example : (mapOp {} (run {} {} (exOps.take 4)) 2 9).map (·.2) = some (true, 0, 1) := by decide
-- the late copy of 65535 (forwarded before the drops) keeps its number
example : (mapOp {} (run {} {} (exOps.take 6)) 65535 7).map (·.2) = some (true, 65535, 0) := by decide

end Galene.Props.C01
