import GaleneVerif.Model.PacketMap
import GaleneVerif.Lemmas.PMStep
import GaleneVerif.Props.C01
/-
C01, deep layer — the renumbering specification through the interval table.

For every history of `Map`/`Drop` calls (any start, 16-bit wraparound, loss, duplicates,
reordering, any pattern of drops) in which every mapped packet stays within the `W = 8192`
re-synchronisation window of the newest packet and no run of consecutive accepted drops is longer
than `R` (`R ≤ 8193` for the shipped constants, see `Side` and the note on `ShortDropRuns` below):

* a packet that `Map` forwards carries the number `out D u = (u − |{d ∈ D | d < u}|) mod 2^16`,
  where `u` is its unwrapped source number and `D` the set of packets withheld so far
  (`C01_forwarded_number`); the count is frozen once `u` is behind `next` (`C01_count_frozen`);
* a withheld packet is never forwarded later (`C01_withheld_never_forwarded`);
* a duplicate or late copy gets the same number (`C01_duplicate_same_number`);
* distinct forwarded packets get distinct numbers, in source order, with no gap
  (`C01_unique_ordered_gapfree`, `C01_order_preserved`, `C01_unique_ordered_gapfree_history`).

Set-up.  Operations carry the *unwrapped* sequence number (`UOp`); the model is fed `u % 65536`.
The ghost state (`GState`, in Lemmas/PMInv.lean) is `U` (unwrapped `next`), `D` (unwrapped
numbers whose `Drop` returned true, newest first) and `run` (accepted drops since the last
in-order `Map`).  `okOp` is the per-operation hypothesis, `okRun` the hypothesis on a history,
`Reach` the set of ghost states reachable from a start state by an `okRun` history.  The proof is
by an explicit representation invariant (`Inv`, Lemmas/PMInv.lean) preserved by every step
(`gstep_cases`, from Lemmas/PMStep.lean); the ring of intervals is read newest-first
(Lemmas/Ring.lean, Lemmas/Table.lean).

Deviations from the suggested set-up, and why:
* `ShortDropRuns` is `run ≤ R` with `maxCount + R + W ≤ 32769`, i.e. at most `R = 8193`
  consecutive accepted drops for the shipped constants, NOT "fewer than 16384".  The suggested
  bound is false, and 8193 is sharp: `C01_forwarded_number_false_for_R8194` is a proved
  counterexample with a run of 8194 drops.  With a run of `r ≥ W` drops the fresh interval starts
  at the packet itself, so an older interval of `maxCount` packets, the run, and a jump of up to
  `W` can put a late packet `maxCount + r + W − 1` behind that older interval's `first`; beyond
  2^15 the modular comparison in `direct` misorders them and the scan walks on into stale
  intervals one lap back.  (`Side` is stated for general constants.)
* a `drop u` whose 16-bit value equals `next` must be the real next packet (`u = U`); a `Drop`
  for any other 16-bit value is refused by the code and is unconstrained.
* start states are `{ started := true, next := U0 % 65536, nextPid := p }` with `U0 ≥ 65536`:
  the zero value after ANY first `Map` (`start_shape_first`), or a started map after a
  re-synchronisation (`start_shape_reset`).
-/
namespace Galene.Props.C01Deep
open Galene.PacketMap Galene.Lemmas.Mod16 Galene.Lemmas.Ring Galene.Lemmas.Count Galene.Lemmas.Table
open Galene.Lemmas.PMInv Galene.Lemmas.PMStep

/-- API calls with unwrapped sequence numbers -/
inductive UOp where
  | map (u pid : Nat)
  | drop (u pid : Nat)
  deriving DecidableEq

/-- one ghost-augmented step.  `D` grows exactly when `Drop` returns true. -/
def gstep (P : Params) (g : GState) : UOp → GState
  | .map u pid =>
    { g with m := (match mapOp P g.m (u % 65536) pid with | some (m', _) => m' | none => g.m),
             U := if g.U ≤ u then u + 1 else g.U,
             run := if g.U ≤ u then 0 else g.run }
  | .drop u pid =>
    if (dropOp P g.m (u % 65536) pid).2 then
      { m := (dropOp P g.m (u % 65536) pid).1, U := g.U + 1, D := u :: g.D, run := g.run + 1 }
    else { g with m := (dropOp P g.m (u % 65536) pid).1 }

/-- hypothesis on one call: a mapped packet is within the window `W` of the unwrapped next;
a drop that hits `next` modulo 2^16 is the real next packet and does not make the run of
consecutive accepted drops longer than `R`. -/
def okOp (P : Params) (R : Nat) (g : GState) : UOp → Prop
  | .map u _ => g.U ≤ u + P.W ∧ u ≤ g.U + P.W
  | .drop u _ => u % 65536 = g.U % 65536 → (u = g.U ∧ g.run < R)

instance okOpDec (P : Params) (R : Nat) (g : GState) (op : UOp) : Decidable (okOp P R g op) := by
  cases op <;> (unfold okOp; infer_instance)

def grun (P : Params) : GState → List UOp → GState
  | g, [] => g
  | g, op :: ops => grun P (gstep P g op) ops

/-- the hypothesis holds at every call of the history -/
def okRun (P : Params) (R : Nat) : GState → List UOp → Prop
  | _, [] => True
  | g, op :: ops => okOp P R g op ∧ okRun P R (gstep P g op) ops

instance okRunDec (P : Params) (R : Nat) : ∀ (g : GState) (ops : List UOp), Decidable (okRun P R g ops)
  | _, [] => isTrue trivial
  | g, op :: ops =>
    match okOpDec P R g op, okRunDec P R (gstep P g op) ops with
    | isTrue h1, isTrue h2 => isTrue ⟨h1, h2⟩
    | isFalse h1, _ => isFalse (fun h => h1 h.1)
    | _, isFalse h2 => isFalse (fun h => h2 h.2)

/-- ghost states reachable from a start state (fresh or just-reset map expecting `U0 ≥ 65536`)
by a history satisfying the hypotheses -/
def Reach (P : Params) (R : Nat) (g : GState) : Prop :=
  ∃ U0 p ops, 65536 ≤ U0 ∧ okRun P R (start U0 p) ops ∧ grun P (start U0 p) ops = g

theorem grun_append (P : Params) (g : GState) (ops1 ops2 : List UOp) :
    grun P g (ops1 ++ ops2) = grun P (grun P g ops1) ops2 := by
  induction ops1 generalizing g with
  | nil => rfl
  | cons op ops ih => exact ih _

theorem okRun_append (P : Params) (R : Nat) (g : GState) (ops1 ops2 : List UOp) :
    okRun P R g (ops1 ++ ops2) ↔ okRun P R g ops1 ∧ okRun P R (grun P g ops1) ops2 := by
  induction ops1 generalizing g with
  | nil => simp [okRun, grun]
  | cons op ops ih =>
    simp only [List.cons_append, okRun, grun, ih, and_assoc]

/-! ### start states -/

/-- **The zero value `{}` followed by ANY first `Map s pid`** forwards `s` unchanged and is then
exactly the start state expecting `s + 1` (the first packet of a stream defines the origin). -/
theorem start_shape_first (P : Params) (s pid : Nat) :
    mapOp P {} s pid = some ((start (65536 + add16 s 1) pid).m, (true, s, 0)) := by
  have : (65536 + add16 s 1) % 65536 = add16 s 1 := by unfold add16; omega
  rw [C01.C01_first_packet]
  simp only [start, this]

/-- the state after a re-synchronisation (`reset` followed by the packet `s`) of a started map
is a start state -/
theorem start_shape_reset (m : State) (hs : m.started = true) (s pid : Nat) :
    ({ m.reset with next := add16 s 1, nextPid := pid } : State) = (start (65536 + add16 s 1) pid).m := by
  have : (65536 + add16 s 1) % 65536 = add16 s 1 := by unfold add16; omega
  simp only [start, State.reset, this, hs]

/-! ### the invariant along histories -/

theorem gstep_drop_refused (P : Params) (g : GState) (u pid : Nat) (h : u % 65536 ≠ g.m.next) :
    gstep P g (.drop u pid) = g := by
  simp only [gstep, C01.C01_drop_refused_unchanged P g.m (u % 65536) pid (Or.inr h)]
  rfl

theorem gstep_drop_accepted (P : Params) (g : GState) (u pid : Nat) (hs : g.m.started = true)
    (h : u % 65536 = g.m.next) :
    gstep P g (.drop u pid) =
      { m := (dropOp P g.m (u % 65536) pid).1, U := g.U + 1, D := u :: g.D, run := g.run + 1 } := by
  have : (dropOp P g.m (u % 65536) pid).2 = true := (C01.C01_drop_only_next P g.m _ pid).mpr ⟨hs, h⟩
  simp only [gstep, this, if_true]

/-- every admissible step preserves the representation invariant (by cases on the call and on
the branch of `Map`: identity state / in order / late) -/
theorem gstep_cases (P : Params) (R : Nat) (hS : Side P R) (g : GState) (op : UOp)
    (h : Inv P R g) (hok : okOp P R g op) : Inv P R (gstep P g op) := by
  cases op with
  | drop u pid =>
    by_cases hacc : u % 65536 = g.U % 65536
    · obtain ⟨hu, hrun⟩ := hok hacc
      subst hu
      rw [gstep_drop_accepted P g g.U pid h.started (by rw [h.next])]
      exact inv_drop P R hS g pid h hrun
    · rw [gstep_drop_refused P g u pid (by rw [h.next]; exact hacc)]
      exact h
  | map u pid =>
    obtain ⟨hw1, hw2⟩ := hok
    by_cases hnil : g.m.entries = []
    · have e := map_ident P R hS g u pid h hnil hw1 hw2
      have := inv_map_ident P R g u pid h hnil
      simp only [gstep, e]
      exact this
    · by_cases hu : g.U ≤ u
      · obtain ⟨m', e, hinv, _⟩ := map_fwd P R hS g u pid h hnil hu hw2
        simp only [gstep, e, hu, if_true]
        exact hinv
      · have e := map_late P R hS g u pid h hnil (by omega) hw1
        simp only [gstep, e, hu, if_false]
        exact h

theorem inv_grun (P : Params) (R : Nat) (hS : Side P R) (ops : List UOp) :
    ∀ g, Inv P R g → okRun P R g ops → Inv P R (grun P g ops) := by
  induction ops with
  | nil => intro g h _; exact h
  | cons op ops ih =>
    intro g h hok
    exact ih _ (gstep_cases P R hS g op h hok.1) hok.2

/-- every reachable ghost state satisfies the representation invariant -/
theorem reach_inv (P : Params) (R : Nat) (hS : Side P R) (g : GState) (h : Reach P R g) : Inv P R g := by
  obtain ⟨U0, p, ops, hU, hok, rfl⟩ := h
  exact inv_grun P R hS ops _ (inv_start P R U0 p hU) hok

/-- start states are reachable (empty history) -/
theorem reach_start (P : Params) (R : Nat) (U0 p : Nat) (h : 65536 ≤ U0) : Reach P R (start U0 p) :=
  ⟨U0, p, [], h, trivial, rfl⟩

/-- the ghost state right after the very first `Map s pid` on the zero value `{}` is reachable -/
theorem reach_after_first (P : Params) (R : Nat) (s pid : Nat) :
    mapOp P {} s pid = some ((start (65536 + add16 s 1) pid).m, (true, s, 0)) ∧
    Reach P R (start (65536 + add16 s 1) pid) :=
  ⟨start_shape_first P s pid, reach_start P R _ pid (by omega)⟩

theorem reach_grun (P : Params) (R : Nat) (g : GState) (ops : List UOp) (h : Reach P R g)
    (hok : okRun P R g ops) : Reach P R (grun P g ops) := by
  obtain ⟨U0, p, ops0, hU, hok0, rfl⟩ := h
  exact ⟨U0, p, ops0 ++ ops, hU, (okRun_append P R _ _ _).mpr ⟨hok0, hok⟩, grun_append P _ _ _⟩

theorem reach_gstep (P : Params) (R : Nat) (g : GState) (op : UOp) (h : Reach P R g)
    (hok : okOp P R g op) : Reach P R (gstep P g op) :=
  reach_grun P R g [op] h ⟨hok, trivial⟩

/-- `Map` never panics in a reachable state (so `gstep`'s fallback for `none` is never used) -/
theorem C01_deep_map_total (P : Params) (R : Nat) (hS : Side P R) (g : GState) (h : Reach P R g)
    (s pid : Nat) : ∃ m' r, mapOp P g.m s pid = some (m', r) := by
  have hi := reach_inv P R hS g h
  obtain ⟨m', r, e, _⟩ := C01.C01_map_total P hS.hE g.m s pid ⟨hi.swf.len, hi.swf.idx, hi.swf.nil⟩
  exact ⟨m', r, e⟩

/-! ### 1. the forwarded number -/

/-- **C01, main theorem.**  In every reachable state, if `Map` forwards the in-window packet
with unwrapped number `u` (returns `(true, n, _)`), then `u` has not been withheld and
`n = (u − number of withheld packets below u) mod 2^16`. -/
theorem C01_forwarded_number (P : Params) (R : Nat) (hS : Side P R) (g : GState) (h : Reach P R g)
    (u pid : Nat) (hok : okOp P R g (.map u pid)) (m' : State) (n pd : Nat)
    (hmap : mapOp P g.m (u % 65536) pid = some (m', (true, n, pd))) :
    u ∉ g.D ∧ n = out g.D u := by
  have hi := reach_inv P R hS g h
  obtain ⟨hw1, hw2⟩ := hok
  have hB := hS.hB
  have hW := hS.hWC
  by_cases hnil : g.m.entries = []
  · rw [map_ident P R hS g u pid hi hnil hw1 hw2] at hmap
    simp only [Option.some.injEq, Prod.mk.injEq, true_and] at hmap
    rw [(hi.ident hnil).1]
    exact ⟨by simp, by rw [← hmap.2.1]; simp [out, cnt]⟩
  · by_cases hu : g.U ≤ u
    · obtain ⟨m1, e, _⟩ := map_fwd P R hS g u pid hi hnil hu hw2
      rw [e] at hmap
      simp only [Option.some.injEq, Prod.mk.injEq, true_and] at hmap
      refine ⟨fun hc => ?_, hmap.2.1.symm⟩
      have := hi.below u hc
      omega
    · rw [map_late P R hS g u pid hi hnil (by omega) hw1] at hmap
      simp only [Option.some.injEq, Prod.mk.injEq] at hmap
      exact walkL_direct_sound P hS.hC g.D hi.desc u (tbl g.m) g.U (hi.chainU hS hnil)
        (by omega) (by omega) n pd hmap.2

/-- `C01_forwarded_number` spelled out over histories: for every start `U0 ≥ 65536`, every
history `ops` and final call `Map u`, all satisfying the hypotheses. -/
theorem C01_forwarded_number_history (P : Params) (R : Nat) (hS : Side P R) (U0 p : Nat)
    (hU0 : 65536 ≤ U0) (ops : List UOp) (u pid : Nat)
    (hok : okRun P R (start U0 p) (ops ++ [.map u pid])) (m' : State) (n pd : Nat)
    (hmap : mapOp P (grun P (start U0 p) ops).m (u % 65536) pid = some (m', (true, n, pd))) :
    u ∉ (grun P (start U0 p) ops).D ∧ n = out (grun P (start U0 p) ops).D u := by
  rw [okRun_append] at hok
  exact C01_forwarded_number P R hS _ ⟨U0, p, ops, hU0, hok.1, rfl⟩ u pid hok.2.1 m' n pd hmap

/-- `C01_forwarded_number` for the shipped constants (`maxEntries = 128`, `W = 8192`,
`maxCount = 16384`) and histories with at most 8193 consecutive accepted drops. -/
theorem C01_forwarded_number_default (g : GState) (h : Reach {} 8193 g)
    (u pid : Nat) (hok : okOp {} 8193 g (.map u pid)) (m' : State) (n pd : Nat)
    (hmap : mapOp {} g.m (u % 65536) pid = some (m', (true, n, pd))) :
    u ∉ g.D ∧ n = out g.D u :=
  C01_forwarded_number {} 8193 side_default g h u pid hok m' n pd hmap

/-! ### frozen counts -/

/-- along a history, `U` never decreases and `D` only gains elements at or above the old `U` -/
theorem D_grows (P : Params) (R : Nat) (hS : Side P R) (ops : List UOp) :
    ∀ g, Inv P R g → okRun P R g ops →
      ∃ new, (grun P g ops).D = new ++ g.D ∧ (∀ d ∈ new, g.U ≤ d) ∧ g.U ≤ (grun P g ops).U := by
  induction ops with
  | nil => intro g _ _; exact ⟨[], rfl, by simp, Nat.le_refl _⟩
  | cons op ops ih =>
    intro g h hok
    have hinv' := gstep_cases P R hS g op h hok.1
    obtain ⟨new, e1, e2, e3⟩ := ih _ hinv' hok.2
    simp only [grun]
    cases op with
    | map u pid =>
      have hD : (gstep P g (.map u pid)).D = g.D := rfl
      have hU : g.U ≤ (gstep P g (.map u pid)).U := by
        simp only [gstep]; split <;> omega
      refine ⟨new, by rw [e1, hD], fun d hd => by have := e2 d hd; omega, by omega⟩
    | drop u pid =>
      by_cases hacc : u % 65536 = g.U % 65536
      · obtain ⟨hu, _⟩ := hok.1 hacc
        subst hu
        have hg := gstep_drop_accepted P g g.U pid h.started (by rw [h.next])
        rw [hg] at e1 e2 e3 ⊢
        refine ⟨new ++ [g.U], by rw [e1]; simp, ?_, by simp only at e3; omega⟩
        intro d hd
        rcases List.mem_append.mp hd with hd | hd
        · have := e2 d hd; simp only at this; omega
        · simp only [List.mem_singleton] at hd; omega
      · have hg := gstep_drop_refused P g u pid (by rw [h.next]; exact hacc)
        rw [hg] at e1 e2 e3 ⊢
        exact ⟨new, e1, e2, e3⟩

/-- **The count of earlier withheld packets is frozen** once `u` is behind `next`: later
history cannot change `{d ∈ D | d < u}` (a drop is only ever accepted at the current `next`). -/
theorem C01_count_frozen (P : Params) (R : Nat) (hS : Side P R) (g : GState) (h : Reach P R g)
    (ops : List UOp) (hok : okRun P R g ops) (u : Nat) (hu : u < g.U) :
    (grun P g ops).D.filter (· < u) = g.D.filter (· < u) ∧
    (u ∈ (grun P g ops).D ↔ u ∈ g.D) ∧ out (grun P g ops).D u = out g.D u := by
  obtain ⟨new, e1, e2, _⟩ := D_grows P R hS ops g (reach_inv P R hS g h) hok
  have hf : (grun P g ops).D.filter (· < u) = g.D.filter (· < u) := by
    rw [e1, List.filter_append]
    have : new.filter (· < u) = [] := by
      rw [List.filter_eq_nil_iff]
      intro d hd
      have := e2 d hd
      simp only [decide_eq_true_eq]; omega
    rw [this, List.nil_append]
  refine ⟨hf, ?_, ?_⟩
  · rw [e1, List.mem_append]
    constructor
    · rintro (hc | hc)
      · have := e2 u hc; omega
      · exact hc
    · exact Or.inr
  · unfold out cnt; rw [hf]

/-- after `Map u` (any outcome) the packet `u` is behind `next` -/
theorem map_behind (P : Params) (g : GState) (u pid : Nat) : u < (gstep P g (.map u pid)).U := by
  simp only [gstep]; split <;> omega

/-! ### 2. withheld packets are never forwarded -/

/-- **A packet the server has withheld is never forwarded later**, under any number: once
`u ∈ D`, every later in-window `Map u` returns `false`. -/
theorem C01_withheld_never_forwarded (P : Params) (R : Nat) (hS : Side P R) (g : GState)
    (h : Reach P R g) (u : Nat) (hu : u ∈ g.D) (ops : List UOp) (hok : okRun P R g ops)
    (pid : Nat) (hokm : okOp P R (grun P g ops) (.map u pid)) (m' : State) (ok : Bool) (n pd : Nat)
    (hmap : mapOp P (grun P g ops).m (u % 65536) pid = some (m', (ok, n, pd))) : ok = false := by
  cases ok with
  | false => rfl
  | true =>
    exfalso
    have h' := reach_grun P R g ops h hok
    obtain ⟨hnot, _⟩ := C01_forwarded_number P R hS _ h' u pid hokm m' n pd hmap
    obtain ⟨new, e1, _, _⟩ := D_grows P R hS ops g (reach_inv P R hS g h) hok
    exact hnot (by rw [e1]; exact List.mem_append_right _ hu)

/-! ### 3. duplicates -/

/-- **A duplicate or late copy of a forwarded packet gets the same number as the first copy.** -/
theorem C01_duplicate_same_number (P : Params) (R : Nat) (hS : Side P R) (g : GState)
    (h : Reach P R g) (u pid1 : Nat) (hok1 : okOp P R g (.map u pid1)) (m1 : State) (n1 pd1 : Nat)
    (hmap1 : mapOp P g.m (u % 65536) pid1 = some (m1, (true, n1, pd1)))
    (ops : List UOp) (hok : okRun P R (gstep P g (.map u pid1)) ops)
    (pid2 : Nat) (hok2 : okOp P R (grun P (gstep P g (.map u pid1)) ops) (.map u pid2))
    (m2 : State) (n2 pd2 : Nat)
    (hmap2 : mapOp P (grun P (gstep P g (.map u pid1)) ops).m (u % 65536) pid2 = some (m2, (true, n2, pd2))) :
    n1 = n2 := by
  have hg1 := reach_gstep P R g (.map u pid1) h hok1
  have hg2 := reach_grun P R _ ops hg1 hok
  obtain ⟨_, e1⟩ := C01_forwarded_number P R hS g h u pid1 hok1 m1 n1 pd1 hmap1
  obtain ⟨_, e2⟩ := C01_forwarded_number P R hS _ hg2 u pid2 hok2 m2 n2 pd2 hmap2
  obtain ⟨_, _, hfro⟩ := C01_count_frozen P R hS _ hg1 ops hok u (map_behind P g u pid1)
  rw [e1, e2, hfro]
  rfl

/-! ### 4. uniqueness, order, no gaps -/

/-- number of withheld packets strictly between `u` and `u'` -/
def between (D : List Nat) (u u' : Nat) : Nat := (D.filter (fun d => u < d ∧ d < u')).length

theorem between_eq_cntIn (D : List Nat) (u u' : Nat) : between D u u' = cntIn D (u + 1) u' := by
  unfold between cntIn
  congr 1

/-- **Unique, ordered, gap-free** (pure statement about the specification `out`).  For two source
packets `u < u'` less than a lap apart, `u` not withheld, `D` duplicate-free (strictly
decreasing): the outgoing numbers differ, and the outgoing distance is the source distance
minus the number of withheld packets in between — so withheld packets leave no gap, and the
distance is between 1 and `u' − u`, i.e. source order is preserved. -/
theorem C01_unique_ordered_gapfree (D : List Nat) (hs : Desc D) (u u' : Nat) (hu : u ∉ D)
    (hlt : u < u') (hlap : u' - u < 65536) :
    (out D u' + 65536 - out D u) % 65536 = (u' - u) - between D u u' ∧
    1 ≤ (u' - u) - between D u u' ∧
    out D u ≠ out D u' := by
  have h1 := cnt_split D u u' (by omega)
  rw [cntIn_succ_of_not_mem D u u' hu, ← between_eq_cntIn] at h1
  have h2 : between D u u' ≤ u' - (u + 1) := by rw [between_eq_cntIn]; exact cntIn_le D (u + 1) u' hs
  have h3 := cnt_le D u hs
  have key : (out D u' + 65536 - out D u) % 65536 = (u' - u) - between D u u' := by
    unfold out
    rw [h1]
    omega
  refine ⟨key, by omega, ?_⟩
  intro hc
  rw [hc] at key
  omega

/-- source order is visible to the receiver's modular comparison when the packets are less than
half a lap apart -/
theorem C01_order_preserved (D : List Nat) (hs : Desc D) (u u' : Nat) (hu : u ∉ D)
    (hlt : u < u') (hlap : u' - u < 32768) :
    PacketMap.compare (out D u) (out D u') = -1 := by
  obtain ⟨key, h1, hne⟩ := C01_unique_ordered_gapfree D hs u u' hu hlt (by omega)
  have ho1 : out D u < 65536 := Nat.mod_lt _ (by decide)
  have ho2 : out D u' < 65536 := Nat.mod_lt _ (by decide)
  unfold PacketMap.compare sub16
  simp only [hne, if_false]
  have : ¬ (out D u' + 65536 - out D u % 65536) % 65536 ≥ 32768 := by
    rw [Nat.mod_eq_of_lt ho1, key]; omega
  simp only [this, if_false]

/-- **Unique, ordered, gap-free, along a history.**  If `Map` forwards `u` as `n` and, after any
further history, forwards `u' > u` (less than a lap later) as `n'`, then `n ≠ n'` and
`n' − n ≡ (u' − u) − (number of packets withheld strictly between u and u')`, the latter counted
in the final `D`. -/
theorem C01_unique_ordered_gapfree_history (P : Params) (R : Nat) (hS : Side P R) (g : GState)
    (h : Reach P R g) (u pid1 : Nat) (hok1 : okOp P R g (.map u pid1)) (m1 : State) (n pd1 : Nat)
    (hmap1 : mapOp P g.m (u % 65536) pid1 = some (m1, (true, n, pd1)))
    (ops : List UOp) (hok : okRun P R (gstep P g (.map u pid1)) ops)
    (u' pid2 : Nat) (hok2 : okOp P R (grun P (gstep P g (.map u pid1)) ops) (.map u' pid2))
    (m2 : State) (n' pd2 : Nat)
    (hmap2 : mapOp P (grun P (gstep P g (.map u pid1)) ops).m (u' % 65536) pid2 = some (m2, (true, n', pd2)))
    (hlt : u < u') (hlap : u' - u < 65536) :
    n ≠ n' ∧
    (n' + 65536 - n) % 65536 = (u' - u) - between (grun P (gstep P g (.map u pid1)) ops).D u u' := by
  have hg1 := reach_gstep P R g (.map u pid1) h hok1
  have hg2 := reach_grun P R _ ops hg1 hok
  obtain ⟨hn1, e1⟩ := C01_forwarded_number P R hS g h u pid1 hok1 m1 n pd1 hmap1
  obtain ⟨_, e2⟩ := C01_forwarded_number P R hS _ hg2 u' pid2 hok2 m2 n' pd2 hmap2
  obtain ⟨_, hmem, hfro⟩ := C01_count_frozen P R hS _ hg1 ops hok u (map_behind P g u pid1)
  have hD1 : (gstep P g (.map u pid1)).D = g.D := rfl
  rw [hD1] at hmem hfro
  have hdesc := (reach_inv P R hS _ hg2).desc
  obtain ⟨key, _, hne⟩ := C01_unique_ordered_gapfree _ hdesc u u' (fun hc => hn1 (hmem.mp hc)) hlt hlap
  rw [hfro] at key hne
  rw [e1, e2]
  exact ⟨hne, key⟩

/-! ### the bound on drop runs is sharp: a proved counterexample with a run of 8194 drops -/

/-- `k` consecutive drops of the packets `U, U+1, …` (picture id 0) -/
def dropRun (U k : Nat) : List UOp := (List.range' U k).map (fun u => UOp.drop u 0)

/-- closed form of the ghost state after `k` accepted drops -/
def dropN (g : GState) (k : Nat) : GState :=
  { m := { g.m with next := (g.U + k) % 65536, delta := (g.m.delta + 65535 * k) % 65536 },
    U := g.U + k, D := (List.range' g.U k).reverse ++ g.D, run := g.run + k }

/-- shape needed for the closed form: started, table non-empty, pids all 0 -/
structure RunShape (g : GState) : Prop where
  started : g.m.started = true
  next : g.m.next = g.U % 65536
  ne : g.m.entries ≠ []
  pid : g.m.nextPid = 0
  pd : g.m.pidDelta = 0
  dlt : g.m.delta < 65536

theorem gstep_drop_shape (P : Params) (g : GState) (h : RunShape g) :
    gstep P g (.drop g.U 0) = dropN g 1 ∧ RunShape (dropN g 1) := by
  obtain ⟨m, U, D, run⟩ := g
  obtain ⟨st, nx, np, dl, pd, le, es⟩ := m
  obtain ⟨h1, h2, h3, h4, h5, h6⟩ := h
  simp only at h1 h2 h3 h4 h5 h6
  subst h1 h2 h4 h5
  have h0 : ¬ es.length = 0 := length_ne_zero_of_ne_nil h3
  constructor
  · rw [gstep_drop_accepted P _ U 0 rfl rfl]
    have hacc := dropOp_accept P
      { started := true, next := U % 65536, nextPid := 0, delta := dl, pidDelta := 0, lastEntry := le, entries := es }
      0 rfl
    simp only at hacc
    rw [hacc]
    have e1 : add16 (U % 65536) 1 = (U + 1) % 65536 := by unfold add16; omega
    have e2 : sub16 dl 1 = (dl + 65535 * 1) % 65536 := by unfold sub16; omega
    have e3 : add16 0 (sub16 0 0) = 0 := by decide
    simp only [dropN, h0, if_false, List.range'_succ, List.range'_zero,
      List.reverse_cons, List.reverse_nil, List.nil_append, List.singleton_append, e1, e2, e3]
  · refine ⟨rfl, rfl, h3, rfl, rfl, ?_⟩
    simp only [dropN]; omega

theorem dropN_succ (g : GState) (k : Nat) : dropN (dropN g 1) k = dropN g (k + 1) := by
  simp only [dropN, List.range'_succ, List.range'_zero, List.reverse_cons, List.reverse_nil,
    List.nil_append, List.append_assoc, List.singleton_append]
  have e1 : (g.U + 1 + k) % 65536 = (g.U + (k + 1)) % 65536 := by congr 1; omega
  have e2 : ((g.m.delta + 65535 * 1) % 65536 + 65535 * k) % 65536 = (g.m.delta + 65535 * (k + 1)) % 65536 := by omega
  have e3 : g.U + 1 + k = g.U + (k + 1) := by omega
  have e4 : g.run + 1 + k = g.run + (k + 1) := by omega
  rw [e1, e2, e3, e4]

/-- `k` drops at the successive `next`s are all accepted; closed form of the result -/
theorem grun_dropRun (P : Params) (k : Nat) :
    ∀ g, RunShape g → grun P g (dropRun g.U k) = dropN g k := by
  induction k with
  | zero =>
    intro g h
    obtain ⟨m, U, D, run⟩ := g
    obtain ⟨st, nx, np, dl, pd, le, es⟩ := m
    have h2 := h.next
    have h6 := h.dlt
    simp only at h2 h6
    simp only [dropRun, List.range'_zero, List.map_nil, grun, dropN, Nat.add_zero, Nat.mul_zero,
      List.reverse_nil, List.nil_append, Nat.mod_eq_of_lt h6, ← h2]
  | succ k ih =>
    intro g h
    obtain ⟨e, hs⟩ := gstep_drop_shape P g h
    simp only [dropRun, List.range'_succ, List.map_cons, grun]
    rw [e]
    have := ih (dropN g 1) hs
    simp only [dropRun] at this
    have hU : (dropN g 1).U = g.U + 1 := rfl
    rw [hU] at this
    rw [this, dropN_succ g k]

/-- the drops of a `dropRun` satisfy the per-call hypothesis as long as the run stays below `R` -/
theorem okRun_dropRun (P : Params) (R : Nat) (k : Nat) :
    ∀ g, RunShape g → g.run + k ≤ R → okRun P R g (dropRun g.U k) := by
  induction k with
  | zero => intro g _ _; trivial
  | succ k ih =>
    intro g h hr
    obtain ⟨e, hs⟩ := gstep_drop_shape P g h
    simp only [dropRun, List.range'_succ, List.map_cons, okRun]
    refine ⟨fun _ => ⟨rfl, by omega⟩, ?_⟩
    rw [e]
    have := ih (dropN g 1) hs (by simp only [dropN]; omega)
    have hU : (dropN g 1).U = g.U + 1 := rfl
    rw [hU] at this
    simpa only [dropRun] using this

def cxU0 : Nat := 131072

/-- ten calls building three full intervals of `maxCount` packets after one withheld packet -/
def cxPre : List UOp :=
  [ .drop cxU0 0, .map (cxU0+1) 0, .map (cxU0+8193) 0, .map (cxU0+16384) 0,
    .map (cxU0+16385) 0, .map (cxU0+24577) 0, .map (cxU0+32768) 0,
    .map (cxU0+32769) 0, .map (cxU0+40961) 0, .map (cxU0+49152) 0 ]

/-- the state after `cxPre` -/
def cxG1 : GState :=
  { m := { started := true, next := 49153, nextPid := 0, delta := 65535, pidDelta := 0, lastEntry := 3,
           entries := [{ first := 57344, count := 8192, delta := 0, pidDelta := 0 },
                       { first := 1, count := 16384, delta := 65535, pidDelta := 0 },
                       { first := 16385, count := 16384, delta := 65535, pidDelta := 0 },
                       { first := 32769, count := 16384, delta := 65535, pidDelta := 0 }] },
    U := cxU0 + 49153, D := [cxU0], run := 0 }

/-- then 8194 consecutive drops, then one packet 8192 ahead -/
def cxOps : List UOp := cxPre ++ dropRun (cxU0 + 49153) 8194 ++ [.map (cxU0 + 65539) 0]

/-- the late packet: 2 behind `next`, never withheld -/
def cxV : Nat := cxU0 + 65538

theorem cx_pre : grun {} (start cxU0 0) cxPre = cxG1 := by decide +kernel

theorem cx_pre_ok : okRun {} 8194 (start cxU0 0) cxPre := by decide

theorem cx_shape : RunShape cxG1 := by
  constructor <;> decide

theorem cx_g2 : grun {} (start cxU0 0) (cxPre ++ dropRun (cxU0 + 49153) 8194) = dropN cxG1 8194 := by
  rw [grun_append, cx_pre]
  exact grun_dropRun {} 8194 cxG1 cx_shape

/-- the final state -/
def cxG3 : GState := grun {} (start cxU0 0) cxOps

theorem cx_g3 : cxG3 = gstep {} (dropN cxG1 8194) (.map (cxU0 + 65539) 0) := by
  unfold cxG3 cxOps
  rw [grun_append, cx_g2]
  rfl

theorem cx_g3_m : cxG3.m =
    { started := true, next := 4, nextPid := 0, delta := 57341, pidDelta := 0, lastEntry := 4,
      entries := [{ first := 57344, count := 8192, delta := 0, pidDelta := 0 },
                  { first := 1, count := 16384, delta := 65535, pidDelta := 0 },
                  { first := 16385, count := 16384, delta := 65535, pidDelta := 0 },
                  { first := 32769, count := 16384, delta := 65535, pidDelta := 0 },
                  { first := 3, count := 1, delta := 57341, pidDelta := 0 }] } := by
  rw [cx_g3]
  decide

theorem cx_g3_U : cxG3.U = cxU0 + 65540 := by
  rw [cx_g3]
  decide

theorem cx_g3_D : cxG3.D = (List.range' (cxU0 + 49153) 8194).reverse ++ [cxU0] := by
  rw [cx_g3]
  rfl

theorem cx_ok : okRun {} 8194 (start cxU0 0) cxOps := by
  unfold cxOps
  rw [okRun_append, okRun_append, cx_pre, cx_g2]
  refine ⟨⟨cx_pre_ok, okRun_dropRun {} 8194 8194 cxG1 cx_shape (by decide)⟩, ?_, trivial⟩
  decide

theorem mem_run (s k a d : Nat) (hd : d ∈ (List.range' s k).reverse ++ [a]) :
    (s ≤ d ∧ d < s + k) ∨ d = a := by
  simpa only [List.mem_append, List.mem_reverse, List.mem_range'_1, List.mem_singleton] using hd

theorem cx_all : ∀ d ∈ (List.range' (cxU0 + 49153) 8194).reverse ++ [cxU0], d < cxV := by
  intro d hd
  have := mem_run _ _ _ _ hd
  clear hd
  unfold cxV
  unfold cxU0 at *
  omega

theorem cnt_run (s k a x : Nat) (h : ∀ d ∈ (List.range' s k).reverse ++ [a], d < x) :
    cnt ((List.range' s k).reverse ++ [a]) x = k + 1 := by
  rw [cnt_all _ _ h]
  simp only [List.length_append, List.length_reverse, List.length_range', List.length_singleton]

theorem out_of_cnt (D : List Nat) (u c : Nat) (h : cnt D u = c) : out D u = (u - c) % 65536 := by
  unfold out; rw [h]

theorem cx_cnt : cnt cxG3.D cxV = 8194 + 1 :=
  cx_g3_D ▸ cnt_run _ _ _ _ cx_all

theorem cx_out : out cxG3.D cxV = 57343 :=
  (out_of_cnt _ _ _ cx_cnt).trans (by decide)

theorem okOp_map_iff (P : Params) (R : Nat) (g : GState) (u pid : Nat) :
    okOp P R g (.map u pid) ↔ g.U ≤ u + P.W ∧ u ≤ g.U + P.W := Iff.rfl

/-- allowing longer drop runs only weakens the hypothesis -/
theorem okRun_mono (P : Params) (R R' : Nat) (hR : R ≤ R') (ops : List UOp) :
    ∀ g, okRun P R g ops → okRun P R' g ops := by
  induction ops with
  | nil => intro g _; trivial
  | cons op ops ih =>
    intro g h
    refine ⟨?_, ih _ h.2⟩
    cases op with
    | map u pid => exact h.1
    | drop u pid => exact fun hc => ⟨(h.1 hc).1, by have := (h.1 hc).2; omega⟩

/-- **The bound on drop runs is tight: `C01_forwarded_number` is false for `R = 8194`** (and hence
for the value 16384 suggested in the task, `C01_forwarded_number_false_for_R16384`).  With the
shipped constants there is a history, from a start state, in which every mapped packet is
within the window and the longest run of accepted drops is 8194, after which `Map` forwards the
never-withheld, in-window late packet `cxV` under the number 1 instead of `out D cxV = 57343`.
(The newest interval older than `cxV` starts `16384 + 8194 + 8191 = 32769 > 2^15` behind it,
so `direct`'s modular comparison takes `cxV` to be *before* that interval, walks on, and one
lap further back hits the interval that contains `cxV − 65536`, whose offset it applies; 1 is
the number under which `cxV − 65536` was forwarded a lap earlier.)  `Side` requires `R ≤ 8193`. -/
theorem C01_forwarded_number_false_for_R8194 :
    okRun {} 8194 (start cxU0 0) cxOps ∧
    okOp {} 8194 cxG3 (.map cxV 0) ∧
    cxV ∉ cxG3.D ∧
    mapOp {} cxG3.m (cxV % 65536) 0 = some (cxG3.m, (true, 1, 0)) ∧
    out cxG3.D cxV = 57343 := by
  refine ⟨cx_ok, ?_, ?_, ?_, cx_out⟩
  · rw [okOp_map_iff, cx_g3_U]; decide
  · rw [cx_g3_D]
    intro hc
    exact Nat.lt_irrefl _ (cx_all _ hc)
  · rw [cx_g3_m]; decide

/-- the same history refutes the suggested hypothesis "fewer than 16384 consecutive drops":
a reachable state (for `R = 16384`), an admissible `Map` of a never-withheld packet, forwarded
under a number different from `out D u` -/
theorem C01_forwarded_number_false_for_R16384 :
    ∃ (g : GState) (u pid : Nat) (m' : State) (n pd : Nat),
      Reach {} 16384 g ∧ okOp {} 16384 g (.map u pid) ∧ u ∉ g.D ∧
      mapOp {} g.m (u % 65536) pid = some (m', (true, n, pd)) ∧ n ≠ out g.D u := by
  obtain ⟨h1, h2, h3, h4, h5⟩ := C01_forwarded_number_false_for_R8194
  refine ⟨cxG3, cxV, 0, cxG3.m, 1, 0, ⟨cxU0, 0, cxOps, by decide, okRun_mono {} 8194 16384 (by decide) _ _ h1, rfl⟩,
    h2, h3, h4, ?_⟩
  rw [h5]; decide

/-! ### non-vacuity -/

/-- A history meeting all hypotheses, with the shipped constants: start just below the 16-bit
wrap, a first drop run through 65535→0, in-order packets, a second drop run, a lost packet that
arrives late, a duplicate, and a late copy of a withheld packet. -/
def exOps : List UOp :=
  [ .map 131069 1, .map 131070 1,                  -- in order (16-bit 65533, 65534)
    .drop 131071 2, .drop 131072 2,                -- first run: 65535 and 0 withheld
    .map 131073 3, .map 131074 3,                  -- forwarded as 65535, 0
    .drop 131075 4,                                -- second run
    .map 131077 5,                                 -- 131076 is lost for now
    .map 131076 5,                                 -- ... and arrives late
    .map 131074 3,                                 -- duplicate
    .map 131072 2,                                 -- late copy of a withheld packet
    .drop 70000 9 ]                                -- a drop for some other number: refused

def exStart : GState := start 131069 0

example : Side {} 8193 := side_default
example : okRun {} 8193 exStart exOps := by decide
example : Reach {} 8193 (grun {} exStart exOps) := ⟨131069, 0, exOps, by decide, by decide, rfl⟩
example : (grun {} exStart exOps).D = [131075, 131072, 131071] := by decide
example : (grun {} exStart exOps).U = 131078 := by decide
-- the packets after the first run are forwarded with no gap: 65534, then 65535, 0
example : (mapOp {} (grun {} exStart (exOps.take 1)).m (131070 % 65536) 1).map (·.2.2.1) = some 65534 := by decide
example : (mapOp {} (grun {} exStart (exOps.take 4)).m (131073 % 65536) 3).map (·.2) = some (true, 65535, 1) := by decide
example : (mapOp {} (grun {} exStart (exOps.take 5)).m (131074 % 65536) 3).map (·.2) = some (true, 0, 1) := by decide
-- the late packet 131076 is forwarded, and gets out = (131076 - 3) mod 2^16 = 1 ...
example : (mapOp {} (grun {} exStart (exOps.take 8)).m (131076 % 65536) 5).map (·.2.1) = some true := by decide
example : out (grun {} exStart (exOps.take 8)).D 131076 = 1 := by decide
-- ... the duplicate of 131074 the same number 0 as before, and the withheld 131072 is refused
example : (mapOp {} (grun {} exStart (exOps.take 9)).m (131074 % 65536) 3).map (·.2) = some (true, 0, 1) := by decide
example : (mapOp {} (grun {} exStart (exOps.take 10)).m (131072 % 65536) 2).map (·.2.1) = some false := by decide
-- the specification on the final D: numbers of 131070, 131073, 131074, 131076, 131077
example : [131070, 131073, 131074, 131076, 131077].map (out (grun {} exStart exOps).D)
    = [65534, 65535, 0, 1, 2] := by decide

end Galene.Props.C01Deep
